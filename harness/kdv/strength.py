"""C15 — strength scaling and scheduled transforms: exact correspondence on dyadic rationals + independent oracles.

Oracles (all reproducible from a per-case seed, see C15.state_case / behaviour_case / sched_case):
  * state: parameter ranges after scale(1) / scale(0) / monotone / last-factor-only / member histories, on trees whose leaves include the
    package's inheriting subclasses and user subclasses (inheriting or overriding _scale_strength), alone and inside compositions;
  * behaviour: an object with a factor history vs a fresh object that got the last factor only vs members scaled directly -- compared by what
    they sample (magnitude samplers), record (ctx) and return under the same seeded rng; a second fresh copy is the control;
  * scheduled: wrapped object trees / lists / factory configs under simulated round-robin workers, per sample reported strength, parameter
    state and behaviour equal to the wrapped transform scaled to schedule(b);
  * scheduled end to end (pipeline_case): the scheduled transform inside a transform carrying dataset wrapper (XTransformWrapper with/without
    seed, KDMultiViewWrapper; alone / in (nested) compositions / as list), length changing wrappers below and above it, ModeWrapper on top,
    initialised through the datasets' worker_init_fn with epochs / updates / samples (+ world_size, drop_last), in process (also on pickled /
    deep-copied stacks and with a twin pipeline alive) and in real DataLoader workers: per sample reported strength == schedule(b of the
    enumerated number of batches of the run) and magnitude applied by a constant-magnitude noise == m * schedule(b)."""
import copy
import json
import pickle
import random
from fractions import Fraction as Fr

from .common import CorrResult, Disagreement, Failure, PropertyCheck


def fr(x):
    return Fr(x) if not isinstance(x, Fr) else x


def rat(x):
    f = fr(x)
    return [f.numerator, f.denominator]


def dy(rng, lo, hi, den=64):
    """dyadic rational in [lo, hi] as float (exact)"""
    a, b = int(lo * den), int(hi * den)
    return rng.randint(a, b) / den


# ----------------------------------------------------------------------------------------------
# real object -> model tree
# ----------------------------------------------------------------------------------------------
class Unmodelled(Exception):
    pass


def to_model(t):
    import kappadata.transforms as T
    from kappadata.transforms.base.kd_transform import KDTransform
    from kappadata.transforms.kd_random_rotation import KDRandomRotation
    if not isinstance(t, KDTransform):
        return {"k": "other"}
    if isinstance(t, T.KDColorJitter):
        def rg(name):
            if getattr(t, f"{name}_lb") is None:
                return None
            return [rat(getattr(t, f"og_{name}_lb")), rat(getattr(t, f"og_{name}_ub")), rat(getattr(t, f"{name}_lb")), rat(getattr(t, f"{name}_ub"))]
        return {"k": "jitter", "b": rg("brightness"), "c": rg("contrast"), "s": rg("saturation"), "h": rg("hue")}
    if isinstance(t, (T.KDGaussianBlurPIL, T.KDGaussianBlurTV)):
        return {"k": "blur", "v": [rat(t.sigma_lb), rat(t.og_sigma_ub), rat(t.sigma_ub)]}
    if isinstance(t, T.KDSolarize):
        if isinstance(t.og_threshold, int):
            return {"k": "solI", "og": t.og_threshold, "cur": int(t.threshold)}
        return {"k": "solF", "v": [rat(t.og_threshold), rat(t.threshold)]}
    if isinstance(t, T.KDRandomGrayscale):
        return {"k": "gray", "v": [rat(t.og_p), rat(t.p)]}
    if isinstance(t, KDRandomRotation):
        return {"k": "rot", "v": [rat(t.og_degree_lb), rat(t.og_degree_ub), rat(t.degree_lb), rat(t.degree_ub)]}
    if hasattr(t, "magnitude_sampler") and type(t)._scale_strength is not KDTransform._scale_strength:
        m = t.magnitude_sampler
        def z(v):
            return 0 if v == float("inf") or v != v else v
        return {"k": "mag", "v": [rat(m.og_magnitude), rat(z(m.og_magnitude_std)), rat(m.og_magnitude_min), rat(m.og_magnitude_max),
                                  rat(m.magnitude), rat(z(m.magnitude_std)), rat(m.magnitude_min), rat(m.magnitude_max)]}
    for attr in ("color_jitter", "gaussian_blur", "solarize", "threshold", "noise"):
        inner = vars(t).get(attr)
        if isinstance(inner, KDTransform) and type(t)._scale_strength is not KDTransform._scale_strength:
            return {"k": "wrap", "t": to_model(inner)}
    if isinstance(t, T.KDComposeTransform):
        return {"k": "compose", "ts": [to_model(c) for c in t.transforms]}
    if type(t).supports_scale_strength():
        raise Unmodelled(type(t).__name__)
    return {"k": "other"}


# ----------------------------------------------------------------------------------------------
# user subclasses: a class that INHERITS its _scale_strength (like KDRandAugmentCustom <- KDRandAugment or
# BYOLTransform <- KDComposeTransform in the package) or overrides it and delegates to the parent
# ----------------------------------------------------------------------------------------------
_USER_SUBCLASSES = {}


def user_subclass(cls, how):
    """how: None/False -> cls itself, "inherit" -> empty subclass, "override" -> subclass whose own _scale_strength delegates"""
    if not how:
        return cls
    from kappadata.transforms.base.kd_transform import KDTransform
    if how == "override" and cls._scale_strength is KDTransform._scale_strength:
        how = "inherit"         # a class without strength support stays one
    key = (cls, how)
    if key not in _USER_SUBCLASSES:
        name = ("Inheriting" if how == "inherit" else "Overriding") + cls.__name__
        body = {"__doc__": f"user subclass of {cls.__name__} ({how})", "__module__": __name__}
        if how == "override":
            def _scale_strength(self, factor, _parent=cls):
                return _parent._scale_strength(self, factor)
            body["_scale_strength"] = _scale_strength
        sub = type(name, (cls,), body)
        sub.__qualname__ = name
        globals()[name] = sub          # importable by name: instances can be pickled
        _USER_SUBCLASSES[key] = sub
    return _USER_SUBCLASSES[key]


# ----------------------------------------------------------------------------------------------
# recipes with dyadic parameters; every thunk takes `sub` (see user_subclass) for the class it instantiates
# ----------------------------------------------------------------------------------------------
# what a leaf accepts/produces when it is applied (only used to build trees that can be applied as a whole)
PIL_LEAVES = {"jitter", "jitter-partial", "blur-pil", "blur-tv", "solarize-int", "grayscale", "rotation", "randaug", "randaug-custom",
              "randaug-uniform", "rnd-jitter", "rnd-blur-pil", "rnd-blur-tv", "rnd-solarize", "crop(no-strength)", "byol"}
TENSOR_LEAVES = {"jitter", "jitter-partial", "blur-tv", "solarize-float", "grayscale", "rotation", "threshold", "gauss-noise",
                 "gauss-noise-uniform", "uniform-noise", "rnd-jitter", "rnd-blur-tv", "rnd-threshold", "rnd-noise", "crop(no-strength)"}


def leaf_recipes(rng, exact=True):
    """exact=True: only recipes whose parameters are dyadic (the float formulas of the real code are exact, needed for the comparison with
    the Lean model and for the state oracle); exact=False adds the package's fixed pipelines with non-dyadic parameters (only used by
    oracles that compare real objects with real objects)"""
    import kappadata.transforms as T
    from kappadata.transforms.kd_random_rotation import KDRandomRotation
    from kappadata.common.transforms import BYOLTransform, BYOLTransform0, BYOLTransform1
    from kappadata.common.transforms.mugs_transforms import MUGSStrongTransform, MUGSStrongLocalTransform
    R = []
    C = user_subclass

    def jitter(sub=None):
        t = C(T.KDColorJitter, sub)(brightness=0.4, contrast=0.4, saturation=0.2, hue=0.1)
        for name in ("brightness", "contrast", "saturation"):
            lb, ub = dy(rng, 0, 1), dy(rng, 1, 2)
            setattr(t, f"og_{name}_lb", lb); setattr(t, f"{name}_lb", lb)
            setattr(t, f"og_{name}_ub", ub); setattr(t, f"{name}_ub", ub)
        lb, ub = -dy(rng, 0, 0.5), dy(rng, 0, 0.5)
        t.og_hue_lb = t.hue_lb = lb
        t.og_hue_ub = t.hue_ub = ub
        return t

    def jitter_partial(sub=None):
        t = C(T.KDColorJitter, sub)(brightness=0.5, contrast=0, saturation=0, hue=0)
        lb, ub = dy(rng, 0, 1), dy(rng, 1, 2)
        t.og_brightness_lb = t.brightness_lb = lb
        t.og_brightness_ub = t.brightness_ub = ub
        return t

    def blur(cls, **kw):
        t = cls(sigma=(0.5, 2.0), **kw)
        lb = dy(rng, 0, 1)
        ub = lb + dy(rng, 0, 2)
        t.sigma_lb = lb
        t.og_sigma_ub = t.sigma_ub = ub
        return t

    def randaug(cls, **kw):
        return cls(num_ops=2, magnitude=rng.choice([2.5, 5, 7.5]), fill_color=[0, 0, 0], interpolation="bilinear",
                   magnitude_min=rng.choice([0., 1.25, 2.5]), **kw)

    R.append(("jitter", jitter))
    R.append(("jitter-partial", jitter_partial))
    R.append(("blur-pil", lambda sub=None: blur(C(T.KDGaussianBlurPIL, sub))))
    R.append(("blur-tv", lambda sub=None: blur(C(T.KDGaussianBlurTV, sub), kernel_size=3)))
    R.append(("solarize-int", lambda sub=None: C(T.KDSolarize, sub)(threshold=rng.randint(0, 256))))
    R.append(("solarize-float", lambda sub=None: C(T.KDSolarize, sub)(threshold=dy(rng, 0, 1))))
    R.append(("grayscale", lambda sub=None: C(T.KDRandomGrayscale, sub)(p=dy(rng, 0, 1))))
    R.append(("rotation", lambda sub=None: C(KDRandomRotation, sub)(degrees=rng.randint(0, 180))))
    R.append(("threshold", lambda sub=None: C(T.KDThreshold, sub)(threshold=dy(rng, 0.25, 0.75), threshold_std=dy(rng, 0, 0.25),
                                                                  threshold_min=0.0, threshold_max=1.0)))
    R.append(("gauss-noise", lambda sub=None: C(T.KDAdditiveGaussianNoise, sub)(
        std=0.5, magnitude=dy(rng, 0.5, 1), magnitude_std=dy(rng, 0.25, 0.5), magnitude_min=dy(rng, 0, 0.5), magnitude_max=1.0)))
    R.append(("gauss-noise-uniform", lambda sub=None: C(T.KDAdditiveGaussianNoise, sub)(
        std=0.5, magnitude=dy(rng, 0.5, 1), magnitude_min=dy(rng, 0, 0.5))))
    R.append(("uniform-noise", lambda sub=None: C(T.KDAdditiveUniformNoise, sub)(magnitude=dy(rng, 0.5, 1))))
    R.append(("randaug", lambda sub=None: C(T.KDRandAugment, sub)(num_ops=2, magnitude=5, fill_color=[0, 0, 0], interpolation="bilinear",
                                                                  magnitude_std=1.25)))
    R.append(("randaug-custom", lambda sub=None: randaug(C(T.KDRandAugmentCustom, sub), magnitude_std=rng.choice([0.625, 1.25, 2.5]))))
    R.append(("randaug-uniform", lambda sub=None: randaug(C(rng.choice([T.KDRandAugment, T.KDRandAugmentCustom]), sub),
                                                          magnitude_std=float("inf"))))
    R.append(("rnd-jitter", lambda sub=None: C(T.KDRandomColorJitter, sub)(p=0.8, brightness=0.5, contrast=0.25, saturation=0.5, hue=0.25)))
    R.append(("rnd-blur-pil", lambda sub=None: C(T.KDRandomGaussianBlurPIL, sub)(p=0.5, sigma=(0.5, 2.0))))
    R.append(("rnd-blur-tv", lambda sub=None: C(T.KDRandomGaussianBlurTV, sub)(p=0.5, kernel_size=3, sigma=(0.5, 2.0))))
    R.append(("rnd-solarize", lambda sub=None: C(T.KDRandomSolarize, sub)(p=0.5, threshold=rng.randint(0, 256))))
    R.append(("rnd-threshold", lambda sub=None: C(T.KDRandomThreshold, sub)(p=0.5, threshold=0.5, threshold_std=0.25)))
    R.append(("rnd-noise", lambda sub=None: C(T.KDRandomAdditiveGaussianNoise, sub)(p=0.5, std=0.5, magnitude=0.75, magnitude_std=0.25)))
    R.append(("crop(no-strength)", lambda sub=None: C(T.KDRandomCrop, sub)(size=8)))
    # the package's own pipeline class built on KDComposeTransform (inherits _scale_strength), dyadic parameters
    R.append(("byol", lambda sub=None: C(BYOLTransform, sub)(
        size=8, norm=None, flip_p=0.5, color_jitter_p=rng.choice([0.75, 1.0]), brightness=0.5, contrast=0.5, saturation=0.25, hue=0.125,
        gaussian_blur_p=rng.choice([0.5, 1.0]), sigma=(0.5, 2.0), grayscale_p=0.25, solarize_p=rng.choice([0.25, 1.0]),
        solarize_threshold=128)))
    if not exact:
        R.append(("byol0", lambda sub=None: C(BYOLTransform0, sub)(size=8)))
        R.append(("byol1", lambda sub=None: C(BYOLTransform1, sub)(size=8)))
        R.append(("mugs-strong", lambda sub=None: C(MUGSStrongTransform, sub)(size=8)))
        R.append(("mugs-strong-local", lambda sub=None: C(MUGSStrongLocalTransform, sub)(size=8)))
    return R


def gen_tree(rng, leaves, depth, subs=0.25):
    """random composition; a share `subs` of the leaves / of the compositions is an instance of a user subclass"""
    import kappadata.transforms as T
    if depth == 0 or rng.random() < 0.4:
        label, thunk = rng.choice(leaves)
        if rng.random() < subs:
            how = rng.choice(["inherit", "inherit", "override"])
            return f"{how}:{label}", thunk(sub=how)
        return label, thunk()
    kids = [gen_tree(rng, leaves, depth - 1, subs) for _ in range(rng.randint(1, 3))]
    if rng.random() < subs:
        how = rng.choice(["inherit", "inherit", "override"])
        return f"{how}:compose[" + ",".join(k[0] for k in kids) + "]", user_subclass(T.KDComposeTransform, how)([k[1] for k in kids])
    return "compose[" + ",".join(k[0] for k in kids) + "]", T.KDComposeTransform([k[1] for k in kids])


def _subnodes(t):
    """all transforms strictly below `t` (members of compositions, wrapped transforms), outermost first"""
    out = []
    kids = []
    for attr in ("transforms",):
        v = getattr(t, attr, None)
        if isinstance(v, (list, tuple)):
            kids += list(v)
    v = getattr(t, "transform", None)
    if v is not None and hasattr(v, "scale_strength"):
        kids.append(v)
    for k in kids:
        out.append(k)
        out += _subnodes(k)
    return out


def strip_og_cur(m):
    """(og-part, current-part) views of a model tree for the oracle"""
    return m


def current_state(m):
    """the sampled-range state (current fields only)"""
    k = m["k"]
    if k == "jitter":
        return ["jitter"] + [None if m[x] is None else m[x][2:] for x in "bcsh"]
    if k == "blur":
        return ["blur", m["v"][0], m["v"][2]]
    if k == "solF":
        return ["solF", m["v"][1]]
    if k == "solI":
        return ["solI", m["cur"]]
    if k == "gray":
        return ["gray", m["v"][1]]
    if k == "rot":
        return ["rot"] + m["v"][2:]
    if k == "mag":
        return ["mag"] + m["v"][4:]
    if k == "wrap":
        return ["wrap", current_state(m["t"])]
    if k == "compose":
        return ["compose"] + [current_state(t) for t in m["ts"]]
    return ["other"]


def weakest_state(m):
    """what the property promises for factor 0"""
    k = m["k"]
    one, zero = [1, 1], [0, 1]
    if k == "jitter":
        return ["jitter"] + [None if m[x] is None else ([one, one] if x != "h" else [zero, zero]) for x in "bcsh"]
    if k == "blur":
        return ["blur", m["v"][0], m["v"][0]]
    if k == "solF":
        return ["solF", one]
    if k == "solI":
        return ["solI", 256]
    if k == "gray":
        return ["gray", zero]
    if k == "rot":
        return ["rot", zero, zero]
    if k == "mag":
        return ["mag", zero, zero, zero, zero]
    if k == "wrap":
        return ["wrap", weakest_state(m["t"])]
    if k == "compose":
        return ["compose"] + [weakest_state(t) for t in m["ts"]]
    return ["other"]


def leq_state(a, b, c):
    """every scalar of state b lies between the corresponding scalars of a and c (monotone interpolation)"""
    if isinstance(b, list) and len(b) == 2 and all(isinstance(x, int) for x in b) and isinstance(a, list) and len(a) == 2:
        fa, fb, fc = Fr(*a), Fr(*b), Fr(*c)
        return min(fa, fc) <= fb <= max(fa, fc)
    if isinstance(b, int) and not isinstance(b, bool):
        return min(a, c) <= b <= max(a, c)
    if isinstance(b, list):
        return len(a) == len(b) == len(c) and all(leq_state(x, y, z) for x, y, z in zip(a, b, c))
    return a == b == c


# ----------------------------------------------------------------------------------------------
# observing what a transform DOES (sampled magnitudes, recorded ctx, outputs) -- used by the behaviour oracles
# ----------------------------------------------------------------------------------------------
_INPUTS = {}


def _input(kind):
    """a fixed small input: 'pil' (RGB image) or 'tensor' (float image in [0, 1])"""
    if not _INPUTS:
        import numpy as np
        import torch
        from PIL import Image
        g = np.random.default_rng(12345)
        _INPUTS["pil"] = Image.fromarray(g.integers(0, 255, size=(16, 16, 3), dtype=np.uint8), mode="RGB")
        _INPUTS["tensor"] = torch.from_numpy(g.random((3, 16, 16))).float()
    x = _INPUTS[kind]
    return x.copy() if kind == "pil" else x.clone()      # some transforms work in place


def _nodes(t, scalable_only=False):
    """t and every KDTransform reachable from it through attributes / lists (no attribute names involved);
    scalable_only: only transforms with strength support that are reached through transforms with strength support (the members of a
    composition in the sense of the property -- what sits below a wrapper without strength support is not promised to be scaled)"""
    from kappadata.transforms.base.kd_transform import KDTransform
    out, seen = [], set()

    def walk(v, depth):
        if id(v) in seen or depth > 8:
            return
        if isinstance(v, KDTransform):
            seen.add(id(v))
            if scalable_only and type(v)._scale_strength is KDTransform._scale_strength:
                return
            out.append(v)
            for w in list(vars(v).values()):
                walk(w, depth + 1)
        elif isinstance(v, (list, tuple)):
            seen.add(id(v))
            for w in v:
                walk(w, depth + 1)
    walk(t, 0)
    return out


def _same(a, b):
    """structural equality of observations (nan equals nan)"""
    try:
        import numpy as np
        import torch
        from PIL import Image
        if isinstance(a, Image.Image) or isinstance(b, Image.Image):
            return (isinstance(a, Image.Image) and isinstance(b, Image.Image) and a.mode == b.mode and a.size == b.size
                    and a.tobytes() == b.tobytes())
        if torch.is_tensor(a) or torch.is_tensor(b):
            if not (torch.is_tensor(a) and torch.is_tensor(b)) or a.shape != b.shape or a.dtype != b.dtype:
                return False
            return bool(((a == b) | ((a != a) & (b != b))).all())
        if isinstance(a, np.ndarray) or isinstance(b, np.ndarray):
            a, b = np.asarray(a), np.asarray(b)
            return a.shape == b.shape and bool(((a == b) | ((a != a) & (b != b))).all())
        if isinstance(a, dict) or isinstance(b, dict):
            return (isinstance(a, dict) and isinstance(b, dict) and list(sorted(map(str, a))) == list(sorted(map(str, b)))
                    and all(_same(a[k], b[k]) for k in a))
        if isinstance(a, (list, tuple)) or isinstance(b, (list, tuple)):
            return (isinstance(a, (list, tuple)) and isinstance(b, (list, tuple)) and len(a) == len(b)
                    and all(_same(x, y) for x, y in zip(a, b)))
        if isinstance(a, float) and isinstance(b, float) and a != a and b != b:
            return True
        return bool(a == b)
    except Exception:
        return a is b


def _brief(o, depth=0):
    """short JSON-able rendering of an observation for the replay file"""
    try:
        import hashlib
        import torch
        from PIL import Image
        if isinstance(o, Image.Image):
            return f"PIL{o.size}#{hashlib.sha1(o.tobytes()).hexdigest()[:8]}"
        if torch.is_tensor(o):
            return f"tensor{tuple(o.shape)}#{hashlib.sha1(o.detach().cpu().numpy().tobytes()).hexdigest()[:8]}"
        if isinstance(o, dict):
            return {str(k): _brief(v, depth + 1) for k, v in list(o.items())[:12]}
        if isinstance(o, (list, tuple)):
            return [_brief(v, depth + 1) for v in list(o)[:12]]
        if isinstance(o, (int, float, str, bool)) or o is None:
            return o
        return repr(o)[:60]
    except Exception:
        return "?"


def observe_calls(t, kind, seed, n=5):
    """apply `t` n times to the fixed input with a freshly seeded rng: per call ("ok", recorded ctx, output) or ("exc", type)"""
    import numpy as np
    import torch
    torch.manual_seed(seed % (2 ** 31))
    try:
        t.set_rng(np.random.default_rng(seed))
    except Exception as e:
        return [("exc-set_rng", type(e).__name__)]
    out = []
    for _ in range(n):
        ctx = {}
        try:
            y = t(_input(kind), ctx=ctx)
            out.append(("ok", ctx, y))
        except Exception as e:          # raised by the code under test: an outcome that is compared
            out.append(("exc", type(e).__name__))
    return out


def observe_samplers(t, seed, n=12):
    """draws of every magnitude sampler below `t` with a freshly seeded rng: list of (og_min, og_max, [draws]) in traversal order"""
    import numpy as np
    out = []
    for node in _nodes(t):
        ms = vars(node).get("magnitude_sampler")
        if ms is None or not callable(getattr(ms, "sample", None)):
            continue
        try:
            m = to_model(node)
            lo, hi = (Fr(*m["v"][2]), Fr(*m["v"][3])) if m.get("k") == "mag" else (None, None)
        except Exception:
            lo = hi = None
        g = np.random.default_rng(seed)
        try:
            draws = [float(ms.sample(g)) for _ in range(n)]
        except Exception as e:
            draws = ["exc:" + type(e).__name__]
        out.append((lo, hi, draws))
    return out


def n_ok(calls):
    return sum(1 for c in calls if c[0] == "ok")


def gen_history(rng):
    """factor history with many exact 0 / 1 entries (the boundaries are where hidden state gets created)"""
    def one():
        r = rng.random()
        if r < 0.3:
            return 0.0
        if r < 0.5:
            return 1.0
        return rng.randint(1, 31) / 32
    return [one() for _ in range(rng.randint(2, 5))]


def scale_members_directly(t, factor):
    """give `factor` to the tree AND to every member with strength support directly (independent of how compositions forward it)"""
    t.scale_strength(factor)
    for node in _nodes(t, scalable_only=True):
        node.scale_strength(factor)
    return t


def copy_used(t, how):
    """a copy of a USED object, the way a dataloader hands transforms to its workers"""
    if how == "pickle":
        try:
            return pickle.loads(pickle.dumps(t))
        except Exception:
            return copy.deepcopy(t)
    return copy.deepcopy(t)


# ----------------------------------------------------------------------------------------------
# end-to-end pipelines: dataset -> wrappers (one of them carries the scheduled transform) -> ModeWrapper [-> DataLoader]
# ----------------------------------------------------------------------------------------------
_ROOT_DATASET = []


def root_dataset(size):
    """a tiny KDDataset of constant tensors (class defined once, importable by name so that instances can be pickled)"""
    if not _ROOT_DATASET:
        import torch
        from kappadata.datasets import KDDataset

        class PipelineRootDataset(KDDataset):
            def __init__(self, size):
                super().__init__()
                self.size = size

            def getitem_x(self, idx, ctx=None):
                return torch.zeros(1, 2, 2)

            def __len__(self):
                return self.size
        PipelineRootDataset.__module__ = __name__
        PipelineRootDataset.__qualname__ = "PipelineRootDataset"
        globals()["PipelineRootDataset"] = PipelineRootDataset
        _ROOT_DATASET.append(PipelineRootDataset)
    return _ROOT_DATASET[0](size)


def length_changer(crng, ds):
    """(label, ds wrapped in one of the package's length changing / reordering dataset wrappers)"""
    import kappadata.wrappers as KW
    from kappadata.datasets import KDSubset
    n = len(ds)
    kind = crng.choice(["subset", "subset-range", "repeat", "percent", "shuffle", "kdsubset"])
    if kind == "subset":
        k = crng.randint(max(1, n // 3), n)
        return f"subset({k})", KW.SubsetWrapper(dataset=ds, indices=crng.sample(range(n), k))
    if kind == "subset-range":
        a = crng.randint(0, n // 3)
        b = crng.randint(a + max(1, n // 3), n)
        return f"subset[{a}:{b}]", KW.SubsetWrapper(dataset=ds, start_index=a, end_index=b)
    if kind == "repeat":
        r = crng.randint(2, 3)
        return f"repeat({r})", KW.RepeatWrapper(dataset=ds, repetitions=r)
    if kind == "percent":
        fp, tp = crng.choice([(None, 0.5), (0.25, None), (0.25, 0.75), (None, 0.75)])
        return f"percent({fp},{tp})", KW.PercentFilterWrapper(dataset=ds, from_percent=fp, to_percent=tp)
    if kind == "shuffle":
        sd = crng.randint(0, 99)
        return f"shuffle({sd})", KW.ShuffleWrapper(dataset=ds, seed=sd)
    k = crng.randint(max(1, n // 3), n)
    return f"kdsubset({k})", KDSubset(ds, crng.sample(range(n), k))


def _find_in_ctx(ctx, pred):
    """values recorded under keys satisfying `pred` in a (possibly nested, e.g. per view) ctx"""
    out = []
    if isinstance(ctx, dict):
        for k, v in ctx.items():
            if isinstance(v, dict):
                out += _find_in_ctx(v, pred)
            elif pred(k):
                out.append(v)
    return out


class C15(PropertyCheck):
    pid = "C15"
    claimed = True
    props_modules = ["KDVerif.Props.C15"]
    extra_build = ["KDVerif.Driver.Strength"]
    driver_main = "mains/Strength.lean"
    design_ref = "DESIGN.md 3 (C15)"
    anchored = ["kappadata/transforms/base/kd_transform.py", "kappadata/transforms/base/kd_scheduled_transform.py",
                "kappadata/transforms/base/kd_compose_transform.py", "kappadata/utils/magnitude_sampler.py",
                "kappadata/transforms/kd_color_jitter.py", "kappadata/transforms/kd_gaussian_blur_pil.py",
                "kappadata/transforms/kd_gaussian_blur_tv.py", "kappadata/transforms/kd_solarize.py",
                "kappadata/transforms/kd_random_grayscale.py", "kappadata/transforms/kd_random_rotation.py",
                "kappadata/transforms/kd_rand_augment.py"]
    assumptions = ["formulas are evaluated over exact rationals in the model; the correspondence uses dyadic parameters/factors so that the "
                   "float evaluation of the real code is exact",
                   "torchvision's parameter preprocessing yields 0 <= lb <= 1 <= ub (brightness/contrast/saturation), -0.5 <= hue_lb <= 0 <= hue_ub <= 0.5, "
                   "sigma_lb <= sigma_ub",
                   "the dataloader hands global batch b to worker b % num_workers in order, full batches only (property's stated domain)",
                   "the schedule object (kappaschedules) is a function of (batch index, number of batches)"]
    trusted_extra = ["modelled by hand: _scale_strength of KDColorJitter, KDGaussianBlurPIL/TV, KDSolarize, KDRandomGrayscale, KDRandomRotation, "
                     "MagnitudeSampler and the delegating wrappers / KDComposeTransform; KDScheduledTransform batch index arithmetic",
                     "not modelled: what the scaled transforms do to pixels; the schedule's values"]
    level_text = ("Lean theorems (KDVerif.Props.C15) for all parameter values: scale 1 = constructed ranges, scale 0 = weakest setting, both bounds monotone in the "
                  "factor and inside [identity, constructed], only the last factor counts through any nesting (scale_last_only over transform trees), and "
                  "scheduled_batch_index: worker b%W computes batch index b for every sample of global batch b, for all W, B. Exact correspondence with the real "
                  "_scale_strength on dyadic rationals over random trees and factor sequences; simulated workers for the scheduled transform. "
                  "Independent behaviour oracle on the real code: objects with factor histories (used / copied / pickled in between) against fresh objects "
                  "with the last factor only, compared by sampled magnitudes, recorded ctx and outputs; scheduled transform over arbitrary wrapped trees/configs.")
    level_note = "float rounding of the formulas for non-dyadic parameters is not covered by the theorems; partial final batches are outside the claim"

    # ---- scale correspondence + oracle -------------------------------------------------------
    def one_case(self, rng, leaves, depth):
        label, t = gen_tree(rng, leaves, depth)
        nf = rng.randint(1, 4)
        factors = [rng.choice([0, 1, rng.randint(0, 32) / 32]) for _ in range(nf)]
        return label, t, factors

    def correspond(self):
        res = CorrResult()
        res.rule = ("random transform trees (leaves = every class with strength support, dyadic parameters; composed up to depth 3) x factor sequences of length 1-4 "
                    "from {0, 1, k/32}: state after every factor compared exactly (rationals) with the Lean model; oracle: scale(1)=constructed, scale(0)=weakest, "
                    "monotone, last-factor-only; scheduled: simulated workers W in 1..5, B in 1..4; distinct = (tree shape, factors). Leaves include the package's "
                    "inheriting subclasses (KDRandAugmentCustom, BYOLTransform, MUGS*) and user subclasses (inheriting / overriding _scale_strength), also as "
                    "compositions. Behaviour oracle: object with a factor history (0/1-heavy; applied / deep-copied / pickled between factors; sibling instance "
                    "scaled in between; float or numpy factors) vs fresh object with the last factor only and vs members scaled directly: same seeded rng -> same "
                    "sampler draws, ctx, outputs; draws inside range*f, zero at 0, not collapsed. Scheduled-general: wrapped object trees / lists / factory configs, "
                    "several schedules, per sample state + ctx + output equal to the wrapped transform scaled to schedule(b). Scheduled-pipeline: the scheduled "
                    "transform inside dataset wrapper stacks (transform carrier + length changing wrappers below/above + ModeWrapper), initialised via the "
                    "datasets' worker_init_fn with epochs/updates/samples, in process (plain / pickled / deep-copied / twin pipeline) and in DataLoader "
                    "workers (1-3): reported and applied strength per sample == schedule(b of the enumerated batches of the run)")
        rng = self.rng
        leaves = leaf_recipes(rng)
        n = 250 if self.tier == "quick" else 4000
        reqs, metas = [], []
        for i in range(n):
            try:
                label, t, factors = self.one_case(rng, leaves, depth=0 if i < len(leaves) * 2 else rng.randint(1, 3))
                if i < len(leaves):
                    label, thunk = leaves[i % len(leaves)]
                    t = thunk()
                elif i < len(leaves) * 2:
                    # every class once as an inheriting user subclass inside a composition
                    import kappadata.transforms as T
                    label, thunk = leaves[i % len(leaves)]
                    label, t = f"compose[inherit:{label}]", T.KDComposeTransform([thunk(sub="inherit")])
                m0 = to_model(t)
            except Unmodelled as e:
                res.disagreements.append(Disagreement({"class": str(e)}, "no model", "supports_scale_strength", "class with strength support is not modelled"))
                continue
            reqs.append({"op": "st.scale", "t": m0, "factors": [rat(f) for f in factors]})
            metas.append((label, t, m0, factors))
        answers = self.driver.run(reqs)
        for (label, t, m0, factors), ans in zip(metas, answers):
            res.cases += 1
            res.bump("scale")
            res.bump(f"nfactors={len(factors)}")
            res.nontrivial.add((label, tuple(factors)))
            case = {"tree": label, "factors": [str(fr(f)) for f in factors], "model_in": m0}
            states = []
            asserted = False
            for f in factors:
                try:
                    t.scale_strength(f)
                    states.append(to_model(t))
                except AssertionError:
                    asserted = True
                    states.append("assert")
                    break
            model_states = ans if not isinstance(ans, dict) else [ans]
            if asserted:
                k = len(states) - 1
                if model_states[k] != "assert":
                    res.disagreements.append(Disagreement(case, model_states[k], "assert", "implementation asserts, model does not"))
                continue
            if states != model_states:
                k = next((i for i in range(len(states)) if states[i] != model_states[i]), 0)
                res.disagreements.append(Disagreement(dict(case, step=k), model_states[k], states[k], "state after scale_strength differs"))
            if len(res.samples) < 3 and m0["k"] == "compose":
                res.samples.append({"tree": label, "factors": [str(fr(f)) for f in factors], "state_after_last": states[-1]})
        # independent oracle on fresh instances (every case reproducible from its own seed)
        for i in range(n):
            case_seed = rng.getrandbits(31)
            try:
                f = self.state_case(case_seed, i if i < 3 * len(leaves) else None)
            except Unmodelled:
                continue
            res.cases += 1
            res.bump("oracle")
            if f is not None and not any(g.key == f.key for g in res.failures):
                res.failures.append(f)
        # behaviour-level oracle (sampled magnitudes, recorded ctx, outputs) over factor histories on the same object
        n_leaves = len(leaf_recipes(random.Random(0), exact=False))
        nb = 260 if self.tier == "quick" else 4000
        for i in range(nb):
            case_seed = rng.getrandbits(31)
            forced = i if i < 3 * n_leaves else None
            f = self.behaviour_case(case_seed, forced, res.bump)
            res.cases += 1
            res.bump("behaviour")
            res.nontrivial.add(("behaviour", case_seed, forced))
            if f is not None and not any(g.key == f.key for g in res.failures):
                res.failures.append(f)
        self.scheduled(res)
        for i in range(40 if self.tier == "quick" else 600):
            case_seed = rng.getrandbits(31)
            f = self.sched_case(case_seed, res.bump)
            res.cases += 1
            res.bump("scheduled-general")
            res.nontrivial.add(("sched-general", case_seed))
            if f is not None and not any(g.key == f.key for g in res.failures):
                res.failures.append(f)
        n_loader = 6 if self.tier == "quick" else 40
        for i in range(70 if self.tier == "quick" else 800):
            case_seed = rng.getrandbits(31)
            workers = (i % 3) + 1 if i < n_loader else 0
            f = self.pipeline_case(case_seed, workers, res.bump)
            res.cases += 1
            res.bump("scheduled-pipeline")
            res.nontrivial.add(("sched-pipeline", case_seed, workers))
            if f is not None and not any(g.key == f.key for g in res.failures):
                res.failures.append(f)
        return res

    def state_case(self, case_seed, leaf=None):
        """one case of the state oracle, reproducible from (case_seed, leaf): a single leaf / a leaf as inheriting subclass inside a
        composition / a random tree"""
        import kappadata.transforms as T
        crng = random.Random(f"state:{case_seed}")
        leaves = leaf_recipes(crng)
        if leaf is None:
            label, t = gen_tree(crng, leaves, crng.randint(1, 2))
        else:
            label, thunk = leaves[leaf % len(leaves)]
            if (leaf // len(leaves)) % 3 == 2:
                label, t = f"compose[inherit:{label}]", T.KDComposeTransform([thunk(sub="inherit")])
            else:
                t = thunk()
        f = self.oracle(label, t, crng)
        if f is not None:
            f.input = dict(f.input, oracle="state", case_seed=case_seed, leaf=leaf)
        return f

    def oracle(self, label, t, rng):
        t0 = copy.deepcopy(t)
        constructed = current_state(to_model(t0))
        weakest = weakest_state(to_model(t0))
        f1, f2 = sorted([rng.randint(0, 32) / 32, rng.randint(0, 32) / 32])
        inp = {"tree": label, "f1": str(fr(f1)), "f2": str(fr(f2))}
        try:
            a = copy.deepcopy(t0); a.scale_strength(f1); a.scale_strength(1.0)
            if current_state(to_model(a)) != constructed:
                return Failure(f"strength:{label.split('[')[0]}:scale-one", f"{label}: scale_strength(1) after scale_strength({f1}) does not restore the constructed ranges",
                               inp, constructed, current_state(to_model(a)))
            b = copy.deepcopy(t0); b.scale_strength(0.0)
            if current_state(to_model(b)) != weakest:
                return Failure(f"strength:{label.split('[')[0]}:scale-zero", f"{label}: scale_strength(0) does not collapse every range to its weakest setting",
                               inp, weakest, current_state(to_model(b)))
            c1 = copy.deepcopy(t0); c1.scale_strength(f1)
            c2 = copy.deepcopy(t0); c2.scale_strength(f2)
            s1, s2 = current_state(to_model(c1)), current_state(to_model(c2))
            if not (leq_state(weakest, s1, s2) and leq_state(s1, s2, constructed)):
                return Failure(f"strength:{label.split('[')[0]}:monotone", f"{label}: bounds do not move monotonically between weakest and constructed for factors {f1} <= {f2}",
                               inp, [weakest, constructed], [s1, s2])
            d = copy.deepcopy(t0); d.scale_strength(f1); d.scale_strength(f2)
            if current_state(to_model(d)) != s2:
                return Failure(f"strength:{label.split('[')[0]}:compounding", f"{label}: scale({f1}) then scale({f2}) differs from scale({f2}) alone (compounding)",
                               inp, s2, current_state(to_model(d)))
            # history over several objects: the whole tree is scaled to f1, then parts of it are given another factor directly,
            # then the whole tree is scaled to f1 again -- the last factor given to the tree counts for every member
            e = copy.deepcopy(t0); e.scale_strength(f1)
            parts = _subnodes(e)
            if parts:
                for sub in parts[::2] or parts:
                    if getattr(sub, "supports_scale_strength", True) and hasattr(sub, "scale_strength"):
                        try:
                            sub.scale_strength(f2)
                        except (AssertionError, NotImplementedError):
                            pass
                e.scale_strength(f1)
                if current_state(to_model(e)) != s1:
                    return Failure(f"strength:{label.split('[')[0]}:history", f"{label}: tree scaled to {f1}, some members scaled to {f2} directly, tree scaled to "
                                   f"{f1} again: the members do not follow the last factor given to the tree", inp, s1, current_state(to_model(e)))
        except AssertionError as e:
            return Failure(f"strength:{label.split('[')[0]}:assert", f"{label}: scale_strength raises AssertionError for a valid factor", inp, "no assertion", str(e))
        return None

    # ---- behaviour oracle: what the scaled transform samples / records / returns --------------------
    def behaviour_case(self, case_seed, forced=None, stats=None):
        """One case of the behaviour-level oracle, reproducible from (case_seed, forced).

        A transform tree goes through a factor history (optionally being applied / deep-copied / pickled between the factors, with a
        sibling instance of different configuration scaled in between); then it is compared with a FRESH copy of the same tree that only
        got the last factor: same seeded rng -> same draws of every magnitude sampler, same recorded ctx, same outputs ("the result
        depends only on the last factor given"). History ending in 1: same as the never-scaled tree ("scaling by 1 restores exactly...").
        Last factor 0: every magnitude drawn is 0; any last factor f: draws inside the constructed range times f and, for f > 0, not
        collapsed to a point when the constructed distribution is not a point. A second fresh copy is the control: cases in which two
        fresh copies do not agree with each other (randomness not controlled by set_rng) are not judged."""
        import numpy as np
        from kappadata.transforms import KDComposeTransform
        crng = random.Random(f"behaviour:{case_seed}")
        leaves = leaf_recipes(crng, exact=False)
        kind = crng.choice(["pil", "tensor"])
        if forced is not None:
            label, thunk = leaves[forced % len(leaves)]
            variant = (forced // len(leaves)) % 3
            if variant == 0:
                t0 = thunk()
            elif variant == 1:
                label, t0 = f"compose[inherit:{label}]", KDComposeTransform([thunk(sub="inherit")])
            else:
                label, t0 = f"compose[compose[{label}]]", KDComposeTransform([KDComposeTransform([thunk()])])
            kinds = ["pil", "tensor"]
        else:
            r = crng.random()
            if r < 0.85:
                allowed = PIL_LEAVES if kind == "pil" else TENSOR_LEAVES
                pool = [l for l in leaves if l[0] in allowed]
            else:
                pool = leaves
            label, t0 = gen_tree(crng, pool, crng.randint(0, 2))
            kinds = [kind, "tensor" if kind == "pil" else "pil"]
        history = gen_history(crng)
        mode = crng.choice(["plain", "applied-between", "deepcopy-between", "pickle-between"])
        as_np = crng.random() < 0.2
        conv = (lambda f: np.float64(f)) if as_np else (lambda f: f)
        seed = crng.getrandbits(31)
        root = label.split("[")[0]
        inp = {"oracle": "behaviour", "case_seed": case_seed, "forced": forced, "tree": label, "history": [str(fr(f)) for f in history],
               "mode": mode, "factor_type": "numpy.float64" if as_np else "float", "input": kind}
        last = history[-1]
        try:
            never = copy.deepcopy(t0)
            fresh = copy.deepcopy(t0); fresh.scale_strength(conv(last))
            control = copy.deepcopy(t0); control.scale_strength(conv(last))
            direct = scale_members_directly(copy.deepcopy(t0), conv(last))
            st_fresh, st_direct = current_state(to_model(fresh)), current_state(to_model(direct))
        except Exception as e:      # the tree cannot be scaled at all: nothing to compare a history with (the state oracle judges this)
            if stats is not None:
                stats(f"behaviour:fresh-raises:{type(e).__name__}")
            return None
        if st_fresh != st_direct:
            return Failure(f"strength:{root}:members", f"{label}: scale_strength({last}) on the composition leaves members in another state than giving "
                           f"{last} to every member with strength support directly (the factor does not reach every member)", inp, st_direct, st_fresh)
        try:
            used = copy.deepcopy(t0)
            sibling = copy.deepcopy(t0)
            for i, f in enumerate(history):
                used.scale_strength(conv(f))
                # another instance of the same classes is alive and gets other factors at the same time
                sibling.scale_strength(conv(history[(i + 1) % len(history)]))
                if mode == "applied-between":
                    for k in kinds:
                        if n_ok(observe_calls(used, k, 99 + i, n=2)):
                            break
                elif mode == "deepcopy-between":
                    used = copy_used(used, "deepcopy")
                elif mode == "pickle-between":
                    used = copy_used(used, "pickle")
            sibling.scale_strength(conv(0.0 if last != 0 else 1.0))
        except Exception as e:
            return Failure(f"strength:{root}:history-raises", f"{label}: the factor history {history} raises {type(e).__name__} although the same transform "
                           f"accepts the factor {last} when it is the only one", inp, "no exception", f"{type(e).__name__}: {e}"[:200])
        if stats is not None:
            stats(f"behaviour:{mode}")

        # --- magnitude samplers -------------------------------------------------------------
        s_used, s_fresh, s_ctrl, s_never = (observe_samplers(o, seed) for o in (used, fresh, control, never))
        if s_fresh and _same([d for _, _, d in s_fresh], [d for _, _, d in s_ctrl]) and len(s_used) == len(s_fresh) == len(s_never):
            if stats is not None:
                stats("behaviour:samplers-judged")
            for j, ((lo, hi, du), (_, _, df), (_, _, dn)) in enumerate(zip(s_used, s_fresh, s_never)):
                if not _same(du, df):
                    return Failure(f"strength:{root}:history-sampled", f"{label}: after the factor history {history} magnitude sampler #{j} draws other "
                                   f"values than the same transform scaled only by {last} (same seeded rng): the sampled range depends on the history",
                                   inp, df, du)
                nums = [d for d in du if isinstance(d, float)]
                if len(nums) != len(du) or lo is None:
                    continue
                if last == 1 and not _same(du, dn):
                    return Failure(f"strength:{root}:scale-one-sampled", f"{label}: history {history} ends with factor 1 but magnitude sampler #{j} does not "
                                   f"draw what the constructed transform draws (same seeded rng)", inp, dn, du)
                if last == 0 and any(d != 0 for d in nums):
                    return Failure(f"strength:{root}:scale-zero-sampled", f"{label}: history {history} ends with factor 0 but magnitude sampler #{j} draws "
                                   f"non-zero magnitudes", inp, 0.0, du)
                eps = 1e-9
                if any(not (float(lo) * last - eps <= d <= float(hi) * last + eps) for d in nums):
                    return Failure(f"strength:{root}:range-sampled", f"{label}: history {history}: magnitude sampler #{j} draws outside the constructed range "
                                   f"[{float(lo)}, {float(hi)}] times {last}", inp, [float(lo) * last, float(hi) * last], du)
                nn = [d for d in dn if isinstance(d, float)]
                if last > 0 and len(nn) == len(dn) and max(nn) - min(nn) > 1e-6 and max(nums) - min(nums) <= 0:
                    return Failure(f"strength:{root}:collapsed-sampled", f"{label}: history {history}: magnitude sampler #{j} is collapsed to the single value "
                                   f"{nums[0]} although the constructed distribution is not a point and the factor is {last}", inp, "spread > 0", du)

        # --- recorded ctx and outputs -------------------------------------------------------
        best = None
        for k in kinds:
            c_fresh = observe_calls(fresh, k, seed)
            if best is None or n_ok(c_fresh) > n_ok(best[1]):
                best = (k, c_fresh)
            if n_ok(c_fresh) == len(c_fresh):
                break
        k, c_fresh = best
        if n_ok(c_fresh) == 0:
            if stats is not None:
                stats("behaviour:calls-not-applicable")
            return None
        c_ctrl = observe_calls(control, k, seed)
        if not _same(c_fresh, c_ctrl):
            if stats is not None:
                stats("behaviour:calls-not-reproducible")
            return None
        if stats is not None:
            stats("behaviour:calls-judged")
        inp = dict(inp, input=k)
        c_used = observe_calls(used, k, seed)
        if not _same(c_used, c_fresh):
            j = next((i for i, (a, b) in enumerate(zip(c_used, c_fresh)) if not _same(a, b)), 0)
            return Failure(f"strength:{root}:history-applied", f"{label}: after the factor history {history} call #{j} records/returns something else than the "
                           f"same transform scaled only by {last} (same seeded rng, same input): the result depends on the history",
                           inp, _brief(c_fresh[j]), _brief(c_used[j]))
        if last == 1:
            c_never = observe_calls(never, k, seed)
            if not _same(c_used, c_never):
                j = next((i for i, (a, b) in enumerate(zip(c_used, c_never)) if not _same(a, b)), 0)
                return Failure(f"strength:{root}:scale-one-applied", f"{label}: history {history} ends with factor 1 but call #{j} records/returns something "
                               f"else than the constructed transform (same seeded rng, same input)", inp, _brief(c_never[j]), _brief(c_used[j]))
        return None

    # ---- scheduled transform over arbitrary wrapped transforms / configs ---------------------------
    @staticmethod
    def sched_configs(crng, kind):
        """config objects (dicts with `kind`, lists of them) as the factory accepts them"""
        ra = dict(kind="kd_rand_augment_custom", num_ops=2, magnitude=crng.choice([5, 7.5]), magnitude_std=crng.choice([1.25, float("inf")]),
                  magnitude_min=crng.choice([0., 1.25]), magnitude_max=10., fill_color=(124, 116, 104), interpolation="bicubic")
        gray = dict(kind="kd_random_grayscale", p=crng.choice([0.25, 0.5]))
        rj = dict(kind="kd_random_color_jitter", p=1.0, brightness=0.5, contrast=0.25, saturation=0.5, hue=0.25)
        sol = dict(kind="kd_random_solarize", p=0.5, threshold=128)
        byol = dict(kind="byol_transform", size=8, norm=None, brightness=0.5, contrast=0.5, saturation=0.25, hue=0.125, sigma=(0.5, 2.0),
                    color_jitter_p=1.0, gaussian_blur_p=0.5, grayscale_p=0.25, solarize_p=0.5)
        gn = dict(kind="kd_additive_gaussian_noise", std=0.5, magnitude=crng.choice([0.75, 1.0]), magnitude_min=crng.choice([0., 0.25]))
        gnn = dict(kind="kd_additive_gaussian_noise", std=0.5, magnitude=0.5, magnitude_std=0.25)
        un = dict(kind="kd_additive_uniform_noise", magnitude=crng.choice([0.5, 1.0]))
        rn = dict(kind="kd_random_additive_gaussian_noise", p=0.5, std=0.5, magnitude=0.75, magnitude_std=0.25)
        if kind == "pil":
            return crng.choice([[ra, gray], [rj, sol], byol, [byol], [ra], [[ra], gray], ra])
        return crng.choice([[gn, un], gnn, [gnn], [rn, gn], [[un], rn], un])

    def sched_case(self, case_seed, stats=None):
        """One scheduled-transform case, reproducible from case_seed: the wrapped transform is an object tree, a list of objects or a
        config (implicit composition built by the factory); simulated round-robin workers (deep copies, as a dataloader makes them); for
        every sample of global batch b: reported strength == schedule(b), and the wrapped transform IS at schedule(b): same parameter
        state and -- with the same seeded rng on the same input -- same recorded ctx, output and sampler draws as a fresh copy of the
        wrapped transform in which every member with strength support was given schedule(b) directly."""
        import numpy as np
        import kappadata.transforms as T
        crng = random.Random(f"sched:{case_seed}")
        leaves = leaf_recipes(crng, exact=False)
        kind = crng.choice(["pil", "tensor"])
        pool = [l for l in leaves if l[0] in (PIL_LEAVES if kind == "pil" else TENSOR_LEAVES)]
        W, B = crng.randint(1, 4), crng.randint(1, 3)
        N = crng.randint(max(2, W), 2 * W + 3)
        form = crng.choice(["object", "object", "list", "config"])
        if form == "object":
            label, arg = gen_tree(crng, pool, crng.randint(0, 2))
        elif form == "list":
            kids = [gen_tree(crng, pool, crng.randint(0, 1), subs=0.4) for _ in range(crng.randint(1, 3))]
            label, arg = "list[" + ",".join(k[0] for k in kids) + "]", [k[1] for k in kids]
        else:
            arg = self.sched_configs(crng, kind)
            label = "config:" + json.dumps(arg, default=str)
        sched_cfg = crng.choice([None, None, dict(kind="linear_increasing_schedule"), dict(kind="linear_decreasing_schedule"),
                                 dict(kind="cosine_increasing_schedule")])
        inp = {"oracle": "scheduled", "case_seed": case_seed, "transform": label, "form": form, "schedule": sched_cfg, "W": W, "B": B,
               "n_batches": N, "input": kind}
        try:
            base = T.KDScheduledTransform(transform=arg, schedule=copy.deepcopy(sched_cfg))
        except Exception as e:
            if stats is not None:
                stats(f"scheduled-general:not-constructible:{type(e).__name__}")
            return None
        pristine = copy.deepcopy(base.transform)
        reference = copy.deepcopy(base.schedule)
        table = [reference.get_value(b, N) for b in range(N)]
        if not all(0. <= v <= 1. for v in table):
            return None
        workers = []
        for r in range(W):
            w = copy.deepcopy(base)
            w._worker_init_fn(r, W, batch_size=B, updates=N)
            workers.append(w)
        if stats is not None:
            stats(f"scheduled-general:{form}")
        for b in range(N):
            w = workers[b % W]
            expected = table[b]
            for s_ in range(B):
                seed = (case_seed * 7919 + 1000 * b + s_) % (2 ** 31)
                where = dict(inp, b=b, s=s_)
                try:
                    fresh = scale_members_directly(copy.deepcopy(pristine), expected)
                    control = scale_members_directly(copy.deepcopy(pristine), expected)
                except Exception as e:
                    if stats is not None:
                        stats(f"scheduled-general:wrapped-raises:{type(e).__name__}")
                    return None
                c_w = observe_calls(w, kind, seed, n=1)[0]
                c_f = observe_calls(fresh, kind, seed, n=1)[0]
                c_c = observe_calls(control, kind, seed, n=1)[0]
                if c_w[0] == "ok":
                    ctx = dict(c_w[1])
                    keys = [k for k in ctx if k not in c_f[1]] if c_f[0] == "ok" else [k for k in ctx if str(k).endswith(".strength")]
                    key = getattr(w, "ctx_key", None)
                    if key not in ctx:
                        key = keys[0] if len(keys) == 1 else key
                    got = ctx.pop(key, None)
                    if got is None or got != expected:
                        return Failure("scheduled:strength", f"sample {s_} of global batch {b} reports strength {got}, schedule({b})={expected} "
                                       f"(num_workers={W}, batch_size={B}, wrapped {label})", where, expected, got)
                    c_w = ("ok", ctx, c_w[2])
                elif c_f[0] == "ok":
                    return Failure("scheduled:applied", f"sample {s_} of global batch {b}: the scheduled transform raises {c_w[1]} where the wrapped "
                                   f"transform scaled to schedule({b})={expected} works (wrapped {label})", where, "no exception", c_w[1])
                try:
                    st_w, st_f = current_state(to_model(w.transform)), current_state(to_model(fresh))
                except Exception:
                    st_w = st_f = None
                if st_w != st_f:
                    return Failure("scheduled:applied-state", f"sample {s_} of global batch {b} (num_workers={W}, batch_size={B}): the wrapped transform "
                                   f"({label}) is not at strength schedule({b})={expected} when the sample is produced", where, st_f, st_w)
                if _same(c_f, c_c):
                    if stats is not None:
                        stats("scheduled-general:calls-judged" if c_f[0] == "ok" else "scheduled-general:calls-exc")
                    if not _same(c_w, c_f):
                        return Failure("scheduled:applied-sampled", f"sample {s_} of global batch {b} (num_workers={W}, batch_size={B}): reported strength "
                                       f"{expected}, but the sample is not transformed like by the wrapped transform ({label}) scaled to {expected} "
                                       f"(same seeded rng, same input)", where, _brief(c_f), _brief(c_w))
                d_f, d_c = observe_samplers(fresh, seed), observe_samplers(control, seed)
                if d_f and _same(d_f, d_c):
                    d_w = observe_samplers(w.transform, seed)
                    if not _same([d for _, _, d in d_w], [d for _, _, d in d_f]):
                        return Failure("scheduled:applied-sampled", f"after sample {s_} of global batch {b} (num_workers={W}, batch_size={B}): the magnitude "
                                       f"samplers of the wrapped transform ({label}) do not draw like the wrapped transform scaled to {expected}",
                                       where, [d for _, _, d in d_f], [d for _, _, d in d_w])
        return None


    # ---- scheduled transform end to end: inside a dataset wrapper stack, initialised through the datasets' worker_init_fn ----------
    @staticmethod
    def build_pipeline(case_seed, scheduled=True):
        """dataset -> [length changer] -> transform carrying wrapper -> [length changers] -> ModeWrapper, reproducible from case_seed.
        scheduled=False builds the same stack with the wrapped transform used directly (the control for exceptions)."""
        import kappadata.transforms as T
        import kappadata.wrappers as KW
        crng = random.Random(f"pipe-build:{case_seed}")
        ds = root_dataset(crng.randint(8, 30))
        labels = [f"root({len(ds)})"]
        if crng.random() < 0.3:
            lbl, ds = length_changer(crng, ds)
            labels.append(lbl)
        m = crng.choice([0.5, 0.75, 1.0])
        # constant magnitude: the recorded magnitude IS the strength that was applied to the sample (times m)
        noise = T.KDAdditiveGaussianNoise(std=1., magnitude=m, magnitude_std=0.)
        sched_cfg = crng.choice([None, None, dict(kind="linear_increasing_schedule"), dict(kind="linear_decreasing_schedule"),
                                 dict(kind="cosine_increasing_schedule")])
        sched = T.KDScheduledTransform(noise, schedule=copy.deepcopy(sched_cfg)) if scheduled else noise
        form = crng.choice(["bare", "compose", "list", "compose2", "nested"])
        if form == "bare":
            transform = sched
        elif form == "compose":
            transform = T.KDComposeTransform([sched])
        elif form == "list":
            transform = [sched]
        elif form == "compose2":
            transform = T.KDComposeTransform([T.KDAdditiveUniformNoise(magnitude=0.5), sched])
        else:
            transform = T.KDComposeTransform([T.KDComposeTransform([sched])])
        carrier = crng.choice(["x", "x", "x-seed", "multiview"])
        if carrier == "x":
            ds = KW.XTransformWrapper(dataset=ds, transform=transform)
        elif carrier == "x-seed":
            ds = KW.XTransformWrapper(dataset=ds, transform=transform, seed=crng.randint(0, 99))
        else:
            ds = KW.KDMultiViewWrapper(dataset=ds, configs=[(1, transform)])
        labels.append(f"{carrier}[{form}:scheduled(noise*{m},{(sched_cfg or {}).get('kind')})]")
        for _ in range(crng.choice([0, 1, 1, 2])):
            lbl, ds = length_changer(crng, ds)
            labels.append(lbl)
        top = KW.ModeWrapper(dataset=ds, mode="x", return_ctx=True)
        reference = copy.deepcopy(sched.schedule) if scheduled else None
        return dict(ds=top, label=" -> ".join(labels), strength_key=getattr(sched, "ctx_key", None) if scheduled else None,
                    applied_key=noise.ctx_key, m=m, reference=reference)

    @staticmethod
    def pipeline_run_spec(case_seed, L, workers=None):
        """how the run is driven: batches of the run (full batches only, the property's domain) and the kwargs a user passes to
        worker_init_fn (the package's own convention, see InterleavedSampler: dataset_len=len(dataset that is iterated))"""
        crng = random.Random(f"pipe-run:{case_seed}")
        Wd = 2 if (crng.random() < 0.2 and L >= 4) else 1
        Lr = L // Wd
        B = crng.randint(1, max(1, min(4, Lr // 2)))
        kind = crng.choice(["epochs", "epochs", "epochs", "updates", "samples"])
        order = list(range(Lr))
        if crng.random() < 0.3:
            crng.shuffle(order)
        if kind == "epochs":
            E = crng.randint(1, 2)
            dl = True if (Lr % B != 0 or crng.random() < 0.5) else False
            per_epoch = [order[i:i + B] for i in range(0, Lr, B)]
            per_epoch = [c for c in per_epoch if len(c) == B]
            batches = [list(c) for _ in range(E) for c in per_epoch]
            kw = dict(batch_size=B, epochs=E, dataset_len=L, world_size=Wd, drop_last=dl)
        else:
            N = crng.randint(2, 8)
            batches = [[order[(b * B + i) % Lr] for i in range(B)] for b in range(N)]
            kw = dict(batch_size=B, dataset_len=L)
            kw[kind] = N if kind == "updates" else N * B
        W = workers if workers is not None else 0
        history = crng.choice(["plain", "plain", "pickled", "deepcopied", "twin"])
        if W > 0 and history == "twin":
            history = "plain"
        return dict(batches=batches, kw=kw, W=W, history=history)

    @staticmethod
    def drive_pipeline(ds, batches, kw, W, twin=None):
        """run the pipeline; returns per global batch a list of per-sample ctx dicts (python numbers at the leaves)"""
        def per_sample(ctx, i):
            out = {}
            for k, v in ctx.items():
                if isinstance(v, dict):
                    out[k] = per_sample(v, i)
                else:
                    try:
                        out[k] = v[i].item()
                    except Exception:
                        out[k] = None
            return out

        if W == 0:
            ds.worker_init_fn(0, **kw)
            if twin is not None:
                # a second pipeline with another length / batch size is alive and initialised / used at the same time
                try:
                    twin[0].worker_init_fn(0, **twin[1])
                except Exception:
                    twin = None
            out = []
            for batch in batches:
                rows = []
                for idx in batch:
                    _, ctx = ds[idx]
                    rows.append(ctx)
                out.append(rows)
                if twin is not None:
                    try:
                        twin[0][len(out) % len(twin[0])]
                    except Exception:
                        pass
            return out
        from functools import partial
        from torch.utils.data import DataLoader
        loader = DataLoader(ds, batch_sampler=batches, num_workers=W, worker_init_fn=partial(ds.worker_init_fn, **kw))
        out = []
        for (_, ctx), batch in zip(loader, batches):
            out.append([per_sample(ctx, i) for i in range(len(batch))])
        return out

    def pipeline_case(self, case_seed, workers=None, stats=None):
        """One end-to-end case, reproducible from (case_seed, workers): the scheduled transform sits inside a transform carrying dataset
        wrapper (alone / in compositions / as list), length changing wrappers below and above it, ModeWrapper on top; the run is
        initialised the way a user does it (top.worker_init_fn(rank, batch_size=..., epochs/updates/samples=..., dataset_len=len(top),
        ...)) in process or in real DataLoader workers. The batches of the run are enumerated by the harness; for every sample of global
        batch b: the reported strength is schedule(b of <number of batches of the run>) and the magnitude applied by the wrapped
        constant-magnitude noise is m * schedule(b). A pipeline that raises where the same stack without the schedule works is a failure."""
        inp = {"oracle": "pipeline", "case_seed": case_seed, "workers": workers}
        try:
            p = self.build_pipeline(case_seed)
            L = len(p["ds"])
            if L < 2:
                return None
            spec = self.pipeline_run_spec(case_seed, L, workers)
        except Exception as e:
            if stats is not None:
                stats(f"pipeline:not-constructible:{type(e).__name__}")
            return None
        batches, kw, W, history = spec["batches"], spec["kw"], spec["W"], spec["history"]
        n_true = len(batches)
        inp.update(pipeline=p["label"], len=L, init_kwargs=kw, n_batches_of_run=n_true, num_workers=W, history=history)
        try:
            table = [p["reference"].get_value(b, n_true) for b in range(n_true)]
        except Exception:
            return None
        if n_true == 0 or not all(0. <= v <= 1. for v in table):
            return None

        def prepared(q, seed):
            ds, twin = q["ds"], None
            if history == "pickled":
                ds = copy_used(ds, "pickle")
            elif history == "deepcopied":
                ds = copy_used(ds, "deepcopy")
            elif history == "twin":
                try:
                    t = self.build_pipeline(seed + 1)
                    tspec = self.pipeline_run_spec(seed + 1, len(t["ds"]), 0)
                    twin = (t["ds"], tspec["kw"])
                except Exception:
                    twin = None
            return ds, twin

        try:
            ds, twin = prepared(p, case_seed)
            got = self.drive_pipeline(ds, batches, kw, W, twin)
        except Exception as e:
            # raised by the code under test: judged against the same stack without the schedule
            try:
                c = self.build_pipeline(case_seed, scheduled=False)
                cds, ctwin = prepared(c, case_seed)
                self.drive_pipeline(cds, batches, kw, W, ctwin)
            except Exception as e2:
                if stats is not None:
                    stats(f"pipeline:control-raises:{type(e2).__name__}")
                return None
            return Failure("scheduled-pipeline:raises", f"{p['label']}: the run ({n_true} full batches, num_workers={W}, {kw}) raises "
                           f"{type(e).__name__} although the same stack without the schedule works", inp, "no exception",
                           f"{type(e).__name__}: {str(e).strip().splitlines()[-1] if str(e).strip() else ''}"[:300])
        if stats is not None:
            stats(f"pipeline:W={W}")
            stats(f"pipeline:{[k for k in ('epochs', 'updates', 'samples') if k in kw][0]}")
            stats(f"pipeline:{history}")
        if len(got) != n_true:
            return None
        sk, ak, m = p["strength_key"], p["applied_key"], p["m"]
        for b, rows in enumerate(got):
            expected = table[b]
            for s_, ctx in enumerate(rows):
                reported = _find_in_ctx(ctx, lambda k: k == sk)
                if not reported:
                    reported = _find_in_ctx(ctx, lambda k: str(k).endswith(".strength"))
                where = dict(inp, b=b, s=s_)
                if len(reported) != 1 or not isinstance(reported[0], float) or abs(reported[0] - expected) > 1e-12:
                    return Failure("scheduled-pipeline:strength", f"{p['label']}: sample {s_} of global batch {b} of {n_true} reports strength "
                                   f"{reported}, schedule({b} of {n_true})={expected} (num_workers={W}, init kwargs {kw})", where, expected, reported)
                applied = _find_in_ctx(ctx, lambda k: k == ak)
                if len(applied) == 1 and isinstance(applied[0], float) and abs(applied[0] - m * expected) > 1e-12:
                    return Failure("scheduled-pipeline:applied", f"{p['label']}: sample {s_} of global batch {b} of {n_true}: the wrapped noise "
                                   f"(magnitude {m}) is applied with magnitude {applied[0]}, schedule({b} of {n_true}) * {m} = {m * expected} "
                                   f"(num_workers={W}, init kwargs {kw})", where, m * expected, applied[0])
        return None


    # ---- scheduled transform ----------------------------------------------------------------
    def scheduled(self, res):
        import kappadata.transforms as T
        import torch
        rng = self.rng
        combos = [(W, B) for W in range(1, 6) for B in range(1, 5)]
        if self.tier == "quick":
            rng.shuffle(combos)
            combos = combos[:8]
        reqs, metas = [], []
        for W, B in combos:
            n_batches = rng.randint(W, 3 * W + 2)
            base = T.KDScheduledTransform(transform=T.KDColorJitter(0.4, 0.4, 0.2, 0.1))
            workers = []
            for r in range(W):
                w = copy.deepcopy(base)
                w._worker_init_fn(r, W, batch_size=B, updates=n_batches)
                workers.append(w)
            x = torch.rand(3, 4, 4)
            for b in range(n_batches):
                w = workers[b % W]
                for s in range(B):
                    counter = w.sample_counter
                    ctx = {}
                    w(x, ctx=ctx)
                    expected = w.schedule.get_value(b, n_batches)
                    got = ctx[w.ctx_key]
                    res.cases += 1
                    res.bump("scheduled")
                    res.nontrivial.add(("sched", W, B, b, s))
                    reqs.append({"op": "st.batchidx", "counter": counter, "B": B, "W": W, "rank": b % W})
                    metas.append((W, B, b, s, counter))
                    if got != expected and not any(f.key == "scheduled:strength" for f in res.failures):
                        res.failures.append(Failure("scheduled:strength", f"sample {s} of global batch {b} gets strength {got}, schedule({b})={expected} "
                                                    f"(num_workers={W}, batch_size={B})", {"W": W, "B": B, "b": b, "s": s}, expected, got))
        for (W, B, b, s, counter), ans in zip(metas, self.driver.run(reqs)):
            if ans != b:
                res.disagreements.append(Disagreement({"W": W, "B": B, "b": b, "s": s, "counter": counter}, ans, b, "model batch index differs from the global batch"))
        self.loader_model(res, combos)
        self.schedule_length(res)

    def loader_model(self, res, combos):
        """the STATEFUL model of the scheduled transform (Model/C15Spec: per-worker sample counter, wrapped transform re-scaled on every
        call, value written to ctx) against the real object in simulated workers: per call the reported strength (exact) and the
        state of the wrapped transform after the call (1e-9)"""
        import kappadata.transforms as T
        import torch

        def flat(m):
            out = []
            if isinstance(m, dict):
                for k in sorted(m):
                    out += flat(m[k])
            elif isinstance(m, list):
                if len(m) == 2 and all(isinstance(v, int) for v in m) and m[1] != 0:
                    out.append(m[0] / m[1])
                else:
                    for v in m:
                        out += flat(v)
            elif isinstance(m, (int, float)) and not isinstance(m, bool):
                out.append(float(m))
            elif m is not None:
                out.append(m)
            return out

        reqs, reals = [], []
        for W, B in combos:
            N = self.rng.randint(W, 2 * W + 3)
            wrapped = T.KDColorJitter(0.5, 0.5, 0.25, 0.125)
            wrapped_is_tree = False
            if self.rng.random() < 0.5:
                # any tree (the schedule's values are not dyadic: trees with the integer solarize cut are left out, the rest is compared to 1e-9)
                pool = [l for l in leaf_recipes(self.rng) if l[0] in TENSOR_LEAVES]
                for _ in range(5):
                    lbl, cand = gen_tree(self.rng, pool, self.rng.randint(0, 2))
                    try:
                        if '"solI"' not in json.dumps(to_model(cand)):
                            wrapped, wrapped_is_tree = cand, True
                            break
                    except Unmodelled:
                        continue
            base = T.KDScheduledTransform(transform=wrapped)
            workers = []
            for r in range(W):
                w = copy.deepcopy(base)
                w._worker_init_fn(r, W, batch_size=B, updates=N)
                workers.append(w)
            table = [rat(fr(workers[0].schedule.get_value(b, N))) for b in range(N)]
            x = torch.rand(3, 4, 4)
            real = []
            for b in range(N):
                w = workers[b % W]
                batch = []
                for s_ in range(B):
                    ctx = {}
                    try:
                        w(_input("tensor") if wrapped_is_tree else x.clone(), ctx=ctx)
                    except Exception:
                        # what the wrapped transform does to pixels is not part of this comparison; the strength is reported and applied before
                        if w.ctx_key not in ctx:
                            raise
                    batch.append({"strength": rat(fr(ctx[w.ctx_key])), "applied": to_model(w.transform)})
                real.append(batch)
            reqs.append({"op": "st.loader", "W": W, "B": B, "N": N, "t": to_model(base.transform), "schedule": table})
            reals.append((W, B, N, real))
        for (W, B, N, real), ans in zip(reals, self.driver.run(reqs)):
            res.cases += 1
            res.bump("scheduled-stateful-model")
            case = {"W": W, "B": B, "N": N}
            if not isinstance(ans, list) or len(ans) != len(real):
                res.disagreements.append(Disagreement(case, str(ans)[:200], f"{len(real)} batches", "loader model: shape"))
                continue
            for b, (mb, rb) in enumerate(zip(ans, real)):
                bad = None
                if len(mb) != len(rb):
                    bad = "calls per batch"
                else:
                    for mo, ro in zip(mb, rb):
                        if mo["b"] != b:
                            bad = f"model batch index {mo['b']} for global batch {b}"
                        elif mo["strength"] != ro["strength"]:
                            bad = f"strength reported in ctx: model {mo['strength']} real {ro['strength']}"
                        else:
                            fm, frl = flat(mo["applied"]), flat(ro["applied"])
                            if len(fm) != len(frl) or any((abs(a - c) > 1e-9) if isinstance(a, float) and isinstance(c, float) else a != c
                                                          for a, c in zip(fm, frl)):
                                bad = "state of the wrapped transform after the call"
                        if bad:
                            break
                if bad:
                    res.disagreements.append(Disagreement(dict(case, b=b), mb, rb, "stateful scheduled-transform model: " + bad))
                    break

    # ---- the schedule's length n_batches ----------------------------------------------------
    @staticmethod
    def true_batches(kind, v, B, n=None, Wd=None, dl=None):
        """number of batches of the run, counted by enumerating them (independent of the formula in the code)"""
        if kind == "updates":
            return v
        if kind == "samples":
            k, got = 0, 0
            while got < v:
                got += B
                k += 1
            return k
        per_rank = n // Wd
        chunks = [min(B, per_rank - i) for i in range(0, per_rank, B)]
        if dl:
            chunks = [c for c in chunks if c == B]
        return v * len(chunks)

    def schedule_length(self, res):
        import kappadata.transforms as T
        import torch
        rng = self.rng
        cases = []
        for B in range(1, 6):
            for n in range(1, 26):
                for Wd in (1, 2, 3):
                    for dl in (True, False):
                        cases.append(("epochs", rng.randint(0, 3), B, n, Wd, dl))
            for v in range(0, 14):
                cases.append(("updates", v, B, None, None, None))
                cases.append(("samples", v, B, None, None, None))
        if self.tier == "quick":
            rng.shuffle(cases)
            # keep the divisible-boundary cells (per-rank length an exact multiple of the batch size, drop_last off) in every run
            keep = [c for c in cases if c[0] == "epochs" and not c[5] and (c[3] // c[4]) % c[2] == 0 and c[3] // c[4] > 0][:40]
            cases = keep + cases[:260]
        reqs, metas = [], []
        for kind, v, B, n, Wd, dl in cases:
            t = T.KDScheduledTransform(transform=T.KDColorJitter(0.4, 0.4, 0.2, 0.1))
            kw = {"batch_size": B}
            if kind == "epochs":
                kw.update(epochs=v, dataset_len=n, world_size=Wd, drop_last=dl)
            else:
                kw[kind] = v
            t._worker_init_fn(0, 1, **kw)
            expect = self.true_batches(kind, v, B, n, Wd, dl)
            res.cases += 1
            res.bump(f"n_batches:{kind}")
            res.nontrivial.add(("nb", kind, v, B, n, Wd, dl))
            rq = {"op": "st.nbatches", "kind": kind, "v": v, "B": B}
            if kind == "epochs":
                rq.update(n=n, W=Wd, dl=dl)
            reqs.append(rq)
            metas.append((kind, v, B, n, Wd, dl, t.n_batches))
            if t.n_batches != expect and not any(f.key == "scheduled:n-batches" for f in res.failures):
                inp = {"kind": kind, "value": v, "batch_size": B, "dataset_len": n, "world_size": Wd, "drop_last": dl}
                # the consequence the property names: the strength applied/reported for batch b is not schedule(b)
                x = torch.rand(3, 4, 4)
                ctx = {}
                if expect > 1:
                    t.sample_counter = B       # second global batch
                    t(x, ctx=ctx)
                    want = t.schedule.get_value(1, expect)
                    got = ctx.get(t.ctx_key)
                else:
                    want = got = None
                res.failures.append(Failure("scheduled:n-batches", f"schedule length n_batches={t.n_batches} but the run has {expect} batches "
                                            f"({inp}); strength of global batch 1: reported {got}, schedule(1 of {expect})={want}", inp, expect, t.n_batches))
        for (kind, v, B, n, Wd, dl, real), ans in zip(metas, self.driver.run(reqs)):
            if ans != real:
                res.disagreements.append(Disagreement({"kind": kind, "v": v, "B": B, "n": n, "W": Wd, "dl": dl}, ans, real, "n_batches differs from the model"))

    def search(self, budget_s, hints):
        import time
        t0 = time.time()
        rng = random.Random(self.seed + 3)
        leaves = leaf_recipes(rng)
        out = []
        rounds = 0
        while time.time() - t0 < budget_s and not out:
            for label, thunk in leaves:
                try:
                    f = self.oracle(label, thunk(), rng)
                    if f is None:
                        label2, t2 = gen_tree(rng, leaves, rng.randint(1, 2), subs=0.5)
                        f = self.oracle(label2, t2, rng)
                except Unmodelled:
                    continue
                if f:
                    out.append(f)
                    break
            for i in range(60):
                if out or time.time() - t0 > budget_s:
                    break
                f = self.behaviour_case(rng.getrandbits(31), i + 60 * rounds if rounds < 2 else None) or self.sched_case(rng.getrandbits(31)) \
                    or self.pipeline_case(rng.getrandbits(31), 0)
                if f:
                    out.append(f)
            rounds += 1
        return out

    def replay_input(self, inp):
        if "batch_size" in inp and "kind" in inp:
            import kappadata.transforms as T
            t = T.KDScheduledTransform(transform=T.KDColorJitter(0.4, 0.4, 0.2, 0.1))
            kw = {"batch_size": inp["batch_size"]}
            if inp["kind"] == "epochs":
                kw.update(epochs=inp["value"], dataset_len=inp["dataset_len"], world_size=inp["world_size"], drop_last=inp["drop_last"])
            else:
                kw[inp["kind"]] = inp["value"]
            t._worker_init_fn(0, 1, **kw)
            expect = self.true_batches(inp["kind"], inp["value"], inp["batch_size"], inp.get("dataset_len"), inp.get("world_size"), inp.get("drop_last"))
            if t.n_batches != expect:
                return Failure("scheduled:n-batches", f"n_batches={t.n_batches}, the run has {expect} batches", inp, expect, t.n_batches)
            return None
        if inp.get("oracle") == "state":
            try:
                return self.state_case(inp["case_seed"], inp.get("leaf"))
            except Unmodelled:
                return None
        if inp.get("oracle") == "behaviour":
            return self.behaviour_case(inp["case_seed"], inp.get("forced"))
        if inp.get("oracle") == "scheduled":
            return self.sched_case(inp["case_seed"])
        if inp.get("oracle") == "pipeline":
            return self.pipeline_case(inp["case_seed"], inp.get("workers"))
        rng = random.Random(1)
        for label, thunk in leaf_recipes(rng):
            if label == inp.get("tree"):
                for _ in range(20):
                    f = self.oracle(label, thunk(), rng)
                    if f:
                        return f
        return None
