"""C08 (seeded sample wrappers) and C09 (worker initialisation): dynamic probes + behavioural oracles.

Translation: translate_wrappers.generate() -> lean/KDVerif/Gen/WrapperTable.lean (+ the transform table of C07).
"""
import copy
import json
import random as pyrandom
import sys
import time
from unittest import mock

import numpy as np
import torch

from . import translate_rngflow as tr
from . import translate_wrappers as tw
from .common import CorrResult, Disagreement, Failure, PropertyCheck
from .rngflow import canon, children, global_state, kd_bases, scramble, to_tree

OLD = 1_000_000   # construction-time cells get ids >= OLD


# ----------------------------------------------------------------------------------------------
# tiny datasets
# ----------------------------------------------------------------------------------------------
def make_ds(kind, n=6, collators=None):
    from kappadata.datasets.kd_dataset import KDDataset

    class _XDs(KDDataset):
        def __init__(self, kind, n, collators=None):
            super().__init__(collators=collators)
            g = torch.Generator().manual_seed(77)
            self.kind = kind
            self.x = torch.rand(n, 3, 16, 16, generator=g)
            self.sem = torch.randint(0, 4, (n, 16, 16), generator=g)
            self.cls = [i % 3 for i in range(n)]

        def getitem_x(self, idx, ctx=None):
            x = self.x[idx].clone()
            if self.kind == "pil":
                from torchvision.transforms.functional import to_pil_image
                return to_pil_image(x)
            return x

        def getitem_semseg(self, idx, ctx=None):
            return self.sem[idx].clone()

        def getitem_class(self, idx, ctx=None):
            return self.cls[idx]

        # other item kinds ("transform wrappers for any item"): small float vectors derived from the image
        def getitem_y(self, idx, ctx=None):
            return self.x[idx, 0, 0].clone()

        def getitem_target(self, idx, ctx=None):
            return self.x[idx, 1, :2].clone()

        def getitem_source(self, idx, ctx=None):
            return self.x[idx, :, :4, :4].clone()

        def getshape_class(self):
            return 3,

        def __len__(self):
            return len(self.cls)

    return _XDs(kind, n, collators)


# ----------------------------------------------------------------------------------------------
# wrapper recipes for C08: (label, builder(seed) -> wrapper, [(item getter name)], input kind)
# ----------------------------------------------------------------------------------------------
def wrapper_recipes(random_keys=None):
    import kappadata.transforms as T
    from kappadata.wrappers import XTransformWrapper, KDMultiViewWrapper, KDMixWrapper, SemsegTransformWrapper
    from kappadata.wrappers.dataset_wrappers.subset_wrapper import SubsetWrapper
    from kappadata.wrappers.dataset_wrappers.shuffle_wrapper import ShuffleWrapper
    from kappadata.common.wrappers.sample_wrappers.mugs_multi_view_wrapper import MUGSMultiViewWrapper
    R = []

    def nested():
        return T.KDComposeTransform([
            T.KDRandomCrop(size=12, padding=2),
            T.KDRandomApply(transform=T.KDComposeTransform([T.KDRandomResizedCrop(size=12, scale=(0.5, 1.0))]), p=0.6),
            T.KDRandomThreshold(threshold=0.3, threshold_std=0.1, p=0.5),
            T.KDRandomAdditiveGaussianNoise(std=0.1, p=0.5)])

    R.append(("xt-crop", lambda s: XTransformWrapper(make_ds("tensor"), transform=T.KDRandomCrop(size=8, padding=2), seed=s), ["x"]))
    R.append(("xt-nested", lambda s: XTransformWrapper(make_ds("tensor"), transform=nested(), seed=s), ["x"]))
    R.append(("xt-list", lambda s: XTransformWrapper(make_ds("tensor"), transform=[T.KDRandomHorizontalFlip(), T.KDColorJitter(0.4, 0.4, 0.2, 0.1)], seed=s), ["x"]))
    R.append(("xt-list-p1", lambda s: XTransformWrapper(make_ds("tensor"), transform=[
        T.KDRandomAdditiveGaussianNoise(std=0.5, p=1.0), T.KDRandomApply(transform=T.KDRandomCrop(size=12, padding=2), p=1.0),
        T.KDRandomHorizontalFlip(p=0.0)], seed=s), ["x"]))
    R.append(("xt-patchwise", lambda s: XTransformWrapper(
        make_ds("tensor"), transform=T.PatchwiseTransform(patch_size=8, transform=T.KDRandomCrop(size=8, padding=2)), seed=s), ["x"]))
    R.append(("xt-scheduled", lambda s: XTransformWrapper(
        make_ds("tensor"), transform=T.KDScheduledTransform(transform=T.KDColorJitter(0.4, 0.4, 0.2, 0.1)), seed=s), ["x"]))
    R.append(("xt-over-subset", lambda s: XTransformWrapper(
        SubsetWrapper(make_ds("tensor"), indices=[4, 2, 0, 5]), transform=T.KDRandomResizedCrop(size=8), seed=s), ["x"]))
    R.append(("subset-over-xt", lambda s: ShuffleWrapper(
        XTransformWrapper(make_ds("tensor"), transform=T.KDRandomResizedCrop(size=8), seed=s), seed=3), ["x"]))
    R.append(("xt-over-xt", lambda s: XTransformWrapper(
        XTransformWrapper(make_ds("tensor"), transform=T.KDRandomCrop(size=12), seed=s + 100),
        transform=T.KDRandomCrop(size=8), seed=s), ["x"]))
    R.append(("multiview", lambda s: KDMultiViewWrapper(
        make_ds("tensor"), configs=[(2, T.KDRandomResizedCrop(size=8)), (1, nested())], seed=s), ["x"]))
    R.append(("multiview-patchwise", lambda s: KDMultiViewWrapper(
        make_ds("tensor"), configs=[(2, T.PatchwiseTransform(patch_size=8, transform=T.KDRandomCrop(size=8, padding=2)))], seed=s), ["x"]))
    R.append(("mix", lambda s: KDMixWrapper(make_ds("tensor"), mixup_p=0.7, mixup_alpha=0.8, seed=s), ["x", "class", "xclass"]))
    R.append(("mix-over-xt", lambda s: KDMixWrapper(
        XTransformWrapper(make_ds("tensor"), transform=T.KDRandomCrop(size=8), seed=s + 5), mixup_p=1.0, mixup_alpha=1.0, seed=s), ["xclass"]))
    R.append(("semseg", lambda s: SemsegTransformWrapper(
        make_ds("tensor"), transforms=[T.KDSemsegRandomResize(base_size=(16, 16), ratio=(0.5, 2.0)),
                                       T.KDSemsegRandomHorizontalFlip(), T.KDSemsegPad(size=20)], seed=s), ["x", "semseg", "xsemseg"]))
    R.append(("semseg-plain", lambda s: SemsegTransformWrapper(
        make_ds("tensor"), transforms=[T.KDSemsegRandomHorizontalFlip(), T.KDColorJitter(0.4, 0.4, 0.2, 0.1)], seed=s), ["xsemseg"]))
    R.append(("mugs", lambda s: MUGSMultiViewWrapper(make_ds("pil"), global_size=16, local_size=8, num_local_crops=2, seed=s), ["x"]))
    # -- compositions of two features: a seeded wrapper above / below another (seeded) wrapper, observed through every item and mode
    R.append(("xt-over-mix", lambda s: XTransformWrapper(
        KDMixWrapper(make_ds("tensor"), mixup_p=0.8, mixup_alpha=0.8, seed=s + 100),
        transform=[T.KDRandomHorizontalFlip(), T.KDAdditiveGaussianNoise(std=0.5)], seed=s), ["x", "class", "xclass"]))
    R.append(("xt-over-xt-over-mix", lambda s: XTransformWrapper(XTransformWrapper(
        KDMixWrapper(make_ds("tensor"), mixup_p=1.0, mixup_alpha=1.0, seed=s + 100),
        transform=T.KDRandomCrop(size=12, padding=2), seed=s + 7), transform=T.KDRandomResizedCrop(size=8), seed=s), ["x", "class", "xclass"]))
    R.append(("subset-over-xt-over-mix", lambda s: SubsetWrapper(XTransformWrapper(
        KDMixWrapper(make_ds("tensor"), mixup_p=0.8, mixup_alpha=0.8, seed=s + 100),
        transform=T.KDRandomCrop(size=8, padding=2), seed=s), indices=[5, 1, 3, 0]), ["x", "class"]))
    R.append(("mix-over-xt-modes", lambda s: KDMixWrapper(
        XTransformWrapper(make_ds("tensor"), transform=T.KDRandomCrop(size=8), seed=s + 5), mixup_p=0.8, mixup_alpha=1.0, seed=s),
              ["x", "class", "xclass"]))
    R.append(("xt-over-semseg", lambda s: XTransformWrapper(SemsegTransformWrapper(
        make_ds("tensor"), transforms=[T.KDSemsegRandomHorizontalFlip(), T.KDSemsegPad(size=20)], seed=s + 9),
        transform=T.KDColorJitter(0.4, 0.4, 0.2, 0.1), seed=s), ["x", "semseg"]))
    R.append(("xt-over-multiview", lambda s: XTransformWrapper(KDMultiViewWrapper(
        make_ds("tensor"), configs=[(2, T.KDRandomResizedCrop(size=8))], seed=s + 11),
        transform=[T.KDAdditiveGaussianNoise(std=0.3)], seed=s), ["x", "class"]))
    # -- transform wrappers of the other item kinds, other input data types
    from kappadata.wrappers.sample_wrappers.y_transform_wrapper import YTransformWrapper
    from kappadata.wrappers.sample_wrappers.target_transform_wrapper import TargetTransformWrapper
    from kappadata.wrappers.sample_wrappers.source_transform_wrapper import SourceTransformWrapper
    R.append(("yt", lambda s: YTransformWrapper(make_ds("tensor"), transform=T.KDAdditiveGaussianNoise(std=0.3), seed=s), ["x", "y"]))
    R.append(("tt-over-xt", lambda s: TargetTransformWrapper(
        XTransformWrapper(make_ds("tensor"), transform=T.KDRandomCrop(size=8), seed=s + 3),
        transform=[T.KDAdditiveGaussianNoise(std=0.3), T.KDRandomAdditiveGaussianNoise(std=0.2, p=0.5)], seed=s), ["target", "x"]))
    R.append(("st", lambda s: SourceTransformWrapper(make_ds("tensor"), transform=T.KDRandomCrop(size=3, padding=1), seed=s), ["source"]))
    R.append(("xt-pil", lambda s: XTransformWrapper(make_ds("pil"), transform=[
        T.KDRandomResizedCrop(size=8), T.KDRandomHorizontalFlip(), T.KDColorJitter(0.4, 0.4, 0.2, 0.1)], seed=s), ["class", "x"]))
    # -- compositions of two features of the transform layer below a seeded wrapper: a composite member that holds a stochastic transform but is
    #    itself flagged deterministic (KDScheduledTransform; a user KDTransform that forwards set_rng) next to ordinary members of a compose
    #    (explicit, list spelling, multi-view config, segmentation list, nested in apply / choice / patchwise)
    def sched_pipeline():
        return T.KDComposeTransform([
            T.KDRandomHorizontalFlip(p=0.5), T.KDScheduledTransform(transform=T.KDAdditiveGaussianNoise(std=0.5)), T.KDImageRangeNorm()])

    R.append(("xt-compose-scheduled", lambda s: XTransformWrapper(make_ds("tensor"), transform=sched_pipeline(), seed=s), ["x"]))
    R.append(("xt-list-scheduled", lambda s: XTransformWrapper(make_ds("tensor"), transform=[
        T.KDRandomHorizontalFlip(p=0.5), T.KDScheduledTransform(transform=T.KDAdditiveGaussianNoise(std=0.5))], seed=s), ["x"]))
    R.append(("multiview-compose-scheduled", lambda s: KDMultiViewWrapper(
        make_ds("tensor"), configs=[(2, sched_pipeline()), (1, T.KDScheduledTransform(transform=[T.KDColorJitter(0.4, 0.4, 0.2, 0.1)]))], seed=s), ["x"]))
    R.append(("xt-deep-scheduled", lambda s: XTransformWrapper(make_ds("tensor"), transform=T.KDComposeTransform([
        T.KDRandomApply(transform=T.KDComposeTransform([T.KDImageRangeNorm(), T.KDScheduledTransform(
            transform=T.KDRandomAdditiveGaussianNoise(std=0.5, p=0.7))]), p=0.8),
        T.PatchwiseTransform(patch_size=8, transform=[T.KDScheduledTransform(transform=T.KDRandomCrop(size=8, padding=2)), T.KDImageRangeNorm()])]),
        seed=s), ["x"]))
    R.append(("semseg-scheduled", lambda s: SemsegTransformWrapper(make_ds("tensor"), transforms=[
        T.KDSemsegRandomHorizontalFlip(), T.KDComposeTransform([T.KDImageRangeNorm(), T.KDScheduledTransform(
            transform=T.KDColorJitter(0.4, 0.4, 0.2, 0.1))])], seed=s), ["xsemseg"]))
    R.append(("xt-user-holder", lambda s: XTransformWrapper(make_ds("tensor"), transform=[
        T.KDRandomHorizontalFlip(p=0.5), user_holder()(T.KDAdditiveGaussianNoise(std=0.5)), T.KDImageRangeNorm()], seed=s), ["x"]))
    # -- random nestings of every composite transform kind (rngflow.random_composition) in the transform slots of the seeded wrappers
    for key in (random_keys or []):
        rr = pyrandom.Random(f"c08:{key}")
        kind = rr.choice(["xt", "xt-list", "multiview", "xt-over-subset", "tt-over-xt"])
        depth = rr.randint(1, 3)
        names = _random_wrapper(kind, key, depth, 0)[1]
        R.append((f"random:{key}:{kind}:{names}", lambda s, kind=kind, key=key, depth=depth: _random_wrapper(kind, key, depth, s)[0],
                  {"tt-over-xt": ["target", "x"]}.get(kind, ["x"])))
    return R


def user_holder():
    """a user-written KDTransform that holds another transform and forwards the generator (like the package's scheduled transform it does
    not override is_deterministic)"""
    from kappadata.transforms.base.kd_transform import KDTransform

    class Holder(KDTransform):
        def __init__(self, transform):
            super().__init__()
            self.transform = transform

        def set_rng(self, rng):
            self.transform.set_rng(rng)
            return self

        def __call__(self, x, ctx=None):
            return self.transform(x, ctx=ctx)

    return Holder


def _random_wrapper(kind, key, depth, seed):
    """(seeded stack, description) for a random recipe; the compositions are rebuilt identically from `key` on every call"""
    import kappadata.transforms as T
    from kappadata.wrappers import XTransformWrapper, KDMultiViewWrapper
    from kappadata.wrappers.dataset_wrappers.subset_wrapper import SubsetWrapper
    from kappadata.wrappers.sample_wrappers.target_transform_wrapper import TargetTransformWrapper
    from .rngflow import random_composition
    rr = pyrandom.Random(f"c08t:{key}")
    names = []
    # (the norm is not in place: a random member before it may hand on an expanded view -- torchvision's grayscale of a tensor -- which
    #  torch refuses to write into; that refusal has nothing to do with the seeds)

    def rand_t(d=depth):
        n, t = random_composition(rr, d)
        names.append(n)
        return t

    if kind == "xt":
        w = XTransformWrapper(make_ds("tensor"), transform=T.KDComposeTransform([rand_t(), rand_t(max(depth - 1, 0))]), seed=seed)
    elif kind == "xt-list":
        w = XTransformWrapper(make_ds("tensor"), transform=[rand_t(), T.KDImageRangeNorm(inplace=False), rand_t(max(depth - 1, 0))], seed=seed)
    elif kind == "multiview":
        w = KDMultiViewWrapper(make_ds("tensor"), configs=[(2, T.KDComposeTransform([rand_t(), T.KDImageRangeNorm(inplace=False)])), (1, rand_t())], seed=seed)
    elif kind == "xt-over-subset":
        w = XTransformWrapper(SubsetWrapper(make_ds("tensor"), indices=[4, 2, 0, 5]), transform=rand_t(), seed=seed)
    else:
        w = TargetTransformWrapper(XTransformWrapper(make_ds("tensor"), transform=[rand_t()], seed=seed + 3),
                                   transform=[T.KDAdditiveGaussianNoise(std=0.3)], seed=seed)
    return w, "+".join(names)


MULTI_LAYER = ("subset-over-xt", "xt-over-xt", "mix-over-xt", "xt-over-mix", "xt-over-xt-over-mix", "subset-over-xt-over-mix", "mix-over-xt-modes",
               "xt-over-semseg", "xt-over-multiview", "tt-over-xt",
               "xt-user-holder")     # (a user-defined transform class has no row in the generated table: behavioural oracle only)
ATOMIC_ITEMS = ("x", "class", "semseg", "y", "target", "source")
FUSED = {"xclass": [("x", "class")], "xsemseg": [("x", "semseg")]}


def observations(items):
    """what is requested from a stack: the item getters themselves and -- the property's observation point -- ModeWrapper(stack, mode)[i] for
    modes built from the atomic items (each alone, all of them in both orders, with a leading index): a mode decides which (fused) getter of the
    stack is taken"""
    atoms = [it for it in items if it in ATOMIC_ITEMS]
    for it in items:
        for a, b in FUSED.get(it, ()):
            atoms += [x for x in (a, b) if x not in atoms]
    modes = []
    for m in [atoms[0]] + ([" ".join(atoms), " ".join(reversed(atoms)), "index " + " ".join(atoms)] if len(atoms) > 1 else ["index " + atoms[0]]):
        if m not in modes:
            modes.append(m)
    return list(items) + [f"mode:{m}" for m in modes]


def get_item(w, item, i, mw=None):
    """one observation of the stack `w` at index i. `mode:<m>` = ModeWrapper(w, m)[i]; exceptions of this path (e.g. the assertion that an outer
    wrapper implements the fused getter) are outcomes to be compared, not judged. `mw` caches the ModeWrappers of one stack object"""
    if not item.startswith("mode:"):
        return getattr(w, f"getitem_{item}")(i)
    from kappadata.wrappers.mode_wrapper import ModeWrapper
    mode = item[len("mode:"):]
    try:
        if mw is None:
            m = ModeWrapper(w, mode=mode)
        else:
            if mode not in mw:
                mw[mode] = ModeWrapper(w, mode=mode)
            m = mw[mode]
        return m[i]
    except (AssertionError, NotImplementedError, AttributeError) as e:
        return ("EXC", type(e).__name__)


# ----------------------------------------------------------------------------------------------
# object graphs of the dataset layer
# ----------------------------------------------------------------------------------------------
def _public_slot(obj, attr, v):
    """a private backing attribute of a property (`_transform` behind `transform`) is the slot `transform`"""
    if attr.startswith("_"):
        pub = attr.lstrip("_")
        try:
            if isinstance(getattr(type(obj), pub, None), property) and getattr(obj, pub) is v:
                return pub
        except Exception:  # noqa
            pass
    return attr


def layer_kids(obj):
    """[(slot, transform)] held by a dataset layer: direct attrs, lists, configs with .transform; alias lists win over their members"""
    return [(_public_slot(obj, a, vars(obj).get(a)), t) for a, t in _layer_kids_raw(obj)]


def _layer_kids_raw(obj):
    bases = kd_bases()
    out = []
    listed = set()
    for attr, v in vars(obj).items():
        if attr in ("dataset", "datasets", "_collators", "shared_dict", "logger"):
            continue
        if isinstance(v, (list, tuple)):
            for e in v:
                if isinstance(e, bases):
                    out.append((attr, e))
                    listed.add(id(e))
                elif hasattr(e, "transform") and hasattr(e, "n_views"):
                    out.append((attr, e.transform))
                    listed.add(id(e.transform))
    for attr, v in vars(obj).items():
        if attr in ("dataset", "datasets", "_collators", "shared_dict", "logger"):
            continue
        if isinstance(v, bases) and id(v) not in listed:
            out.append((attr, v))
    return out


def ds_tree(obj, cellmap, rename=None):
    from torch.utils.data import ConcatDataset
    from kappadata.datasets.kd_wrapper import KDWrapper
    from kappadata.datasets.kd_subset import KDSubset
    from kappadata.wrappers.mode_wrapper import ModeWrapper
    name = type(obj).__name__
    if name.startswith("_") and name[1:] in ("XDs",):
        name = "KDDataset"
    kids = [[s, to_tree(t, cellmap)] for s, t in layer_kids(obj)]
    if isinstance(obj, ConcatDataset):
        return {"k": "multi", "cls": name, "parts": [ds_tree(d, cellmap) for d in obj.datasets]}
    from kappadata.caching.cached_dataset import CachedDataset
    if isinstance(obj, (KDWrapper, KDSubset, ModeWrapper, CachedDataset)):
        return {"k": "wrap", "cls": name, "kids": kids, "inner": ds_tree(obj.dataset, cellmap)}
    cols = [["collators", to_tree(c, cellmap)] for c in (vars(obj).get("_collators") or [])]
    return {"k": "root", "cls": name, "kids": kids, "cols": cols}


def all_cells(obj, acc=None):
    """every np Generator reachable from a dataset stack (object identity)"""
    from torch.utils.data import ConcatDataset
    acc = [] if acc is None else acc
    bases = kd_bases()

    def walk_t(t):
        if not isinstance(t, bases):
            return
        r = vars(t).get("rng")
        if isinstance(r, np.random.Generator):
            acc.append(r)
        for _, c in children(t):
            walk_t(c)

    for _, t in layer_kids(obj):
        walk_t(t)
    for c in (vars(obj).get("_collators") or []):
        walk_t(c)
    if isinstance(obj, ConcatDataset):
        for d in obj.datasets:
            all_cells(d, acc)
    elif "dataset" in vars(obj) and hasattr(obj.dataset, "worker_init_fn"):
        all_cells(obj.dataset, acc)
    return acc


class RecordDefaultRng:
    """patches np.random.default_rng to record (generator object -> seed)"""

    def __init__(self):
        self.created = []
        self._orig = np.random.default_rng

    def __call__(self, seed=None):
        g = self._orig(seed)
        self.created.append((g, seed))
        return g

    def __enter__(self):
        self._p = mock.patch.object(np.random, "default_rng", self)
        self._p.start()
        return self

    def __exit__(self, *a):
        self._p.stop()


def retree_cells(tree, cellmap_after):
    return tree


# ----------------------------------------------------------------------------------------------
class C08(PropertyCheck):
    pid = "C08"
    claimed = True
    props_modules = ["KDVerif.Props.C08"]
    extra_build = ["KDVerif.Driver.SeedFlow"]
    driver_main = "mains/SeedFlow.lean"
    design_ref = "DESIGN.md 3 (C07/C08/C09)"
    technique = "Lean 4 proof over tables regenerated from source (translator) + dynamic probe + behavioural oracle"
    anchored = ["kappadata/wrappers/sample_wrappers/base/transform_wrapper_base.py", "kappadata/wrappers/sample_wrappers/x_transform_wrapper.py",
                "kappadata/wrappers/sample_wrappers/kd_multi_view_wrapper.py", "kappadata/wrappers/sample_wrappers/kd_mix_wrapper.py",
                "kappadata/wrappers/sample_wrappers/semseg_transform_wrapper.py",
                "kappadata/common/wrappers/sample_wrappers/mugs_multi_view_wrapper.py"]
    assumptions = ["np.random.default_rng(seed) is a function of the seed; different seeds give unrelated streams",
                   "wrapped datasets return fresh objects per request (in-place aliasing of a dataset's stored tensors is outside the claim)",
                   "per-class purity of transforms (checked dynamically in C07)"]
    trusted_extra = ["translators harness/kdv/translate_wrappers.py and translate_rngflow.py, cross-checked by the dynamic probe each run",
                     "modelled: seed injection of every seeded wrapper class; not modelled: what the transforms compute"]
    level_text = ("Lean theorem seeded_getitem_pure: for every seeded wrapper class (table regenerated from /repo), any transform composition, any seed/idx and "
                  "ANY pre-state of the generator cells (= any history, order, worker), every cell a request can draw from is default_rng(seed+idx); "
                  "obligation seed_rows_ok re-proved on the regenerated table; real wrappers probed (created generators, cells after a request) and a "
                  "behavioural oracle replays permuted/repeated access orders under scrambled global RNG state (thorough: DataLoader workers 0-3).")
    level_note = "numpy stream contract and transform purity are assumptions; KDMixWrapper cutmix is NotImplemented in the code"

    def generate(self):
        rows, errors, changed = tr.generate()
        wrows, werrors, wchanged = tw.generate()
        self.wrows = wrows
        self.problems = tw.seed_problems(wrows)
        return {"transform_rows": len(rows), "wrapper_rows": len(wrows), "changed": [changed, wchanged],
                "translator_notes": [f"{a}: {b}" for a, b in errors + werrors], "rows_failing_obligation": self.problems}

    # -- behavioural oracle -----------------------------------------------------------------
    def oracle(self, label, build, items, seed, n_access=14, rng=None, order_key=None):
        """fresh-instance reference (one new stack per index and observation: no history at all) vs. one long-lived stack object that is
        requested in a random order with repeats, through every item getter and every mode, under scrambled global state, while
        * a second stack of the same recipe with ANOTHER seed is alive and served in between (state shared between instances),
        * the object is once replaced by a deep copy of itself (what a dataloader worker gets: a copy of a used object),
        * the object is once initialised like a dataloader worker (its transforms get generators from the global state)"""
        order_key = order_key if order_key is not None else f"replay:{label}:{seed}"
        rng = rng or pyrandom.Random(order_key)
        key_in = {"recipe": label, "seed": seed, "order_key": order_key, "n_access": n_access}
        obs = observations(items)
        try:
            scramble(21)
            ref_w = build(seed)
            n = len(ref_w)
            ref = {}
            for i in range(n):
                scramble(300 + i)
                w = build(seed)          # fresh instance per index: no history at all
                ref[i] = {}
                for k, it in enumerate(obs):
                    if it.startswith("mode:"):
                        scramble(340 + 10 * i + k)
                        w = build(seed)
                    ref[i][it] = canon(get_item(w, it, i))
        except Exception as e:
            return Failure(f"seeded:{label}:exception", f"seeded wrapper recipe {label} raises {type(e).__name__}: {e}", key_in, "no exception", str(e))
        try:
            scramble(22)
            w = build(seed)
            scramble(23)
            other = build(seed + 1)
        except Exception as e:
            return Failure(f"seeded:{label}:exception", f"seeded wrapper recipe {label} raises {type(e).__name__}: {e}", key_in, "no exception", str(e))
        mw, mw_other = {}, {}
        order = [rng.randrange(n) for _ in range(n_access)] + list(range(n - 1, -1, -1))
        obs_order = [obs[rng.randrange(len(obs))] if step >= len(obs) else obs[step] for step in range(len(order))]
        for step, i in enumerate(order):
            scramble(500 + step)
            hist = ""
            if step == n_access // 2 and "scheduled" not in label:
                # history: after some reads in the main process the same object is initialised as a dataloader worker would
                # (its transforms get fresh generators from the global state) -- a seeded request must not notice
                # (scheduled: once a worker is initialised the strength follows the schedule by design, C15)
                try:
                    w.worker_init_fn(0, batch_size=2, updates=10)
                except Exception as e:
                    return Failure(f"seeded:{label}:exception", f"{label}: worker_init_fn raises {type(e).__name__}: {e}", key_in, "no exception", str(e))
                scramble(900 + step)
            if step == n_access // 3:
                # history: a copy of the used object continues (fork / pickle into a dataloader worker)
                try:
                    w = copy.deepcopy(w)
                    mw = {}
                except Exception as e:
                    return Failure(f"seeded:{label}:exception", f"{label}: deepcopy of a used stack raises {type(e).__name__}: {e}", key_in,
                                   "no exception", str(e))
                hist = " (on a deep copy of the used stack)"
            it = obs_order[step]
            if step % 3 == 1:
                # a live sibling with another seed is served in between
                try:
                    get_item(other, it, order[(step * 7 + 3) % len(order)], mw_other)
                except Exception as e:
                    return Failure(f"seeded:{label}:exception", f"{label}: getitem on a second instance raises {type(e).__name__}: {e}", key_in,
                                   "no exception", str(e))
                scramble(700 + step)
            before = global_state()
            try:
                got = canon(get_item(w, it, i, mw))
            except Exception as e:
                return Failure(f"seeded:{label}:history", f"{label}: {it}({i}) after access history {order[:step]} raises {type(e).__name__}: {e} "
                               f"while a fresh request does not (seed={seed})", dict(key_in, order=order[:step + 1], item=it),
                               "value of a fresh request", f"{type(e).__name__}: {e}")
            after = global_state()
            if got != ref[i][it]:
                return Failure(f"seeded:{label}:history", f"{label}: {it}({i}) after access history {order[:step]} differs from a fresh request "
                               f"(seed={seed}){hist}", dict(key_in, order=order[:step + 1], item=it), "value of a fresh request", "differs")
            if before != after:
                return Failure(f"seeded:{label}:global", f"{label}: {it}({i}) consumes / depends on the process-global RNG state although a seed is set",
                               dict(key_in, order=order[:step + 1], item=it), "global state untouched", "changed")
        return None

    def dataloader_oracle(self, label, build, items, seed):
        from torch.utils.data import DataLoader
        from kappadata.wrappers.mode_wrapper import ModeWrapper
        key_in = {"recipe": label, "seed": seed, "dataloader": True}
        # all atomic items in one mode (the fused getters are taken); where ModeWrapper rejects that mode by design: the first item alone
        mode = observations(items)[-1][len("mode:index "):]
        try:
            ModeWrapper(build(seed), mode=mode)
        except AssertionError:
            mode = mode.split(" ")[0]
            try:
                ModeWrapper(build(seed), mode=mode)
            except AssertionError:
                return None     # a stack ModeWrapper does not accept in any mode (dataset wrapper above a fused-operation wrapper)
        key_in["mode"] = mode
        ref = None
        for nw in (0, 1, 2, 3):
            scramble(40 + nw)
            ds = ModeWrapper(build(seed), mode=mode)
            out = {}
            for epoch in range(2):
                dl2 = DataLoader(ModeWrapper(ds.dataset, mode="index " + mode), batch_size=1, num_workers=nw, shuffle=(nw % 2 == 1),
                                 worker_init_fn=lambda wid: ds.worker_init_fn(wid, batch_size=1, updates=100),
                                 collate_fn=lambda b: b[0])
                for idx, *val in dl2:
                    c = canon(val)
                    if idx in out and out[idx] != c:
                        return Failure(f"seeded:{label}:dataloader", f"{label}: index {idx} differs between epochs with num_workers={nw}", key_in, None, None)
                    out[idx] = c
            if ref is None:
                ref = out
            elif ref != out:
                return Failure(f"seeded:{label}:dataloader", f"{label}: values with num_workers={nw} differ from num_workers=0", key_in, None, None)
        return None

    def correspond(self):
        res = CorrResult()
        res.rule = ("per (wrapper recipe, seed): structural probe of one request (generators created, cells after the request vs model seededGetitem) + "
                    "behavioural oracle (fresh-instance reference vs random access order with repeats under scrambled global state); "
                    "distinct = (recipe, seed, item, tree shape)")
        # seed 0 is always included: `if self.seed:` style truthiness slips treat it as "no seed"
        seeds = [0, 3 + self.seed] if self.tier == "quick" else [0] + [3 + self.seed + 7 * k for k in range(4)]
        R = wrapper_recipes([f"{self.seed}-{k}" for k in range(6 if self.tier == "quick" else 30)])
        reqs, metas = [], []
        for label, build, items in R:
            if label in MULTI_LAYER or label.startswith("random:"):
                continue   # several seeded layers in one stack: covered by the behavioural oracle only
            for sd in seeds[1:2]:
                try:
                    scramble(31)
                    w = build(sd)
                    idx = 2
                    cellmap = {}
                    kids_before = [[s, to_tree(t, cellmap)] for s, t in layer_kids(w)]
                    # shift construction ids so that they cannot collide with seeds
                    def shift(t):
                        if t is None:
                            return None
                        return {"cls": t["cls"], "cell": (t["cell"] + OLD) if t["cell"] else 0, "kids": [[s, shift(c)] for s, c in t["kids"]]}
                    kids_before = [[s, shift(t)] for s, t in kids_before]
                    with RecordDefaultRng() as rec:
                        get_item(w, items[-1], idx)
                    seeds_created = [s for _, s in rec.created]
                    gen2seed = {id(g): s for g, s in rec.created}
                    cm_after = {}
                    for gid, cid in cellmap.items():
                        cm_after[gid] = cid + OLD
                    for gid, s in gen2seed.items():
                        cm_after[gid] = s if s is not None else -1
                    kids_after = [[s, to_tree(t, dict(cm_after))] for s, t in layer_kids(w)]
                    reqs.append({"op": "sf.getitem", "cls": type(w).__name__, "seed": sd, "idx": idx, "kids": kids_before})
                    metas.append((label, sd, idx, kids_after, seeds_created, type(w).__name__))
                except Exception as e:
                    res.observations.append(f"structural probe of {label} raised {type(e).__name__}: {e}")
        answers = self.driver.run(reqs)
        for (label, sd, idx, kids_after, seeds_created, cls), ans in zip(metas, answers):
            res.cases += 1
            res.bump("structural")
            res.nontrivial.add((label, "structural", json.dumps(kids_after)[:150]))
            case = {"recipe": label, "class": cls, "seed": sd, "idx": idx, "probe": "structural"}
            if ans.get("row") is None:
                res.disagreements.append(Disagreement(case, "no seed row for this class in the generated table", cls, "translator missed a seeded wrapper"))
                continue
            if not ans["conforms"]:
                res.disagreements.append(Disagreement(case, "kids do not conform to the transform table", kids_after))
            if ans["after"] != kids_after:
                res.disagreements.append(Disagreement(case, ans["after"], kids_after, "cells after one seeded request differ from the model"))
            if any(s != sd + idx for s in seeds_created):
                res.disagreements.append(Disagreement(case, [sd + idx], seeds_created, "generators created during the request are not default_rng(seed+idx)"))
            if len(res.samples) < 3:
                res.samples.append({"recipe": label, "class": cls, "seed": sd, "idx": idx, "cells_after_request": kids_after,
                                    "generators_created": seeds_created})
        t0 = time.time()
        for label, build, items in R:
            for sd in seeds:
                res.cases += 1
                res.bump("behavioural")
                res.nontrivial.add((label, sd, tuple(items)))
                f = self.oracle(label, build, items, sd, order_key=f"{self.seed}:{label}:{sd}")
                if f is not None and not any(g.key == f.key for g in res.failures):
                    res.failures.append(f)
        if self.tier == "thorough":
            for label, build, items in R:
                if label == "mugs" or "scheduled" in label:
                    # mugs: heavy; scheduled: once a worker is initialised the strength follows the schedule by design
                    # (C15), i.e. the value is a function of (data, config, seed, i, schedule position)
                    continue
                res.cases += 1
                res.bump("dataloader")
                try:
                    f = self.dataloader_oracle(label, build, items, seeds[0])
                except Exception as e:
                    res.observations.append(f"dataloader leg for {label} raised {type(e).__name__}: {e}")
                    f = None
                if f is not None:
                    res.failures.append(f)
        res.histogram["behavioural_s"] = round(time.time() - t0, 1)
        return res

    def search(self, budget_s, hints):
        out = []
        t0 = time.time()
        for label, build, items in wrapper_recipes([f"search-{k}" for k in range(10)]):
            for sd in (0, 1, 5):
                if time.time() - t0 > budget_s:
                    return out
                f = self.oracle(label, build, items, sd, n_access=25)
                if f:
                    out.append(f)
                    break
        return out

    def replay_input(self, inp):
        label = inp.get("recipe") or ""
        keys = [label.split(":")[1]] if label.startswith("random:") and label.count(":") >= 2 else None
        for label, build, items in wrapper_recipes(keys):
            if label == inp.get("recipe"):
                return self.oracle(label, build, items, inp.get("seed", 1), n_access=inp.get("n_access", 25), order_key=inp.get("order_key"))
        return None


# ----------------------------------------------------------------------------------------------
# C09
# ----------------------------------------------------------------------------------------------
def stack_recipes(random_keys=None):
    import kappadata.transforms as T
    import kappadata.collators as C
    from kappadata.datasets.kd_concat_dataset import KDConcatDataset
    from kappadata.datasets.kd_subset import KDSubset
    from kappadata.wrappers import XTransformWrapper, KDMultiViewWrapper, SemsegTransformWrapper, ModeWrapper
    from kappadata.wrappers.dataset_wrappers.subset_wrapper import SubsetWrapper
    from kappadata.common.wrappers.sample_wrappers.mugs_multi_view_wrapper import MUGSMultiViewWrapper
    from kappadata.samplers.interleaved_sampler import _InterleavedConcatDataset
    R = []

    def nested():
        return T.KDComposeTransform([
            T.KDRandomCrop(size=12, padding=2),
            T.KDRandomApply(transform=T.KDComposeTransform([T.KDRandomResizedCrop(size=12, scale=(0.5, 1.0))]), p=0.6),
            T.KDScheduledTransform(transform=[T.KDColorJitter(0.4, 0.4, 0.2, 0.1), T.KDRandomThreshold(threshold=0.3, threshold_std=0.1, p=0.5)]),
            T.PatchwiseTransform(patch_size=4, transform=T.KDRandomAdditiveGaussianNoise(std=0.1, p=0.5))])

    def cols():
        return [C.KDMixCollator(mixup_alpha=0.8, mixup_p=1.0, dataset_mode="x class", return_ctx=False)]

    R.append(("mode-xt-root", lambda: ModeWrapper(XTransformWrapper(make_ds("tensor", collators=cols()), transform=nested()), mode="x")))
    R.append(("mode-multiview-subset-root", lambda: ModeWrapper(KDMultiViewWrapper(
        SubsetWrapper(make_ds("tensor", collators=cols()), indices=[0, 2, 4]),
        configs=[(2, T.KDRandomResizedCrop(size=8)), (1, nested())]), mode="x")))
    R.append(("concat", lambda: ModeWrapper(KDSubset(KDConcatDataset([
        XTransformWrapper(make_ds("tensor"), transform=T.KDRandomCrop(size=8)),
        XTransformWrapper(XTransformWrapper(make_ds("tensor"), transform=nested()), transform=T.KDRandomResizedCrop(size=8)),
    ]), indices=[0, 1, 7, 8]), mode="x")))
    R.append(("semseg", lambda: ModeWrapper(SemsegTransformWrapper(make_ds("tensor"), transforms=[
        T.KDSemsegRandomResize(base_size=(16, 16), ratio=(0.5, 2.0)), T.KDSemsegRandomHorizontalFlip(), T.KDColorJitter(0.4, 0.4, 0.2, 0.1)]), mode="x semseg")))
    R.append(("mugs", lambda: ModeWrapper(MUGSMultiViewWrapper(make_ds("pil"), global_size=16, local_size=8, num_local_crops=2), mode="x")))
    from kappadata.caching.shared_dict_dataset import SharedDictDataset
    R.append(("cached", lambda: SharedDictDataset(ModeWrapper(XTransformWrapper(make_ds("tensor", collators=cols()), transform=T.KDRandomCrop(size=12)),
                                                              mode="x"), transform=nested())))
    R.append(("interleaved-concat", lambda: _InterleavedConcatDataset([
        ModeWrapper(XTransformWrapper(make_ds("tensor", collators=cols()), transform=nested()), mode="x"),
        ModeWrapper(XTransformWrapper(make_ds("tensor"), transform=T.KDRandomCrop(size=8)), mode="x")])))

    # -- every composite transform kind at the TOP of every transform slot of the dataset layer (not only nested inside a compose)
    for tname, tt in top_level_transforms().items():
        R.append((f"xt-top:{tname}", lambda tt=tt: ModeWrapper(XTransformWrapper(make_ds("tensor", collators=cols()), transform=tt()), mode="x")))
        R.append((f"multiview-top:{tname}", lambda tt=tt: ModeWrapper(KDMultiViewWrapper(
            make_ds("tensor"), configs=[(1, tt()), (2, T.KDRandomApply(transform=tt(), p=0.5))]), mode="x")))
    R.append(("semseg-top:scheduled", lambda: ModeWrapper(SemsegTransformWrapper(make_ds("tensor"), transforms=[
        T.KDSemsegRandomHorizontalFlip(), top_level_transforms()["scheduled"](), top_level_transforms()["compose-of-scheduled"]()]), mode="x semseg")))
    R.append(("cached-top:scheduled", lambda: SharedDictDataset(
        ModeWrapper(XTransformWrapper(make_ds("tensor"), transform=top_level_transforms()["scheduled-compose"]()), mode="x"),
        transform=top_level_transforms()["scheduled"]())))

    # -- one object used by two users: stacks that share a root / a whole stack / a transform object
    def interleaved(main, *others):
        from torch.utils.data import SequentialSampler
        from kappadata.samplers.interleaved_sampler import InterleavedSampler, InterleavedSamplerConfig
        return InterleavedSampler(main_sampler=SequentialSampler(main), batch_size=2, epochs=1, configs=[
            InterleavedSamplerConfig(sampler=SequentialSampler(o), every_n_updates=1) for o in others]).dataset

    def shared_root_interleaved(with_cols):
        root = make_ds("tensor", collators=cols() if with_cols else None)
        return interleaved(ModeWrapper(XTransformWrapper(root, transform=T.KDRandomCrop(size=8)), mode="x"),
                           ModeWrapper(XTransformWrapper(root, transform=nested()), mode="x"),
                           ModeWrapper(KDMultiViewWrapper(root, configs=[(2, T.KDRandomResizedCrop(size=8))]), mode="x"))
    R.append(("interleaved-shared-root", lambda: shared_root_interleaved(False)))
    R.append(("interleaved-shared-root-collators", lambda: shared_root_interleaved(True)))

    def same_stack_two_modes():
        st = XTransformWrapper(make_ds("tensor"), transform=nested())
        return interleaved(ModeWrapper(st, mode="x"), ModeWrapper(st, mode="x class"))
    R.append(("interleaved-same-stack", same_stack_two_modes))

    def shared_root_concat():
        root = make_ds("tensor")
        return ModeWrapper(KDConcatDataset([
            XTransformWrapper(root, transform=T.KDRandomCrop(size=8)),
            XTransformWrapper(SubsetWrapper(root, indices=[1, 3]), transform=nested())]), mode="x")
    R.append(("concat-shared-root", shared_root_concat))

    def shared_transform_object():
        t = nested()
        return ModeWrapper(KDConcatDataset([XTransformWrapper(make_ds("tensor"), transform=t),
                                            KDMultiViewWrapper(make_ds("tensor"), configs=[(1, T.KDRandomCrop(size=8))]),
                                            XTransformWrapper(make_ds("tensor"), transform=t)]), mode="x")
    R.append(("concat-shared-transform", shared_transform_object))
    for key in (random_keys or []):
        R.append((f"random:{key}", lambda key=key: random_stack(pyrandom.Random(key))[0]))
    return R


# shared objects are visited (and re-seeded) once per user: the tree-shaped model does not describe that -- behavioural oracle only
NO_STRUCTURAL = ("interleaved-shared-root-collators", "interleaved-same-stack", "concat-shared-transform")


def top_level_transforms():
    import kappadata.transforms as T
    from kappadata.transforms.kd_transform_choice import KDTransformChoice
    return {
        "scheduled": lambda: T.KDScheduledTransform(transform=T.KDColorJitter(0.4, 0.4, 0.2, 0.1)),
        "scheduled-compose": lambda: T.KDScheduledTransform(transform=[
            T.KDRandomCrop(size=16, padding=2), T.KDRandomApply(transform=T.KDRandomGaussianBlurTV(kernel_size=3, sigma=(0.1, 2.0), p=0.5), p=0.7)]),
        "compose-of-scheduled": lambda: T.KDComposeTransform([
            T.KDScheduledTransform(transform=T.KDRandomThreshold(threshold=0.3, threshold_std=0.1, p=0.5)),
            T.KDScheduledTransform(transform=[T.KDColorJitter(0.4, 0.4, 0.2, 0.1)])]),
        "apply": lambda: T.KDRandomApply(transform=T.KDComposeTransform([T.KDRandomCrop(size=16, padding=2)]), p=0.6),
        "patchwise": lambda: T.PatchwiseTransform(patch_size=8, transform=[T.KDRandomHorizontalFlip(), T.KDRandomCrop(size=8, padding=1)]),
        "choice": lambda: KDTransformChoice(transforms=[T.KDRandomCrop(size=16, padding=2), T.KDScheduledTransform(
            transform=T.KDRandomAdditiveGaussianNoise(std=0.1, p=0.5))]),
    }


def random_stack(rng):
    """random dataset stack: random transform compositions (rngflow.random_composition) in every slot of random dataset layers, combined by the
    multi-dataset layers, with or without shared roots. Returns (stack, structural_ok)"""
    import kappadata.transforms as T
    import kappadata.collators as C
    from torch.utils.data import SequentialSampler
    from kappadata.datasets.kd_concat_dataset import KDConcatDataset
    from kappadata.datasets.kd_subset import KDSubset
    from kappadata.wrappers import XTransformWrapper, KDMultiViewWrapper, SemsegTransformWrapper, ModeWrapper
    from kappadata.wrappers.dataset_wrappers.subset_wrapper import SubsetWrapper
    from kappadata.samplers.interleaved_sampler import InterleavedSampler, InterleavedSamplerConfig
    from .rngflow import random_composition

    def rand_t():
        return random_composition(rng, rng.randint(0, 3))[1]

    with_cols = []

    def root():
        cs = [C.KDMixCollator(mixup_alpha=0.8, mixup_p=1.0, dataset_mode="x class", return_ctx=False)] if rng.random() < 0.4 else None
        with_cols.append(cs is not None)
        return make_ds("tensor", collators=cs)

    def layers(st, semseg_ok=True):
        if rng.random() < 0.3:
            st = SubsetWrapper(st, indices=[0, 2, 4, 5])
        # (a fused-operation wrapper below KDConcatDataset/KDSubset is rejected by ModeWrapper by design)
        kind = rng.choice(["xt", "xt", "xt-xt", "multiview"] + (["semseg"] if semseg_ok else []))
        if kind == "xt":
            return XTransformWrapper(st, transform=rand_t())
        if kind == "xt-xt":
            return XTransformWrapper(XTransformWrapper(st, transform=rand_t()), transform=[rand_t(), rand_t()])
        if kind == "multiview":
            return KDMultiViewWrapper(st, configs=[(rng.randint(1, 2), rand_t()) for _ in range(rng.randint(1, 3))])
        return SemsegTransformWrapper(st, transforms=[T.KDSemsegRandomHorizontalFlip(), rand_t()])

    shape = rng.choice(["single", "concat", "concat-shared", "interleaved", "interleaved-shared"])
    if shape == "single":
        return ModeWrapper(layers(root()), mode="x"), True
    r1 = root()
    r2 = r1 if shape.endswith("shared") else root()
    shared_cells = shape.endswith("shared") and with_cols[0]
    a, b = layers(r1, not shape.startswith("concat")), layers(r2, not shape.startswith("concat"))
    if shape.startswith("concat"):
        return ModeWrapper(KDSubset(KDConcatDataset([a, b]), indices=[0, 1, len(a), len(a) + 1]), mode="x"), not shared_cells
    a, b = ModeWrapper(a, mode="x"), ModeWrapper(b, mode="x")
    return InterleavedSampler(main_sampler=SequentialSampler(a), batch_size=2, epochs=1, configs=[
        InterleavedSamplerConfig(sampler=SequentialSampler(b), every_n_updates=1)]).dataset, not shared_cells


WI_KW = dict(batch_size=2, updates=10)


def patch_get_rng(counter_holder):
    """patch every kappadata module-level name get_rng_from_global so that the k-th derived generator is recorded"""
    import kappadata.utils.random as kr
    orig = kr.get_rng_from_global
    made = counter_holder

    def rec():
        g = orig()
        made.append(g)
        return g
    patches = []
    for name, mod in list(sys.modules.items()):
        if name.startswith("kappadata") and mod is not None and getattr(mod, "get_rng_from_global", None) is orig:
            p = mock.patch.object(mod, "get_rng_from_global", rec)
            p.start()
            patches.append(p)
    return patches


def fingerprint(g, n=8):
    return tuple(copy.deepcopy(g).random(n).tolist())


def simulate_worker(build_or_obj, ws, rank, num_workers=None, kw=None):
    """what torch does in a dataloader worker: a copy of the dataset, the global RNGs seeded with the worker seed, then the hook.
    `num_workers`: what torch.utils.data.get_worker_info() reports inside the worker (None = hook called in the main process)"""
    import types
    import kappadata.transforms.base.kd_transform as kdt
    kw = WI_KW if kw is None else kw
    st = copy.deepcopy(build_or_obj)
    np.random.seed(ws)
    torch.manual_seed(ws)
    if num_workers is None:
        st.worker_init_fn(rank, **kw)
    else:
        info = types.SimpleNamespace(id=rank, num_workers=num_workers, seed=ws, dataset=st)
        patches = [mock.patch.object(kdt, "get_worker_info", lambda: info)]
        import torch.utils.data as tud
        patches.append(mock.patch.object(tud, "get_worker_info", lambda: info))
        for p_ in patches:
            p_.start()
        try:
            st.worker_init_fn(rank, **kw)
        finally:
            for p_ in patches:
                p_.stop()
    return st


# ----------------------------------------------------------------------------------------------
# black-box stream observation: probe leaves that append every random decision to the sample
# ----------------------------------------------------------------------------------------------
STREAM_KW = dict(batch_size=2, updates=1000)


def probe_leaves():
    from kappadata.transforms.base.kd_stochastic_transform import KDStochasticTransform
    from kappadata.transforms.base.kd_transform import KDTransform

    class Draw(KDStochasticTransform):
        """one random decision per call, appended to the sample: the member's whole stream is visible in the dataset's output"""

        def __call__(self, x, ctx=None):
            return torch.concat([x, torch.tensor([self.rng.random()], dtype=torch.float64)])

    class Tag(KDTransform):
        """deterministic member (holds no generator)"""

        def __call__(self, x, ctx=None):
            return torch.concat([x, torch.tensor([-1.0], dtype=torch.float64)])

    return Draw, Tag


def probe_composition(rng, depth):
    """random nesting of the composite transforms over probe leaves; returns (name, transform)"""
    import kappadata.transforms as T
    from kappadata.transforms.kd_transform_choice import KDTransformChoice
    Draw, Tag = probe_leaves()

    def go(d):
        if d == 0 or rng.random() < 0.25:
            return ("draw", Draw()) if rng.random() < 0.8 else ("tag", Tag())
        kind = rng.choice(["compose", "list", "apply", "scheduled", "choice"])
        if kind in ("compose", "list"):
            kids = [go(d - 1) for _ in range(rng.randint(1, 3))]
            name = "compose[" + ",".join(k[0] for k in kids) + "]"
            return name, T.KDComposeTransform([k[1] for k in kids])
        if kind == "apply":
            n, t = go(d - 1)
            pa = rng.choice([0.7, 1.0, 1.0])
            return f"apply{pa}({n})", T.KDRandomApply(transform=t, p=pa)
        if kind == "scheduled":
            n, t = go(d - 1)
            return f"scheduled({n})", T.KDScheduledTransform(transform=t)
        kids = [go(d - 1) for _ in range(2)]
        return "choice[" + ",".join(k[0] for k in kids) + "]", KDTransformChoice(transforms=[k[1] for k in kids])

    return go(depth)


def probe_stack(rng, shape=None, top=None):
    """dataset stack over a root that returns an empty vector; every stochastic member is a probe leaf. Returns (description, stack)"""
    from torch.utils.data import SequentialSampler
    from kappadata.datasets.kd_dataset import KDDataset
    from kappadata.datasets.kd_concat_dataset import KDConcatDataset
    from kappadata.datasets.kd_subset import KDSubset
    from kappadata.wrappers import XTransformWrapper, KDMultiViewWrapper, ModeWrapper
    from kappadata.wrappers.dataset_wrappers.subset_wrapper import SubsetWrapper
    from kappadata.samplers.interleaved_sampler import InterleavedSampler, InterleavedSamplerConfig
    import kappadata.transforms as T
    Draw, Tag = probe_leaves()

    class _ZeroDs(KDDataset):
        def getitem_x(self, idx, ctx=None):
            return torch.zeros(0, dtype=torch.float64)

        def __len__(self):
            return 4

    names = []

    def comp(depth):
        for _ in range(20):
            n, t = probe_composition(rng, depth)
            if "draw" in n:
                break
        return n, t

    def rand_t():
        if top == "scheduled":
            n, t = comp(rng.randint(0, 2))
            n, t = f"scheduled({n})", T.KDScheduledTransform(transform=t)
        elif top == "compose-of-scheduled":
            kids = [comp(rng.randint(0, 1)) for _ in range(rng.randint(1, 2))]
            n = "compose[tag," + ",".join(f"scheduled({k[0]})" for k in kids) + "]"
            t = T.KDComposeTransform([Tag()] + [T.KDScheduledTransform(transform=k[1]) for k in kids])
        else:
            n, t = comp(rng.randint(0, 3))
        names.append(n)
        return t

    def layers(st):
        if rng.random() < 0.3:
            st = SubsetWrapper(st, indices=[0, 2, 3])
        kind = rng.choice(["xt", "xt", "xt-xt", "multiview"])
        names.append(kind)
        if kind == "xt":
            return XTransformWrapper(st, transform=rand_t())
        if kind == "xt-xt":
            return XTransformWrapper(XTransformWrapper(st, transform=rand_t()), transform=rand_t())
        return KDMultiViewWrapper(st, configs=[(rng.randint(1, 2), rand_t()) for _ in range(rng.randint(1, 2))])

    shape = shape or rng.choice(["single", "concat", "concat-shared", "interleaved", "interleaved-shared", "interleaved-same-stack"])
    names.append(shape)
    if shape == "single":
        st = ModeWrapper(layers(_ZeroDs()), mode="x")
    else:
        r1 = _ZeroDs()
        r2 = r1 if shape.endswith("shared") else _ZeroDs()
        a = layers(r1)
        b = a if shape == "interleaved-same-stack" else layers(r2)
        if shape.startswith("concat"):
            st = ModeWrapper(KDSubset(KDConcatDataset([a, b]), indices=list(range(len(a) + len(b)))[::-1]), mode="x")
        else:
            a, b = ModeWrapper(a, mode="x"), ModeWrapper(b, mode="x")
            st = InterleavedSampler(main_sampler=SequentialSampler(a), batch_size=2, epochs=1, configs=[
                InterleavedSamplerConfig(sampler=SequentialSampler(b), every_n_updates=1)]).dataset
    return " ".join(names), st


def decisions(sample):
    """all random decisions contained in a sample (tensors of any nesting; dataset indices and tags are not decisions)"""
    if torch.is_tensor(sample):
        return [v for v in sample.flatten().tolist() if v >= 0.0] if sample.dtype == torch.float64 else []
    if isinstance(sample, (list, tuple)):
        return [v for e in sample for v in decisions(e)]
    return []


def stream_of(st, passes=2):
    """the decisions drawn by each dataset of the stack: {dataset index (0 if the stack is one dataset): [decisions]}"""
    out = {}
    for _ in range(passes):
        for i in range(len(st)):
            sample = st[i]
            k = 0
            if isinstance(sample, tuple) and len(sample) == 2 and isinstance(sample[0], int):
                k, sample = sample     # the interleaved sampler's dataset reports which dataset a sample came from
            out.setdefault(int(k), []).extend(decisions(sample))
    return out


class C09(PropertyCheck):
    pid = "C09"
    claimed = True
    props_modules = ["KDVerif.Props.C09"]
    extra_build = ["KDVerif.Driver.SeedFlow"]
    driver_main = "mains/SeedFlow.lean"
    design_ref = "DESIGN.md 3 (C07/C08/C09)"
    technique = "Lean 4 proof over tables regenerated from source (translator) + dynamic probe + simulated/real worker oracle"
    anchored = ["kappadata/datasets/kd_dataset.py", "kappadata/datasets/kd_wrapper.py", "kappadata/datasets/kd_subset.py",
                "kappadata/datasets/kd_concat_dataset.py", "kappadata/wrappers/mode_wrapper.py", "kappadata/transforms/base/kd_transform.py",
                "kappadata/transforms/base/kd_compose_transform.py", "kappadata/wrappers/sample_wrappers/base/transform_wrapper_base.py",
                "kappadata/wrappers/sample_wrappers/kd_multi_view_wrapper.py", "kappadata/collators/base/kd_collator_base.py",
                "kappadata/samplers/interleaved_sampler.py", "kappadata/utils/random.py"]
    assumptions = ["torch seeds the process-global NumPy RNG differently in every dataloader worker (base_seed + worker_id)",
                   "generators derived from different global NumPy states (get_rng_from_global) have unrelated streams; equal states give equal streams",
                   "kappadata.caching datasets are part of the layer table since their worker_init_fn was repaired"]
    trusted_extra = ["translators harness/kdv/translate_wrappers.py and translate_rngflow.py, cross-checked by the dynamic probe each run",
                     "modelled: worker_init_fn chain of every dataset-layer class, KDTransform.worker_init_fn = set_rng(fresh); not modelled: torch worker seeding"]
    level_text = ("Lean theorem worker_init_reseeds_everything: for every dataset stack built from the tables regenerated from /repo (any depth/branching, any "
                  "transform composition, collators), after the worker_init_fn chain every reachable generator cell is one derived in this worker during this "
                  "initialisation; workers_disjoint as corollary; obligation layer_rows_ok re-proved on the regenerated table. Real stacks probed in simulated "
                  "workers (cells replaced as the model predicts; streams differ across worker seeds, equal for equal seeds); thorough: real DataLoader workers.")
    level_note = "independence of numpy streams for different seeds is a trusted contract; collision of two 31-bit derived seeds is not excluded by any theorem"

    def generate(self):
        rows, errors, changed = tr.generate()
        wrows, werrors, wchanged = tw.generate()
        self.problems = tw.init_problems(wrows)
        return {"transform_rows": len(rows), "layer_rows": len(wrows), "changed": [changed, wchanged],
                "translator_notes": [f"{a}: {b}" for a, b in errors + werrors], "rows_failing_obligation": self.problems}

    def oracle(self, label, build, ws_list, num_workers=None):
        key_in = {"recipe": label, "worker_seeds": ws_list, "num_workers": num_workers}
        try:
            scramble(51)
            parent = build()
        except Exception as e:
            return Failure(f"worker:{label}:exception", f"construction of stack {label} raises {type(e).__name__}: {e}", key_in, "no exception", str(e))
        f = self._oracle_round(label, parent, ws_list, num_workers, key_in, "")
        if f is not None:
            return f
        # history: the same dataset object was initialised in the main process before (a run with num_workers=0, or a manual call),
        # then workers are created from it -- each worker must still get its own stream derived from its seed
        try:
            np.random.seed(4242)
            torch.manual_seed(4242)
            parent.worker_init_fn(0, **WI_KW)
        except Exception as e:
            return Failure(f"worker:{label}:exception", f"worker init of stack {label} in the main process raises {type(e).__name__}: {e}", key_in,
                           "no exception", str(e))
        return self._oracle_round(label, parent, ws_list, num_workers, dict(key_in, after_main_process_init=True),
                                  " (dataset object initialised once in the main process before)")

    def _oracle_round(self, label, parent, ws_list, num_workers, key_in, hist):
        try:
            parent_cells = all_cells(parent)
            workers = []
            for r, ws in enumerate(ws_list):
                st = simulate_worker(parent, ws, r if num_workers is None else r % num_workers, num_workers)
                workers.append(st)
        except Exception as e:
            return Failure(f"worker:{label}:exception", f"worker init of stack {label} raises {type(e).__name__}: {e}{hist}", key_in, "no exception", str(e))
        parent_fp = {fingerprint(g) for g in parent_cells}
        fps = []
        for r, st in enumerate(workers):
            cells = all_cells(st)
            if len(cells) != len(parent_cells):
                return Failure(f"worker:{label}:shape", f"{label}: number of cells changed by worker init{hist}", key_in, len(parent_cells), len(cells))
            f = [fingerprint(g) for g in cells]
            for j, fp in enumerate(f):
                if fp in parent_fp:
                    return Failure(f"worker:{label}:stale-cell", f"{label}: after worker init (seed {ws_list[r]}) cell #{j} still replays the parent's "
                                   f"stream (not re-seeded in the worker){hist}", dict(key_in, cell=j), "re-seeded", "parent stream")
            fps.append(f)
        for a in range(len(workers)):
            for b in range(a + 1, len(workers)):
                same_seed = ws_list[a] == ws_list[b]
                if same_seed:
                    if fps[a] != fps[b]:
                        return Failure(f"worker:{label}:not-reproducible", f"{label}: equal worker seeds give different streams{hist}", key_in, "equal", "differ")
                else:
                    inter = set(fps[a]) & set(fps[b])
                    if inter:
                        return Failure(f"worker:{label}:shared-stream", f"{label}: workers with seeds {ws_list[a]} and {ws_list[b]} share a member stream{hist}",
                                       key_in, "disjoint", "shared")
        return None

    def wrapper_stream_oracle(self):
        """dataset layers that draw themselves per sample without a configured seed (KDMixWrapper, MUGSMultiViewWrapper):
        the draws must come from the worker's global state: equal worker seeds reproduce them, different seeds do not"""
        from kappadata.wrappers import KDMixWrapper
        from kappadata.common.wrappers.sample_wrappers.mugs_multi_view_wrapper import MUGSMultiViewWrapper
        recipes = [
            ("mix-unseeded", lambda: KDMixWrapper(make_ds("tensor"), mixup_p=1.0, mixup_alpha=1.0), lambda w, i: w.getitem_xclass(i)[1]),
            ("mugs-unseeded", lambda: MUGSMultiViewWrapper(make_ds("pil"), global_size=16, local_size=8, num_local_crops=2),
             lambda w, i: (lambda c: (w.getitem_x(i, ctx=c), c)[1])({})),
        ]
        out = []
        for label, build, get in recipes:
            def run(ws):
                st = build()
                np.random.seed(ws)
                torch.manual_seed(ws)
                st.worker_init_fn(0, **WI_KW)
                return [canon(get(st, i)) for i in range(4)]
            try:
                a, b, c = run(41), run(41), run(42)
            except Exception as e:
                out.append(Failure(f"worker:{label}:exception", f"{label}: {type(e).__name__}: {e}", {"recipe": label}, None, str(e)))
                continue
            if a != b:
                out.append(Failure(f"worker:{label}:not-reproducible", f"{label}: the layer's own per-sample draws differ between two workers with the "
                                   "same worker seed (generator not derived from the worker's global state)", {"recipe": label, "wrapper_stream": True},
                                   "equal", "differ"))
            elif a == c:
                out.append(Failure(f"worker:{label}:shared-stream", f"{label}: the layer's own per-sample draws are identical for different worker seeds",
                                   {"recipe": label, "wrapper_stream": True}, "differ", "equal"))
        return out

    def stream_oracle(self, key, shape=None, top=None, ws_list=(11, 12, 11), num_workers=None):
        """black box: stacks whose stochastic members are probe leaves (every decision is part of the output). Workers = deep copies of the
        (used) parent, global RNGs seeded, hook called; the decisions each dataset of the stack then draws are compared across workers:
        equal worker seeds => equal streams, different seeds => no common decision (each member's stream is fresh in every worker)"""
        key_in = {"stream": True, "key": key, "shape": shape, "top": top, "worker_seeds": list(ws_list), "num_workers": num_workers}
        try:
            scramble(81)
            desc, parent = probe_stack(pyrandom.Random(key), shape, top)
        except Exception as e:
            return None, Failure("worker:stream:exception", f"construction of probe stack raises {type(e).__name__}: {e}", key_in, "no exception", str(e))
        key_in["stack"] = desc
        for rnd in range(2):
            hist = ""
            try:
                if rnd == 1:
                    # history: the parent was used (and initialised once in the main process) before the workers are created from it
                    np.random.seed(4343)
                    torch.manual_seed(4343)
                    parent.worker_init_fn(0, **STREAM_KW)
                    stream_of(parent, passes=1)
                    hist = " (parent used and initialised in the main process before)"
                streams = []
                for r, ws in enumerate(ws_list):
                    st = simulate_worker(parent, ws, r if num_workers is None else r % num_workers, num_workers, kw=STREAM_KW)
                    scramble(85 + r)       # the requests themselves must not depend on the global state any more
                    streams.append(stream_of(st))
            except Exception as e:
                return desc, Failure("worker:stream:exception", f"probe stack [{desc}] raises {type(e).__name__}: {e}{hist}", key_in, "no exception", str(e))
            for a in range(len(ws_list)):
                for b in range(a + 1, len(ws_list)):
                    if ws_list[a] == ws_list[b]:
                        if streams[a] != streams[b]:
                            return desc, Failure("worker:stream:not-reproducible", f"[{desc}]: equal worker seeds give different decision streams{hist}",
                                                 dict(key_in, round=rnd), "equal", "differ")
                        continue
                    for k in sorted(set(streams[a]) & set(streams[b])):
                        common = set(streams[a][k]) & set(streams[b][k])
                        if common:
                            return desc, Failure(
                                "worker:stream:shared-stream", f"[{desc}]: dataset #{k} of the stack: workers with seeds {ws_list[a]} and {ws_list[b]} "
                                f"share {len(common)} of {len(set(streams[a][k]))} random decisions{hist}", dict(key_in, round=rnd, dataset=k),
                                "no common decision", f"{len(common)} common decisions")
        return desc, None

    def real_worker_oracle(self, label, build):
        from torch.utils.data import DataLoader, Dataset
        key_in = {"recipe": label, "real_workers": True}

        class Probe(Dataset):
            def __init__(self, st):
                self.st = st

            def __len__(self):
                return 6

            def __getitem__(self, i):
                info = torch.utils.data.get_worker_info()
                return (info.id if info else -1), [fingerprint(g, 4) for g in all_cells(self.st)]

        scramble(61)
        st = build()
        parent_fp = {fingerprint(g, 4) for g in all_cells(st)}
        for nw in (1, 2, 3):
            p = Probe(st)
            torch.manual_seed(1234)
            dl = DataLoader(p, batch_size=1, num_workers=nw, collate_fn=lambda b: b[0],
                            worker_init_fn=lambda wid: st.worker_init_fn(wid, **WI_KW))
            per_worker = {}
            for wid, fps in dl:
                fps = [tuple(x) for x in fps]
                if wid in per_worker and per_worker[wid] != fps:
                    pass  # transforms are not called here, streams must be stable
                per_worker[wid] = fps
            ids = sorted(per_worker)
            for wid in ids:
                if set(per_worker[wid]) & parent_fp:
                    return Failure(f"worker:{label}:stale-cell", f"{label}: real worker {wid}/{nw} keeps a parent stream", key_in, None, None)
            for a in ids:
                for b in ids:
                    if a < b and set(per_worker[a]) & set(per_worker[b]):
                        return Failure(f"worker:{label}:shared-stream", f"{label}: real workers {a} and {b} of {nw} share a member stream", key_in, None, None)
        return None

    def correspond(self):
        res = CorrResult()
        res.rule = ("per stack recipe: structural probe (real worker_init_fn with recorded get_rng_from_global vs model workerInit: which cell gets the k-th "
                    "derived generator) + simulated workers (deepcopy, np.random.seed(ws), worker_init_fn) comparing every cell's stream across seeds; "
                    "distinct = (recipe, stack shape, worker seeds)")
        n_random = 6 if self.tier == "quick" else 40
        random_keys = [f"{self.seed}:{k}" for k in range(n_random)]
        R = stack_recipes(random_keys)
        reqs, metas = [], []
        for label, build in R:
            if label in NO_STRUCTURAL:
                continue
            if label.startswith("random:"):
                try:
                    if not random_stack(pyrandom.Random(label[len("random:"):]))[1]:
                        continue
                except Exception:  # noqa  (reported by the oracle below)
                    continue
            try:
                scramble(71)
                st = build()
                cellmap = {}
                before = ds_tree(st, cellmap)

                def shift(t):
                    if t is None:
                        return None
                    return {"cls": t["cls"], "cell": (t["cell"] + OLD) if t["cell"] else 0, "kids": [[s, shift(c)] for s, c in t["kids"]]}

                def shift_ds(d):
                    if d["k"] == "multi":
                        return dict(d, parts=[shift_ds(p) for p in d["parts"]])
                    out = dict(d, kids=[[s, shift(t)] for s, t in d["kids"]])
                    if d["k"] == "wrap":
                        out["inner"] = shift_ds(d["inner"])
                    else:
                        out["cols"] = [[s, shift(t)] for s, t in d["cols"]]
                    return out
                before_s = shift_ds(before)
                made = []
                patches = patch_get_rng(made)
                try:
                    np.random.seed(5)
                    st.worker_init_fn(0, **WI_KW)
                finally:
                    for p in patches:
                        p.stop()
                cm_after = {gid: cid + OLD for gid, cid in cellmap.items()}
                for k, g in enumerate(made):
                    cm_after[id(g)] = 5000 + k
                after = ds_tree(st, dict(cm_after))
                reqs.append({"op": "sf.workerinit", "ds": before_s, "base": 5000})
                metas.append((label, after, len(made)))
            except Exception as e:
                res.disagreements.append(Disagreement({"recipe": label, "probe": "structural"}, None, f"{type(e).__name__}: {e}", "structural probe raised"))
        answers = self.driver.run(reqs)
        for (label, after, n_made), ans in zip(metas, answers):
            res.cases += 1
            res.bump("structural")
            res.nontrivial.add((label, json.dumps(after)[:200]))
            case = {"recipe": label, "probe": "structural"}
            if "error" in ans:
                res.disagreements.append(Disagreement(case, ans, None, "driver error"))
                continue
            if not ans["conforms"]:
                res.disagreements.append(Disagreement(case, "stack does not conform to the generated layer table", after, "translator missed a class/slot"))
            if ans["after"] != after:
                res.disagreements.append(Disagreement(case, ans["after"], after, "cells after worker init differ from the model"))
            if ans["n"] != n_made:
                res.disagreements.append(Disagreement(case, ans["n"], n_made, "number of generators derived from the global state differs"))
            if len(res.samples) < 2:
                res.samples.append({"recipe": label, "stack_after_worker_init": after, "derived_generators": n_made})
        seeds_sets = [[101 + self.seed, 202 + self.seed, 101 + self.seed]] if self.tier == "quick" else \
            [[101 + self.seed + k, 202 + self.seed + k, 303 + k, 101 + self.seed + k] for k in range(4)]
        for label, build in R:
            for ws in seeds_sets:
                for nw in (None, 1, 3):     # hook in the main process / inside a worker of a 1- resp. 3-worker loader
                    res.cases += 1
                    res.bump(f"simulated-workers(num_workers={nw})")
                    res.nontrivial.add((label, tuple(ws), nw))
                    f = self.oracle(label, build, ws, nw)
                    if f is not None and not any(g.key == f.key for g in res.failures):
                        res.failures.append(f)
        for f in self.wrapper_stream_oracle():
            res.failures.append(f)
        res.cases += 2
        res.bump("wrapper-level-streams", 2)
        # black-box decision streams of probe stacks: fixed positions first (every shape, scheduled members on top), then random ones
        plan = [(f"fixed:{shape}:{top}", shape, top) for shape in ("single", "concat-shared", "interleaved", "interleaved-shared", "interleaved-same-stack")
                for top in (None, "scheduled", "compose-of-scheduled")]
        plan += [(f"{self.seed}:{k}", None, None) for k in range(10 if self.tier == "quick" else 80)]
        for j, (key, shape, top) in enumerate(plan):
            nw = (None, 1, 3)[j % 3]
            ws = [101 + self.seed, 202 + self.seed, 101 + self.seed]
            desc, f = self.stream_oracle(key, shape, top, ws, nw)
            res.cases += 1
            res.bump(f"decision-streams(num_workers={nw})")
            res.nontrivial.add(("stream", desc, nw))
            if f is not None and not any(g.key == f.key for g in res.failures):
                res.failures.append(f)
        if self.tier == "thorough":
            for label, build in R:
                if label == "interleaved-concat":
                    continue
                res.cases += 1
                res.bump("real-workers")
                try:
                    f = self.real_worker_oracle(label, build)
                except Exception as e:
                    res.observations.append(f"real worker leg for {label} raised {type(e).__name__}: {e}")
                    f = None
                if f is not None:
                    res.failures.append(f)
        return res

    def search(self, budget_s, hints):
        out = []
        t0 = time.time()
        for label, build in stack_recipes([f"search:{k}" for k in range(10)]):
            if time.time() - t0 > budget_s:
                break
            for nw in (None, 1, 2):
                f = self.oracle(label, build, [7, 8, 9, 7], nw)
                if f:
                    out.append(f)
                    break
        for k in range(20):
            if time.time() - t0 > budget_s:
                break
            f = self.stream_oracle(f"search:{k}", None, (None, "scheduled", "compose-of-scheduled")[k % 3], (7, 8, 7), (None, 2)[k % 2])[1]
            if f:
                out.append(f)
        return out

    def replay_input(self, inp):
        if inp.get("wrapper_stream"):
            return next((f for f in self.wrapper_stream_oracle() if f.input.get("recipe") == inp.get("recipe")), None)
        if inp.get("stream"):
            return self.stream_oracle(inp.get("key"), inp.get("shape"), inp.get("top"), tuple(inp.get("worker_seeds", (7, 8, 7))), inp.get("num_workers"))[1]
        label = inp.get("recipe") or ""
        keys = [label[len("random:"):]] if label.startswith("random:") else None
        for lb, build in stack_recipes(keys):
            if lb == label:
                return self.oracle(lb, build, inp.get("worker_seeds", [7, 8, 7]), inp.get("num_workers"))
        return None
