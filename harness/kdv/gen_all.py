"""runs every translator (Python source of /repo -> lean/KDVerif/Gen/*.lean): all modules kdv.translate_* with a generate()"""
import importlib
import pkgutil
import sys


def main():
    import kdv
    rc = 0
    for m in pkgutil.iter_modules(kdv.__path__):
        if not m.name.startswith("translate_"):
            continue
        try:
            mod = importlib.import_module(f"kdv.{m.name}")
            out = mod.generate()
            print(f"[gen] {m.name}: ok")
        except Exception as e:
            print(f"[gen] {m.name}: {type(e).__name__}: {e}", file=sys.stderr)
            rc = 1
    return rc


if __name__ == "__main__":
    sys.exit(main())
