"""runs every translator (Python AST of /repo -> lean/KDVerif/Gen/*.lean)"""


def main():
    from .check import registry
    done = set()
    for pid, cls in sorted(registry().items()):
        g = getattr(cls, "generate_static", None)
        if g is not None and g not in done:
            done.add(g)
            g()


if __name__ == "__main__":
    main()
