"""C20 — copy_folder_from_global_to_local / copy_imagefolder_from_global_to_local: crash-safe, idempotent copy.

* scenario builder (plain folder / single zip / folder of zips, with/without relative_path, user-provided destination)
* real-code runner: the unmodified function runs in a forked child under a `sys.addaudithook` tracer that records every
  mutating file-system operation below the local root and calls `os._exit(137)` before the k-th one (optionally after
  having left the file the k-th operation creates half-written: the state between `open(..., 'wb')` and the last `write`)
* thorough: real SIGKILL at syscall granularity with `strace -e inject=<syscall>:signal=SIGKILL:when=k`
* abstract-state observer, independent property oracle (written from the property text, no Lean model involved)
* op-trace refinement against the Lean model `KDVerif.Model.CopyProtocol` (driver `mains/CopyProtocol.lean`)
"""
import hashlib
import json
import os
import random
import shutil
import signal
import subprocess
import sys
import tempfile
import time
import zipfile
from pathlib import Path

from .common import CorrResult, Disagreement, Failure, Infra, PropertyCheck, REPO

START = "autocopy_start.txt"
END = "autocopy_end.txt"
TMP_SUFFIX = ".autocopy_tmp"
WORK_PREFIX = "kdv_c20_"


# ----------------------------------------------------------------------------------------------
# scenarios
# ----------------------------------------------------------------------------------------------
def content_of(relpath, salt=0):
    """deterministic non-empty content (>= 2 bytes so that a strict prefix differs)"""
    h = hashlib.sha256(f"{salt}:{relpath}".encode()).digest()
    n = 2 + h[0] % 40
    return (h * 3)[:n]


def expected_tree(case):
    """what a complete copy holds (relative path -> bytes), by the case's declared intent (not by re-implementing
    the code's format detection)"""
    fn, fmt = case["fn"], case["fmt"]
    out = {}
    for rp in case["files"]:
        if fmt == "zips" and fn == "folder":
            assert "/" not in rp
        out[rp] = content_of(rp, case.get("salt", 0))
    return out


def expected_dirs(case):
    ds = set()
    for rp in case["files"]:
        parts = rp.split("/")[:-1]
        for i in range(1, len(parts) + 1):
            ds.add("/".join(parts[:i]))
    for d in case.get("empty_dirs", []):
        ds.add(d)
    return ds


def _write(p, data):
    p.parent.mkdir(parents=True, exist_ok=True)
    with open(p, "wb") as f:
        f.write(data)


def build_source(case, root):
    """materialises the source below root/'global'; returns (global_path, local_path, relative_path, dst_path).
    The local folder is root/L/local; operations are traced below root/L (paths reported relative to it)."""
    fn, fmt, rel = case["fn"], case["fmt"], case["rel"]
    g = root / "global"
    base = root / "L"                      # everything below `base` is traced (local folder and its staging sibling)
    base.mkdir()
    loc = base / "local"
    if case.get("local_exists", True):
        loc.mkdir(parents=True)
    src = g / rel if rel is not None else g
    tree = expected_tree(case)
    stage = root / "stage"
    for rp, data in tree.items():
        _write(stage / rp, data)
    for d in case.get("empty_dirs", []):
        (stage / d).mkdir(parents=True, exist_ok=True)
    stage.mkdir(parents=True, exist_ok=True)
    src.parent.mkdir(parents=True, exist_ok=True)
    if fmt == "raw":
        shutil.copytree(stage, src)
        for extra, data in case.get("src_extra", {}).items():
            _write(src / extra, data.encode())
    elif fmt == "zip":
        shutil.make_archive(str(src), "zip", stage)      # -> src.zip
    elif fmt == "zips":
        src.mkdir(parents=True)
        if fn == "folder":
            names = sorted(tree)
            bs = max(1, case.get("zbatch", 2))
            for bi in range(0, max(len(names), 1), bs):
                with zipfile.ZipFile(src / f"batch_{bi // bs}.zip", "w") as z:
                    for nme in names[bi:bi + bs]:
                        z.write(stage / nme, nme)
        else:
            classes = sorted({rp.split("/")[0] for rp in tree})
            for c in classes:
                with zipfile.ZipFile(src / f"{c}.zip", "w") as z:
                    for rp in sorted(tree):
                        if rp.split("/")[0] == c:
                            z.write(stage / rp, rp.split("/", 1)[1])
        if case.get("readme"):
            _write(src / "README.txt", b"readme of the zip folder")
    elif fmt == "missing":
        g.mkdir(parents=True, exist_ok=True)
    else:
        raise ValueError(fmt)
    shutil.rmtree(stage)
    rel_arg = rel
    if rel is not None and case.get("rel_zip_suffix") and fn == "imagefolder":
        rel_arg = rel + ".zip"
    dst = loc / rel if rel is not None else loc
    user = case.get("user")
    if user is not None:
        dst.mkdir(parents=True, exist_ok=True)
        for rp, txt in user.items():
            _write(dst / rp, txt.encode())
    return g, loc, rel_arg, dst


def tmp_path_of(dst):
    return dst.with_name(dst.name + TMP_SUFFIX)


# ----------------------------------------------------------------------------------------------
# observation of the file system
# ----------------------------------------------------------------------------------------------
def snapshot(path):
    """relative path -> bytes for files, None for directories"""
    out = {}
    if not path.exists():
        return None
    for dp, dns, fns in os.walk(path):
        for d in dns:
            out[os.path.relpath(os.path.join(dp, d), path)] = None
        for f in fns:
            p = os.path.join(dp, f)
            with open(p, "rb") as fh:
                out[os.path.relpath(p, path)] = fh.read()
    return out


def observe(case, dst):
    """abstract state (the model's FS): markers, per-file absent/partial/whole (0/1/2), foreign entries, staging dir"""
    tree = expected_tree(case)
    names = sorted(tree)
    st = {"dst": None, "tmp": None}
    snap = snapshot(dst)
    if snap is not None:
        files = []
        for nme in names:
            if nme not in snap or snap[nme] is None:
                files.append(0)
            else:
                files.append(2 if snap[nme] == tree[nme] else 1)
        foreign = sorted(k for k, v in snap.items() if v is not None and k not in tree and k not in (START, END))
        st["dst"] = {"start": START in snap, "end": END in snap, "files": files, "foreign": foreign}
    t = tmp_path_of(dst)
    if t.exists():
        st["tmp"] = {"start": (t / START).exists()}
    return st


def is_complete_copy(case, dst):
    """byte-level: dst (markers removed) equals the expected tree incl. directories"""
    snap = snapshot(dst)
    if snap is None:
        return False, "destination folder does not exist"
    tree = expected_tree(case)
    got_files = {k: v for k, v in snap.items() if v is not None and k not in (START, END)}
    if set(got_files) != set(tree):
        return False, f"file set differs: missing={sorted(set(tree) - set(got_files))[:4]} extra={sorted(set(got_files) - set(tree))[:4]}"
    for k in tree:
        if got_files[k] != tree[k]:
            return False, f"content of {k} differs ({len(got_files[k])} of {len(tree[k])} bytes)"
    got_dirs = {k for k, v in snap.items() if v is None}
    if not expected_dirs(case) <= got_dirs:
        return False, f"directories missing: {sorted(expected_dirs(case) - got_dirs)[:4]}"
    return True, ""


# ----------------------------------------------------------------------------------------------
# real-code runner (forked child, audit-hook tracer)
# ----------------------------------------------------------------------------------------------
def _get_fn(name):
    if name == "folder":
        from kappadata.copying.folder import copy_folder_from_global_to_local as f
    else:
        from kappadata.copying.image_folder import copy_imagefolder_from_global_to_local as f
    return f


_WRITE_FLAGS = os.O_WRONLY | os.O_RDWR | os.O_CREAT | os.O_TRUNC | os.O_APPEND


def _resolve(path, dir_fd):
    if isinstance(path, bytes):
        path = os.fsdecode(path)
    if isinstance(path, int):
        return None
    path = os.fspath(path)
    if dir_fd is not None and not os.path.isabs(path):
        try:
            base = os.readlink(f"/proc/self/fd/{dir_fd}")
        except OSError:
            return None
        path = os.path.join(base, path)
    return os.path.abspath(path)


def make_hook(local_root, trace_fd, crash_at, mid, partial_of):
    """audit hook: canonical record (kind, abs path[, abs path2]) per mutating op below local_root"""
    state = {"n": 0, "busy": False}
    root = str(local_root)

    def under(p):
        return p is not None and (p == root or p.startswith(root + os.sep))

    def hook(event, args):
        if state["busy"]:
            return
        rec = None
        try:
            if event == "open":
                path, mode, flags = args[0], args[1], args[2]
                if isinstance(flags, int) and (flags & _WRITE_FLAGS):
                    p = _resolve(path, None)
                    if under(p):
                        rec = ("open", p)
            elif event == "os.mkdir":
                p = _resolve(args[0], args[2] if len(args) > 2 and args[2] != -1 else None)
                if under(p):
                    rec = ("mkdir", p)
            elif event == "os.remove":
                p = _resolve(args[0], args[1] if len(args) > 1 and args[1] != -1 else None)
                if under(p):
                    rec = ("remove", p)
            elif event == "os.rmdir":
                p = _resolve(args[0], args[1] if len(args) > 1 and args[1] != -1 else None)
                if under(p):
                    rec = ("rmdir", p)
            elif event == "os.rename":
                a = _resolve(args[0], args[2] if len(args) > 2 and args[2] != -1 else None)
                b = _resolve(args[1], args[3] if len(args) > 3 and args[3] != -1 else None)
                if under(a) or under(b):
                    rec = ("rename", a, b)
            elif event in ("os.symlink", "os.link", "os.truncate"):
                p = _resolve(args[1] if event != "os.truncate" else args[0], None)
                if under(p):
                    rec = (event, p)
        except Exception as e:  # never let the tracer change the behaviour
            rec = ("tracer-error", repr(e))
        if rec is None:
            return
        state["n"] += 1
        if state["n"] == crash_at:
            if mid and rec[0] == "open":
                state["busy"] = True
                data = partial_of(rec[1])
                if data is not None:
                    fd = os.open(rec[1], os.O_WRONLY | os.O_CREAT | os.O_TRUNC, 0o644)
                    os.write(fd, data)
                    os.close(fd)
            os.write(trace_fd, (json.dumps(["CRASH", state["n"], list(rec)]) + "\n").encode())
            _dump_cov()
            os._exit(137)
        os.write(trace_fd, (json.dumps(list(rec)) + "\n").encode())

    return hook


def _dump_cov():
    try:
        from kdv.common import dump_child_coverage
        dump_child_coverage()
    except BaseException:  # noqa
        pass


def run_attempt(case, g, loc, rel, dst, crash_at=None, mid=False, timeout=60):
    """one invocation of the real function in a forked child.
    returns {"status": "returned"|"crashed"|"raised", "result": {...}|None, "trace": [[kind, relpath...]], "exc": str|None}"""
    tree = expected_tree(case)
    base = loc.parent

    def partial_of(abs_path):
        rp = os.path.relpath(abs_path, dst)
        if rp in tree:
            d = tree[rp]
            return d[:len(d) // 2]
        return b""

    fd_tr, tr_path = tempfile.mkstemp(prefix="kdv_c20_trace_")
    r_fd, w_fd = os.pipe()
    fn = _get_fn(case["fn"])
    sys.stdout.flush()
    sys.stderr.flush()
    pid = os.fork()
    if pid == 0:
        code = 0
        try:
            os.close(r_fd)
            if case.get("workers", 0) > 1:
                os.setsid()          # joblib workers live in this session: the harness kills them with the group
            sys.addaudithook(make_hook(base, fd_tr, crash_at, mid, partial_of))
            try:
                res = fn(g, loc, relative_path=rel, num_workers=case.get("workers", 0))
                d = {k: getattr(res, k) for k in ("was_copied", "was_deleted", "source_format", "was_zip", "was_zip_classwise")
                     if hasattr(res, k)}
                os.write(w_fd, json.dumps({"status": "returned", "result": d}).encode())
            except BaseException as e:  # noqa
                os.write(w_fd, json.dumps({"status": "raised", "exc": f"{type(e).__name__}: {e}"[:300]}).encode())
        finally:
            _dump_cov()
            os._exit(code)
    os.close(w_fd)
    os.close(fd_tr)
    t0 = time.time()
    while True:
        wpid, status = os.waitpid(pid, os.WNOHANG)
        if wpid:
            break
        if time.time() - t0 > timeout:
            os.kill(pid, signal.SIGKILL)
            os.waitpid(pid, 0)
            raise Infra("copy child timed out")
        time.sleep(0.0005)
    if case.get("workers", 0) > 1:
        try:
            os.killpg(pid, signal.SIGKILL)      # a kill takes the whole job (parent and its workers); also reaps idle workers
        except (ProcessLookupError, PermissionError):
            pass
        time.sleep(0.05)
    data = b""
    while True:
        chunk = os.read(r_fd, 65536)
        if not chunk:
            break
        data += chunk
    os.close(r_fd)
    trace = []
    crashed_rec = None
    with open(tr_path) as f:
        for line in f:
            rec = json.loads(line)
            if rec[0] == "CRASH":
                crashed_rec = rec
            else:
                trace.append(rec)
    os.unlink(tr_path)
    if data:
        out = json.loads(data.decode())
    else:
        out = {"status": "crashed"}
    out.setdefault("result", None)
    out.setdefault("exc", None)
    out["trace"] = [[r[0]] + [os.path.relpath(p, base) if isinstance(p, str) and os.path.isabs(p) else p for p in r[1:]] for r in trace]
    out["next_op"] = None
    if crashed_rec:
        r = crashed_rec[2]
        out["next_op"] = [r[0]] + [os.path.relpath(p, base) if isinstance(p, str) and os.path.isabs(p) else p for p in r[1:]]
    return out


# ----------------------------------------------------------------------------------------------
# histories: (crashed attempt)* then one uninterrupted call ; independent oracle
# ----------------------------------------------------------------------------------------------
def new_root():
    return Path(tempfile.mkdtemp(prefix=WORK_PREFIX, dir="/tmp"))


def normalise_result(case, res):
    """common layout for both twins: (was_copied, was_deleted, fmt)"""
    if res is None:
        return None
    if case["fn"] == "folder":
        return [bool(res["was_copied"]), bool(res["was_deleted"]), res["source_format"]]
    fmt = None
    if res["was_zip"]:
        fmt = "zip"
    elif res["was_zip_classwise"]:
        fmt = "zips"
    elif res["was_copied"]:
        fmt = "raw"
    return [bool(res["was_copied"]), bool(res["was_deleted"]), fmt]


def run_history(case, keep=False):
    """runs the crash sequence case['crashes'] (each k or [k, 'mid']) followed by one uninterrupted call and a second
    uninterrupted call (idempotence). Returns a dict with everything observed."""
    root = new_root()
    try:
        g, loc, rel, dst = build_source(case, root)
        user_snap = snapshot(dst) if case.get("user") is not None else None
        obs = {"attempts": [], "user": user_snap is not None, "src": src_descr(case, g, rel), "init": observe(case, dst)}
        for c in case.get("crashes", []):
            k, mid = (c, False) if isinstance(c, int) else (c[0], True)
            a = run_attempt(case, g, loc, rel, dst, crash_at=k, mid=mid)
            a["mid"] = mid
            a["state"] = observe(case, dst)
            obs["attempts"].append(a)
        a = run_attempt(case, g, loc, rel, dst)
        a["state"] = observe(case, dst)
        a["complete"], a["why"] = is_complete_copy(case, dst)
        a["user_untouched"] = (snapshot(dst) == user_snap) if user_snap is not None else None
        obs["attempts"].append(a)
        before = snapshot(loc.parent)
        b = run_attempt(case, g, loc, rel, dst)
        b["state"] = observe(case, dst)
        b["complete"], b["why"] = is_complete_copy(case, dst)
        b["user_untouched"] = (snapshot(dst) == user_snap) if user_snap is not None else None
        b["tree_unchanged"] = snapshot(loc.parent) == before
        obs["again"] = b
        return obs
    finally:
        if not keep:
            shutil.rmtree(root, ignore_errors=True)


def _mutations(trace):
    return [t for t in trace]


def in_domain(case):
    """domain of the property: the three clear-cut source formats; sources/user folders holding no marker names"""
    if any(rp.split("/")[-1] in (START, END) for rp in case["files"]):
        return False
    if case.get("user") is not None and any(rp in (START, END) for rp in case["user"]):
        return False
    if case.get("src_extra"):
        return False
    if not case["files"]:
        return False
    return True


def describe_prestate(st, user):
    d = st["dst"]
    if d is None:
        return "destination absent"
    what = []
    what.append("start marker" if d["start"] else "no start marker")
    what.append("end marker" if d["end"] else "no end marker")
    n_whole = sum(1 for f in d["files"] if f == 2)
    n_part = sum(1 for f in d["files"] if f == 1)
    what.append(f"{n_whole}/{len(d['files'])} files whole, {n_part} partial")
    return ", ".join(what)


def oracle(case, obs):
    """property statement checked directly on what the real code did. Returns [Failure]."""
    if case.get("_srctree"):
        return srctree_oracle(case, obs)
    if not in_domain(case):
        return []
    fails = []
    user = obs["user"]
    crashed = obs["attempts"][:-1]
    final = obs["attempts"][-1]
    again = obs["again"]
    pre = crashed[-1]["state"] if crashed else None
    hist = f"fn={case['fn']} fmt={case['fmt']} rel={case['rel']} num_workers={case.get('workers', 0)} crashes={case.get('crashes', [])}"
    if crashed:
        last = crashed[-1]
        hist += f" (last kill before op {last['next_op']}; left: {describe_prestate(pre, user)})"

    def fail(key, what, expected, actual):
        fails.append(Failure(key, f"{what} [{hist}]", case, expected, actual))

    for att in (final, again):
        if att["status"] == "crashed":
            fail("copy:uninterrupted-call-died", "an uninterrupted call did not return", "normal return", att["status"])
            return fails
    # a raised exception is not a normal return: the property says nothing (but we require the final call of an
    # in-domain history not to be stuck forever: reported under its own key)
    if final["status"] == "raised":
        fail("copy:stuck-after-crash" if crashed else "copy:raises", f"uninterrupted call raises {final['exc']}", "normal return", final["exc"])
        return fails
    res = normalise_result(case, final["result"])
    # P1 normal return => complete byte-identical copy, or untouched user-provided folder
    if user:
        if not final["user_untouched"]:
            fail("copy:user-folder-modified", "user-provided folder was modified", "untouched", final["state"])
        if final["trace"]:
            fail("copy:user-folder-modified", "mutating operations below the local root although the folder is user-provided", [], final["trace"][:6])
        if res != [False, False, None]:
            fail("copy:result-untruthful", "result claims work on a user-provided folder", [False, False, None], res)
    else:
        if not final["complete"]:
            # key names the state the previous (killed) attempt left behind
            if pre is not None and pre["dst"] is not None and not pre["dst"]["start"]:
                nothing = not any(pre["dst"]["files"]) and not pre["dst"]["foreign"] and not pre["dst"]["end"]
                key = ("copy:returns-on-empty-folder-left-without-start-marker" if nothing
                       else "copy:returns-on-partial-folder-left-without-start-marker")
            elif pre is not None and pre["dst"] is not None and pre["dst"]["end"]:
                key = "copy:end-marker-present-on-incomplete-copy"
            elif not crashed:
                key = "copy:uninterrupted-copy-incomplete"
            else:
                key = "copy:returns-on-incomplete-copy"
            fail(key, f"normal return but the local folder is not a complete copy ({final['why']}); result={res}",
                 "complete byte-identical copy", final["state"])
        # P4 truthfulness
        created = [t for t in final["trace"] if t[0] == "open" and os.path.basename(t[1]) not in (START, END)]
        if case.get("workers", 0) > 1 and not created:
            # files are written by joblib worker processes (not traced): fall back to the state difference
            before = pre["dst"]["files"] if pre is not None and pre["dst"] is not None else [0] * len(final["state"]["dst"]["files"])
            after = final["state"]["dst"]["files"] if final["state"]["dst"] is not None else before
            if pre is None or pre["dst"] is None or not pre["dst"]["end"]:
                created = [i for i, (a, b) in enumerate(zip(before, after)) if b == 2]
        removed = [t for t in final["trace"] if t[0] in ("remove", "rmdir") and not _is_tmp(case, t[1])]
        if res is not None:
            if res[0] != bool(created):
                fail("copy:result-untruthful", f"was_copied={res[0]} but files created in this call: {len(created)}", bool(created), res[0])
            nothing_to_delete = (pre is not None and pre["dst"] is not None and pre["dst"]["start"] and not pre["dst"]["end"]
                                 and not any(pre["dst"]["files"]) and not pre["dst"]["foreign"])
            if res[1] != bool(removed) and not (res[1] and nothing_to_delete):
                # was_deleted=True on an interrupted copy that holds nothing but its start marker is truthful about the branch taken
                fail("copy:result-untruthful", f"was_deleted={res[1]} but removals in this call: {len(removed)}", bool(removed), res[1])
            if res[0] and res[2] != case["fmt"]:
                fail("copy:result-untruthful", f"source_format={res[2]} for a {case['fmt']} source", case["fmt"], res[2])
    # P2 a completed copy is never deleted or redone
    if again["status"] != "returned":
        fail("copy:second-call", f"second call {again['status']} {again['exc']}", "returned", again["status"])
    else:
        r2 = normalise_result(case, again["result"])
        if again["trace"] or not again["tree_unchanged"] or r2 != [False, False, None]:
            fail("copy:completed-copy-redone", "a further call after a normal return touched the local tree or claims work",
                 {"trace": [], "result": [False, False, None]}, {"trace": again["trace"][:6], "result": r2})
    return fails


def dst_rel(case):
    """destination relative to the traced base"""
    return "local" if case["rel"] is None else "local/" + case["rel"]


def _is_tmp(case, relp):
    t = dst_rel(case) + TMP_SUFFIX
    return relp == t or relp.startswith(t + "/")


# ----------------------------------------------------------------------------------------------
# canonicalisation of the real op trace into the model's step alphabet
# ----------------------------------------------------------------------------------------------
def file_ids(case):
    return {nme: i for i, nme in enumerate(sorted(expected_tree(case)))}


def foreign_ids(case):
    user = case.get("user") or {}
    tree = expected_tree(case)
    return {nme: i for i, nme in enumerate(sorted(k for k in user if k not in tree and k not in (START, END)))}


def initial_dirs(case):
    """directories (relative to the traced base) that exist before the first call"""
    dirs = {"."}
    if case.get("local_exists", True) or case.get("user") is not None:
        dirs.add("local")
    if case.get("user") is not None:
        parts = dst_rel(case).split("/")
        for i in range(1, len(parts) + 1):
            dirs.add("/".join(parts[:i]))
    return dirs


def canon_trace(case, trace, dirs, mid_op=None):
    """real mutating ops -> model labels; `dirs` (set of existing directories, updated in place) decides whether a mkdir
    succeeded (`Path.mkdir(parents=True)` first tries the leaf, `makedirs(exist_ok=True)` hits existing folders).
    Operations the abstraction does not see (sub-directory mkdir/rmdir, mkdir of ancestors, failed mkdirs) are silent.
    Unknown operations are kept as ['other', ...] labels (the model never emits them, so they show up as disagreements)."""
    d = dst_rel(case)
    t = d + TMP_SUFFIX
    fid = file_ids(case)
    gid = foreign_ids(case)
    out = []
    ops = list(trace) + ([mid_op + ["MID"]] if mid_op else [])
    for op in ops:
        kind, p = op[0], op[1]
        mid = op[-1] == "MID"
        inside = p.startswith(d + "/")
        rp = p[len(d) + 1:] if inside else None
        if kind == "mkdir":
            parent = os.path.dirname(p) or "."
            if p in dirs or parent not in dirs:
                continue                      # EEXIST / ENOENT: nothing happened
            dirs.add(p)
            if p == t:
                out.append(["tmpMkdir"])
            elif p == d:
                out.append(["mkdirDst"])
            elif inside or d.startswith(p + "/") or t.startswith(p + "/"):
                pass
            else:
                out.append(["other", kind, p])
        elif kind == "open":
            if p == t + "/" + START:
                out.append(["tmpStart"])
            elif rp == START:
                out.append(["createStart"])
            elif rp == END:
                out.append(["createEnd"])
            elif inside and rp in fid:
                out.append(["create", fid[rp]])
                if not mid:
                    out.append(["fill", fid[rp]])
            else:
                out.append(["other", kind, p])
        elif kind == "remove":
            if p == t + "/" + START:
                out.append(["tmpRmStart"])
            elif rp == START:
                out.append(["rmStart"])
            elif rp == END:
                out.append(["rmEnd"])
            elif inside and rp in fid:
                out.append(["rmFile", fid[rp]])
            elif inside:
                out.append(["rmForeign", gid.get(rp, 99)])
            else:
                out.append(["other", kind, p])
        elif kind == "rmdir":
            dirs.discard(p)
            if p == t:
                out.append(["tmpRmdir"])
            elif p == d:
                out.append(["rmdirDst"])
            elif inside:
                pass
            else:
                out.append(["other", kind, p])
        elif kind == "rename":
            a, b = p, op[2]
            for x in [x for x in dirs if x == a or x.startswith(a + "/")]:
                dirs.discard(x)
                dirs.add(b + x[len(a):])
            if a == t and b == d:
                out.append(["rename"])
            else:
                out.append(["other"] + list(op))
        else:
            out.append(["other"] + list(op))
    return out


def _ancestors(p):
    parts = p.split("/")
    return ["/".join(parts[:i]) for i in range(1, len(parts))]


def tape_of(labels):
    tape = []
    for l in labels:
        if l[0] in ("rmFile", "create", "fill"):
            tape.append(["f", l[1]])
        elif l[0] == "rmForeign":
            tape.append(["g", l[1]])
        elif l[0] == "rmEnd":
            tape.append(["e"])
        else:
            tape.append(["a"])
    return tape


def model_state(case, st):
    """observed abstract state in the driver's layout (foreign names -> ids)"""
    gid = foreign_ids(case)
    d = st["dst"]
    return {"dst": None if d is None else {"start": d["start"], "end": d["end"], "files": d["files"],
                                           "foreign": sorted(gid.get(n, 99) for n in d["foreign"])},
            "tmp": None if st["tmp"] is None else st["tmp"]["start"]}


def requests_for(case, obs):
    """one model request per real attempt (start state = observed state before the attempt)"""
    reqs, exps = [], []
    src = obs["src"]
    pre = obs["init"]
    if pre is None:   # user-provided folder: the abstract initial state is the one every attempt leaves (never modified)
        pre = obs["attempts"][-1]["state"]
    atts = list(obs["attempts"]) + [obs["again"]]
    dirs = initial_dirs(case)
    for a in atts:
        if a.get("untraced"):
            pre = a["state"]
            dirs = None
            continue
        if dirs is None:      # after an untraced (SIGKILLed) attempt: rebuild what can be known from the observed state
            dirs = initial_dirs(case) | {"local"} | {x for x in _ancestors(dst_rel(case))}
            if pre["dst"] is not None:
                dirs.add(dst_rel(case))
            if pre["tmp"] is not None:
                dirs.add(dst_rel(case) + TMP_SUFFIX)
        mid_op = a["next_op"] if a.get("mid") and a["next_op"] and a["next_op"][0] == "open" else None
        labels = canon_trace(case, a["trace"], dirs, mid_op)
        if case.get("workers", 0) > 1 and not any(l[0] == "create" for l in labels):
            # num_workers > 1: the files are written by untraced joblib workers in an unobservable order (an oracle of the model
            # anyway). A call that reached the end marker - or was killed just before writing it - has waited for ALL unzip
            # jobs, so every member of every zip must have been created and filled (the comparison of the abstract state
            # with the model's and the byte-level oracle then notice any member that is missing).
            allf = [x for i in range(len(expected_tree(case))) for x in (["create", i], ["fill", i])]
            if ["createEnd"] in labels:
                k = labels.index(["createEnd"])
                labels = labels[:k] + allf + labels[k:]
            elif a["status"] == "crashed" and a.get("next_op") and a["next_op"][0] == "open" \
                    and os.path.basename(a["next_op"][1]) == END and not a.get("mid"):
                labels = labels + allf
        reqs.append({"op": "cp.attempt", "src": src, "fs": model_state(case, pre), "tape": tape_of(labels)})
        exps.append({"labels": labels, "fs": model_state(case, a["state"]), "status": a["status"],
                     "result": normalise_result(case, a["result"]) if a["status"] == "returned" else None})
        pre = a["state"]
    return reqs, exps


def compare_attempt(exp, ans):
    """None if the model run matches what the real attempt did, else a short reason"""
    if ans.get("error"):
        return f"driver error {ans['error']}"
    if ans["labels"] != exp["labels"]:
        return "step sequences differ"
    if ans["fs"] != exp["fs"]:
        return "abstract file-system states differ"
    if exp["status"] == "returned":
        if ans["pc"] != "ret" or ans["result"] != exp["result"]:
            return "return values differ"
    elif exp["status"] == "raised":
        if ans["pc"] != "failed":
            return "real call raised, model did not fail"
    else:
        if ans["pc"] in ("ret", "failed") and exp["labels"] and exp["labels"][-1] != ["createEnd"]:
            return "real call was killed, model returned"
    return None


def src_descr(case, g, rel):
    """what the code can see of the source (read off the materialised source, not off the code under test)"""
    r = rel
    if r is not None and r.endswith(".zip") and case["fn"] == "imagefolder":
        r = r[:-4]
    sp = g / r if r is not None else g
    is_dir = sp.exists() and sp.is_dir()
    items = os.listdir(sp) if is_dir else []
    return {"isDir": is_dir, "zipSibling": sp.with_suffix(".zip").exists(), "nItems": len(items),
            "nZips": sum(1 for i in items if i.endswith(".zip")), "nFiles": len(expected_tree(case))}


# ----------------------------------------------------------------------------------------------
# worker pool: light processes (the copying modules are imported without the torch-heavy package __init__)
# ----------------------------------------------------------------------------------------------
def _child_env():
    """environment of the processes that run the real copy functions: harness on the path, and `kdv_site/sitecustomize.py`
    (stub parent packages, also picked up by joblib's worker processes) first"""
    env = dict(os.environ)
    h = Path(__file__).resolve().parents[1]
    env["PYTHONPATH"] = os.pathsep.join([str(h / "kdv_site"), str(h), env.get("PYTHONPATH", "")])
    env["PYTHONHASHSEED"] = "0"
    env["KDV_STUB_KAPPADATA"] = "1"
    env["KDV_REPO"] = str(REPO)
    from kdv import common as _c
    if _c._COV.get("dir"):
        env["KDV_COV_DIR"] = _c._COV["dir"]
    return env


def _stub_packages():
    import types
    if "kappadata" in sys.modules:
        return
    for n in ("kappadata", "kappadata.utils"):
        pkg = types.ModuleType(n)
        pkg.__path__ = [str(REPO / n.replace(".", "/"))]
        sys.modules[n] = pkg


def _start_worker_coverage():
    """statement coverage of the copy code inside the pool workers (their forked children hand their lines back, see _dump_cov)"""
    d = os.environ.get("KDV_COV_DIR")
    if not d:
        return
    try:
        import coverage as _coverage
        from kdv import common as _c
        cov = _coverage.Coverage(include=[str(REPO / "kappadata" / "copying" / "*.py")], branch=True, data_file=None)
        cov.start()
        _c._COV["cov"], _c._COV["dir"] = cov, d
    except Exception:
        pass


def worker_main():
    _stub_packages()
    _start_worker_coverage()
    for line in sys.stdin:
        line = line.strip()
        if not line:
            continue
        case = json.loads(line)
        try:
            if case.get("_srctree"):
                obs = run_srctree(case)
            elif case.get("_strace"):
                obs = run_strace_history(case)
            else:
                obs = run_history(case)
            out = {"ok": True, "obs": obs}
        except Exception as e:  # noqa
            import traceback
            out = {"ok": False, "err": f"{type(e).__name__}: {e}", "tb": traceback.format_exc()[-1500:]}
        sys.stdout.write(json.dumps(out) + "\n")
        sys.stdout.flush()


class RealPool:
    def __init__(self, n=None):
        self.n = n or max(2, min(8, (os.cpu_count() or 4) // 2))
        env = _child_env()
        self.procs = [subprocess.Popen([sys.executable, "-m", "kdv.copyprotocol", "worker"], stdin=subprocess.PIPE,
                                       stdout=subprocess.PIPE, text=True, env=env, bufsize=1) for _ in range(self.n)]

    def map(self, cases):
        import threading
        out = [None] * len(cases)
        idx = {"i": 0}
        lock = threading.Lock()
        errs = []

        def feed(p):
            while True:
                with lock:
                    i = idx["i"]
                    idx["i"] += 1
                if i >= len(cases):
                    return
                try:
                    p.stdin.write(json.dumps(cases[i]) + "\n")
                    p.stdin.flush()
                    line = p.stdout.readline()
                    if not line:
                        raise Infra("copy worker died")
                    out[i] = json.loads(line)
                except Exception as e:  # noqa
                    errs.append(e)
                    return

        ths = [threading.Thread(target=feed, args=(p,)) for p in self.procs]
        for t in ths:
            t.start()
        for t in ths:
            t.join()
        if errs:
            raise Infra(f"copy worker pool: {errs[0]}")
        return out

    def close(self):
        for p in self.procs:
            try:
                p.stdin.close()
            except Exception:
                pass
        for p in self.procs:
            try:
                p.wait(timeout=10)
            except Exception:
                p.kill()


# ----------------------------------------------------------------------------------------------
# thorough: real SIGKILL at syscall granularity (strace fault injection)
# ----------------------------------------------------------------------------------------------
STRACE_SYSCALLS = ["mkdir", "openat", "write", "sendfile", "copy_file_range", "unlink", "unlinkat", "rmdir", "rename",
                   "renameat", "renameat2"]


def call_main(argv):
    """`python -m kdv.copyprotocol call <fn> <global> <local> <rel|-> <workers>`: one plain invocation (used under strace)"""
    _stub_packages()
    fn = _get_fn(argv[0])
    rel = None if argv[3] == "-" else argv[3]
    try:
        res = fn(argv[1], argv[2], relative_path=rel, num_workers=int(argv[4]))
        d = {k: getattr(res, k) for k in ("was_copied", "was_deleted", "source_format", "was_zip", "was_zip_classwise") if hasattr(res, k)}
        print(json.dumps({"status": "returned", "result": d}))
    except BaseException as e:  # noqa
        print(json.dumps({"status": "raised", "exc": f"{type(e).__name__}: {e}"[:300]}))


def _call_cmd(case, g, loc, rel):
    return [sys.executable, "-m", "kdv.copyprotocol", "call", case["fn"], str(g), str(loc), "-" if rel is None else rel,
            str(case.get("workers", 0))]


def _strace_env():
    env = _child_env()
    env["PYTHONDONTWRITEBYTECODE"] = "1"
    return env


def _prep(case, root):
    g, loc, rel, dst = build_source(case, root)
    atts = []
    for c in case.get("crashes", []):
        k, mid = (c, False) if isinstance(c, int) else (c[0], True)
        a = run_attempt(case, g, loc, rel, dst, crash_at=k, mid=mid)
        a["mid"] = mid
        a["state"] = observe(case, dst)
        atts.append(a)
    return g, loc, rel, dst, atts


def strace_calibrate(case):
    """uninterrupted run under strace from the prepared state: [(syscall, ordinal among that syscall's invocations)]
    for every traced syscall of the main process that touches the traced base"""
    root = new_root()
    try:
        g, loc, rel, dst, _ = _prep(case, root)
        log = root / "strace_cal.log"
        p = subprocess.run(["strace", "-f", "-y", "-e", "trace=" + ",".join(STRACE_SYSCALLS), "-o", str(log)] + _call_cmd(case, g, loc, rel),
                           capture_output=True, text=True, env=_strace_env(), timeout=120)
        if p.returncode != 0 or '"returned"' not in p.stdout:
            raise Infra(f"strace calibration run failed rc={p.returncode} {p.stdout[-300:]} {p.stderr[-300:]}")
        base = str(loc.parent)
        counts, pts, main_pid = {}, [], None
        for line in log.read_text().splitlines():
            parts = line.split(None, 1)
            if len(parts) < 2 or not parts[0].isdigit():
                continue
            pid, rest = parts
            if main_pid is None:
                main_pid = pid
            if pid != main_pid:
                continue
            name = rest.split("(", 1)[0]
            if name not in STRACE_SYSCALLS:
                continue
            counts[name] = counts.get(name, 0) + 1
            if base in rest.split(") = ")[0]:
                pts.append([name, counts[name]])
        return pts
    finally:
        shutil.rmtree(root, ignore_errors=True)


def run_strace_history(case):
    """prep crashes (audit hook) -> one invocation killed by a real SIGKILL on entering the given syscall ->
    uninterrupted call -> second call. `case['_strace'] = {'calibrate': True}` returns the kill points instead."""
    spec = case["_strace"]
    if spec.get("calibrate"):
        return {"points": strace_calibrate(case)}
    root = new_root()
    try:
        g, loc, rel, dst, atts = _prep(case, root)
        user_snap = snapshot(dst) if case.get("user") is not None else None
        obs = {"attempts": atts, "user": user_snap is not None, "src": src_descr(case, g, rel)}
        # init state is the state before the prep crashes: rebuild it abstractly (fresh scenario: user folder or absent)
        obs["init"] = {"dst": None, "tmp": None} if user_snap is None else None
        if "timed_ms" in spec:
            # whole process group (the call and its joblib workers) killed after a delay
            name, nth = "timed", spec["timed_ms"]
            pr = subprocess.Popen(_call_cmd(case, g, loc, rel), stdout=subprocess.PIPE, stderr=subprocess.PIPE, text=True,
                                  env=_strace_env(), start_new_session=True)
            try:
                so, se = pr.communicate(timeout=None if nth is None else nth / 1000.0)
            except subprocess.TimeoutExpired:
                try:
                    os.killpg(pr.pid, signal.SIGKILL)
                except ProcessLookupError:
                    pass
                so, se = pr.communicate()
            try:
                os.killpg(pr.pid, signal.SIGKILL)      # left-over workers of a finished call
            except (ProcessLookupError, PermissionError):
                pass
            time.sleep(0.3)

            class _P:
                returncode, stdout, stderr = pr.returncode, so, se
            p = _P
        else:
            name, nth = spec["syscall"], spec["nth"]
            log = root / "strace_kill.log"
            p = subprocess.run(["strace", "-f", "-e", f"trace={name}", "-e", f"inject={name}:signal=SIGKILL:when={nth}", "-o", str(log)]
                               + _call_cmd(case, g, loc, rel), capture_output=True, text=True, env=_strace_env(), timeout=120)
        killed = p.returncode in (137, -9) and '"returned"' not in p.stdout
        a = {"status": "crashed" if killed else "returned", "result": None, "exc": None, "trace": [], "next_op": [name, nth],
             "untraced": True, "mid": False, "killed_by_sigkill": killed, "state": observe(case, dst)}
        if not killed:
            try:
                a["result"] = json.loads(p.stdout.strip().splitlines()[-1]).get("result")
            except Exception:
                raise Infra(f"strace kill run: rc={p.returncode} out={p.stdout[-200:]} err={p.stderr[-200:]}")
        obs["attempts"] = atts + [a]
        f = run_attempt(case, g, loc, rel, dst)
        f["state"] = observe(case, dst)
        f["complete"], f["why"] = is_complete_copy(case, dst)
        f["user_untouched"] = (snapshot(dst) == user_snap) if user_snap is not None else None
        obs["attempts"].append(f)
        before = snapshot(loc.parent)
        b = run_attempt(case, g, loc, rel, dst)
        b["state"] = observe(case, dst)
        b["complete"], b["why"] = is_complete_copy(case, dst)
        b["user_untouched"] = (snapshot(dst) == user_snap) if user_snap is not None else None
        b["tree_unchanged"] = snapshot(loc.parent) == before
        obs["again"] = b
        return obs
    finally:
        shutil.rmtree(root, ignore_errors=True)


# ----------------------------------------------------------------------------------------------
# case generation
# ----------------------------------------------------------------------------------------------
TREE_FILES = ["c0/x.bin", "c0/y.bin", "c1/z.bin"]
FLAT_FILES = ["x.bin", "y.bin", "z.bin"]


def scenarios(tier):
    out = []
    for fn in ("folder", "imagefolder"):
        for fmt in ("raw", "zip", "zips"):
            files = FLAT_FILES if (fn == "folder" and fmt == "zips") else TREE_FILES
            base = {"fn": fn, "fmt": fmt, "files": files, "rel": "train"}
            out.append(dict(base))
            out.append(dict(base, rel=None, local_exists=False))
            out.append(dict(base, rel="data/train", local_exists=False))
            if fmt == "zips":
                out.append(dict(base, readme=True))
                out.append(dict(base, readme=True, zbatch=3, files=files[:2] if fn == "folder" else files))
            if fmt in ("raw", "zip"):
                out.append(dict(base, files=["a.bin", "sub/b.bin"], empty_dirs=["void"]))
            if fn == "imagefolder" and fmt == "zip":
                out.append(dict(base, rel_zip_suffix=True))
            # user-provided destinations (no marker files): arbitrary content / a complete manual copy / an empty folder
            out.append(dict(base, user={"mine.txt": "user data", "sub/other.txt": "more"}))
            out.append(dict(base, rel=None, user={}))
        out.append({"fn": fn, "fmt": "raw", "files": files, "rel": "train", "user": {f: "manual " + f for f in TREE_FILES}})
        # invalid source (neither folder nor zip): compared, never judged
        out.append({"fn": fn, "fmt": "missing", "files": [], "rel": "train"})
    return out


def crash_points(att):
    """crash points of an attempt whose real trace is known: k for every op, [k,'mid'] for every file creation"""
    pts = []
    for i, op in enumerate(att["trace"], 1):
        pts.append(i)
        if op[0] == "open":
            pts.append([i, "mid"])
    return pts


def case_signature(case, obs):
    kinds = tuple((a["next_op"][0] + ":" + os.path.basename(str(a["next_op"][1]))) if a.get("next_op") else "-"
                  for a in obs["attempts"][:-1])
    fin = obs["attempts"][-1]
    return (case["fn"], case["fmt"], case["rel"], case.get("local_exists", True), case.get("user") is not None,
            bool(case.get("readme")), kinds, tuple(a.get("mid", False) for a in obs["attempts"][:-1]),
            fin["status"], json.dumps(normalise_result(case, fin["result"]) if fin["status"] == "returned" else None))


# ----------------------------------------------------------------------------------------------
# specification-level source layouts (`SrcTree` of lean/KDVerif/Model/C20Spec.lean) run against the real code
# ----------------------------------------------------------------------------------------------
# A case: {"_srctree": True, "fn": "folder"|"imagefolder", "rel": None|str, "tree": <SrcTree as JSON, the driver's layout>,
#          raw : "empty_dirs": [top-level empty folders]            (counted in nItems)
#          zips: "archive_names": [file name per archive], "other_names": [name | "name/" (a folder holding one file)]
#          raw/zips with zipSibling: "sibling_members": [...]       (content of the `<src>.zip` that must be ignored)
#          zip : "src_is_file": bool                                (`<src>` exists but is a regular file)
#          imagefolder, kind zip: "rel_zip_suffix": bool            (relative_path passed as "<rel>.zip")}
# The tree is MATERIALISED as its constructor's doc string says; the real function then runs on it uninterrupted.
ST_DIRS = ["", "", "c0", "c1", "sub", "n01440764", "deep/er", "c0/inner"]
ST_NAMES = ["a.bin", "b.png", "img_0.JPEG", "x.txt", "data.npy", "README", ".hidden", "w v.bin", "Z.BIN", "k.tar.gz", "0"]
ST_OTHERS = ["README.md", "LICENSE", "meta.json", "notes.txt", "labels.csv", "extra/", "docs/", ".gitignore"]
ST_STEMS = ["n0", "n1", "n01440764", "cls a", "dog", "cat", "v1.2"]


def _zip_bytes_to(path, members, salt=0):
    path.parent.mkdir(parents=True, exist_ok=True)
    with zipfile.ZipFile(path, "w") as z:
        for m in members:
            z.writestr(m, content_of(m, salt))


def st_clear(tree):
    """the property text's notion of a clear-cut layout (python side; the model's `Clear` is compared with it as well)"""
    if tree["kind"] == "raw":
        return tree["nZips"] == 0 or tree["nZips"] < tree["nItems"] // 2
    if tree["kind"] == "zip":
        return True
    na = len(tree["archives"])
    return na > 0 and na >= (na + tree["others"]) // 2


def st_members(tree):
    if tree["kind"] == "raw":
        return list(tree["files"])
    if tree["kind"] == "zip":
        return list(tree["members"])
    return [m for a in tree["archives"] for m in a]


def materialise_srctree(case, root):
    """builds the source the SrcTree value describes; returns (global_path, local_path, relative_path argument, dst_path)"""
    tree, fn, rel = case["tree"], case["fn"], case["rel"]
    g = root / "global"
    base = root / "L"
    base.mkdir()
    loc = base / "local"
    if rel is not None:
        loc.mkdir()          # rel None: the destination is the local root itself, which must not exist yet (else: manual copy)
    src = g / rel if rel is not None else g
    src.parent.mkdir(parents=True, exist_ok=True)
    sib = Path(str(src) + ".zip")
    kind = tree["kind"]
    if kind == "raw":
        src.mkdir()
        for f in tree["files"]:
            if f.endswith(".zip"):
                _zip_bytes_to(src / f, ["inside_" + f.replace("/", "_")[:-4] + ".bin"], salt=7)   # a real archive, copied as a file
            else:
                _write(src / f, content_of(f))
        for d in case.get("empty_dirs", []):
            (src / d).mkdir()
    elif kind == "zip":
        if case.get("src_is_file"):
            _write(src, b"not a folder")
        _zip_bytes_to(sib, tree["members"])
    elif kind == "zips":
        src.mkdir()
        names = case["archive_names"]
        if len(names) != len(tree["archives"]) or len(set(names)) != len(names):
            raise ValueError("archive_names do not match the archives")
        for nme, members in zip(names, tree["archives"]):
            if not nme.endswith(".zip") or "/" in nme:
                raise ValueError(f"bad archive name {nme}")
            if fn == "imagefolder":
                # the twin extracts `<stem>.zip` into `<dst>/<stem>/`; SrcTree members are relative to the destination
                stem = nme[:-4]
                if any(not m.startswith(stem + "/") for m in members):
                    raise ValueError(f"member of {nme} not below {stem}/")
                inner = [m[len(stem) + 1:] for m in members]
            else:
                inner = list(members)
            with zipfile.ZipFile(src / nme, "w") as z:
                for m_in, m in zip(inner, members):
                    z.writestr(m_in, content_of(m))
        others = case.get("other_names", [])
        if len(others) != tree["others"]:
            raise ValueError("other_names do not match `others`")
        for o in others:
            if o.endswith("/"):
                _write(src / o[:-1] / "inner.txt", b"a non-zip entry (folder)")
            else:
                _write(src / o, b"a non-zip entry")
    else:
        raise ValueError(kind)
    if kind != "zip" and tree["zipSibling"]:
        _zip_bytes_to(sib, case.get("sibling_members", ["sibling_only.bin"]), salt=3)
    rel_arg = rel
    if rel is not None and case.get("rel_zip_suffix") and fn == "imagefolder":
        rel_arg = rel + ".zip"
    dst = loc / rel if rel is not None else loc
    return g, loc, rel_arg, dst


def run_srctree(case, keep=False):
    """materialise, observe the source as the code can (listdir / is_dir / exists), one uninterrupted real call, list the destination"""
    root = new_root()
    try:
        g, loc, rel, dst = materialise_srctree(case, root)
        src = g / case["rel"] if case["rel"] is not None else g
        is_dir = src.exists() and src.is_dir()
        items = os.listdir(src) if is_dir else []
        seen = {"isDir": is_dir, "zipSibling": src.with_suffix(".zip").exists(), "nItems": len(items),
                "nZips": sum(1 for i in items if i.endswith(".zip"))}
        a = run_attempt({"fn": case["fn"], "fmt": "raw", "files": [], "workers": case.get("workers", 0)}, g, loc, rel, dst)
        files, markers = [], []
        if dst.is_dir():
            for dp, _dns, fns in os.walk(dst):
                for f in fns:
                    rp = os.path.relpath(os.path.join(dp, f), dst)
                    (markers if rp in (START, END) else files).append(rp)
        return {"status": a["status"], "exc": a["exc"], "result": normalise_result(case, a["result"]) if a["status"] == "returned" else None,
                "files": sorted(files), "markers": sorted(markers), "seen": seen,
                "staging_left": tmp_path_of(dst).exists()}
    finally:
        if not keep:
            shutil.rmtree(root, ignore_errors=True)


def srctree_oracle(case, obs):
    """the property text on a source given as one of the three layouts (no Lean involved): every SrcTree is a valid source;
    a clear-cut layout is reported as what it is and its complete copy holds exactly the layout's files"""
    tree, fails = case["tree"], []
    hist = f"fn={case['fn']} layout={tree['kind']} rel={case['rel']} zipSibling={tree.get('zipSibling', tree['kind'] == 'zip')}"

    def fail(key, what, expected, actual):
        fails.append(Failure(key, f"{what} [{hist}]", case, expected, actual))

    if obs["status"] != "returned":
        if st_clear(tree):
            fail("copy:layout-rejected", f"uninterrupted call on a valid {tree['kind']} source did not return: {obs['status']} {obs['exc']}",
                 "normal return", obs["exc"] or obs["status"])
        return fails
    if not st_clear(tree):
        return fails           # "mostly zips" heuristics on mixed folders: the property only speaks about the three clear-cut layouts
    res = obs["result"]
    if res != [True, False, tree["kind"]]:
        fail("copy:layout-format", f"fresh copy of a {tree['kind']} source returned {res}", [True, False, tree["kind"]], res)
    want = sorted(set(st_members(tree)))
    if obs["files"] != want or obs["markers"] != sorted([START, END]) or obs["staging_left"]:
        missing = sorted(set(want) - set(obs["files"]))
        extra = sorted(set(obs["files"]) - set(want))
        fail("copy:layout-file-set", f"normal return but the destination does not hold exactly the source's files: missing={missing[:4]} "
             f"extra={extra[:4]} markers={obs['markers']} staging_left={obs['staging_left']}", want, obs["files"])
    return fails


def compare_srctree(case, obs, ans):
    """model (`SrcTree.members/format/toSrc/Clear`, `checkSrc`, `fmtOf`) against what the real code saw and produced"""
    if ans.get("error"):
        return f"driver error {ans['error']}"
    seen = obs["seen"]
    for k in ("isDir", "zipSibling", "nItems", "nZips"):
        if ans["toSrc"][k] != seen[k]:
            return f"toSrc.{k}={ans['toSrc'][k]} but the materialised source shows {seen[k]}"
    if ans["checkSrc"] != (obs["status"] == "returned"):
        return f"checkSrc={ans['checkSrc']} but the real call {obs['status']} {obs['exc']}"
    if ans["clear"] != st_clear(case["tree"]):
        return f"Clear={ans['clear']} differs from the property text's reading of the layout"
    if obs["status"] != "returned":
        return None
    got_fmt = obs["result"][2]
    if ans["fmtOf"] != got_fmt:
        return f"fmtOf(toSrc)={ans['fmtOf']} but the real result reports {got_fmt}"
    if ans["clear"]:
        if ans["format"] != got_fmt:
            return f"format={ans['format']} but the real result reports {got_fmt}"
        if sorted(set(ans["members"])) != obs["files"]:
            return "members differ from the files below the destination"
        if ans["toSrc"]["nFiles"] != len(obs["files"]):
            return f"toSrc.nFiles={ans['toSrc']['nFiles']} but the destination holds {len(obs['files'])} files"
    return None


def _st_conflict(p, taken):
    return any(p == q or q.startswith(p + "/") or p.startswith(q + "/") for q in taken)


def _st_paths(rng, n, taken, prefix=""):
    out = []
    for _ in range(n * 4):
        if len(out) >= n:
            break
        d = rng.choice(ST_DIRS)
        p = prefix + (d + "/" if d else "") + rng.choice(ST_NAMES)
        if not _st_conflict(p, taken):
            taken.append(p)
            out.append(p)
    return out


def gen_srctree(rng, kind=None, want_clear=None):
    """one random small layout; returns a list of cases (the same tree for both functions where it is meaningful for both)"""
    kind = kind or rng.choice(["raw", "zip", "zips", "zips"])
    rel = rng.choice([None, "train", "train", "data/train", "im net/val"])
    if want_clear is None:
        want_clear = rng.random() < 0.7
    extra = {}
    fns = ["folder", "imagefolder"]
    if kind == "zip":
        taken = []
        tree = {"kind": "zip", "members": _st_paths(rng, rng.choice([0, 1, 2, 3, 5]), taken)}
        if rng.random() < 0.2 and rel is not None:
            extra["src_is_file"] = True
    elif kind == "raw":
        taken = []
        files = _st_paths(rng, rng.choice([0, 1, 2, 3, 4, 6]), taken)
        top = lambda: {f.split("/")[0] for f in files} | set(extra.get("empty_dirs", []))
        if rng.random() < 0.25 and not _st_conflict("void", taken):
            extra["empty_dirs"] = ["void"]
            taken.append("void")
        n_other = len(top())
        if want_clear:
            # zips (real archives, copied as files) stay a strict minority: nZips < nItems // 2
            nz = rng.choice([0, 0, 1, 2])
            while nz > 0 and not nz < (n_other + nz) // 2:
                nz -= 1
        else:
            nz = rng.choice([1, 2, 3])
            while not nz >= (n_other + nz) // 2:
                nz += 1
        for i in range(nz):
            if want_clear and i == 0 and rng.random() < 0.3:
                files.append(f"old_{i}.zip/kept.bin")         # a top-level FOLDER named *.zip counts as a zip entry for the heuristic
            else:
                files.append(f"batch_{i}.zip")
        if rng.random() < 0.3:
            files.append("sub2/nested_archive.zip")           # not top level: no zip entry
        rng.shuffle(files)
        tp = top()
        tree = {"kind": "raw", "zipSibling": rng.random() < 0.4, "nItems": len(tp), "nZips": sum(1 for t in tp if t.endswith(".zip")),
                "files": files}
    else:
        classwise = rng.random() < 0.6
        na = rng.choice([1, 1, 2, 3, 4]) if want_clear else rng.choice([0, 0, 1, 1, 2])
        if want_clear:
            no = rng.choice([k for k in range(0, 7) if na >= (na + k) // 2])
        else:
            cand = [k for k in range(0, 8) if na == 0 or not na >= (na + k) // 2]
            no = rng.choice(cand)
        taken, archives, names = [], [], []
        if classwise:
            stems = rng.sample(ST_STEMS, na)
            for s in stems:
                taken.append(s + ".zip")
                archives.append(_st_paths(rng, rng.choice([0, 1, 2, 3]), taken, prefix=s + "/"))
                names.append(s + ".zip")
        else:
            fns = ["folder"]
            for i in range(na):
                archives.append(_st_paths(rng, rng.choice([0, 1, 2, 3]), taken))
                names.append(rng.choice(["batch_{}.zip", "part-{}.zip", "{}.zip"]).format(i))
        others = rng.sample(ST_OTHERS, no)
        tree = {"kind": "zips", "zipSibling": rng.random() < 0.4, "archives": archives, "others": no}
        extra["archive_names"] = names
        extra["other_names"] = others
    if tree.get("zipSibling"):
        extra["sibling_members"] = ["sibling_only.bin", "c0/sibling_too.bin"][:rng.choice([1, 2])]
    out = []
    for fn in fns:
        c = dict({"_srctree": True, "fn": fn, "rel": rel, "tree": tree}, **extra)
        if fn == "imagefolder" and kind == "zip" and rel is not None and rng.random() < 0.3:
            c["rel_zip_suffix"] = True
        out.append(c)
    return out


def srctree_fixed():
    """hand-picked layouts: the boundary of the "mostly zips" heuristic on both sides, README variants, empty layouts"""
    out = []
    cw = [["n0/1.png", "n0/2.png"], ["n1/1.png"], ["dog/sub/x.JPEG"]]
    nm = ["n0.zip", "n1.zip", "dog.zip"]
    for no in range(0, 6):
        for k in (1, 2, 3):
            tree = {"kind": "zips", "zipSibling": no % 2 == 1, "archives": cw[:k], "others": no}
            for fn in ("folder", "imagefolder"):
                out.append({"_srctree": True, "fn": fn, "rel": "train", "tree": tree, "archive_names": nm[:k], "other_names": ST_OTHERS[:no],
                            "sibling_members": ["sibling_only.bin"]})
    for nz in range(0, 4):
        for nplain in range(0, 6):
            files = [f"batch_{i}.zip" for i in range(nz)] + [f"c{i}/f{i}.bin" for i in range(nplain)]
            tree = {"kind": "raw", "zipSibling": (nz + nplain) % 3 == 0, "nItems": nz + nplain, "nZips": nz, "files": files}
            for fn in ("folder", "imagefolder")[:1 + (nz + nplain) % 2]:
                out.append({"_srctree": True, "fn": fn, "rel": None if nplain % 2 else "data/train", "tree": tree})
    for fn in ("folder", "imagefolder"):
        out.append({"_srctree": True, "fn": fn, "rel": "train", "tree": {"kind": "zip", "members": []}})
        out.append({"_srctree": True, "fn": fn, "rel": None, "tree": {"kind": "zip", "members": ["a/b/c/d.bin", "top.bin"]}})
        out.append({"_srctree": True, "fn": fn, "rel": "train", "rel_zip_suffix": True, "tree": {"kind": "zip", "members": ["c0/x.bin"]}})
        out.append({"_srctree": True, "fn": fn, "rel": "train", "tree": {"kind": "zips", "zipSibling": False, "archives": [], "others": 0},
                    "archive_names": [], "other_names": []})
    return out


def srctree_signature(case, obs):
    t = case["tree"]
    return ("srctree", case["fn"], t["kind"], st_clear(t), bool(t.get("zipSibling")), case["rel"], min(len(st_members(t)), 4),
            t.get("others", 0) > 0, obs["status"], json.dumps(obs["result"]))


class C20(PropertyCheck):
    pid = "C20"
    claimed = True
    props_modules = ["KDVerif.Props.C20"]
    extra_build = ["KDVerif.Driver.CopyProtocol"]
    driver_main = "mains/CopyProtocol.lean"
    anchored = ["kappadata/copying/folder.py", "kappadata/copying/image_folder.py", "kappadata/copying/copying_utils.py"]
    design_ref = "DESIGN.md 3 (C20)"
    technique = "Lean 4 proof over hand model (small-step file-system machine) + op-trace refinement with killed child processes"
    assumptions = [
        "a single mkdir / unlink / rmdir / rename / open(O_CREAT) is atomic; rename of the staging folder onto a non-existing "
        "path is atomic (POSIX)",
        "no fsync / power-loss semantics: the state after a kill is what the completed system calls left",
        "the source holds no entries named autocopy_start.txt / autocopy_end.txt and does not change during the copy",
        "a user-provided destination holds no autocopy_start.txt",
        "no concurrent invocations on the same destination; nobody else writes into the destination or '<dst>.autocopy_tmp'",
        "shutil.copytree / ZipFile.extractall / joblib workers create each file once (create, then fill) in some order (order = oracle tape)",
    ]
    trusted_extra = [
        "modelled by hand: copy_folder_from_global_to_local and copy_imagefolder_from_global_to_local (marker protocol, staging "
        "folder + rename, wipe loop), _check_src_path, folder_contains_mostly_zips",
        "not modelled (below the abstraction, checked byte-level by the oracle on every normal return): file contents, "
        "sub-directories, zip decoding, unzip_batched_zips / unzip_imagefolder_classwise job lists, joblib scheduling",
        "tracer: sys.addaudithook in a forked child (os._exit(137) before the k-th mutating operation; a half-written file is "
        "produced by truncating the file the k-th operation creates); thorough: strace SIGKILL injection at syscall entry; "
        "copying modules imported through stub parent packages (same source files, no torch import)",
    ]
    level_text = ("Lean theorems (KDVerif.Props.C20) over a small-step machine of the marker protocol with arbitrary deletion/copy order "
                  "and a crash before every mutating step: file-system invariant preserved by every (killed or completed) invocation and by "
                  "every history; any normal return after any history => complete copy, or untouched user-provided folder; completed copy "
                  "never touched again; interrupted copy only returned after delete+recopy; result truthful. Tied to the code by op-trace "
                  "refinement: audit-hook traced child processes killed before every mutating operation (sequences of up to 3 kills), "
                  "abstract state / step sequence / return value compared with the model after every attempt, plus a byte-level oracle.")
    level_note = ("trusted: Lean kernel + standard axioms; the tracer/canonicaliser; atomicity of single syscalls; no fsync model; file contents, "
                  "sub-directories and zip decoding are below the model (checked byte-level at run time only); concurrent invocations out of scope; "
                  "termination of an uninterrupted call is shown by examples and the correspondence, not by a theorem")

    # ---- helpers ---------------------------------------------------------------------------
    def _run(self, pool, cases):
        res = pool.map(cases)
        out = []
        for c, r in zip(cases, res):
            if not r["ok"]:
                raise RuntimeError(f"real-code runner failed on {json.dumps(c)[:300]}: {r['err']} {r.get('tb', '')[-600:]}")
            out.append(r["obs"])
        return out

    def _judge(self, res, cases, obss):
        reqs, exps, own = [], [], []
        for ci, (c, o) in enumerate(zip(cases, obss)):
            if c.get("_oracle_only"):
                continue        # scale cases: thousands of operations; judged by the oracle on the real result, not replayed in the model
            rq, ex = requests_for(c, o)
            reqs += rq
            exps += ex
            own += [ci] * len(rq)
        answers = self.driver.run(reqs)
        bad_cases = set()
        for ci, rq, ex, an in zip(own, reqs, exps, answers):
            case = cases[ci]
            why = compare_attempt(ex, an)
            user = case.get("user") is not None
            if why is None and not user and case["fmt"] != "missing" and not an.get("inv", True):
                why = "observed state violates the model's invariant (invAutoB)"
            if why and ci not in bad_cases:
                bad_cases.add(ci)
                if len(res.disagreements) < 40:
                    res.disagreements.append(Disagreement(
                        {k: v for k, v in case.items()},
                        {"labels": an.get("labels"), "fs": an.get("fs"), "pc": an.get("pc"), "result": an.get("result"), "inv": an.get("inv")},
                        ex, note=why))
        for c, o in zip(cases, obss):
            res.cases += 1
            res.nontrivial.add(case_signature(c, o))
            fin = o["attempts"][-1]
            res.bump(f"fn={c['fn']}")
            res.bump(f"fmt={c['fmt']}")
            res.bump(f"kills={len(o['attempts']) - 1}")
            res.bump("user-provided" if c.get("user") is not None else "automatic")
            res.bump(f"final={fin['status']}:{normalise_result(c, fin['result']) if fin['status'] == 'returned' else fin.get('exc', '')[:20]}")
            for a in o["attempts"][:-1]:
                if a.get("untraced"):
                    res.bump(f"sigkill@{a['next_op'][0]}")
                elif a.get("next_op"):
                    kind = a["next_op"][0] + (":mid" if a.get("mid") else "")
                    res.bump(f"kill-before:{kind}:{os.path.basename(str(a['next_op'][1]))[:20] if a['next_op'][0] != 'open' or os.path.basename(a['next_op'][1]) in (START, END) else 'file'}")
                else:
                    res.bump("kill-point-beyond-last-op")
            for f in oracle(c, o):
                if len(res.failures) < 40 and (sum(1 for g in res.failures if g.key == f.key) < 3):
                    res.failures.append(f)
            if len(res.samples) < 4 and len(o["attempts"]) >= 2 + len(res.samples) % 2 and c.get("user") is None:
                res.samples.append({"case": c, "attempts": [{"killed_before": a.get("next_op"), "mid": a.get("mid"), "state": a["state"],
                                                              "status": a["status"], "result": a["result"]} for a in o["attempts"]]})

    # ---- correspondence ----------------------------------------------------------------------
    def correspond(self):
        res = CorrResult()
        quick = self.tier == "quick"
        pool = RealPool(8 if quick else 12)
        try:
            scen = scenarios(self.tier)
            corpus = []
            cdir = Path(__file__).resolve().parents[2] / "corpus" / "copyprotocol"
            if cdir.exists():
                corpus = [json.loads(p.read_text()) for p in sorted(cdir.glob("*.json"))]
            # depth 0: uninterrupted
            c0 = [dict(s, crashes=[]) for s in scen]
            o0 = self._run(pool, corpus + c0)
            self._judge(res, corpus + c0, o0)
            o0 = o0[len(corpus):]
            # depth 1: every crash point of the fresh copy (exhaustive)
            c1 = []
            for s, o in zip(scen, o0):
                for k in crash_points(o["attempts"][0]):
                    c1.append(dict(s, crashes=[k]))
            o1 = self._run(pool, c1)
            self._judge(res, c1, o1)
            # depth 2: every crash point of the attempt that follows (exhaustive in thorough, sampled in quick)
            c2 = []
            for c, o in zip(c1, o1):
                for k in crash_points(o["attempts"][-1]):
                    c2.append(dict(c, crashes=c["crashes"] + [k]))
            n2_all = len(c2)
            if quick:
                self.rng.shuffle(c2)
                c2 = c2[:1000]
            o2 = self._run(pool, c2)
            self._judge(res, c2, o2)
            # depth 3: sampled
            c3 = []
            for c, o in zip(c2, o2):
                for k in crash_points(o["attempts"][-1]):
                    c3.append(dict(c, crashes=c["crashes"] + [k]))
            self.rng.shuffle(c3)
            c3 = c3[:400 if quick else 6000]
            o3 = self._run(pool, c3)
            self._judge(res, c3, o3)
            n_zipc = self._zipcount_leg(res, pool)
            n_srct = self._srctree_leg(res, pool)
            n_strace = 0
            n_timed = 0
            if not quick:
                n_strace = self._strace_leg(res, pool, scen, o0)
                n_timed = self._workers_leg(res, pool)
            res.exhaustive = not quick
            res.rule = (f"{len(corpus)} corpus + {len(c0)} scenarios (2 functions x raw/zip/zips x relative_path none/1/2 levels x local root "
                        f"present/absent x README/zip-count variants x user-provided folders x invalid source) uninterrupted; every crash point "
                        f"(before each mutating op + inside each file creation) of the first attempt ({len(c1)}); second crash points "
                        f"{len(c2)} of {n2_all} ({'sampled' if quick else 'complete'}); {len(c3)} sampled histories with three kills; "
                        f"{n_zipc} folder-of-zips histories with 1..7 zips x num_workers 0..3 (joblib path {'sampled incl. 5/2, 7/3' if quick else 'complete'}); "
                        f"{n_strace} real-SIGKILL (strace) histories, {n_timed} timed process-group kills with num_workers=2; each history ends with two "
                        f"uninterrupted calls; distinct = (scenario, kill-point kinds, final result); {n_srct} source layouts given as `SrcTree` values "
                        "(raw / zip / zips, clear-cut and not, with/without `<src>.zip` sibling and non-zip entries; fixed boundary grid + random), "
                        "materialised on disk and copied by the real functions: `SrcTree.toSrc/members/format/Clear`, `checkSrc`, `fmtOf` (driver op "
                        "cp.srctree) against what the code sees, reports and leaves below the destination")
        finally:
            pool.close()
        res.failures.sort(key=lambda f: len(json.dumps(f.input)))
        return res

    def _strace_leg(self, res, pool, scen, o0):
        units = []
        for s, o in zip(scen, o0):
            if s.get("user") is not None or s["fmt"] == "missing" or s.get("rel") != "train" or s.get("readme") or s.get("empty_dirs") \
                    or s.get("rel_zip_suffix"):
                continue
            n = len(o["attempts"][0]["trace"])
            units.append(dict(s, crashes=[]))
            units.append(dict(s, crashes=[max(1, n - 2)]))          # redo path: wipe of an almost complete copy
        cal = pool.map([dict(u, _strace={"calibrate": True}) for u in units])
        cases = []
        for u, r in zip(units, cal):
            if not r["ok"]:
                raise Infra(f"strace calibration failed: {r['err']}")
            for name, nth in r["obs"]["points"]:
                cases.append(dict(u, _strace={"syscall": name, "nth": nth}))
        obss = self._run(pool, cases)
        for c, o in zip(cases, obss):
            a = o["attempts"][-2]
            res.bump("strace:killed" if a.get("killed_by_sigkill") else "strace:not-killed(miscalibrated)")
        self._judge(res, cases, obss)
        return len(cases)

    def _zipcount_leg(self, res, pool):
        """folder-of-zips sources with 1..7 zips x num_workers 0..3: uninterrupted, plus kills right before the end marker and
        during the deletion of the leftovers on the following call. quick: all counts for num_workers 0/1 and a sample
        (incl. 5 zips / 2 workers, 7 / 3) for the joblib path; thorough: everything."""
        quick = self.tier == "quick"
        combos = [(n, w) for n in range(1, 8) for w in (0, 1)]
        heavy = [(5, 2), (7, 3), (3, 2), (4, 3)] if quick else [(n, w) for n in range(1, 8) for w in (2, 3)]
        cases = []
        for fn in ("folder", "imagefolder"):
            for n, w in combos + heavy:
                if quick and w <= 1 and (n + (fn == "folder")) % 2 and n not in (5, 7):
                    continue
                files = [f"m{i}.bin" for i in range(n)] if fn == "folder" else [f"k{i}/img.bin" for i in range(n)]
                if fn == "imagefolder" and n >= 3:
                    files.append("k0/second.bin")
                cases.append({"fn": fn, "fmt": "zips", "files": files, "rel": "train", "zbatch": 1, "workers": w, "crashes": []})
        # scale: sources with far more entries than any small-scope case (a listing / batching limit inside the code shows only here)
        big = 1100 if quick else 5200
        cases.append({"fn": "folder", "fmt": "zips", "files": [f"m{i}.bin" for i in range(big)], "rel": "train", "zbatch": 1, "workers": 0,
                      "crashes": [], "_oracle_only": True})
        cases.append({"fn": "imagefolder", "fmt": "zips", "files": [f"k{i}/img.bin" for i in range(big)], "rel": "train", "zbatch": 1,
                      "workers": 2, "crashes": [], "_oracle_only": True})
        cases.append({"fn": "folder", "fmt": "raw", "files": [f"d{i % 7}/m{i}.bin" for i in range(big)], "rel": "train", "workers": 0, "crashes": [],
                      "_oracle_only": True})
        cases.append({"fn": "folder", "fmt": "zip", "files": [f"d{i % 7}/m{i}.bin" for i in range(big)], "rel": "train", "workers": 0, "crashes": [],
                      "_oracle_only": True})
        obss = self._run(pool, cases)
        self._judge(res, cases, obss)
        # interrupted: killed right before the end marker (all jobs done), then the next call deletes and extracts again
        inter = []
        for c, o in zip(cases, obss):
            if (c["workers"], len(c["files"])) in ((2, 5), (3, 7), (0, 5)) or (not quick and c["workers"] >= 2 and len(c["files"]) % 2):
                n_ops = len(o["attempts"][0]["trace"])
                inter.append(dict(c, crashes=[n_ops]))
                inter.append(dict(c, crashes=[n_ops, 2]))
        obsi = self._run(pool, inter)
        self._judge(res, inter, obsi)
        for c in cases + inter:
            res.bump(f"zips={sum(1 for _ in set(f.split('/')[0] for f in c['files']))}:workers={c['workers']}")
        return len(cases) + len(inter)

    def _workers_leg(self, res, pool):
        cases = []
        for fn in ("folder", "imagefolder"):
            base = {"fn": fn, "fmt": "zips", "files": FLAT_FILES + ["w.bin", "v.bin", "u.bin"] if fn == "folder" else
                    TREE_FILES + ["c2/w.bin", "c3/v.bin"], "rel": "train", "workers": 2, "zbatch": 1, "crashes": []}
            cases.append(dict(base, _strace={"timed_ms": None}))
            for _ in range(3):
                cases.append(dict(base, _strace={"timed_ms": self.rng.randint(250, 1600)}))
        obss = self._run(pool, cases)
        for c, o in zip(cases, obss):
            a = o["attempts"][-2] if len(o["attempts"]) >= 2 else None
            res.bump(f"workers=2:{'killed' if a and a.get('killed_by_sigkill') else 'finished-before-kill'}")
        self._judge(res, cases, obss)
        return len(cases)

    def _srctree_leg(self, res, pool):
        """`SrcTree` (Model/C20Spec.lean) against the code: every layout is materialised, copied by the real function(s) and compared with
        the model's `toSrc` (what the code sees), `fmtOf`/`format` (what it reports), `members`/`nFiles` (what a complete copy holds)"""
        quick = self.tier == "quick"
        cases = srctree_fixed()
        n_rand = 160 if quick else 1500
        kinds = ["raw", "zip", "zips"]
        for i in range(n_rand):
            cases += gen_srctree(self.rng, kind=kinds[i % 3] if i < 60 else None, want_clear=(i % 2 == 0) if i < 60 else None)
        obss = self._run(pool, cases)
        answers = self.driver.run([{"op": "cp.srctree", "tree": c["tree"]} for c in cases])
        for c, o, an in zip(cases, obss, answers):
            res.cases += 1
            res.nontrivial.add(srctree_signature(c, o))
            t = c["tree"]
            res.bump(f"srctree:{c['fn']}:{t['kind']}:{'clear' if st_clear(t) else 'unclear'}")
            res.bump(f"srctree:reported={o['result'][2] if o['result'] else o['status']}")
            if t.get("zipSibling"):
                res.bump("srctree:zip-sibling-ignored")
            why = compare_srctree(c, o, an)
            if why and len(res.disagreements) < 40:
                res.disagreements.append(Disagreement(dict(c), an, o, note="srctree: " + why))
            for f in srctree_oracle(c, o):
                if len(res.failures) < 40 and (sum(1 for g in res.failures if g.key == f.key) < 3):
                    res.failures.append(f)
        for c, o, an in zip(cases, obss, answers):
            if c["tree"]["kind"] == "zips" and c["tree"]["others"] and st_clear(c["tree"]) and len(res.samples) < 5:
                res.samples.append({"case": c, "model": an, "real": o})
                break
        return len(cases)

    # ---- search / replay ------------------------------------------------------------------------
    def _observe(self, case):
        if case.get("_srctree"):
            return run_srctree(case)
        if case.get("_strace"):
            return run_strace_history(case)
        return run_history(case)

    def replay_input(self, inp):
        fs = oracle(inp, self._observe(inp))
        return fs[0] if fs else None

    def search(self, budget_s, hints):
        t0 = time.time()
        out = []
        for h in hints:
            out += oracle(h, self._observe(h))
            if out:
                return out[:3]
        pool = RealPool(8)
        try:
            rng = random.Random(self.seed + 20)
            scen = [s for s in scenarios(self.tier) if s.get("user") is None and s["fmt"] != "missing"]
            while not out and time.time() - t0 < budget_s:
                batch = []
                for _ in range(64):
                    s = rng.choice(scen)
                    cr = []
                    for _ in range(rng.randint(1, 3)):
                        k = rng.randint(1, 16)
                        cr.append(k if rng.random() < 0.7 else [k, "mid"])
                    batch.append(dict(s, crashes=cr))
                for _ in range(24):
                    batch += gen_srctree(rng)
                for c, r in zip(batch, pool.map(batch)):
                    if r["ok"]:
                        out += oracle(c, r["obs"])
        finally:
            pool.close()
        return out[:3]


if __name__ == "__main__" and len(sys.argv) > 1 and sys.argv[1] == "worker":
    worker_main()
if __name__ == "__main__" and len(sys.argv) > 1 and sys.argv[1] == "call":
    call_main(sys.argv[2:])
