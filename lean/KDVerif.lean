-- Root of the `KDVerif` library: models, drivers, property theorems, audits.
import KDVerif.Model.Interleaved
import KDVerif.Driver.Interleaved
