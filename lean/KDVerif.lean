-- Root of the `KDVerif` library. `bin/setup` builds every module under KDVerif/ explicitly.
import KDVerif.Driver.Loop
