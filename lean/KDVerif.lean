-- Root of the `KDVerif` library: models, drivers, property theorems.
import KDVerif.Driver.All
import KDVerif.Props.C04
import KDVerif.Props.C05
import KDVerif.Props.C06
