import KDVerif.Driver.Loop
import KDVerif.Driver.Selection
def main : IO Unit := KDVerif.Driver.mainLoop KDVerif.Selection.Driver.handle
