import KDVerif.Driver.Loop
import KDVerif.Driver.Strength
def main : IO Unit := KDVerif.Driver.mainLoop KDVerif.Strength.Driver.handle
