import KDVerif.Driver.Loop
import KDVerif.Driver.MixCollator
def main : IO Unit := KDVerif.Driver.mainLoop KDVerif.MixCollator.Driver.handle
