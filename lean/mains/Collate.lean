import KDVerif.Driver.Loop
import KDVerif.Driver.Collate
def main : IO Unit := KDVerif.Driver.mainLoop KDVerif.Collate.Driver.handle
