import KDVerif.Driver.Loop
import KDVerif.Driver.Samplers
def main : IO Unit := KDVerif.Driver.mainLoop KDVerif.Samplers.Driver.handle
