import KDVerif.Driver.Loop
import KDVerif.Driver.Masks
def main : IO Unit := KDVerif.Driver.mainLoop KDVerif.Masks.Driver.handle
