import KDVerif.Driver.Loop
import KDVerif.Driver.IndexMaps
def main : IO Unit := KDVerif.Driver.mainLoop KDVerif.IndexMaps.Driver.handle
