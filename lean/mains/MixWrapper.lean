import KDVerif.Driver.Loop
import KDVerif.Driver.MixWrapper
def main : IO Unit := KDVerif.Driver.mainLoop KDVerif.MixWrapper.Driver.handle
