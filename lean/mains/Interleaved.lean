import KDVerif.Driver.Loop
import KDVerif.Driver.Interleaved
def main : IO Unit := KDVerif.Driver.mainLoop KDVerif.Interleaved.Driver.handle
