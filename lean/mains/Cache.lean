import KDVerif.Driver.Loop
import KDVerif.Driver.Cache
def main : IO Unit := KDVerif.Driver.mainLoop KDVerif.Cache.Driver.handle
