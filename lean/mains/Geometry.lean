import KDVerif.Driver.Loop
import KDVerif.Driver.Geometry
def main : IO Unit := KDVerif.Driver.mainLoop KDVerif.Geometry.Driver.handle
