import KDVerif.Driver.Loop
import KDVerif.Driver.CopyProtocol
def main : IO Unit := KDVerif.Driver.mainLoop KDVerif.CopyProtocol.Driver.handle
