import KDVerif.Driver.Loop
import KDVerif.Driver.RngFlow
def main : IO Unit := KDVerif.Driver.mainLoop KDVerif.RngFlow.Driver.handle
