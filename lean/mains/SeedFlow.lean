import KDVerif.Driver.Loop
import KDVerif.Driver.SeedFlow
def main : IO Unit := KDVerif.Driver.mainLoop KDVerif.SeedFlow.Driver.handle
