import KDVerif.Driver.Loop
import KDVerif.Driver.Labels
def main : IO Unit := KDVerif.Driver.mainLoop KDVerif.Labels.Driver.handle
