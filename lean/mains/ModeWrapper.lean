import KDVerif.Driver.Loop
import KDVerif.Driver.ModeWrapper
def main : IO Unit := KDVerif.Driver.mainLoop KDVerif.ModeWrapper.Driver.handle
