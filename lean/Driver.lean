/- Line-protocol driver: one JSON request per line on stdin, one JSON answer per line on stdout.
   Run with `lake env lean --run Driver.lean`. -/
import KDVerif.Driver.All
open Lean

partial def loop (h : IO.FS.Stream) (out : IO.FS.Stream) : IO Unit := do
  let line ← h.getLine
  if line.isEmpty then return ()
  let ans := match Json.parse line with
    | .error e => Json.mkObj [("error", Json.str s!"parse: {e}")]
    | .ok j => match KDVerif.Driver.dispatch j with
      | .ok r => r
      | .error e => Json.mkObj [("error", Json.str e)]
  out.putStrLn ans.compress
  loop h out

def main : IO Unit := do
  let i ← IO.getStdin
  let o ← IO.getStdout
  loop i o
  o.flush
