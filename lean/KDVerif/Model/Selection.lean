/-
Model of the index-selecting dataset wrappers of `kappadata/wrappers/dataset_wrappers/`
(every one of them computes `indices` once in `__init__` and hands it to `KDSubset`):

  class_filter_wrapper.py        → `classFilter`
  percent_filter_wrapper.py      → `percentFilter`
  subset_wrapper.py              → `subsetRange` (start/end index or percent), `subsetExplicit` (indices=...)
  shuffle_wrapper.py             → `shuffle`
  repeat_wrapper.py              → `repeatW`
  oversampling_wrapper.py        → `oversample` (`oversampleMultiply`, `oversampleExact` with the literal `while`)
  sort_by_class_wrapper.py       → `sortByClass`
  intra_class_shuffle_wrapper.py → `intraClassShuffle`
  fewshot_wrapper.py             → `fewshot`
  classwise_subset_wrapper.py    → `classwiseSubset`
  utils/class_counts.py          → `classCounts`, `countsLen` (get_class_counts / get_class_counts_and_indices)

Inputs: `cls : List Int` = `[dataset.getitem_class(i) for i in range(len(dataset))]` (-1 = unlabeled),
`nc` = `dataset.getdim_class()`, the constructor arguments, and for the seeded wrappers the *tape* of draws the
numpy generator made (each draw = the positions `perm` with `out[j] = in[perm[j]]`, a permutation of
`range k`); the model never implements a generator.

Floats: a percentage is an exact rational (every float is one); the three float→int roundings of the code
are *parameters* of the model (theorems quantify over them, the driver is handed the integers):
  `cutF p n` = `int(p * n)`            (percent filter floor mode, subset wrapper; float64)
  `cutC p n` = `np.ceil(p * n)`        (percent filter ceil mode; float64)
  `cutT p k` = `int(p * counts[i])`    (class-wise subset; `counts[i]` is a 0-dim long tensor → float32 product)

Python's `x or default` is `pyOrNat` / `pyOrRat` (0 and 0.0 are falsy); `default if x is None else x` is `Option.getD`.
No imports: core Lean only.
-/
namespace KDVerif.Selection

inductive Err where
  | assertion        -- AssertionError
  | runtime          -- RuntimeError (explicit `raise RuntimeError`, `torch.max` of an empty tensor)
  | notImplemented   -- NotImplementedError
  | valueError       -- ValueError (`np.max` of an empty array, `torch.concat([])`)
  | attribute        -- AttributeError
  | index            -- IndexError
  | tape             -- the tape handed to the model does not have one draw per call (driver input error)
  | outOfFuel        -- the literal `while` loop did not end within the fuel (observed as a timeout)
deriving Repr, DecidableEq

/-! ### Python primitives -/

/-- `x or d` for an optional int: `None` and `0` are falsy -/
def pyOrNat (x : Option Nat) (d : Nat) : Nat :=
  match x with
  | none => d
  | some v => if v = 0 then d else v

/-- `x or d` for an optional float: `None` and `0.0` are falsy -/
def pyOrRat (x : Option Rat) (d : Rat) : Rat :=
  match x with
  | none => d
  | some v => if v = 0 then d else v

/-- positions (counted from `off`) of the entries satisfying `p`:
    `np.arange(n)[mask]`, `mask.nonzero()` -/
def idxFrom (p : Int → Bool) : Nat → List Int → List Nat
  | _, [] => []
  | off, c :: cs => if p c then off :: idxFrom p (off + 1) cs else idxFrom p (off + 1) cs

/-- `(classes == c).nonzero()` / `arange[classes == c]` -/
def whereEq (cls : List Int) (c : Int) : List Nat := idxFrom (fun x => x == c) 0 cls

/-- fancy indexing `x[pos]` (positions outside `x` cannot occur for tapes satisfying the generator contract) -/
def gather (x : List Nat) (pos : List Nat) : List Nat := pos.filterMap (fun j => x[j]?)

/-- `np.tile(x, r)` / `torch.tile(x, dims=[r])` -/
def tile (x : List Nat) (r : Nat) : List Nat := (List.replicate r x).flatten

/-- `x[s:e]` for non-negative `s`, `e` -/
def pySlice (x : List Nat) (s e : Nat) : List Nat := (x.take e).drop s

/-- `x[:k]` for any int `k` (negative `k` drops the last `-k` entries) -/
def pySliceTo (x : List Nat) (k : Int) : List Nat :=
  if 0 ≤ k then x.take k.toNat else x.take (x.length - (-k).toNat)

/-- `np.arange(a, b)` for naturals (empty when `b ≤ a`) -/
def arange (a b : Nat) : List Nat := List.range' a (b - a)

/-- `a[i]` on a Python list for any int `i` (negative counts from the end) -/
def pyGet {α : Type} (l : List α) (i : Int) : Option α :=
  if 0 ≤ i then l[i.toNat]? else if (-i).toNat ≤ l.length then l[l.length - (-i).toNat]? else none

def pctOk : Option Rat → Bool
  | none => true
  | some p => decide (0 ≤ p) && decide (p ≤ 1)

/-! ### class_filter_wrapper.py -/

/-- `_check_params` (exactly one of the two lists) and the `np.isin` mask -/
def classFilter (cls : List Int) (valid invalid : Option (List Int)) : Except Err (List Nat) :=
  match valid, invalid with
  | some v, none => .ok (idxFrom (fun c => v.contains c) 0 cls)
  | none, some iv => .ok (idxFrom (fun c => !iv.contains c) 0 cls)
  | _, _ => .error .assertion

/-! ### percent_filter_wrapper.py -/

def percentFilter (cutF cutC : Rat → Nat → Nat) (n : Nat) (fromP toP : Option Rat)
    (ceilFrom ceilTo : Bool) : Except Err (List Nat) :=
  let fp := pyOrRat fromP 0          -- `from_percent or 0.`
  let tp := toP.getD 1               -- `1. if to_percent is None else to_percent`
  if 0 ≤ fp ∧ fp ≤ 1 ∧ 0 ≤ tp ∧ tp ≤ 1 then
    .ok (arange ((if ceilFrom then cutC else cutF) fp n) ((if ceilTo then cutC else cutF) tp n))
  else .error .assertion

/-! ### subset_wrapper.py -/

/-- `SubsetWrapper(ds, start_index=, end_index=, start_percent=, end_percent=)` with `indices=None` -/
def subsetRange (cutF : Rat → Nat → Nat) (n : Nat) (startI endI : Option Nat)
    (startP endP : Option Rat) : Except Err (List Nat) :=
  if startI.isSome || endI.isSome then
    if startP.isSome || endP.isSome then .error .assertion
    else
      let e := min (endI.getD n) n     -- `len(ds) if end_index is None else end_index`, then `min(.., len(ds))`
      let s := pyOrNat startI 0        -- `start_index or 0`
      if s ≤ e then .ok (arange s e) else .error .assertion
  else if startP.isSome || endP.isSome then
    if pctOk startP && pctOk endP then
      let sp := pyOrRat startP 0       -- `start_percent or 0.`
      let ep := endP.getD 1            -- `1. if end_percent is None else end_percent`
      if sp ≤ ep then .ok (arange (cutF sp n) (cutF ep n)) else .error .assertion
    else .error .assertion
  else .error .runtime

/-- `SubsetWrapper(ds, indices=idx, ...)`: the list is kept as given (negative entries allowed down to `-n`) -/
def subsetExplicit (n : Nat) (idx : List Int) (otherArgGiven : Bool) : Except Err (List Int) :=
  if otherArgGiven then .error .assertion
  else if idx.all (fun (i : Int) => decide (-(n : Int) ≤ i) && decide (i < (n : Int))) then .ok idx
  else .error .assertion

/-- the sample a (possibly negative) stored index addresses in a dataset of length `n` -/
def pyIndex (n : Nat) (i : Int) : Nat := if 0 ≤ i then i.toNat else ((n : Int) + i).toNat

/-! ### shuffle_wrapper.py -/

/-- `rng.shuffle(arange(n))` in place; `perm` = the draw -/
def shuffle (n : Nat) (perm : List Nat) : List Nat := gather (List.range n) perm

/-! ### repeat_wrapper.py -/

def repeatW (n : Nat) (reps minSize : Option Int) : Except Err (List Nat) :=
  if reps.isSome == minSize.isSome then .error .assertion      -- `assert (..) ^ (..)`
  else if n = 0 then .error .assertion                          -- `assert len(dataset) > 0`
  else match minSize with
    | some m =>
      if 0 < m then .ok (tile (List.range n) ((m.toNat + n - 1) / n))   -- `int(np.ceil(min_size / len(ds)))`
      else .error .assertion
    | none =>
      match reps with
      | some r => if 0 < r then .ok (tile (List.range n) r.toNat) else .error .assertion
      | none => .error .assertion

/-! ### utils/class_counts.py -/

/-- `if n_classes == 1: n_classes = 2` -/
def countsLen (nc : Nat) : Nat := if nc = 1 then 2 else nc

/-- `get_class_counts(classes, n_classes)[0]`: unlabeled (-1) dropped, range assert, bincount -/
def classCounts (cls : List Int) (nc : Nat) : Except Err (List Nat) :=
  if cls.all (fun c => c == -1 || (decide (0 ≤ c) && decide (c < (countsLen nc : Int)))) then
    .ok ((List.range (countsLen nc)).map (fun (i : Nat) => cls.count (i : Int)))
  else .error .assertion

/-! ### oversampling_wrapper.py -/

inductive OsMode where
  | multiply | exact | other
deriving Repr, DecidableEq

/-- what mode "multiply" appends for class `i` having `cnt` samples when the largest class has `mx` -/
def multiplyExtra (cls : List Int) (mx : Nat) (i cnt : Nat) : List Nat :=
  if cnt = 0 then []
  else
    let f := mx / cnt - 1              -- `int(np.floor(max / count)) - 1`
    if 0 < f then tile (whereEq cls (i : Int)) f else []

def oversampleMultiply (cls : List Int) (counts : List Nat) (mx : Nat) : List Nat :=
  List.range cls.length ++
    (List.range counts.length).flatMap (fun (i : Nat) => multiplyExtra cls mx i (counts.getD i 0))

/-- the literal loop of mode "exact" for one class:
    `while remaining > 0: perm = arange(len(idxs))[:remaining]; out.append(idxs[perm]); remaining -= len(perm)` -/
def exactLoop : Nat → List Nat → Nat → List Nat → Except Err (List Nat)
  | 0, _, remaining, acc => if 0 < remaining then .error .outOfFuel else .ok acc
  | fuel + 1, idxs, remaining, acc =>
    if 0 < remaining then
      let perm := (List.range idxs.length).take remaining
      exactLoop fuel idxs (remaining - perm.length) (acc ++ gather idxs perm)
    else .ok acc

/-- one iteration of `for i in range(len(class_counts))` of mode "exact"
    (`if class_counts[i] == 0: continue` — classes without samples are skipped) -/
def exactClass (fuel : Nat) (cls : List Int) (mx : Nat) (i cnt : Nat) : Except Err (List Nat) :=
  if cnt = 0 then .ok [] else exactLoop fuel (whereEq cls (i : Int)) mx []

def exactGo (fuel : Nat) (cls : List Int) (counts : List Nat) (mx : Nat) : List Nat → Except Err (List Nat)
  | [] => .ok []
  | i :: is =>
    match exactClass fuel cls mx i (counts.getD i 0) with
    | .error e => .error e
    | .ok b =>
      match exactGo fuel cls counts mx is with
      | .error e => .error e
      | .ok r => .ok (b ++ r)

def oversample (fuel : Nat) (cls : List Int) (nc : Nat) (mode : OsMode) : Except Err (List Nat) :=
  -- `torch.tensor([])` is a float tensor: `counts[unique_classes] = ..` in get_class_counts raises IndexError
  if cls.length = 0 then .error .index
  else
  match classCounts cls nc with
  | .error e => .error e
  | .ok counts =>
    if counts.length = 0 then .error .runtime        -- `torch.max` of an empty tensor
    else
      let mx := counts.foldl max 0
      match mode with
      | .multiply => .ok (oversampleMultiply cls counts mx)
      | .exact =>
        -- `torch.concat(indices)` of an empty list raises ValueError; nothing was appended iff no class has a sample
        if mx = 0 then .error .valueError else exactGo fuel cls counts mx (List.range counts.length)
      | .other => .error .notImplemented

/-! ### sort_by_class_wrapper.py -/

def sortByClass (cls : List Int) (nc : Nat) : List Nat :=
  (List.range nc).flatMap (fun (i : Nat) => whereEq cls (i : Int))

/-! ### intra_class_shuffle_wrapper.py -/

/-- `cls_to_perm[i] = rng.permutation((classes == i).nonzero())` for `i in range(num_classes)` -/
def clsToPerm (cls : List Int) (nc : Nat) (tape : List (List Nat)) : List (List Nat) :=
  (List.range nc).map (fun (i : Nat) => gather (whereEq cls (i : Int)) (tape.getD i []))

/-- the composing loop: `indices.append(cls_to_perm[c][idx_in_cls[c]]); idx_in_cls[c] += 1` -/
def icsGo (ctp : List (List Nat)) : (Int → Nat) → List Int → Except Err (List Nat)
  | _, [] => .ok []
  | cnt, c :: rest =>
    match pyGet ctp c with
    | none => .error .index
    | some p =>
      match p[cnt c]? with
      | none => .error .index
      | some v =>
        match icsGo ctp (fun x => if x = c then cnt c + 1 else cnt x) rest with
        | .error e => .error e
        | .ok r => .ok (v :: r)

def intraClassShuffle (cls : List Int) (nc : Nat) (seedGiven : Bool) (tape : List (List Nat)) :
    Except Err (List Nat) :=
  if !seedGiven then
    -- `rng = GlobalRng` is the class, not an instance: `GlobalRng.permutation` does not exist
    (if nc = 0 then icsGo [] (fun _ => 0) cls else .error .attribute)
  else if tape.length ≠ nc then .error .tape
  else icsGo (clsToPerm cls nc tape) (fun _ => 0) cls

/-! ### fewshot_wrapper.py -/

/-- `np.max(classes) + 1` as a loop bound (`range` of a non-positive number is empty) -/
def fewshotNumClasses (cls : List Int) : Nat := (cls.foldl max (-1) + 1).toNat

def fewshot (cls : List Int) (shots : Int) (tape : List (List Nat)) : Except Err (List Nat) :=
  if cls.length = 0 then .error .valueError           -- `np.max` of an empty array
  else if tape.length ≠ fewshotNumClasses cls then .error .tape
  else .ok ((List.range (fewshotNumClasses cls)).flatMap (fun (i : Nat) =>
      gather (whereEq cls (i : Int)) (pySliceTo (tape.getD i []) shots)))

/-! ### classwise_subset_wrapper.py -/

def classwiseSubset (cutT : Rat → Nat → Nat) (cls : List Int) (nc : Nat) (startI endI : Option Nat)
    (startP endP : Option Rat) (checkEnough : Bool) : Except Err (List Nat) :=
  match classCounts cls nc with
  | .error e => .error e
  | .ok counts =>
    let n := cls.length
    if startI.isSome || endI.isSome then
      if startP.isSome || endP.isSome then .error .assertion
      else
        let e := min (endI.getD n) n
        let s := pyOrNat startI 0
        if s ≤ e then
          if checkEnough && (List.range nc).any (fun (i : Nat) => decide (counts.getD i 0 < e)) then .error .assertion
          else .ok ((List.range nc).flatMap (fun (i : Nat) =>
            if counts.getD i 0 ≤ s then [] else pySlice (whereEq cls (i : Int)) s (min e (counts.getD i 0))))
        else .error .assertion
    else if startP.isSome || endP.isSome then
      if pctOk startP && pctOk endP then
        let sp := pyOrRat startP 0
        let ep := endP.getD 1
        if sp ≤ ep then
          .ok ((List.range nc).flatMap (fun (i : Nat) =>
            pySlice (whereEq cls (i : Int)) (cutT sp (counts.getD i 0)) (cutT ep (counts.getD i 0))))
        else .error .assertion
      else .error .assertion
    else .error .notImplemented

end KDVerif.Selection
