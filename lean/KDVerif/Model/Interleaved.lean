/-
Model of `kappadata/samplers/interleaved_sampler.py` (InterleavedSampler).

L0 (this file, `stepSample`/`runEpoch`/`trainLoop`) follows `_training_loop` statement by statement:
one call of `stepSample` is one iteration of `for main_idx in self.main_sampler`.
The constructor's checkpoint inference is `ctor`, `_eval_loop` is `evalLoop`,
`_InterleavedBatchSampler.__iter__` is `batchSampler`, `_InterleavedConcatDataset.__getitem__`
is `concatGet`, `_InterleavedCollator.__call__`'s assertion is `collateDispatch`.

Oracles (parameters, not modelled):
* `main : Nat → List Nat`   epoch ↦ what iterating the main sampler yields after `set_epoch epoch`
* `side : Nat → Nat → List Nat`  (config index, global update number) ↦ what iterating that config's
  sampler yields for the pass made right after that update (any stateful sampler is an instance).
No imports: core Lean only.
-/
namespace KDVerif.Interleaved

structure Config where
  everyNEpochs  : Option Nat
  everyNUpdates : Option Nat
  everyNSamples : Option Nat
  batchSize     : Option Nat
  len           : Nat   -- len(config.sampler)
  dsLen         : Nat   -- len(data source of config.sampler)
deriving Repr, DecidableEq

inductive Budget where
  | epochs (e : Nat)
  | updates (u : Nat)
  | samples (s : Nat)
deriving Repr, DecidableEq

structure Args where
  N         : Nat           -- len(main_sampler)
  mainDsLen : Nat           -- len(data source of the main sampler)
  B         : Nat           -- batch_size
  dropLast  : Bool
  dropLastBS : Option Nat   -- drop_last_batch_size
  budget    : Budget
  configs   : List Config
deriving Repr

structure Start where
  epoch : Nat
  update : Nat
  sample : Nat
deriving Repr, DecidableEq

inductive StartArg where
  | none
  | epoch (e : Nat)
  | update (u : Nat)
  | sample (s : Nat)
deriving Repr, DecidableEq

inductive CtorErr where
  | assertion
  | notImplemented
deriving Repr, DecidableEq

inductive Ev where
  | idx (full : Bool) (i : Nat)
  | setEpoch (e : Nat)
deriving Repr, DecidableEq

/-- `samples_per_epoch` as computed at the top of `_training_loop`
(the `len(main_sampler) < batch_size` branches are unreachable under the constructor's asserts). -/
def spe (a : Args) : Nat :=
  if a.dropLast then
    match a.dropLastBS with
    | some d => a.N / d * d
    | none => a.N / a.B * a.B
  else a.N

/-- updates per epoch: number of (possibly short) batches an epoch is cut into -/
def upe (a : Args) : Nat := (spe a + a.B - 1) / a.B

/-- the constructor's asserts on the geometry -/
def geomOk (a : Args) : Bool :=
  a.B != 0 && decide (a.B ≤ a.N) &&
  (match a.dropLastBS with
   | some d => a.dropLast && d % a.B == 0 && decide (a.B ≤ d) && decide (d ≤ a.N)
   | none => true)

/-- the constructor's asserts on the interleaved configs -/
def cfgOk (c : Config) : Bool :=
  !(c.everyNEpochs.isNone && c.everyNUpdates.isNone && c.everyNSamples.isNone)
  && c.everyNEpochs != some 0 && c.everyNUpdates != some 0 && c.everyNSamples != some 0
  && c.batchSize != some 0

/-- "infer full start checkpoint from one of epoch/update/sample": derived with the same
    samples-per-epoch / updates-per-epoch as the loop uses -/
def startOf (a : Args) (s : StartArg) : Except CtorErr Start :=
  match s with
  | .none => .ok ⟨0, 0, 0⟩
  | .epoch e => .ok ⟨e, upe a * e, spe a * e⟩
  | .update u =>
    if u % (upe a) != 0 || !a.dropLast then .error .notImplemented
    else .ok ⟨u / upe a, u, u / upe a * spe a⟩
  | .sample s =>
    if s % a.B != 0 then .error .assertion
    else if (s / a.B) % (upe a) != 0 || !a.dropLast then .error .notImplemented
    else .ok ⟨(s / a.B) / upe a, s / a.B, s⟩

/-- constructor: every assert + checkpoint inference -/
def ctor (a : Args) (s : StartArg) : Except CtorErr Start :=
  if geomOk a && a.configs.all cfgOk then startOf a s else .error .assertion

/-- python `config.batch_size or self.batch_size` -/
def sideBS (a : Args) (c : Config) : Nat :=
  match c.batchSize with
  | some 0 => a.B
  | some b => b
  | none => a.B

/-- one pass over an interleaved sampler: `k` = `sample_in_interleaved` before the element -/
def sidePassAux (bs len off : Nat) : Nat → List Nat → List Ev
  | _, [] => []
  | k, x :: xs =>
    .idx (decide ((k + 1) % bs = 0 ∨ k + 1 = len)) (off + x) :: sidePassAux bs len off (k + 1) xs

def sidePass (bs len off : Nat) (xs : List Nat) : List Ev := sidePassAux bs len off 0 xs

/-- the `should_iter` decision, in the code's order of assignments -/
def due (c : Config) (epochEnd : Bool) (epoch update sample sampleAtLast : Nat) : Bool :=
  let s1 := match c.everyNEpochs with
    | some n => epochEnd && epoch % n == 0
    | none => false
  let s2 := match c.everyNUpdates with
    | some n => s1 || update % n == 0
    | none => s1
  match c.everyNSamples with
    | some n =>
      if sample % n == 0 then true
      else if sampleAtLast / n < sample / n then true
      else s2
    | none => s2

/-- all side passes after one update; `i` = config index, `off` = `index_offsets[i]` -/
def sidePassesGo (a : Args) (side : Nat → Nat → List Nat)
    (epochEnd : Bool) (epoch update sample sampleAtLast : Nat) : Nat → Nat → List Config → List Ev
  | _, _, [] => []
  | i, off, c :: cs =>
    (if due c epochEnd epoch update sample sampleAtLast
     then sidePass (sideBS a c) c.len off (side i update) else [])
    ++ sidePassesGo a side epochEnd epoch update sample sampleAtLast (i + 1) (off + c.dsLen) cs

def sidePasses (a : Args) (side : Nat → Nat → List Nat)
    (epochEnd : Bool) (epoch update sample sampleAtLast : Nat) : List Ev :=
  sidePassesGo a side epochEnd epoch update sample sampleAtLast 0 a.mainDsLen a.configs

def budgetReached (b : Budget) (epoch update sample : Nat) : Bool :=
  match b with
  | .epochs e => epoch == e
  | .updates u => update == u
  | .samples s => decide (sample ≥ s)

structure St where
  epoch : Nat
  update : Nat
  sample : Nat
  sampleInEpoch : Nat
  sampleInUpdate : Nat
  sampleAtLastUpdate : Nat
deriving Repr, DecidableEq

inductive Ctl where
  | cont | brk | ret
deriving Repr, DecidableEq

/-- one iteration of `for main_idx in self.main_sampler` -/
def stepSample (a : Args) (side : Nat → Nat → List Nat) (st : St) (x : Nat) : List Ev × St × Ctl :=
  let sample := st.sample + 1
  let sie := st.sampleInEpoch + 1
  let siu := st.sampleInUpdate + 1
  if siu = a.B ∨ sie = spe a then
    let update := st.update + 1
    let epochEnd := decide (sie = spe a)
    let epoch := if sie = spe a then st.epoch + 1 else st.epoch
    let evs := Ev.idx true x :: sidePasses a side epochEnd epoch update sample st.sampleAtLastUpdate
    let st' : St := ⟨epoch, update, sample, sie, 0, sample⟩
    if budgetReached a.budget epoch update sample then (evs, st', .ret)
    else if sie = spe a then (evs, st', .brk)
    else (evs, st', .cont)
  else
    ([Ev.idx false x], ⟨st.epoch, st.update, sample, sie, siu, st.sampleAtLastUpdate⟩, .cont)

/-- the inner `for`; the Bool says whether the generator `return`ed -/
def runEpoch (a : Args) (side : Nat → Nat → List Nat) : St → List Nat → List Ev × St × Bool
  | st, [] => ([], st, false)
  | st, x :: xs =>
    match stepSample a side st x with
    | (evs, st', .cont) =>
      let r := runEpoch a side st' xs
      (evs ++ r.1, r.2.1, r.2.2)
    | (evs, st', .brk) => (evs, st', false)
    | (evs, st', .ret) => (evs, st', true)

/-- `while True:`; `none` = fuel exhausted (the real loop would still be running) -/
def trainLoop (a : Args) (main : Nat → List Nat) (side : Nat → Nat → List Nat) :
    Nat → St → Option (List Ev)
  | 0, _ => none
  | fuel + 1, st =>
    let st0 : St := { st with sampleInEpoch := 0 }
    let r := runEpoch a side st0 (main st.epoch)
    if r.2.2 then some (Ev.setEpoch st.epoch :: r.1)
    else (trainLoop a main side fuel r.2.1).map (fun rest => Ev.setEpoch st.epoch :: r.1 ++ rest)

def initSt (s : Start) : St := ⟨s.epoch, s.update, s.sample, 0, 0, s.sample⟩

/-- `_eval_loop` -/
def evalLoopGo (a : Args) (side : Nat → Nat → List Nat) : Nat → Nat → List Config → List Ev
  | _, _, [] => []
  | i, off, c :: cs =>
    sidePass (sideBS a c) c.len off (side i 0) ++ evalLoopGo a side (i + 1) (off + c.dsLen) cs

def evalLoop (a : Args) (side : Nat → Nat → List Nat) : List Ev :=
  evalLoopGo a side 0 a.mainDsLen a.configs

def zeroBudget (b : Budget) : Bool :=
  match b with
  | .epochs e => e == 0
  | .updates u => u == 0
  | .samples s => s == 0

inductive IterErr where
  | assertion
  | outOfFuel
deriving Repr, DecidableEq

/-- `__iter__` -/
def iter (a : Args) (s : Start) (main : Nat → List Nat) (side : Nat → Nat → List Nat) (fuel : Nat) :
    Except IterErr (List Ev) :=
  if zeroBudget a.budget then
    if s.epoch = 0 ∧ s.update = 0 ∧ s.sample = 0 then .ok (evalLoop a side) else .error .assertion
  else
    match trainLoop a main side fuel (initSt s) with
    | some evs => .ok evs
    | none => .error .outOfFuel

/-- `_InterleavedBatchSampler.__iter__`: cut on the full flag (setEpoch events are not part of the stream).
    Returns the batches and the non-yielded remainder (the code asserts it is empty). -/
def batchSamplerGo : List Nat → List Ev → List (List Nat) × List Nat
  | acc, [] => ([], acc)
  | acc, .setEpoch _ :: evs => batchSamplerGo acc evs
  | acc, .idx full i :: evs =>
    if full then
      let r := batchSamplerGo [] evs
      ((acc ++ [i]) :: r.1, r.2)
    else batchSamplerGo (acc ++ [i]) evs

def batchSampler (evs : List Ev) : List (List Nat) × List Nat := batchSamplerGo [] evs

/-- `bisect.bisect_right(cum, x)` -/
def bisectRight : List Nat → Nat → Nat
  | [], _ => 0
  | c :: cs, x => if c ≤ x then 1 + bisectRight cs x else 0

def cumsum : Nat → List Nat → List Nat
  | _, [] => []
  | acc, x :: xs => (acc + x) :: cumsum (acc + x) xs

/-- `_InterleavedConcatDataset.__getitem__` for a non-negative index: (dataset index, sample index) -/
def concatGet (sizes : List Nat) (idx : Nat) : Nat × Nat :=
  let cum := cumsum 0 sizes
  let d := bisectRight cum idx
  if d = 0 then (0, idx) else (d, idx - cum.getD (d - 1) 0)

/-- `_InterleavedConcatDataset.__getitem__` incl. the negative-index branch (`none` = ValueError) -/
def concatGetInt (sizes : List Nat) (idx : Int) : Option (Nat × Nat) :=
  let total : Nat := (cumsum 0 sizes).getLastD 0
  if idx < 0 then
    if -idx > (total : Int) then none else some (concatGet sizes ((total : Int) + idx).toNat)
  else some (concatGet sizes idx.toNat)

/-- all data-source sizes in the order of `self.dataset` -/
def dsSizes (a : Args) : List Nat := a.mainDsLen :: a.configs.map (·.dsLen)

end KDVerif.Interleaved
