/-
Specification-level additions to the RNG-flow / seed-flow models (C07 / C08 / C09). Nothing here changes an
existing definition; the JSON drivers do not use this file.

* `erase` / `eraseKids` / `eraseDS`: the *skeleton* of an instance (classes, slots, shape) with every generator
  cell blanked out — "two independently constructed instances of the same pipeline" are two trees with equal
  skeletons and arbitrary, different cell contents.
* `Source` / `drawSources`: where every draw site of an instance reads from — the class's own generator cell or
  the process-global RNG (`Row.globalDraw`).
* `WState` / `request` / `serve`: a seeded sample wrapper as an object with state that serves a sequence of
  per-sample requests (C08).
* `numDerived`, `DisjointFamilies`, `workerInitGuarded`, `stackSources`: C09.
Core Lean only.
-/
import KDVerif.Model.SeedFlow

namespace KDVerif.RngFlow

/-! ### skeletons -/

mutual
  /-- the instance with every generator cell blanked out (classes, slots and shape are kept) -/
  def erase : T → T
    | .leaf => .leaf
    | .node cls _ kids => .node cls 0 (eraseKids kids)
  def eraseKids : Kids → Kids
    | .nil => .nil
    | .cons s t rest => .cons s (erase t) (eraseKids rest)
end

/-- re-injection history: the generators injected one after the other into the root -/
def injectAll (tb : Table) (hs : List Nat) (t : T) : T := hs.foldl (fun acc h => setRng tb h acc) t

/-! ### draw sites -/

/-- what a draw site reads from -/
inductive Source where
  | global                -- np.random.* / torch.rand* / random.* : the process-global state
  | cell (g : Nat)        -- the generator sitting in the instance's own `self.rng` cell
deriving Repr, DecidableEq

mutual
  /-- the sources of all draw sites of an instance: a class flagged `globalDraw` reads the process-global state,
      a class with a cell reads that cell; an unknown class may read anything -/
  def drawSources (tb : Table) : T → List Source
    | .leaf => []
    | .node cls cell kids =>
      (match lookup tb cls with
       | some r => (if r.globalDraw then [Source.global] else []) ++ (if r.hasCell then [Source.cell cell] else [])
       | none => [Source.global, Source.cell cell]) ++ drawSourcesKids tb kids
  def drawSourcesKids (tb : Table) : Kids → List Source
    | .nil => []
    | .cons _ t rest => drawSources tb t ++ drawSourcesKids tb rest
end

def Source.cell? : Source → Option Nat
  | .global => none
  | .cell g => some g

end KDVerif.RngFlow

namespace KDVerif.SeedFlow
open KDVerif.RngFlow

/-! ### C08: a seeded wrapper as an object serving requests -/

/-- state of a wrapper object between requests: `own` is whatever generator the per-sample method would fall
    back to if it did not build one itself (a persistent or global-derived generator), `kids` the transforms it
    holds with their current cell contents -/
structure WState where
  own : Nat
  kids : Kids

/-- the generator the per-sample method itself draws from (KDMixWrapper: apply / partner index / lambda;
    KDPseudoLabelWrapper: the sampled label; transform wrappers: the one they inject) -/
def requestGen (r : SeedRow) (seed idx : Nat) (w : WState) : Nat :=
  if r.seedPlusIdx then seed + idx else w.own

/-- one request for index `idx` on an object in state `w`: new state, and the generators the request draws from —
    first the per-sample method's own generator, then every cell of the members of the applied slots -/
def request (tb : Table) (r : SeedRow) (seed idx : Nat) (w : WState) : WState × List Nat :=
  let g := requestGen r seed idx w
  let kids' := setRngKids tb g r.seeded w.kids
  ({ own := w.own, kids := kids' }, g :: appliedDraws tb r.applied kids')

/-- the object's state after serving the requests `hs` (in that order) -/
def afterRequests (tb : Table) (r : SeedRow) (seed : Nat) (hs : List Nat) (w : WState) : WState :=
  hs.foldl (fun acc j => (request tb r seed j acc).1) w

/-- one object (= one dataloader worker's copy) serving a sequence of requests: the generators used per request -/
def serve (tb : Table) (r : SeedRow) (seed : Nat) : WState → List Nat → List (List Nat)
  | _, [] => []
  | w, i :: rest => (request tb r seed i w).2 :: serve tb r seed (request tb r seed i w).1 rest

/-- the generators request `i` uses, written as a function of (configuration skeleton, seed, i) only -/
def pureGens (tb : Table) (r : SeedRow) (seed : Nat) (skel : Kids) (i : Nat) : List Nat :=
  List.replicate (1 + (appliedDraws tb r.applied skel).length) (seed + i)

/-! ### C09 -/

mutual
  def eraseDS : DS → DS
    | .root cls kids cols => .root cls (eraseKids kids) (eraseKids cols)
    | .wrap cls kids inner => .wrap cls (eraseKids kids) (eraseDS inner)
    | .multi cls parts => .multi cls (eraseDSList parts)
  def eraseDSList : DSList → DSList
    | .nil => .nil
    | .cons d rest => .cons (eraseDS d) (eraseDSList rest)
end

/-- members of initialised slots: each costs one derivation -/
def countInit (fw : List String) : Kids → Nat
  | .nil => 0
  | .cons s _ rest => (if fw.contains s then 1 else 0) + countInit fw rest

mutual
  /-- number of generators one worker derives from its global state while the hook chain runs: a function of
      the layer table and the stack's shape only -/
  def numDerived (lt : List LayerRow) : DS → Nat
    | .root cls kids _ =>
      match lookupLayer lt cls with
      | none => 0
      | some r => (if r.reseedsCollators then 1 else 0) + countInit r.initSlots kids
    | .wrap cls kids inner =>
      match lookupLayer lt cls with
      | none => 0
      | some r => countInit r.initSlots kids + (if r.forwardsInner then numDerived lt inner else 0)
    | .multi cls parts =>
      match lookupLayer lt cls with
      | none => 0
      | some r => if r.forwardsInner then numDerivedList lt parts else 0
  def numDerivedList (lt : List LayerRow) : DSList → Nat
    | .nil => 0
    | .cons d rest => numDerived lt d + numDerivedList lt rest
end

/-- **contract on the derivation function** (`get_rng_from_global` under the worker's NumPy seed): the `j`-th
    generator the worker with seed `ws` derives is `base ws + j`; workers with different seeds derive disjoint
    families (as far as `n` derivations each) -/
def DisjointFamilies (base : Nat → Nat) (n : Nat) : Prop :=
  ∀ ws₁ ws₂, ws₁ ≠ ws₂ → ∀ j₁ j₂, j₁ < n → j₂ < n → base ws₁ + j₁ ≠ base ws₂ + j₂

/-- `initKids` with the transform hook's behaviour as a parameter: `th = false` means the hook re-seeds only
    conditionally (e.g. only when `get_worker_info()` reports a worker) and may be skipped -/
def initKidsG (th : Bool) (tb : Table) (base : Nat) (fw : List String) : Nat → Kids → Kids × Nat
  | k, .nil => (.nil, k)
  | k, .cons s t rest =>
    if fw.contains s && th then
      let r := initKidsG th tb base fw (k + 1) rest
      (.cons s (setRng tb (base + k) t) r.1, r.2)
    else
      let r := initKidsG th tb base fw k rest
      (.cons s t r.1, r.2)

mutual
  /-- `workerInit` reading the hook flags: `th` = the transform hook re-seeds unconditionally, `ch` = the collator
      hook does -/
  def workerInitGuarded (th ch : Bool) (tb : Table) (lt : List LayerRow) (base : Nat) : Nat → DS → DS × Nat
    | k, .root cls kids cols =>
      match lookupLayer lt cls with
      | none => (.root cls kids cols, k)
      | some r =>
        let cols' := if r.reseedsCollators && ch then initCollators tb (base + k) cols else cols
        let k1 := if r.reseedsCollators && ch then k + 1 else k
        let rk := initKidsG th tb base r.initSlots k1 kids
        (.root cls rk.1 cols', rk.2)
    | k, .wrap cls kids inner =>
      match lookupLayer lt cls with
      | none => (.wrap cls kids inner, k)
      | some r =>
        let rk := initKidsG th tb base r.initSlots k kids
        if r.forwardsInner then
          let ri := workerInitGuarded th ch tb lt base rk.2 inner
          (.wrap cls rk.1 ri.1, ri.2)
        else (.wrap cls rk.1 inner, rk.2)
    | k, .multi cls parts =>
      match lookupLayer lt cls with
      | none => (.multi cls parts, k)
      | some r =>
        if r.forwardsInner then
          let rp := workerInitGuardedList th ch tb lt base k parts
          (.multi cls rp.1, rp.2)
        else (.multi cls parts, k)
  def workerInitGuardedList (th ch : Bool) (tb : Table) (lt : List LayerRow) (base : Nat) :
      Nat → DSList → DSList × Nat
    | k, .nil => (.nil, k)
    | k, .cons d rest =>
      let rd := workerInitGuarded th ch tb lt base k d
      let rr := workerInitGuardedList th ch tb lt base rd.2 rest
      (.cons rd.1 rr.1, rr.2)
end

/-- where a random decision of the stack comes from -/
inductive StreamSrc where
  | cell (g : Nat)     -- a generator cell (re-seeded by the hook chain)
  | entropy            -- a per-sample generator built from OS entropy: not derived from the worker seed
deriving Repr, DecidableEq

mutual
  /-- all sources of random decisions of a stack: the reachable generator cells, plus an OS-entropy source for
      every layer whose class is listed in `fallback` -/
  def stackSources (tb : Table) (fallback : List String) : DS → List StreamSrc
    | .root cls kids cols =>
      (if fallback.contains cls then [StreamSrc.entropy] else []) ++
        (drawsKids tb kids ++ drawsKids tb cols).map StreamSrc.cell
    | .wrap cls kids inner =>
      (if fallback.contains cls then [StreamSrc.entropy] else []) ++
        ((drawsKids tb kids).map StreamSrc.cell ++ stackSources tb fallback inner)
    | .multi cls parts =>
      (if fallback.contains cls then [StreamSrc.entropy] else []) ++ stackSourcesList tb fallback parts
  def stackSourcesList (tb : Table) (fallback : List String) : DSList → List StreamSrc
    | .nil => []
    | .cons d rest => stackSources tb fallback d ++ stackSourcesList tb fallback rest
end

end KDVerif.SeedFlow
