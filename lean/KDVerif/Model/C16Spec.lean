/-
Specifications for property C16, written independently of the recursion of `KDVerif/Model/Labels.lean`:

  * the class count each label-rewriting wrapper *announces* (`getshape_class()[0]`),
  * a closed form of the label list each wrapper produces, as a function of the wrapped labels, the constructor
    arguments and the draws (the tape) — nothing else,
  * the all-gather order (`DistributedSampler(shuffle=False)` shards, concatenated in rank order, cut to the
    dataset length), as Python slices `padded[r::W]`.

Nothing here is used by the drivers; the theorems of `Props/C16.lean` relate these specifications to the executable
model that the drivers run against the real code.

Core Lean only.
-/
import KDVerif.Model.Labels

namespace KDVerif.Labels

/-! ### announced class counts (`getshape_class()[0]`) -/

/-- `ClassGroupsWrapper` defines no `getshape_class`: `KDWrapper.__getattr__` hands the query to the wrapped dataset -/
def cgShape (nc : Nat) : Nat := nc

/-- `num_clsgroups = math.ceil(num_classes / classes_per_group)` (not announced by the wrapper; the produced label
    `g * cpg + r` carries the group `g` as its quotient by `cpg`) -/
def cgNumGroups (nc cpg : Nat) : Nat := ceilDiv nc cpg

/-- `SwapLabelWrapper`: delegated -/
def swShape (nc : Nat) : Nat := nc

/-- `OverwriteClassesWrapper`: delegated -/
def owShape (nc : Nat) : Nat := nc

/-- `AllgatherClassWrapper`: delegated -/
def agShape (nc : Nat) : Nat := nc

/-- `KDPseudoLabelWrapper`: delegated; `C = dataset.getshape_class()[0]` is also what `__init__` checks the width of a
    soft table against -/
def plShape (C : Nat) : Nat := C

/-- `KDRandomClassWrapper.getshape_class` returns `(self._num_classes,)` -/
def rcShape (nc : Nat) : Nat := nc

/-- `SemiWrapper`: delegated -/
def smShape (nc : Nat) : Nat := nc

/-! ### the all-gather order -/

/-- the Python slice `xs[r::W]` for `r < W`: the entries at the positions congruent to `r` -/
def strideFrom (xs : List α) (W r : Nat) : List α :=
  ((List.range xs.length).filter (fun j => j % W = r)).filterMap (fun j => xs[j]?)

/-- what `DistributedSampler(shuffle=False)` deals out: the list padded with its own head to a multiple of `W` -/
def dsPadded (xs : List α) (W : Nat) : List α := xs ++ xs.take (padCount xs.length W)

/-- what `all_gather` followed by the cut to the dataset length returns: rank `r` holds `padded[r::W]`, the ranks'
    shards are concatenated in rank order, the first `len` entries are kept -/
def allGatherOrder (xs : List α) (W : Nat) : List α :=
  ((List.range W).flatMap (fun r => strideFrom (dsPadded xs W) W r)).take xs.length

/-- closed form of one position of the all-gather order: position `k` lies in the shard of rank `k / S` at offset
    `k % S` (`S` = samples per rank), which is position `(k % S) * W + k / S` of the padded list; positions `≥ n` of
    the padded list are the head again -/
def agIdx (n W k : Nat) : Nat :=
  let S := (n + padCount n W) / W
  let j := (k % S) * W + k / S
  if j < n then j else j - n

/-- `AllgatherClassWrapper`: the labels in all-gather order -/
def agSpec (labels : List Int) (W : Nat) : List Int := allGatherOrder labels W

/-! ### closed forms of the produced label lists -/

/-- rank of sample `i` among the samples of its own class when the samples are visited in the order `order`
    (`order` a rearrangement of `range(len)`): the number of samples of the same class visited before `i` -/
def rankInClass (labels : List Int) (order : List Nat) (i : Nat) : Nat :=
  ((order.take (order.idxOf i)).map (fun j => labels.getD j 0)).count (labels.getD i 0)

/-- `ClassGroupsWrapper`: sample `i` of class `c` becomes `table[c] * cpg + (number of earlier samples of class c) % cpg`;
    `table` is `rng.permuted(arange(groups).repeat(cpg))` when shuffling, else `c ↦ c / cpg` -/
def cgSpec (labels : List Int) (cpg : Nat) (table : List Nat) : List Int :=
  (List.range labels.length).map (fun i =>
    ((table.getD (labels.getD i 0).toNat 0 * cpg + (labels.take i).count (labels.getD i 0) % cpg : Nat) : Int))

/-- the table `ClassGroupsWrapper` uses: the draw when shuffling, else `c ↦ c / cpg` on `0 .. groups * cpg - 1` -/
def cgSpecTable (nc cpg : Nat) (shuffle : Bool) (permuted : List Nat) : List Nat :=
  if shuffle then permuted else (List.range (ceilDiv nc cpg * cpg)).map (fun c => c / cpg)

/-- `RandomSuperclassWrapper`: sample `i` of class `c` becomes `perm[c] / cps`, plus — when there are splits —
    `(rank of i among the samples of its class in the order perm2) % splits * ceil(nc / cps)` -/
def rsSpec (labels : List Int) (nc cps splits : Nat) (shuffle : Bool) (perm1 perm2 : List Nat) : List Int :=
  let perm := if shuffle then perm1 else List.range nc
  let order := if shuffle then perm2 else List.range labels.length
  (List.range labels.length).map (fun i =>
    let p := perm.getD (labels.getD i 0).toNat 0
    if splits > 1 then ((p / cps + rankInClass labels order i % splits * ceilDiv nc cps : Nat) : Int)
    else ((p / cps : Nat) : Int))

/-- `SwapLabelWrapper`: sample `i` gets the drawn label where its uniform is below `p`, else keeps its own -/
def swSpec (labels : List Int) (p : Rat) (us : List Rat) (news : List Int) : List Int :=
  (List.range labels.length).map (fun i => if us.getD i 0 < p then news.getD i 0 else labels.getD i 0)

/-- `SemiWrapper`: the first `k` entries of the drawn permutation are unlabeled -/
def smSpec (labels : List Int) (k : Nat) (perm : List Nat) : List Int :=
  (List.range labels.length).map (fun i => if i ∈ perm.take k then -1 else labels.getD i 0)

/-- `KDPseudoLabelWrapper` without sampling: the hard table itself, the row-wise argmax of a soft table, or — with a
    threshold — the argmax where the row's confidence bit is set and -1 elsewhere -/
def plSpec (table : PTable) (thr : Option (List Bool)) : List Int :=
  match table with
  | .hard ls => ls
  | .soft rows =>
    match thr with
    | none => rows.map (fun r => (argmax r : Int))
    | some bits => List.zipWith (fun r (b : Bool) => if b then (argmax r : Int) else -1) rows bits

/-- `KDPseudoLabelWrapper` with top-k sampling: sample `i` gets the `d i`-th of the top-k positions of its row
    (`d i` = the position drawn for sample `i`; with a seed it comes from `default_rng(seed + i)`, so it is a
    function of `seed + i` alone) -/
def plTopkSpec (n : Nat) (topkIdx : List (List Nat)) (d : Nat → Nat) : List Int :=
  (List.range n).map (fun i => (((topkIdx.getD i []).getD (d i) 0 : Nat) : Int))

/-- the configurations of `KDPseudoLabelWrapper` whose per-sample accessor does not end in an assert: a hard table
    takes neither threshold nor sampling; a soft table takes a threshold or top-k sampling (with or without
    temperature), not both; a temperature needs top-k -/
def plValid (table : PTable) (thr : Option (List Bool)) (topk : Option Nat) (tau : Tau) : Prop :=
  match table with
  | .hard _ => thr = none ∧ topk = none ∧ tau = .none
  | .soft _ => (topk = none → tau = .none) ∧ (topk.isSome → thr = none)

/-- what `__init__` of `KDPseudoLabelWrapper` asserts about the table (one entry / one row of `C` columns per sample),
    plus the contract of the threshold oracle (one confidence bit per row) -/
def plWellFormed (n C : Nat) (table : PTable) (thr : Option (List Bool)) : Prop :=
  match table with
  | .hard ls => ls.length = n
  | .soft rows => rows.length = n ∧ (∀ r ∈ rows, r.length = C) ∧ (∀ bits, thr = some bits → bits.length = n)

/-- `KDRandomClassWrapper`: the drawn integers; the drawn permutation repeated cyclically; or class `j / spc` of
    position `j` (`arange(nc).repeat_interleave(spc)[:n]`) in all-gather order -/
def rcSpec (n nc : Nat) (mode : RCMode) (ints perm : List Nat) : List Nat :=
  match mode with
  | .random => ints
  | .randperm => (List.range n).map (fun i => perm.getD (i % nc) 0)
  | .gatherbug W => allGatherOrder ((List.range n).map (fun j => j / ((n + nc - 1) / nc))) W
  | .other => []

/-- the domain of `KDRandomClassWrapper`: a known mode; the generators keep their contracts (`torch.randint(nc, (n,))`
    returns `n` integers below `nc`, `torch.randperm(nc)` a rearrangement of `range(nc)`); at least one class; for the
    gather mode a world size `0 < W ≤ n` -/
def rcDomain (n nc : Nat) (mode : RCMode) (ints perm : List Nat) : Prop :=
  match mode with
  | .random => ints.length = n ∧ ∀ v ∈ ints, v < nc
  | .randperm => 0 < nc ∧ perm.Perm (List.range nc)
  | .gatherbug W => 0 < nc ∧ 0 < W ∧ W ≤ n
  | .other => False

end KDVerif.Labels
