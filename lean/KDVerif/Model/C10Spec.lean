/-
Specification vocabulary for C10 that is written independently of the recursion / monadic plumbing of
`Model/MixCollator.lean` (nothing here is used by the drivers; core Lean only).

* `Vals` / `expectedTape`: the raw generator values of one `KDMixCollator.collate` call and the sequence of
  generator calls the code makes with them, in the order of the Python source. Used to state totality
  ("an accepted collator on a well-formed batch, fed with a generator that answers the calls the code makes,
  returns a batch") without mentioning `plan`.
* `pastedCount` / `retainedCount`: pixel positions of an `h × w` image inside / outside a pasted box, counted
  position by position (not via `Box.area`).
* `maeArgs` / `maeMode`: the constructor call and dataset mode of `MAEFinetuneMixCollator`.
-/
import KDVerif.Model.MixCollator

namespace KDVerif.C10Spec
open KDVerif.MixCollator

/-- the raw values the numpy generator returns during one `collate` call -/
structure Vals where
  /-- `rng.random()` (apply_mode=batch: one value) / `rng.random(batch_size)` deciding `apply` -/
  applyU : List Rat
  /-- `rng.random()` (lamb_mode=batch: one value) / `rng.random(batch_size)` deciding `use_cutmix` -/
  cutU : List Rat
  /-- `rng.beta(mixup_alpha, mixup_alpha[, size])` -/
  mixLam : List Rat
  /-- `rng.beta(cutmix_alpha, cutmix_alpha[, size])` -/
  cutLam : List Rat
  /-- `rng.integers(h, size=(n,))` (box centres) -/
  chs : List Nat
  /-- `rng.integers(w, size=(n,))` -/
  cws : List Nat
  /-- `rng.permutation(batch_size)` -/
  perm : List Nat

/-- number of entries a per-batch / per-sample quantity has -/
def perLen (m : PerMode) (B : Nat) : Nat :=
  match m with
  | .batch => 1
  | .sample => B

/-- the `apply = …` draw -/
def applyDraw (cfg : Cfg) (v : Vals) : Draw :=
  match cfg.applyMode with
  | .batch => .unif (v.applyU.getD 0 0)
  | .sample => .unifs v.applyU

/-- `shuffle` draws a permutation only in mode "random" and only for `len(item) != 1`; the second `shuffle`
    call (labels) reuses it -/
def permDraws (cfg : Cfg) (B : Nat) (v : Vals) : Tape :=
  if B ≠ 1 ∧ cfg.shuffle = .random then [.perm B v.perm] else []

/-- lamb_mode=batch: `random()` for apply, `random()` for use_cutmix, one `beta` with the alpha of the chosen
    branch, the permutation (first `shuffle`), then — cutmix only — the two `integers` of `get_random_bbox` -/
def expectedTapeBatch (cfg : Cfg) (B h w : Nat) (v : Vals) : Tape :=
  let u := v.cutU.getD 0 0
  if u * cfg.totalP < cfg.cutmixP then
    [applyDraw cfg v, .unif u, .beta (cfg.cutmixAlpha.getD 0) (v.cutLam.getD 0 0)] ++ permDraws cfg B v ++
      [.ints h v.chs, .ints w v.cws]
  else
    [applyDraw cfg v, .unif u, .beta (cfg.mixupAlpha.getD 0) (v.mixLam.getD 0 0)] ++ permDraws cfg B v

/-- lamb_mode=sample: apply, `random(B)` for use_cutmix, `beta(.., size=B)` for mixup iff `mixup_p > 0`,
    `beta(.., size=B)` + two `integers(.., size=(B,))` for cutmix iff `cutmix_p > 0`, then the permutation -/
def expectedTapeSample (cfg : Cfg) (B h w : Nat) (v : Vals) : Tape :=
  [applyDraw cfg v, .unifs v.cutU] ++
    (if 0 < cfg.mixupP then [.betas (cfg.mixupAlpha.getD 0) v.mixLam] else []) ++
    (if 0 < cfg.cutmixP then [.betas (cfg.cutmixAlpha.getD 0) v.cutLam, .ints h v.chs, .ints w v.cws] else []) ++
    permDraws cfg B v

def expectedTape (cfg : Cfg) (B h w : Nat) (v : Vals) : Tape :=
  match cfg.lambMode with
  | .batch => expectedTapeBatch cfg B h w v
  | .sample => expectedTapeSample cfg B h w v

/-- the generator returned arrays of the requested sizes (`size=` arguments of the calls) -/
structure ValsFit (cfg : Cfg) (B : Nat) (v : Vals) : Prop where
  applyU : v.applyU.length = perLen cfg.applyMode B
  cutU : v.cutU.length = perLen cfg.lambMode B
  mixLam : v.mixLam.length = perLen cfg.lambMode B
  cutLam : v.cutLam.length = perLen cfg.lambMode B
  chs : v.chs.length = perLen cfg.lambMode B
  cws : v.cws.length = perLen cfg.lambMode B
  perm : v.perm.length = B

/-- the generator's value contract: uniforms in `[0,1)`, Beta draws in `[0,1]`, integers below their bound,
    the permutation a permutation of `0..B-1` -/
structure ValsOk (B h w : Nat) (v : Vals) : Prop where
  applyU : ∀ x ∈ v.applyU, 0 ≤ x ∧ x < 1
  cutU : ∀ x ∈ v.cutU, 0 ≤ x ∧ x < 1
  mixLam : ∀ x ∈ v.mixLam, 0 ≤ x ∧ x ≤ 1
  cutLam : ∀ x ∈ v.cutLam, 0 ≤ x ∧ x ≤ 1
  chs : ∀ x ∈ v.chs, x < h
  cws : ∀ x ∈ v.cws, x < w
  perm : v.perm.Perm (List.range B)

/-- is a box computed in this call (then the float front end hands in one pair of half extents per box) -/
def usesBoxes (cfg : Cfg) (v : Vals) : Bool :=
  match cfg.lambMode with
  | .batch => decide (v.cutU.getD 0 0 * cfg.totalP < cfg.cutmixP)
  | .sample => decide (0 < cfg.cutmixP)

/-- the label item of a batch the collator accepts: absent from the mode, a `(B, C)` tensor, or a `(B,)` tensor
    with entries in `[0, 1]` -/
def LabelsWellFormed (mode : List String) (batch : List Item) (B : Nat) : Prop :=
  "class" ∉ mode ∨
  (∃ rows, getItem mode "class" batch = some (.cls2 rows) ∧ rows.length = B) ∨
  (∃ ys, getItem mode "class" batch = some (.cls1 ys) ∧ ys.length = B ∧ ∀ y ∈ ys, 0 ≤ y ∧ y ≤ 1)

/-! ### pixel counting -/

/-- number of pixel positions `(r, k)`, `r < h`, `k < w`, that lie inside the pasted slice -/
def pastedCount (h w : Nat) (b : Box) : Nat :=
  ((List.range h).map (fun r => (List.range w).countP (fun k => b.mem r k))).sum

/-- number of pixel positions `(r, k)`, `r < h`, `k < w`, that keep the sample's own pixel -/
def retainedCount (h w : Nat) (b : Box) : Nat :=
  ((List.range h).map (fun r => (List.range w).countP (fun k => !b.mem r k))).sum

/-! ### MAEFinetuneMixCollator -/

/-- `KDMixCollator(mixup_alpha=0.8, cutmix_alpha=1.0, mixup_p=0.5, cutmix_p=0.5, apply_mode="batch",
    lamb_mode="batch", shuffle_mode="flip")`; `0.5 + 0.5 == 1.0` exactly in binary floating point -/
def maeArgs : CtorArgs := ⟨some (1/2), some (1/2), some (4/5), some 1, 1, some .batch, some .batch, some .flip⟩

/-- `dataset_mode="x class"` -/
def maeMode : List String := ["x", "class"]

/-- the configuration the constructor call produces (see `C10.mae_ctor`) -/
def maeCfg : Cfg := ⟨1/2, 1/2, 1, some (4/5), some 1, .batch, .batch, .flip⟩

end KDVerif.C10Spec
