/-
Model of `kappadata/wrappers/mode_wrapper.py` (ModeWrapper) — C01.

Mirrors `ModeWrapper.__init__` (mode parsing, duplicate assertions on fused groups, the fused-group planner with
its in-loop mutation of `temp_items`, the per-item `hasattr` assertions) and `ModeWrapper.__getitem__`
(index forms, fresh ctx, loaders in plan order, un-fusing into mode positions, bare/tuple packaging, ctx return),
plus the static helpers `has_item / get_item_index / get_item / set_item / add_item`.

Loaders are instrumented symbolically: the value a loader returns is a *tag* `(loader-or-component name, index, call#)`,
so "which loader, for which sample, in which call" is observable; a joint (fused) loader returns one tag per
component, all carrying the same call number. Core Lean only.
-/
namespace KDVerif.ModeWrapper

/-- what `dataset.fused_operations` etc. look like from the wrapper's point of view -/
structure Stack where
  fused : List (List String)          -- dataset.fused_operations
  onType : List String                -- names n with hasattr(type(dataset), "getitem_" ++ n)
  reachable : List String             -- names n with hasattr(dataset, "getitem_" ++ n)
  records : List (String × String)    -- (loader name, ctx key it records into the per-sample ctx)
  len : Nat
  requiresPropagateCtx : Bool
deriving Repr

inductive Entry where
  | single (item : String) (pos : Nat)
  | fused (ops : List String) (poss : List Nat)
deriving Repr, DecidableEq

/-- `temp_items.index(op)` on the live list (entries already claimed are `none`) -/
def indexOf (x : String) : List (Option String) → Nat
  | [] => 0
  | y :: ys => if y == some x then 0 else 1 + indexOf x ys

/-- `for op in fused_ops: idx = temp_items.index(op); temp_items[idx] = None; idxs.append(idx)` -/
def claim : List (Option String) → List String → List (Option String) × List Nat
  | temp, [] => (temp, [])
  | temp, op :: ops =>
    let i := indexOf op temp
    let r := claim (temp.set i none) ops
    (r.1, i :: r.2)

/-- the inner `for fused_ops in …` with its `break` / `else` -/
def findFused (fusedOps : List (List String)) (item : String) (temp : List (Option String)) : Option (List String) :=
  fusedOps.find? (fun f => f.head? == some item && f.tail.all (fun o => temp.contains (some o)))

/-- `for i, item in enumerate(temp_items)` over the list that is mutated while iterated -/
def planGo (fusedOps : List (List String)) : Nat → Nat → List (Option String) → List Entry
  | 0, _, _ => []
  | fuel + 1, i, temp =>
    match temp.getD i none with
    | none => planGo fusedOps fuel (i + 1) temp
    | some item =>
      match findFused fusedOps item temp with
      | some f =>
        let r := claim temp f
        Entry.fused f r.2 :: planGo fusedOps fuel (i + 1) r.1
      | none => Entry.single item i :: planGo fusedOps fuel (i + 1) temp

def plan (fusedOps : List (List String)) (items : List String) : List Entry :=
  if fusedOps.isEmpty then (List.range items.length).zip items |>.map (fun p => Entry.single p.2 p.1)
  else planGo fusedOps items.length 0 (items.map some)

def entryName : Entry → String
  | .single item _ => item
  | .fused ops _ => String.join ops

inductive CtorErr where
  | dupFused            -- a fused group / the flattened fused operations contain duplicates
  | notOnType (n : String)    -- fused mode: getitem_<n> not implemented on the outermost wrapper type
  | notReachable (n : String) -- unfused mode: dataset has no getitem_<n>
deriving Repr, DecidableEq

def hasDup : List String → Bool
  | [] => false
  | x :: xs => xs.contains x || hasDup xs

def isCtx (item : String) : Bool := item.startsWith "ctx."

def checkEntries (s : Stack) (fusedMode : Bool) : List Entry → Except CtorErr Unit
  | [] => .ok ()
  | e :: es =>
    let n := entryName e
    if n == "index" || isCtx n then checkEntries s fusedMode es
    else if fusedMode then
      (if s.onType.contains n then checkEntries s fusedMode es else .error (.notOnType n))
    else
      (if s.reachable.contains n then checkEntries s fusedMode es else .error (.notReachable n))

structure MW where
  items : List String
  entries : List Entry
  returnCtx : Bool
  propagateCtx : Bool
deriving Repr

/-- `ModeWrapper.__init__` -/
def ctor (s : Stack) (mode : String) (returnCtx : Bool) : Except CtorErr MW :=
  let items := mode.splitOn " "
  if s.fused.any hasDup || hasDup s.fused.flatten then .error .dupFused
  else
    let entries := plan s.fused items
    match checkEntries s (!s.fused.isEmpty) entries with
    | .error e => .error e
    | .ok () =>
      .ok ⟨items, entries, returnCtx,
           returnCtx || s.requiresPropagateCtx || entries.any (fun e => isCtx (entryName e))⟩

/-! ### `__getitem__` -/

inductive Val where
  | index (i : Int)
  | tag (name : String) (idx : Int) (call : Nat)
  | tuple (vs : List Val)       -- what a joint loader returns (one tag per component)
  | keyError (k : String)
  | none
deriving Repr

abbrev Ctx := List (String × Val)

def ctxSet (c : Ctx) (k : String) (v : Val) : Ctx := (k, v) :: c.filter (fun p => p.1 != k)
def ctxGet (c : Ctx) (k : String) : Option Val := (c.find? (fun p => p.1 == k)).map (·.2)

structure LS where
  call : Nat           -- number of loader invocations so far (instrumentation)
  ctx : Ctx
deriving Repr

/-- run one planned loader -/
def runEntry (s : Stack) (idx : Int) (st : LS) : Entry → Val × LS
  | .single item _ =>
    if item == "index" then (.index idx, st)
    else if isCtx item then
      let k := (item.drop 4).toString
      (match ctxGet st.ctx k with
       | some v => (v, st)
       | none => (.keyError k, st))
    else
      let v := Val.tag item idx st.call
      let ctx' := (s.records.filter (fun r => r.1 == item)).foldl (fun c r => ctxSet c r.2 v) st.ctx
      (v, ⟨st.call + 1, ctx'⟩)
  | .fused ops _ =>
    let name := String.join ops
    let v := Val.tuple (ops.map (fun o => Val.tag o idx st.call))
    let ctx' := (s.records.filter (fun r => r.1 == name)).foldl (fun c r => ctxSet c r.2 (Val.tag name idx st.call)) st.ctx
    (v, ⟨st.call + 1, ctx'⟩)

def runEntries (s : Stack) (idx : Int) : LS → List Entry → List Val × LS
  | st, [] => ([], st)
  | st, e :: es =>
    let r := runEntry s idx st e
    let r2 := runEntries s idx r.2 es
    (r.1 :: r2.1, r2.2)

/-- un-fusing: `unpacked_items[fused_idx] = items[i][j]` -/
def writeBack : List Val → List (Entry × Val) → List Val
  | out, [] => out
  | out, (.single _ pos, v) :: rest => writeBack (out.set pos v) rest
  | out, (.fused _ poss, .tuple vs) :: rest =>
    writeBack ((poss.zip vs).foldl (fun o p => o.set p.1 p.2) out) rest
  | out, (.fused _ _, _) :: rest => writeBack out rest

inductive Out where
  | bare (v : Val)
  | tuple (vs : List Val)
  | withCtx (o : Out) (ctx : Ctx)
  | list (os : List Out)
  | indexError
deriving Repr

/-- one integer index (already non-negative or still negative as the code passes it on) -/
def getOne (s : Stack) (mw : MW) (call0 : Nat) (idx : Int) : Out × Nat :=
  let idx' := if idx < 0 then (s.len : Int) + idx else idx
  let r := runEntries s idx' ⟨call0, []⟩ mw.entries
  let unpacked := writeBack (List.replicate mw.items.length Val.none) (mw.entries.zip r.1)
  let packed := match unpacked with
    | [v] => Out.bare v
    | vs => Out.tuple vs
  (if mw.returnCtx then Out.withCtx packed (if mw.propagateCtx then r.2.ctx else []) else packed, r.2.call)

/-- `[self[i] for i in idxs]` threading the instrumentation counter -/
def getMany (s : Stack) (mw : MW) : Nat → List Int → List Out × Nat
  | c, [] => ([], c)
  | c, i :: is =>
    let r := getOne s mw c i
    let r2 := getMany s mw r.2 is
    (r.1 :: r2.1, r2.2)

/-! ### Python slice semantics: `range(n)[slice(start, stop, step)]` -/

def clampI (x lo hi : Int) : Int := if x < lo then lo else if x > hi then hi else x

/-- one bound of `slice.indices`: default when absent, else (after adding `n` to a negative value) clamped -/
def normIdx (v : Option Int) (dflt lo hi n : Int) : Int :=
  match v with
  | none => dflt
  | some v => if v < 0 then clampI (v + n) lo hi else clampI v lo hi

/-- `slice(start, stop, step).indices(n)` (step ≠ 0) -/
def sliceIndices (n : Nat) (start stop : Option Int) (step : Int) : Int × Int × Int :=
  let len : Int := n
  if step > 0 then (normIdx start 0 0 len len, normIdx stop len 0 len len, step)
  else (normIdx start (len - 1) (-1) (len - 1) len, normIdx stop (-1) (-1) (len - 1) len, step)

/-- `list(range(start, stop, step))` with fuel -/
def rangeGo : Nat → Int → Int → Int → List Int
  | 0, _, _, _ => []
  | fuel + 1, cur, stop, step =>
    if (step > 0 ∧ cur < stop) ∨ (step < 0 ∧ cur > stop) then cur :: rangeGo fuel (cur + step) stop step else []

def sliceRange (n : Nat) (start stop : Option Int) (step : Int) : List Int :=
  let r := sliceIndices n start stop step
  rangeGo (n + 1) r.1 r.2.1 r.2.2

/-! ### static helpers on a collated batch -/

def hasItem (mode item : String) : Bool := (mode.splitOn " ").contains item
def getItemIndex (mode item : String) : Option Nat :=
  let l := mode.splitOn " "
  if l.contains item then some (l.idxOf item) else none
def addItem (mode item : String) : String := if hasItem mode item then mode else mode ++ " " ++ item
def setItem {α} (mode item : String) (batch : List α) (v : α) : Option (List α) :=
  (getItemIndex mode item).map (fun i => batch.set i v)
def getItem {α} (mode item : String) (batch : List α) : Option α :=
  (getItemIndex mode item).bind (fun i => batch[i]?)

end KDVerif.ModeWrapper
