/-
C01 — specification-side and model-level definitions that so far only existed in `Driver/ModeWrapper.lean`
(index-form dispatch of `ModeWrapper.__getitem__`, `__iter__`, `__len__`), plus an independent statement of
Python's `slice.indices` / `len(range(...))` rules used as the closed form of `sliceRange`.
Core Lean only. Nothing here changes an existing definition of `Model/ModeWrapper.lean`.
-/
import KDVerif.Model.ModeWrapper

namespace KDVerif.ModeWrapper

/-! ### Python's slice rules, written independently of `sliceIndices` / `rangeGo`

`slice(a, b, step).indices(n)` (CPython `PySlice_AdjustIndices`): an absent bound takes the default of the
direction, a negative bound gets `n` added once and is then raised to the lower limit, a non-negative bound is
lowered to the upper limit. The limits are `0 … n` for `step > 0` and `-1 … n-1` for `step < 0`. -/

/-- first index of `range(n)[a:b:step]` -/
def pyStart (n : Nat) (a : Option Int) (step : Int) : Int :=
  match a with
  | none => if step > 0 then 0 else (n : Int) - 1
  | some a =>
    if step > 0 then (if a < 0 then max (a + n) 0 else min a n)
    else (if a < 0 then max (a + n) (-1) else min a ((n : Int) - 1))

/-- exclusive end of `range(n)[a:b:step]` -/
def pyStop (n : Nat) (b : Option Int) (step : Int) : Int :=
  match b with
  | none => if step > 0 then (n : Int) else -1
  | some b =>
    if step > 0 then (if b < 0 then max (b + n) 0 else min b n)
    else (if b < 0 then max (b + n) (-1) else min b ((n : Int) - 1))

/-- `len(range(lo, hi, step))` (CPython `get_len_of_range`): `(hi - lo - 1) / step + 1` when the range is
    non-empty in the direction of `step`, else `0` -/
def pyRangeLen (lo hi step : Int) : Nat :=
  if step > 0 then (if lo < hi then ((hi - lo - 1) / step + 1).toNat else 0)
  else (if hi < lo then ((lo - hi - 1) / (-step) + 1).toNat else 0)

/-- number of samples `range(n)[a:b:step]` selects -/
def pyCount (n : Nat) (a b : Option Int) (step : Int) : Nat :=
  pyRangeLen (pyStart n a step) (pyStop n b step) step

/-- the closed form: `[s0, s0 + step, s0 + 2·step, …]` (`pyCount` many) -/
def pySlice (n : Nat) (a b : Option Int) (step : Int) : List Int :=
  (List.range (pyCount n a b step)).map (fun (k : Nat) => pyStart n a step + (k : Int) * step)

/-! ### index forms of `ModeWrapper.__getitem__`, `__iter__`, `__len__` at model level

These mirror `Driver.getForm` (which is `partial` and works on JSON) one to one:
int → `getOne`; slice → `getMany` over `sliceRange len start stop (step or 1)`; list → the elements in order,
threading the instrumentation counter. -/

/-- `len(mw)` = `len(mw.dataset)` -/
def lenOf (s : Stack) (_mw : MW) : Nat := s.len

/-- `mw[a:b:step]` = `[self[i] for i in range(len(self))[a:b:step]]` -/
def getSlice (s : Stack) (mw : MW) (c : Nat) (a b : Option Int) (step : Int) : Out × Nat :=
  let r := getMany s mw c (sliceRange s.len a b step)
  (Out.list r.1, r.2)

/-- `mw[[i₀, i₁, …]]` = `[self[i] for i in idx]` -/
def getList (s : Stack) (mw : MW) (c : Nat) (is : List Int) : Out × Nat :=
  let r := getMany s mw c is
  (Out.list r.1, r.2)

/-- `list(iter(mw))` = `[self[i] for i in range(len(self))]` -/
def iterAll (s : Stack) (mw : MW) (c : Nat) : List Out × Nat :=
  getMany s mw c ((List.range (lenOf s mw)).map (fun (k : Nat) => (k : Int)))

/-- the index forms the driver accepts (`int | {"s":[start,stop,step]} | [forms…]`) -/
inductive Form where
  | int (i : Int)
  | slice (a b step : Option Int)
  | list (fs : List Form)

mutual
/-- `Driver.getForm`, structurally -/
def getForm (s : Stack) (mw : MW) : Nat → Form → Out × Nat
  | c, .int i => getOne s mw c i
  | c, .slice a b step => getSlice s mw c a b (step.getD 1)
  | c, .list fs =>
    let r := getForms s mw c fs
    (Out.list r.1, r.2)
/-- the `for e in a.toList` loop of `Driver.getForm` -/
def getForms (s : Stack) (mw : MW) : Nat → List Form → List Out × Nat
  | c, [] => ([], c)
  | c, f :: fs =>
    let r := getForm s mw c f
    let r2 := getForms s mw r.2 fs
    (r.1 :: r2.1, r2.2)
end

/-- number of loader invocations one request makes (every planned entry except `index` / `ctx.*` getters) -/
def callsPer (mw : MW) : Nat :=
  (mw.entries.filter (fun e => match e with
    | .single item _ => !(item == "index") && !(isCtx item)
    | .fused _ _ => true)).length

/-- the key a `ctx.<key>` mode item looks up (`item[len("ctx."):]`) -/
def ctxKey (item : String) : String := (item.drop 4).toString

/-- loader entry `e` records `key` into the per-sample ctx (`s.records` lists `(loader name, key)`) -/
def recordsKey (s : Stack) (e : Entry) (key : String) : Bool :=
  (match e with
    | .single item _ => !(item == "index") && !(isCtx item)
    | .fused _ _ => true) &&
  s.records.any (fun r => r.1 == entryName e && r.2 == key)

/-- the constructor's per-loader assertion, as a predicate on the loader name: `index` and `ctx.*` need nothing;
    otherwise `getitem_<n>` must exist on the outermost wrapper's TYPE when the stack declares fused operations
    (`fusedMode`), and merely be reachable through the stack (`hasattr(dataset, …)`) when it does not -/
def nameAccepted (s : Stack) (fusedMode : Bool) (n : String) : Bool :=
  n == "index" || isCtx n || (if fusedMode then s.onType.contains n else s.reachable.contains n)

/-- the assertion error the constructor raises for a rejected loader name -/
def rejectErr (fusedMode : Bool) (n : String) : CtorErr :=
  if fusedMode then .notOnType n else .notReachable n

/-! ### renumbering call numbers (to state that the access history only renumbers) -/

mutual
/-- renumber the instrumentation call numbers inside a value by `+d` (everything observable stays) -/
def shiftVal (d : Nat) : Val → Val
  | .tag n i k => .tag n i (k + d)
  | .tuple vs => .tuple (shiftVals d vs)
  | .index i => .index i
  | .keyError k => .keyError k
  | .none => .none
def shiftVals (d : Nat) : List Val → List Val
  | [] => []
  | v :: vs => shiftVal d v :: shiftVals d vs
end

def shiftCtx (d : Nat) (c : Ctx) : Ctx := c.map (fun p => (p.1, shiftVal d p.2))

mutual
def shiftOut (d : Nat) : Out → Out
  | .bare v => .bare (shiftVal d v)
  | .tuple vs => .tuple (shiftVals d vs)
  | .withCtx o ctx => .withCtx (shiftOut d o) (shiftCtx d ctx)
  | .list os => .list (shiftOuts d os)
  | .indexError => .indexError
def shiftOuts (d : Nat) : List Out → List Out
  | [] => []
  | o :: os => shiftOut d o :: shiftOuts d os
end

def shiftLS (d : Nat) (st : LS) : LS := ⟨st.call + d, shiftCtx d st.ctx⟩


end KDVerif.ModeWrapper
