/-
RNG-flow model for C07 / C08 / C09: *which generator cell every random draw comes from*.

A `Row` is what the translator (`harness/kdv/translate_rngflow.py`) reads off one transform / collator
class of /repo, resolved through the real MRO:
* `hasCell`   the class owns a `self.rng` generator cell (KDStochasticTransform / KDSingleCollator lineage)
* `slots`     attributes that hold child transforms (`fixed c`: always an instance of class `c`;
              `dyn`: whatever the user passes in — any transform or a foreign callable)
* `setsOwn`   the resolved `set_rng` assigns the own cell
* `forwards`  slots to whose members the resolved `set_rng` forwards the generator unconditionally
              (or guarded by `isinstance(·, KDTransform)`, which every cell-owning child satisfies)
* `raises`    the resolved `set_rng` references an unbound name (would raise)
* `globalDraw` some method in the MRO draws from a process-global RNG (np.random.*, torch.rand*, random.*)

Instances are trees; `setRng` is the semantics of calling `set_rng(g)` on the root; `draws` lists the
cells any call of the tree may draw from (every reachable cell — conservative).
Core Lean only.
-/
namespace KDVerif.RngFlow

inductive SlotKind where
  | fixed (cls : String)
  | dyn
deriving Repr, DecidableEq

structure Slot where
  name : String
  kind : SlotKind
deriving Repr, DecidableEq

structure Row where
  name : String
  hasCell : Bool
  slots : List Slot
  setsOwn : Bool
  forwards : List String
  raises : Bool
  globalDraw : Bool
deriving Repr, DecidableEq

abbrev Table := List Row

def lookup (tb : Table) (cls : String) : Option Row := tb.find? (fun r => r.name == cls)

mutual
  /-- a transform instance: `leaf` = foreign callable without cells (torchvision transform, lambda) -/
  inductive T where
    | leaf
    | node (cls : String) (cell : Nat) (kids : Kids)
  /-- children, tagged with the slot they live in (a list slot contributes several entries) -/
  inductive Kids where
    | nil
    | cons (slot : String) (t : T) (rest : Kids)
end

mutual
  /-- every generator cell reachable from the instance -/
  def draws (tb : Table) : T → List Nat
    | .leaf => []
    | .node cls cell kids =>
      (match lookup tb cls with
       | some r => if r.hasCell then [cell] else []
       | none => [cell]) ++ drawsKids tb kids
  def drawsKids (tb : Table) : Kids → List Nat
    | .nil => []
    | .cons _ t rest => draws tb t ++ drawsKids tb rest
end

mutual
  /-- `root.set_rng(g)` -/
  def setRng (tb : Table) (g : Nat) : T → T
    | .leaf => .leaf
    | .node cls cell kids =>
      match lookup tb cls with
      | some r => .node cls (if r.setsOwn then g else cell) (setRngKids tb g r.forwards kids)
      | none => .node cls cell kids
  def setRngKids (tb : Table) (g : Nat) (fw : List String) : Kids → Kids
    | .nil => .nil
    | .cons s t rest =>
      .cons s (if fw.contains s then setRng tb g t else t) (setRngKids tb g fw rest)
end

/-- classes whose instances can never contain a cell: no own cell, and every slot is a fixed slot of
    such a class (fuel = depth of the class graph explored) -/
def cellFree (tb : Table) : Nat → String → Bool
  | 0, _ => false
  | n + 1, cls =>
    match lookup tb cls with
    | none => false
    | some r => !r.hasCell && r.slots.all (fun s =>
        match s.kind with
        | .fixed c => cellFree tb n c
        | .dyn => false)

def slotOk (tb : Table) (r : Row) (s : Slot) : Bool :=
  r.forwards.contains s.name ||
  (match s.kind with
   | .fixed c => cellFree tb tb.length c
   | .dyn => false)

/-- the obligation discharged by `decide` on the generated table -/
def rowOk (tb : Table) (r : Row) : Bool :=
  !r.raises && !r.globalDraw && (!r.hasCell || r.setsOwn) && r.slots.all (slotOk tb r)

def wellFormed (tb : Table) : Bool := tb.all (rowOk tb)

mutual
  /-- the instance is built from the table: known classes, children only in declared slots, fixed slots
      hold the declared class -/
  def conforms (tb : Table) : T → Bool
    | .leaf => true
    | .node cls _ kids =>
      match lookup tb cls with
      | none => false
      | some r => conformsKids tb r kids
  def conformsKids (tb : Table) (r : Row) : Kids → Bool
    | .nil => true
    | .cons s t rest =>
      (match r.slots.find? (fun sl => sl.name == s) with
       | none => false
       | some sl =>
         (match sl.kind with
          | .dyn => true
          | .fixed c => (match t with
              | .leaf => false
              | .node c' _ _ => c' == c))) &&
      conforms tb t && conformsKids tb r rest
end

end KDVerif.RngFlow
