/-
Model of the collator pipeline of KappaData (C18).

Mirrored Python (statement by statement):
* `kappadata/collators/base/kd_collator_base.py`      `KDCollatorBase._call_impl`  ↦ `step` (one loop iteration =
  `assertNone`, `beforeStep`, `splitStep`, `callStep`, `afterStep`) and `callImpl` (the `for` loop + the final `return`)
* `kd_single_collator.py` `KDSingleCollator.__call__`  ↦ `singleCall`
* `kd_compose_collator.py` `KDComposeCollator.__init__/__call__` ↦ `composeCall`
* `kd_single_collator_wrapper.py` `KDSingleCollatorWrapper.__call__` ↦ `wrapperCall`
* `kappadata/collators/pad_sequences_collator.py` `PadSequencesCollator.collate` ↦ `padItems` (tuple branch = per-field loop,
  bare branch), `padDirect` (the `return_ctx=True` branch taken when `collate` is handed raw `(items, ctx)` samples) and
  `padSequence` (torch `pad_sequence(batch_first=True)`: zeros up to the longest sequence).

Abstractions (contracts of torch, not modelled further):
* `default_collate` on a list of samples ↦ `collateItems` (transpose + stack each column), on a list of dicts ↦ `mergeCtx`
  (keys of the first dict, `KeyError` if a later dict lacks one), on `(items, ctx)` pairs ↦ both at once (`dcBatch`).
* values: a field is a 1-d integer tensor (`seq`) or a python int / 0-dim tensor (`scal`).
* member collators: `probe mode key` = a `KDSingleCollator` whose `collate` returns the batch unchanged and writes `ctx[key]`
  (if it has a key); `pad` = `PadSequencesCollator` (mode `None`).
No imports: core Lean only.
-/
namespace KDVerif.Collate

/-- `default_collate_mode` of a member: `None`, `"before"`, `"after"` -/
inductive Mode where
  | none
  | before
  | after
deriving DecidableEq, Repr

inductive Field where
  | seq (xs : List Int)
  | scal (x : Int)
deriving DecidableEq, Repr

/-- one sample's context: key ↦ value in insertion order -/
abbrev Ctx1 := List (Nat × Int)

inductive CtxVal where
  | col (xs : List Int)   -- default-collated per-sample values
  | one (x : Int)         -- written by a member collator
deriving DecidableEq, Repr

/-- batched context -/
abbrev Ctx := List (Nat × CtxVal)

structure Sample where
  items : List Field      -- in mode order; one item = bare (no tuple)
  ctx : Ctx1              -- `[]` when return_ctx = False
deriving DecidableEq, Repr

inductive Col where
  | scalars (xs : List Int)
  | rows (rs : List (List Int))
deriving DecidableEq, Repr

inductive BatchV where
  | raw (ss : List Sample)                 -- what the DataLoader hands over ((items, ctx) pairs iff return_ctx)
  | items (xs : List (List Field))         -- contexts split off by `zip(*batch)`
  | collated (n : Nat) (cols : List Col)   -- `n` = how often default_collate was applied to the batch
deriving DecidableEq, Repr

inductive Err where
  | assertion   -- one of the code's own asserts
  | unpack      -- `batch, ctx = batch` on something that is not a pair
  | stack       -- default_collate on fields that cannot be stacked
  | key         -- KeyError while collating dicts
  | pad         -- pad_sequence on something that is not a list of tensors
  | empty       -- IndexError on an empty batch
deriving DecidableEq, Repr

inductive Member where
  | probe (mode : Mode) (key : Option Nat)
  | pad
deriving DecidableEq, Repr

def Member.mode : Member → Mode
  | .probe m _ => m
  | .pad => .none

def Member.isProbe : Member → Bool
  | .probe _ _ => true
  | .pad => false

def Member.key : Member → Option Nat
  | .probe _ k => k
  | .pad => none

inductive Ev where
  | dc                                        -- default_collate applied to the batch
  | dcCtx                                     -- default_collate applied to the split-off contexts
  | member (times : Nat) (seen : List Nat)    -- a probe's collate: how often the batch was collated, ctx keys it is handed
deriving DecidableEq, Repr

/-- `[f x for x in l]` where `f` may raise -/
def mapE {α β ε : Type} (f : α → Except ε β) : List α → Except ε (List β)
  | [] => .ok []
  | a :: l =>
    match f a with
    | .error e => .error e
    | .ok b =>
      match mapE f l with
      | .error e => .error e
      | .ok bs => .ok (b :: bs)

/-! ### torch contracts -/

def allScal : List Field → Option (List Int)
  | [] => some []
  | .scal x :: r => (allScal r).map (x :: ·)
  | .seq _ :: _ => none

def allSeq : List Field → Option (List (List Int))
  | [] => some []
  | .seq s :: r => (allSeq r).map (s :: ·)
  | .scal _ :: _ => none

/-- `default_collate` of one column (stack) -/
def collateCol (fs : List Field) : Except Err Col :=
  match fs with
  | [] => .error .empty
  | .scal _ :: _ =>
    match allScal fs with
    | some xs => .ok (.scalars xs)
    | none => .error .stack
  | .seq s :: _ =>
    match allSeq fs with
    | some rs => if rs.all (fun r => r.length == s.length) then .ok (.rows rs) else .error .stack
    | none => .error .stack

/-- column `j` of a list of samples' items -/
def column (xs : List (List Field)) (j : Nat) : List Field := xs.filterMap (fun it => it[j]?)

/-- `default_collate` on a list of item tuples: all of one length, transposed, each column stacked -/
def collateItems (xs : List (List Field)) : Except Err (List Col) :=
  match xs with
  | [] => .error .empty
  | it0 :: _ =>
    if xs.all (fun it => it.length == it0.length) then
      mapE (fun j => collateCol (column xs j)) (List.range it0.length)
    else .error .stack

def lookupKey (k : Nat) : Ctx1 → Option Int
  | [] => none
  | (k', v) :: r => if k' = k then some v else lookupKey k r

def lookupAll (k : Nat) : List Ctx1 → Option (List Int)
  | [] => some []
  | c :: r =>
    match lookupKey k c, lookupAll k r with
    | some v, some vs => some (v :: vs)
    | _, _ => none

/-- the values of the keys `ks` across all contexts -/
def mergeKeys (cs : List Ctx1) : List Nat → Except Err Ctx
  | [] => .ok []
  | k :: ks =>
    match lookupAll k cs, mergeKeys cs ks with
    | some vs, .ok r => .ok ((k, .col vs) :: r)
    | none, _ => .error .key
    | _, .error e => .error e

/-- `default_collate` on a list of dicts: the keys of the first one -/
def mergeCtx (cs : List Ctx1) : Except Err Ctx :=
  match cs with
  | [] => .error .empty
  | c0 :: _ => mergeKeys cs (c0.map Prod.fst)

def timesOf : BatchV → Nat
  | .collated n _ => n
  | _ => 0

/-- `default_collate(batch)`; `pairs` = the samples still carry their contexts (then the result is a pair) -/
def dcBatch (pairs : Bool) (b : BatchV) : Except Err (BatchV × Option Ctx) :=
  match b with
  | .raw ss =>
    match collateItems (ss.map Sample.items) with
    | .error e => .error e
    | .ok cols =>
      if pairs then
        match mergeCtx (ss.map Sample.ctx) with
        | .error e => .error e
        | .ok c => .ok (.collated 1 cols, some c)
      else .ok (.collated 1 cols, none)
  | .items xs =>
    match collateItems xs with
    | .error e => .error e
    | .ok cols => .ok (.collated 1 cols, none)
  | .collated n cols => .ok (.collated (n + 1) cols, none)

/-! ### PadSequencesCollator -/

def maxLen (seqs : List (List Int)) : Nat := seqs.foldl (fun a s => max a s.length) 0

/-- torch `pad_sequence(seqs, batch_first=True)` -/
def padSequence (seqs : List (List Int)) : List (List Int) :=
  seqs.map (fun s => s ++ List.replicate (maxLen seqs - s.length) 0)

/-- one field of the tuple branch: `pad_sequence` when the first item is a tensor with ndim > 0, else `default_collate` -/
def padField (fs : List Field) : Except Err Col :=
  match fs with
  | [] => .error .empty
  | .seq _ :: _ =>
    match allSeq fs with
    | some rs => .ok (.rows (padSequence rs))
    | none => .error .pad
  | .scal _ :: _ => collateCol fs

/-- `PadSequencesCollator.collate` on samples without contexts: tuple branch (per field) or bare branch -/
def padItems (xs : List (List Field)) : Except Err (List Col) :=
  match xs with
  | [] => .error .empty
  | it0 :: _ =>
    if 2 ≤ it0.length then
      if xs.all (fun it => decide (it0.length ≤ it.length)) then
        mapE (fun j => padField (column xs j)) (List.range it0.length)
      else .error .empty
    else
      match allSeq (column xs 0) with
      | some rs => if rs.length = xs.length then .ok [.rows (padSequence rs)] else .error .pad
      | none => .error .pad

/-- `collate` handed the raw `(items, ctx)` samples itself (return_ctx branch; for a bare item the pair is
    treated as a 2-tuple by the per-field loop, so a scalar item is default-collated) -/
def padDirect (ss : List Sample) : Except Err (List Col × Ctx) :=
  match ss with
  | [] => .error .empty
  | s0 :: _ =>
    if 2 ≤ s0.items.length then
      match padItems (ss.map Sample.items), mergeCtx (ss.map Sample.ctx) with
      | .ok cols, .ok c => .ok (cols, c)
      | .error e, _ => .error e
      | _, .error e => .error e
    else
      match padField (column (ss.map Sample.items) 0), mergeCtx (ss.map Sample.ctx) with
      | .ok col, .ok c => .ok ([col], c)
      | .error e, _ => .error e
      | _, .error e => .error e

def padBatch (b : BatchV) : Except Err BatchV :=
  match b with
  | .raw ss => (padItems (ss.map Sample.items)).map (.collated 0 ·)
  | .items xs => (padItems xs).map (.collated 0 ·)
  | .collated _ _ => .error .pad

/-! ### `_call_impl` -/

structure St where
  called : Bool       -- called_default_collate
  removed : Bool      -- removed_ctx_from_batch
  batch : BatchV
  ctx : Ctx
  trace : List Ev
deriving DecidableEq, Repr

/-- `if collator.default_collate_mode is None: assert not called_default_collate` -/
def assertNone (m : Mode) (st : St) : Except Err St :=
  if m = .none ∧ st.called = true then .error .assertion else .ok st

/-- `if mode == "before" and not called_default_collate:` collate; unpack `(batch, ctx)` iff return_ctx and the
    contexts are still inside the batch -/
def beforeStep (rc : Bool) (m : Mode) (st : St) : Except Err St :=
  if m = .before ∧ st.called = false then
    match dcBatch (rc && !st.removed) st.batch with
    | .error e => .error e
    | .ok (b, c?) =>
      if (rc && !st.removed) = true then
        match c? with
        | some c => .ok { st with called := true, batch := b, ctx := c, trace := st.trace ++ [.dc] }
        | none => .error .unpack
      else .ok { st with called := true, batch := b, trace := st.trace ++ [.dc] }
  else .ok st

/-- `if not called_default_collate and return_ctx and not removed_ctx_from_batch:` zip + collate the contexts -/
def splitStep (rc : Bool) (st : St) : Except Err St :=
  if st.called = false ∧ rc = true ∧ st.removed = false then
    match st.batch with
    | .raw ss =>
      match mergeCtx (ss.map Sample.ctx) with
      | .error e => .error e
      | .ok c => .ok { st with removed := true, batch := .items (ss.map Sample.items), ctx := c, trace := st.trace ++ [.dcCtx] }
    | _ => .error .unpack
  else .ok st

/-- python `ctx[key] = value` -/
def setKey (k : Nat) (v : CtxVal) : Ctx → Ctx
  | [] => [(k, v)]
  | (k', v') :: r => if k' = k then (k, v) :: r else (k', v') :: setKey k v r

/-- `batch = collator.collate(batch, dataset_mode, ctx)` -/
def callStep (m : Member) (st : St) : Except Err St :=
  match m with
  | .probe _ key =>
    let tr := st.trace ++ [.member (timesOf st.batch) (st.ctx.map Prod.fst)]
    match key with
    | some k => .ok { st with ctx := setKey k (.one (-(k : Int))) st.ctx, trace := tr }
    | none => .ok { st with trace := tr }
  | .pad =>
    match padBatch st.batch with
    | .error e => .error e
    | .ok b => .ok { st with batch := b }

/-- `if mode == "after": assert not called; batch = default_collate(batch); called = True` -/
def afterStep (m : Mode) (st : St) : Except Err St :=
  if m = .after then
    if st.called = true then .error .assertion
    else
      match dcBatch false st.batch with
      | .error e => .error e
      | .ok (b, _) => .ok { st with called := true, batch := b, trace := st.trace ++ [.dc] }
  else .ok st

/-- one iteration of `for collator in collators` -/
def step (rc : Bool) (st : St) (m : Member) : Except Err St :=
  match assertNone m.mode st with
  | .error e => .error e
  | .ok st =>
    match beforeStep rc m.mode st with
    | .error e => .error e
    | .ok st =>
      match splitStep rc st with
      | .error e => .error e
      | .ok st =>
        match callStep m st with
        | .error e => .error e
        | .ok st => afterStep m.mode st

def run (rc : Bool) : St → List Member → Except Err St
  | st, [] => .ok st
  | st, m :: ms =>
    match step rc st m with
    | .error e => .error e
    | .ok st' => run rc st' ms

def init (ss : List Sample) : St := ⟨false, false, .raw ss, [], []⟩

structure Result where
  isPair : Bool
  batch : BatchV
  ctx : Ctx          -- `[]`-initialised dict handed to the members even without return_ctx; returned iff isPair
  trace : List Ev
deriving DecidableEq, Repr

/-- `_call_impl(batch, collators, dataset_mode, return_ctx)` -/
def callImpl (rc : Bool) (members : List Member) (ss : List Sample) : Except Err Result :=
  match run rc (init ss) members with
  | .error e => .error e
  | .ok st => .ok ⟨rc, st.batch, st.ctx, st.trace⟩

/-- `KDComposeCollator(collators, dataset_mode, return_ctx)(batch)`: the constructor asserts a non-empty list -/
def composeCall (rc : Bool) (members : List Member) (ss : List Sample) : Except Err Result :=
  if members.isEmpty then .error .assertion else callImpl rc members ss

/-- `KDSingleCollator.__call__` with dataset_mode / return_ctx given -/
def singleCall (rc : Bool) (m : Member) (ss : List Sample) : Except Err Result := callImpl rc [m] ss

/-- `KDSingleCollatorWrapper.__call__` (delegates to `_call_impl` with the wrapped collator) -/
def wrapperCall (rc : Bool) (m : Member) (ss : List Sample) : Except Err Result := callImpl rc [m] ss

end KDVerif.Collate
