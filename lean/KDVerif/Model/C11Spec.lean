/-
Specification vocabulary for C11 (sample-level mix wrapper), written independently of the recursion of
`getitemXClass`:

  * `IsOneHot`, `paddedEl`, `IsUntouched`, `IsMixOf` — what "untouched sample with a one-hot label" and
    "convex combination of sample i and partner j with weight lam, label mixed with the same j and lam" mean,
    element by element;
  * `Gen`, `tapeFor`, `callTapes` — the generator `np.random.default_rng(s)` as a deterministic function of
    its seed `s`, the draws one `getitem_xclass` call takes from it, and which seed the `k`-th call of a request
    uses (`seed + idx` when the wrapper has a seed, a fresh value of the global numpy RNG otherwise);
  * `CtorAccepts` — the configurations `KDMixWrapper.__init__` accepts.

Core Lean only; nothing here is used by the drivers.
-/
import KDVerif.Model.MixWrapper

namespace KDVerif.MixWrapper

/-! ### what the results look like -/

/-- `l` is the one-hot row of class `c` among `n` classes -/
def IsOneHot (n c : Nat) (l : List Rat) : Prop :=
  c < n ∧ l.length = n ∧ ∀ k, k < n → l.getD k 0 = if k = c then 1 else 0

/-- element of `t` at `ι` after `t` was brought to another tensor's extents by padding zeros at / cutting the
    end of every dimension: its own element inside its extents, `0` (padding) outside -/
def paddedEl (t : Ten) (ι : Nat → Nat) : Rat := if InRange t.rank t.shape ι then t.el ι else 0

/-- the call returned sample `i` itself with the one-hot row of its label -/
def IsUntouched (ds : DS) (i : Nat) (x' : Ten) (l' : List Rat) : Prop :=
  x' = ds.x i ∧ IsOneHot ds.nClasses (ds.cls i) l'

/-- the call returned `lam · sample i + (1 - lam) · sample j` (sample `j` unified to sample `i`'s extents) and
    the label row `lam · e_{y_i} + (1 - lam) · e_{y_j}` — ONE `j` and ONE `lam` for data and label -/
def IsMixOf (ds : DS) (i j : Nat) (lam : Rat) (x' : Ten) (l' : List Rat) : Prop :=
  x'.rank = (ds.x i).rank ∧ x'.shape = (ds.x i).shape ∧
  (∀ ι, InRange (ds.x i).rank (ds.x i).shape ι →
    x'.el ι = lam * (ds.x i).el ι + (1 - lam) * paddedEl (ds.x j) ι) ∧
  ds.cls i < ds.nClasses ∧ ds.cls j < ds.nClasses ∧ l'.length = ds.nClasses ∧
  ∀ k, k < ds.nClasses →
    l'.getD k 0 = lam * (if k = ds.cls i then 1 else 0) + (1 - lam) * (if k = ds.cls j then 1 else 0)

/-! ### the generator as a function of its seed -/

/-- What a freshly created `np.random.default_rng(s)` answers to the three requests `getitem_xclass` makes, in
    the order it makes them. A generator is deterministic: the answer to a request is a function of the seed
    and of the requests made before (the arguments `hi`, `alpha` below). -/
structure Gen where
  /-- first request: `rng.random()` -/
  unif : Rat
  /-- second request: `rng.integers(hi)` -/
  int : Nat → Nat
  /-- third request: `rng.beta(alpha, alpha)` after `rng.integers(hi)` -/
  beta : Nat → Rat → Rat

/-- numpy's contract for the three requests -/
def Gen.Ok (g : Gen) : Prop :=
  (0 ≤ g.unif ∧ g.unif < 1) ∧ (∀ hi, 0 < hi → g.int hi < hi) ∧ ∀ hi a, 0 ≤ g.beta hi a ∧ g.beta hi a ≤ 1

/-- The draws one `getitem_xclass` call of a wrapper with configuration `cfg` over a dataset of length
    `ds.len` takes from generator `g` (control flow of the code: one draw if nothing is applied; otherwise the
    partner index; then — if the alpha of the selected operation is a number — the Beta draw). Calls that raise
    before a draw (label out of range) take fewer draws; the model's result does not look at the rest of the
    tape in these cases. -/
def tapeFor (g : Gen) (cfg : Cfg) (ds : DS) : Tape :=
  if g.unif > cfg.totalP then [.unif g.unif]
  else
    match (if g.unif < cfg.cutmixP then cfg.cutmixAlpha else cfg.mixupAlpha) with
    | some alpha => [.unif g.unif, .int ds.len (g.int ds.len), .beta alpha (g.beta ds.len alpha)]
    | none => [.unif g.unif, .int ds.len (g.int ds.len)]

/-- Seed of the generator created by the `k`-th `getitem_xclass` call of a request for index `i`:
    `self.seed + idx` if the wrapper has a seed, else the `k`-th value `glob k` drawn from the global numpy RNG
    (`np.random.randint(...)`). -/
def callSeed (seed : Option Nat) (glob : Nat → Nat) (i k : Nat) : Nat :=
  match seed with
  | some s => s + i
  | none => glob k

/-- the tapes of the calls of one request; `rng` is the function `s ↦ np.random.default_rng(s)` -/
def callTapes (rng : Nat → Gen) (seed : Option Nat) (glob : Nat → Nat) (cfg : Cfg) (ds : DS) (i : Nat) :
    Nat → Tape :=
  fun k => tapeFor (rng (callSeed seed glob i k)) cfg ds

/-! ### the constructor's domain -/

/-- the argument combinations `KDMixWrapper.__init__` accepts (`p or 0.` reads `None` as `0`) -/
def CtorAccepts (a : CtorArgs) : Prop :=
  (a.mixupP ≠ none ∨ a.cutmixP ≠ none) ∧
  (0 ≤ orZero a.mixupP ∧ orZero a.mixupP ≤ 1) ∧
  (0 ≤ orZero a.cutmixP ∧ orZero a.cutmixP ≤ 1) ∧
  (0 < a.floatSum ∧ a.floatSum ≤ 1) ∧
  (if orZero a.mixupP = 0 then a.mixupAlpha = none ∧ a.unify = none
   else ∃ α, a.mixupAlpha = some α ∧ 0 < α) ∧
  (if orZero a.cutmixP = 0 then a.cutmixAlpha = none else ∃ α, a.cutmixAlpha = some α ∧ 0 < α)

/-- the configuration an accepted constructor call stores -/
def cfgOf (a : CtorArgs) : Cfg :=
  ⟨orZero a.mixupP, orZero a.cutmixP, a.floatSum, a.mixupAlpha, a.cutmixAlpha, a.unify⟩

end KDVerif.MixWrapper
