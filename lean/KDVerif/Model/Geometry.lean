/-
C14 model — geometry of the crop / pad / erase / mask transforms (integer cores) and grid operations.

Mirrors, statement by statement (Python names in back-ticks):
  * `KDRandomCrop._pad_image`, `KDRandomCrop.get_params`, `KDRandomCrop.__call__`      → `padSeq`, `getParams`, `randomCrop`
  * `KDTwoRandomCrop.__call__` (retry loop, `tries`, overlap test), `get_params`        → `twoLoop`, `twoCrop`
  * `bounding_box_utils.intersection_area_ijkl / _ijhw`                                 → `interArea`
  * `KDRandomResizedCrop.get_params` (10 attempts, accept test, central fallback)       → `rrcLoop`, `rrcFallback`, `rrc`
  * `KDSimpleRandomCrop.__call__` = `Resize` (size handed in) then `KDRandomCrop`        → `randomCrop` on the resized size
  * `KDRandomApplyBase.__call__` + `KDRandomErasing.forward`                            → `applyDraw`, `eraseRect`, `eraseRects`, `erasing`
  * `KDSpecAugment._mask_along_axis`, `__call__`                                        → `specAxis`, `maskIdx`
  * `KDSemsegRandomCrop.get_params`, `__call__` (category-ratio retry)                  → `semsegCropParams`, `semsegRetry`, `semsegCrop`
  * `KDSemsegPad.__call__`                                                              → `semsegPad`
  * `KDSemsegRandomResize.__call__/get_params`, `KDSemsegRandomResizeOld.get_params`    → `semsegResizeSize`, `semsegResizeOldSize`
  * `KDSemsegRandomHorizontalFlip` (through `KDRandomApplyBase`)                        → `applyDraw`
  * `KDSemsegOverlappedMultiCrop.__call__`                                              → `multiCropGrid`
  * torchvision `crop / pad / hflip` and slice assignment on a 2-d grid                 → `Grid.crop`, `Grid.pad`, `Grid.hflip`, `Grid.paste`
  * paired application (`x, semseg = op(x), op(semseg)`)                                → `PairOp`, `applyOp`, `applyPair`, `runPair`

Randomness: every routine takes the *tape* of draws the real generator produced (recorded by a proxy around `self.rng`),
in the order it makes them. A draw of another kind / range than the routine asks for, or a value outside the generator's
contract `lo ≤ v < hi`, is an error outcome (`kindMismatch`, `contract`), so a successful model run certifies that the code
made exactly these draws. Theorems quantify over all tapes.

Floats: `sqrt / exp / round / float32` arithmetic is *not* modelled. Where the code turns such a value into an integer, the
integers (or the exact rational value of the float) computed by the executable-only front end (the harness, same formulas on
the recorded uniform draws) are handed in (`props`, `RrcFront`, spec `(v, mv)`); the theorems quantify over every front-end
output. Comparisons of floats and Python's `round` of a float are exact and modelled over `Rat`.
-/
namespace KDVerif.Geometry

inductive Err where
  | valueError      -- the code's own `raise ValueError` (crop larger than the image)
  | genValueError   -- numpy `Generator.integers(lo, hi)` with `hi ≤ lo` ("low >= high")
  | assertion       -- an `assert` of the code
  | zeroDiv         -- ZeroDivisionError
  | tapeEnd         -- the recorded run made fewer draws than the model asks for
  | kindMismatch    -- the recorded draw is of another kind / range than the model asks for
  | contract        -- a recorded value violates the generator's contract
  | frontEnd        -- the front end handed in fewer proposals than the model consumes
  | fuel
  deriving DecidableEq, Repr

/-- one recorded call of the numpy generator -/
inductive Draw where
  | ints (lo hi v : Int)      -- `rng.integers(lo, hi)` returned `v`
  | unif (v : Rat)            -- `rng.uniform(a, b)` returned `v` (every float is a rational)
  | rand (v : Rat)            -- `rng.random()` returned `v`
  | normal                    -- `rng.standard_normal(size=…)` (values do not influence geometry)
  deriving Repr

abbrev Tape := List Draw

/-- `int(rng.integers(lo, hi))` -/
def drawInt (lo hi : Int) (t : Tape) : Except Err (Int × Tape) :=
  if hi ≤ lo then .error .genValueError else
  match t with
  | [] => .error .tapeEnd
  | .ints l h v :: r =>
    if l = lo ∧ h = hi then (if lo ≤ v ∧ v < hi then .ok (v, r) else .error .contract) else .error .kindMismatch
  | _ :: _ => .error .kindMismatch

/-- `rng.uniform(a, b)` -/
def drawUnif (t : Tape) : Except Err (Rat × Tape) :=
  match t with
  | [] => .error .tapeEnd
  | .unif v :: r => .ok (v, r)
  | _ :: _ => .error .kindMismatch

/-- `rng.random()`: contract `0 ≤ v < 1` -/
def drawRand (t : Tape) : Except Err (Rat × Tape) :=
  match t with
  | [] => .error .tapeEnd
  | .rand v :: r => if 0 ≤ v ∧ v < 1 then .ok (v, r) else .error .contract
  | _ :: _ => .error .kindMismatch

/-- `rng.standard_normal(...)` -/
def drawNormal (t : Tape) : Except Err Tape :=
  match t with
  | [] => .error .tapeEnd
  | .normal :: r => .ok r
  | _ :: _ => .error .kindMismatch

/-- a box: top `i`, left `j`, height `h`, width `w` -/
structure Box where
  i : Int
  j : Int
  h : Int
  w : Int
  deriving DecidableEq, Repr

/-- the box lies inside an image of height `H` and width `W` -/
def Box.inside (b : Box) (H W : Int) : Prop :=
  0 ≤ b.i ∧ 0 ≤ b.j ∧ b.i + b.h ≤ H ∧ b.j + b.w ≤ W

instance (b : Box) (H W : Int) : Decidable (b.inside H W) := by unfold Box.inside; infer_instance

/-! ### KDRandomCrop -/

/-- torchvision `pad` amounts -/
structure Pad where
  l : Int
  t : Int
  r : Int
  b : Int
  deriving DecidableEq, Repr

/-- the `padding` argument: `None`, an int (all sides), `[left/right, top/bottom]`, `[left, top, right, bottom]` -/
inductive Padding where
  | none
  | all (p : Int)
  | two (lr tb : Int)
  | four (l t r b : Int)
  deriving Repr

def Padding.toPads : Padding → List Pad
  | .none => []
  | .all p => [⟨p, p, p, p⟩]
  | .two lr tb => [⟨lr, tb, lr, tb⟩]
  | .four l t r b => [⟨l, t, r, b⟩]

def Padding.nonneg : Padding → Prop
  | .none => True
  | .all p => 0 ≤ p
  | .two lr tb => 0 ≤ lr ∧ 0 ≤ tb
  | .four l t r b => 0 ≤ l ∧ 0 ≤ t ∧ 0 ≤ r ∧ 0 ≤ b

def padH (h : Int) (ps : List Pad) : Int := ps.foldl (fun a p => a + p.t + p.b) h
def padW (w : Int) (ps : List Pad) : Int := ps.foldl (fun a p => a + p.l + p.r) w

structure CropCfg where
  th : Int
  tw : Int
  padding : Padding
  padIfNeeded : Bool

/-- `_pad_image`: the sequence of `pad` calls (configured padding, then width, then height if needed) -/
def padSeq (c : CropCfg) (h w : Int) : List Pad :=
  let p0 := c.padding.toPads
  let h1 := padH h p0
  let w1 := padW w p0
  p0 ++ (if c.padIfNeeded ∧ w1 < c.tw then [⟨c.tw - w1, 0, c.tw - w1, 0⟩] else [])
     ++ (if c.padIfNeeded ∧ h1 < c.th then [⟨0, c.th - h1, 0, c.th - h1⟩] else [])

/-- `get_params` on an image of height `h`, width `w` -/
def getParams (h w th tw : Int) (t : Tape) : Except Err (Box × Tape) :=
  if h + 1 < th ∨ w + 1 < tw then .error .valueError
  else if w = tw ∧ h = th then .ok (⟨0, 0, h, w⟩, t)
  else match drawInt 0 (h - th + 1) t with
    | .error e => .error e
    | .ok (i, t1) => match drawInt 0 (w - tw + 1) t1 with
      | .error e => .error e
      | .ok (j, t2) => .ok (⟨i, j, th, tw⟩, t2)

structure CropOut where
  pads : List Pad      -- apply in order with the configured fill / mode …
  H : Int              -- … giving an image of this size …
  W : Int
  box : Box            -- … then `crop(img, i, j, h, w)`; this is what `ctx["random_crop"]` records
  deriving Repr

/-- `KDRandomCrop.__call__` on an image of height `h` and width `w` -/
def randomCrop (c : CropCfg) (h w : Int) (t : Tape) : Except Err (CropOut × Tape) :=
  let ps := padSeq c h w
  let H := padH h ps
  let W := padW w ps
  match getParams H W c.th c.tw t with
  | .error e => .error e
  | .ok (b, t1) => .ok (⟨ps, H, W, b⟩, t1)

/-! ### KDTwoRandomCrop -/

def imax (a b : Int) : Int := if a ≤ b then b else a
def imin (a b : Int) : Int := if a ≤ b then a else b

def boxArea (b : Box) : Int := b.h * b.w

/-- `intersection_area_ijkl` with `k = i + h`, `l = j + w` (= `intersection_area_ijhw`) -/
def interArea (a b : Box) : Int :=
  imax 0 (imin (a.i + a.h) (b.i + b.h) - imax a.i b.i) * imax 0 (imin (a.j + a.w) (b.j + b.w) - imax a.j b.j)

structure TwoOut where
  b1 : Box
  outOfTries : Bool
  overlap : Rat
  deriving Repr

/-- the `while True` loop of `KDTwoRandomCrop.__call__`; `k` = the variable `tries`; `fuel` bounds the iterations when
    `self.tries is None` -/
def twoLoop (H W th tw : Int) (omin omax : Rat) (tries : Option Nat) (b0 : Box) :
    Nat → Nat → Tape → Except Err (TwoOut × Tape)
  | 0, _, _ => .error .fuel
  | fuel + 1, k, t =>
    match getParams H W th tw t with
    | .error e => .error e
    | .ok (b1, t1) =>
      let inter := interArea b0 b1
      let union := boxArea b0 + boxArea b1 - inter
      if union = 0 then .error .zeroDiv else
      let ov : Rat := (inter : Rat) / (union : Rat)
      if omin ≤ ov ∧ ov ≤ omax then .ok (⟨b1, false, ov⟩, t1)
      else
        let stop := match tries with
          | some n => decide (n ≤ k + 1)
          | none => false
        if stop then .ok (⟨b1, true, ov⟩, t1)
        else twoLoop H W th tw omin omax tries b0 fuel (k + 1) t1

structure TwoCropOut where
  pads : List Pad
  H : Int
  W : Int
  b0 : Box
  res : TwoOut
  deriving Repr

def twoCrop (c : CropCfg) (omin omax : Rat) (tries : Option Nat) (fuel : Nat) (h w : Int) (t : Tape) :
    Except Err (TwoCropOut × Tape) :=
  let ps := padSeq c h w
  let H := padH h ps
  let W := padW w ps
  match getParams H W c.th c.tw t with
  | .error e => .error e
  | .ok (b0, t1) =>
    match twoLoop H W c.th c.tw omin omax tries b0 fuel 0 t1 with
    | .error e => .error e
    | .ok (r, t2) => .ok (⟨ps, H, W, b0, r⟩, t2)

/-! ### KDRandomResizedCrop -/

/-- Python `round` of a float (exact: round half to even), then `int` -/
def roundHalfEven (q : Rat) : Int :=
  let f := q.floor
  let r := q - (f : Rat)
  if r < 1 / 2 then f else if 1 / 2 < r then f + 1 else if f % 2 = 0 then f else f + 1

/-- the accept test `0 < w <= width and 0 < h <= height` -/
def rrcAccept (W H w h : Int) : Bool := decide (0 < w ∧ w ≤ W ∧ 0 < h ∧ h ≤ H)

/-- the `for _ in range(10)` loop: `props` are the front end's `(w, h)` proposals (one per attempt made);
    returns the accepted box (if any), the remaining proposals and the tape -/
def rrcLoop (W H : Int) : Nat → List (Int × Int) → Tape → Except Err (Option Box × List (Int × Int) × Tape)
  | 0, ps, t => .ok (none, ps, t)
  | _ + 1, [], _ => .error .frontEnd
  | n + 1, (w, h) :: ps, t =>
    match drawUnif t with
    | .error e => .error e
    | .ok (_, t1) => match drawUnif t1 with
      | .error e => .error e
      | .ok (_, t2) =>
        if rrcAccept W H w h then
          match drawInt 0 (H - h + 1) t2 with
          | .error e => .error e
          | .ok (i, t3) => match drawInt 0 (W - w + 1) t3 with
            | .error e => .error e
            | .ok (j, t4) => .ok (some ⟨i, j, h, w⟩, ps, t4)
        else rrcLoop W H n ps t2

/-- the three float values of the fallback branch, as exact rationals:
    `float(width) / float(height)`, `w / min(ratio)`, `h * max(ratio)` -/
structure RrcFront where
  inRatio : Rat
  qh : Rat
  qw : Rat

def rmin (a b : Rat) : Rat := if a ≤ b then a else b
def rmax (a b : Rat) : Rat := if a ≤ b then b else a

/-- "Fallback to central crop" -/
def rrcFallback (W H : Int) (r0 r1 : Rat) (fe : RrcFront) : Box :=
  let w : Int := if fe.inRatio < rmin r0 r1 then W else if rmax r0 r1 < fe.inRatio then roundHalfEven fe.qw else W
  let h : Int := if fe.inRatio < rmin r0 r1 then roundHalfEven fe.qh else if rmax r0 r1 < fe.inRatio then H else H
  ⟨(H - h) / 2, (W - w) / 2, h, w⟩

structure RrcOut where
  box : Box
  fallback : Bool
  deriving Repr

/-- `KDRandomResizedCrop.get_params` on an image of width `W`, height `H` -/
def rrc (W H : Int) (r0 r1 : Rat) (props : List (Int × Int)) (fe : RrcFront) (t : Tape) :
    Except Err (RrcOut × List (Int × Int) × Tape) :=
  match rrcLoop W H 10 props t with
  | .error e => .error e
  | .ok (some b, ps, t1) => .ok (⟨b, false⟩, ps, t1)
  | .ok (none, ps, t1) => .ok (⟨rrcFallback W H r0 r1 fe, true⟩, ps, t1)

/-! ### KDRandomApplyBase / KDRandomErasing -/

/-- `apply = self.rng.random() < self.p` -/
def applyDraw (p : Rat) (t : Tape) : Except Err (Bool × Tape) :=
  match drawRand t with
  | .error e => .error e
  | .ok (v, t1) => .ok (decide (v < p), t1)

/-- replacement mode: `zeros` draws nothing, `channelwise` / `pixelwise` draw one `standard_normal` -/
def drawReplacement (stochastic : Bool) (t : Tape) : Except Err Tape :=
  if stochastic then drawNormal t else .ok t

/-- "try 10 times → skip if not successful": proposals are the front end's `(h, w)` per attempt -/
def eraseRect (H W : Int) (stochastic : Bool) :
    Nat → List (Int × Int) → Tape → Except Err (Option Box × List (Int × Int) × Tape)
  | 0, ps, t => .ok (none, ps, t)
  | _ + 1, [], _ => .error .frontEnd
  | n + 1, (h, w) :: ps, t =>
    match drawUnif t with
    | .error e => .error e
    | .ok (_, t1) => match drawUnif t1 with
      | .error e => .error e
      | .ok (_, t2) =>
        if w < W ∧ h < H then
          match drawInt 0 (H - h + 1) t2 with
          | .error e => .error e
          | .ok (top, t3) => match drawInt 0 (W - w + 1) t3 with
            | .error e => .error e
            | .ok (left, t4) => match drawReplacement stochastic t4 with
              | .error e => .error e
              | .ok t5 => .ok (some ⟨top, left, h, w⟩, ps, t5)
        else eraseRect H W stochastic n ps t2

/-- `for _ in range(n_rects)` -/
def eraseRects (H W : Int) (stochastic : Bool) :
    Nat → List (Int × Int) → Tape → Except Err (List Box × List (Int × Int) × Tape)
  | 0, ps, t => .ok ([], ps, t)
  | n + 1, ps, t =>
    match eraseRect H W stochastic 10 ps t with
    | .error e => .error e
    | .ok (ob, ps1, t1) =>
      match eraseRects H W stochastic n ps1 t1 with
      | .error e => .error e
      | .ok (bs, ps2, t2) => .ok (ob.toList ++ bs, ps2, t2)

structure EraseCfg where
  p : Rat
  minCount : Int
  maxCount : Int
  stochastic : Bool

structure EraseOut where
  applied : Bool
  nRects : Int
  boxes : List Box       -- erased in this order
  deriving Repr

/-- `KDRandomApplyBase.__call__` + `KDRandomErasing.forward` on an image of height `H`, width `W` -/
def erasing (c : EraseCfg) (H W : Int) (props : List (Int × Int)) (t : Tape) :
    Except Err (EraseOut × List (Int × Int) × Tape) :=
  match applyDraw c.p t with
  | .error e => .error e
  | .ok (false, t1) => .ok (⟨false, 0, []⟩, props, t1)
  | .ok (true, t1) =>
    let cnt : Except Err (Int × Tape) :=
      if c.minCount = c.maxCount then .ok (c.minCount, t1) else drawInt c.minCount c.maxCount t1
    match cnt with
    | .error e => .error e
    | .ok (n, t2) =>
      if n = 0 then .error .zeroDiv else       -- `img_h * img_w / n_rects`
      match eraseRects H W c.stochastic n.toNat props t2 with
      | .error e => .error e
      | .ok (bs, ps, t3) => .ok (⟨true, n, bs⟩, ps, t3)

/-! ### KDSpecAugment -/

/-- the masked positions `mask >= mask_start & mask < mask_end` over `arange(size)` -/
def maskIdx (size : Nat) (start stop : Int) : List Nat :=
  (List.range size).filter (fun k => decide (start ≤ (k : Int) ∧ (k : Int) < stop))

structure SpecMask where
  start : Int
  stop : Int
  idx : List Nat
  deriving Repr

/-- `_mask_along_axis` for one axis of length `size`; `fe = (value.long(), min_value.long())` from the front end
    (float32 arithmetic on the two `random()` draws) -/
def specAxis (size : Nat) (maskParam : Int) (fe : Int × Int) (t : Tape) : Except Err (Option SpecMask × Tape) :=
  if maskParam < 1 then .ok (none, t) else
  match drawRand t with
  | .error e => .error e
  | .ok (_, t1) => match drawRand t1 with
    | .error e => .error e
    | .ok (_, t2) =>
      let v := fe.1
      let mv := fe.2
      if ¬ (mv + v - mv < maskParam) then .error .assertion
      else .ok (some ⟨mv, mv + v, maskIdx size mv (mv + v)⟩, t2)

/-- `__call__`: time masking (axis 1) then frequency masking (axis 2), each if configured -/
def specAugment (nT nF : Nat) (tm fm : Option Int) (feT feF : Int × Int) (t : Tape) :
    Except Err (Option SpecMask × Option SpecMask × Tape) :=
  let r1 : Except Err (Option SpecMask × Tape) := match tm with
    | none => .ok (none, t)
    | some p => specAxis nT p feT t
  match r1 with
  | .error e => .error e
  | .ok (m1, t1) =>
    let r2 : Except Err (Option SpecMask × Tape) := match fm with
      | none => .ok (none, t1)
      | some p => specAxis nF p feF t1
    match r2 with
    | .error e => .error e
    | .ok (m2, t2) => .ok (m1, m2, t2)

/-! ### semantic segmentation pairs -/

/-- `KDSemsegRandomCrop.get_params(height, width)` -/
def semsegCropParams (H W th tw : Int) (t : Tape) : Except Err (Box × Tape) :=
  match drawInt 0 (imax 0 (H - th) + 1) t with
  | .error e => .error e
  | .ok (top, t1) => match drawInt 0 (imax 0 (W - tw) + 1) t1 with
    | .error e => .error e
    | .ok (left, t2) => .ok (⟨top, left, imin H th, imin W tw⟩, t2)

/-- the `for _ in range(10)` loop under `max_category_ratio < 1`: `oks` = the front end's category test of the current
    crop of the mask (one per executed iteration) -/
def semsegRetry (H W th tw : Int) : Nat → List Bool → Box → Tape → Except Err (Box × List Bool × Tape)
  | 0, oks, b, t => .ok (b, oks, t)
  | _ + 1, [], _, _ => .error .frontEnd
  | n + 1, ok :: oks, b, t =>
    if ok then .ok (b, oks, t)
    else match semsegCropParams H W th tw t with
      | .error e => .error e
      | .ok (b1, t1) => semsegRetry H W th tw n oks b1 t1

/-- `KDSemsegRandomCrop.__call__`: the box applied to image *and* mask -/
def semsegCrop (H W th tw : Int) (retry : Bool) (oks : List Bool) (t : Tape) : Except Err (Box × List Bool × Tape) :=
  match semsegCropParams H W th tw t with
  | .error e => .error e
  | .ok (b, t1) => if retry then semsegRetry H W th tw 10 oks b t1 else .ok (b, oks, t1)

/-- `KDSemsegPad.__call__`: `(pad_left, pad_top, pad_right, pad_bot)` -/
def semsegPad (H W th tw : Int) : Pad :=
  let padH := imax 0 (th - H)
  let padW := imax 0 (tw - W)
  ⟨padW / 2, padH / 2, padW / 2 + (if padW % 2 = 1 then 1 else 0), padH / 2 + (if padH % 2 = 1 then 1 else 0)⟩

def qmax (a b : Rat) : Rat := if a ≤ b then b else a
def qmin (a b : Rat) : Rat := if a ≤ b then a else b

/-- `KDSemsegRandomResize`: new `(height, width)` from the drawn `ratio` (exact rational arithmetic; the code's float
    arithmetic agrees except within an ulp of a rounding tie) -/
def semsegResizeSize (h w bh bw : Int) (ratio : Rat) : Int × Int :=
  let sh : Rat := (bh : Rat) * ratio
  let sw : Rat := (bw : Rat) * ratio
  let long := qmax sh sw
  let short := qmin sh sw
  let scale := qmin (long / ((imax h w : Int) : Rat)) (short / ((imin h w : Int) : Rat))
  (roundHalfEven ((h : Rat) * scale), roundHalfEven ((w : Rat) * scale))

/-- `KDSemsegRandomResizeOld.get_params` -/
def semsegResizeOldSize (bh bw : Int) (ratio : Rat) : Int × Int :=
  (roundHalfEven ((bh : Rat) * ratio), roundHalfEven ((bw : Rat) * ratio))

/-- `KDSemsegOverlappedMultiCrop.__call__` (overlap 0.5): the crop boxes in stacking order; asserts as in the code -/
def multiCropGrid (H W ch cw : Int) : Except Err (List Box) :=
  if ch % 2 ≠ 0 ∨ cw % 2 ≠ 0 ∨ ch ≤ 0 ∨ cw ≤ 0 then .error .assertion       -- `(crop_size * 0.5).is_integer()`
  else if H % ch ≠ 0 ∨ W % cw ≠ 0 then .error .assertion
  else
    let oh := ch / 2
    let ow := cw / 2
    let rows := (1 + (H - ch) / oh).toNat
    let cols := (1 + (W - cw) / ow).toNat
    .ok ((List.range rows).flatMap (fun (i : Nat) => (List.range cols).map (fun (j : Nat) => (⟨(i : Int) * oh, (j : Int) * ow, ch, cw⟩ : Box))))

/-! ### grids: applying recorded parameters by hand -/

abbrev Grid (α : Type) := List (List α)

namespace Grid
variable {α : Type}

/-- `crop(img, top, left, height, width)` for a box inside the image -/
def crop (g : Grid α) (i j h w : Nat) : Grid α := ((g.drop i).take h).map (fun row => (row.drop j).take w)

/-- constant `pad` -/
def pad (g : Grid α) (l t r b : Nat) (fill : α) : Grid α :=
  let width := (g.head?.map List.length).getD 0 + l + r
  let rows := g.map (fun row => List.replicate l fill ++ row ++ List.replicate r fill)
  List.replicate t (List.replicate width fill) ++ rows ++ List.replicate b (List.replicate width fill)

def hflip (g : Grid α) : Grid α := g.map List.reverse

/-- `x[top:top+h, left:left+w] = v` -/
def paste (g : Grid α) (i j h w : Nat) (v : α) : Grid α :=
  g.mapIdx (fun r row => row.mapIdx (fun c a => if i ≤ r ∧ r < i + h ∧ j ≤ c ∧ c < j + w then v else a))

/-- well-shaped `H × W` grid -/
def Shaped (g : Grid α) (H W : Nat) : Prop := g.length = H ∧ ∀ row ∈ g, row.length = W

end Grid

/-- a geometric operation of the segmentation pipeline, with its parameters -/
inductive PairOp where
  | crop (i j h w : Nat)
  | pad (l t r b : Nat)
  | hflip
  | skip
  deriving Repr

/-- apply one operation to one member of the pair (`fill` = 0 for the image, -1 for the mask) -/
def applyOp {α : Type} (fill : α) (op : PairOp) (g : Grid α) : Grid α :=
  match op with
  | .crop i j h w => g.crop i j h w
  | .pad l t r b => g.pad l t r b fill
  | .hflip => g.hflip
  | .skip => g

/-- `x, semseg = op(x), op(semseg)` — one parameter tuple for both members -/
def applyPair {α : Type} (fillX fillS : α) (op : PairOp) (p : Grid α × Grid α) : Grid α × Grid α :=
  (applyOp fillX op p.1, applyOp fillS op p.2)

def runPair {α : Type} (fillX fillS : α) (ops : List PairOp) (p : Grid α × Grid α) : Grid α × Grid α :=
  ops.foldl (fun q op => applyPair fillX fillS op q) p

end KDVerif.Geometry
