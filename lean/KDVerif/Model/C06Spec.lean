/-
C06 spec additions (core Lean only): the loop variables with which `_training_loop` `return`s.

`trainLoop` (Model/Interleaved.lean) returns what the generator yields; `c06x_trainLoopSt` is the SAME recursion
(same `runEpoch`, same fuel, same `sampleInEpoch := 0` reset at the top of `while True`) but returns the state
`(epoch, update, sample, sample_in_epoch, sample_in_update, sample_at_last_update)` at the `return` statement.
`c06x_l1LoopSt` is the same for the per-update machine L1 of Model/InterleavedSpec.lean.
-/
import KDVerif.Model.InterleavedSpec

namespace KDVerif.Interleaved

/-- same geometry, same configs, budget replaced by `epochs = E` -/
def c06x_withEpochs (a : Args) (E : Nat) : Args := { a with budget := .epochs E }

/-- `_training_loop`: the loop variables at the `return` (`none` = fuel exhausted) -/
def c06x_trainLoopSt (a : Args) (main : Nat → List Nat) (side : Nat → Nat → List Nat) :
    Nat → St → Option St
  | 0, _ => none
  | fuel + 1, st =>
    let st0 : St := { st with sampleInEpoch := 0 }
    let r := runEpoch a side st0 (main st.epoch)
    if r.2.2 then some r.2.1
    else c06x_trainLoopSt a main side fuel r.2.1

/-- per-update machine: the update-boundary state after the update at which the budget is reached -/
def c06x_l1LoopSt (a : Args) (main : Nat → List Nat) : Nat → U → Option U
  | 0, _ => none
  | n + 1, u =>
    match l1Ctl a u with
    | .ret => some (l1Next a u)
    | .brk =>
      c06x_l1LoopSt a main n ⟨(l1Next a u).epoch, (l1Next a u).update, (l1Next a u).sample, 0,
          main (l1Next a u).epoch⟩
    | .cont => c06x_l1LoopSt a main n (l1Next a u)

end KDVerif.Interleaved
