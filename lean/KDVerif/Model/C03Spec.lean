/-
Specification-level additions for C03 (core Lean only, executable; nothing here is used by the JSON driver):

* the *exact* instances of the three float→int roundings which `Model/Selection.lean` keeps as parameters
  (`cutF`, `cutC`, `cutT`): a percentage is treated as an exact rational `p`, and
      `exactCutF p n = ⌊p·n⌋`   (`int(p * n)` for `p * n ≥ 0`; also the class-wise `int(p * counts[i])`)
      `exactCutC p n = ⌈p·n⌉`   (`np.ceil(p * n)`)
  NOTE the real code evaluates `p * n` in floating point (float64, for the class-wise wrapper float32) and
  rounds *that*; the exact instance describes the code only where the float product rounds to the same integer
  (the differential harness hands the model the integers the code actually computed).
* the request sequence the seeded wrappers send to the generator (how many permutations, of which sizes), and the
  contract "tape = f(seed)" under which a selection becomes a function of the seed.
-/
import KDVerif.Model.Selection

namespace KDVerif.Selection

/-- `⌊p·n⌋` as a natural number (`Rat.floor` is the core function Mathlib's `⌊·⌋` on `ℚ` is defined by) -/
def exactCutF (p : Rat) (n : Nat) : Nat := (p * (n : Rat)).floor.toNat

/-- `⌈p·n⌉` as a natural number -/
def exactCutC (p : Rat) (n : Nat) : Nat := (p * (n : Rat)).ceil.toNat

/-! ### what the seeded wrappers ask of the generator -/

/-- few-shot: one `rng.permutation(k)` per class `i < max+1`, `k` = number of samples of class `i` -/
def fewshotRequests (cls : List Int) : List Nat :=
  (List.range (fewshotNumClasses cls)).map (fun (i : Nat) => cls.count (i : Int))

/-- intra-class shuffle: one `rng.permutation(..)` per class `i < n_classes` over the samples of class `i` -/
def icsRequests (cls : List Int) (nc : Nat) : List Nat :=
  (List.range nc).map (fun (i : Nat) => cls.count (i : Int))

/-- **the contract "tape = f(seed)"**: `np.random.default_rng(seed)` is a deterministic generator, so the draws
    it makes are a function `draws seed sizes` of the seed and of the sequence of requested permutation sizes; each
    draw is a permutation of the positions. (The model never implements a generator: the theorems hold for *every*
    `SeedContract`, the real PCG64 stream being one of them.) -/
structure SeedContract where
  draws : Nat → List Nat → List (List Nat)
  length_draws : ∀ seed sizes, (draws seed sizes).length = sizes.length
  perm_draws : ∀ seed sizes i, i < sizes.length → ((draws seed sizes).getD i []).Perm (List.range (sizes.getD i 0))

/-- `ShuffleWrapper(ds, seed=seed)` under a contract: one draw over `n` positions -/
def shuffleSeeded (G : SeedContract) (n : Nat) (seed : Nat) : List Nat :=
  shuffle n ((G.draws seed [n]).getD 0 [])

/-- `FewshotWrapper(ds, num_shots=shots, seed=seed)` under a contract -/
def fewshotSeeded (G : SeedContract) (cls : List Int) (shots : Int) (seed : Nat) : Except Err (List Nat) :=
  fewshot cls shots (G.draws seed (fewshotRequests cls))

/-- `IntraClassShuffleWrapper(ds, seed=seed)` under a contract -/
def intraClassShuffleSeeded (G : SeedContract) (cls : List Int) (nc : Nat) (seed : Nat) : Except Err (List Nat) :=
  intraClassShuffle cls nc true (G.draws seed (icsRequests cls nc))

/-- a concrete (trivial) contract: every draw is the identity permutation — shows the contract is satisfiable -/
def identityContract : SeedContract where
  draws := fun _ sizes => sizes.map List.range
  length_draws := by intro _ sizes; simp
  perm_draws := by
    intro _ sizes i hi
    rw [List.getD_eq_getElem?_getD, List.getD_eq_getElem?_getD, List.getElem?_map, List.getElem?_eq_getElem hi]
    exact List.Perm.refl _

end KDVerif.Selection
