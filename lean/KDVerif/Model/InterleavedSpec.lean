/-
Specification layer for the interleaved sampler: a *per-update* machine (L1).

One step = one optimizer update: take the next chunk of `min B (spe - p)` indices of the epoch's list,
emit it with flags F…FT, bump the counters, emit the side passes that are due, test the budget.
This is what C04/C05 describe; `Lemmas/Interleaved.lean` proves that the per-sample machine that
mirrors the code (`trainLoop`) produces exactly this stream.
-/
import KDVerif.Model.Interleaved

namespace KDVerif.Interleaved

/-- a batch with flags `F … F T` -/
def chunkEvs : List Nat → List Ev
  | [] => []
  | [x] => [.idx true x]
  | x :: y :: r => .idx false x :: chunkEvs (y :: r)

/-- state at an update boundary -/
structure U where
  epoch : Nat
  update : Nat
  sample : Nat
  p : Nat          -- samples of the current epoch consumed so far
  xs : List Nat    -- rest of the current epoch's index list
deriving Repr

/-- the property's wording of "interval reached or crossed by this update": a plain disjunction -/
def dueSpec (c : Config) (epochEnd : Bool) (epoch update prevSample sample : Nat) : Prop :=
  (∃ n, c.everyNEpochs = some n ∧ epochEnd = true ∧ epoch % n = 0) ∨
  (∃ n, c.everyNUpdates = some n ∧ update % n = 0) ∨
  (∃ n, c.everyNSamples = some n ∧ prevSample / n < sample / n)

/-- size of the next batch: `B`, or what is left of the epoch -/
def l1R (a : Args) (u : U) : Nat := min a.B (spe a - u.p)

/-- counters and position after the next update -/
def l1Next (a : Args) (u : U) : U :=
  ⟨if u.p + l1R a u = spe a then u.epoch + 1 else u.epoch, u.update + 1, u.sample + l1R a u,
   u.p + l1R a u, u.xs.drop (l1R a u)⟩

/-- what the next update emits: the batch, then the side passes that are due -/
def l1Evs (a : Args) (side : Nat → Nat → List Nat) (u : U) : List Ev :=
  chunkEvs (u.xs.take (l1R a u)) ++
    sidePasses a side (decide (u.p + l1R a u = spe a)) (l1Next a u).epoch (l1Next a u).update
      (l1Next a u).sample u.sample

def l1Ctl (a : Args) (u : U) : Ctl :=
  if budgetReached a.budget (l1Next a u).epoch (l1Next a u).update (l1Next a u).sample then .ret
  else if u.p + l1R a u = spe a then .brk
  else .cont

/-- fuel counts updates -/
def l1Loop (a : Args) (main : Nat → List Nat) (side : Nat → Nat → List Nat) : Nat → U → Option (List Ev)
  | 0, _ => none
  | n + 1, u =>
    match l1Ctl a u with
    | .ret => some (l1Evs a side u)
    | .brk =>
      (l1Loop a main side n ⟨(l1Next a u).epoch, (l1Next a u).update, (l1Next a u).sample, 0,
          main (l1Next a u).epoch⟩).map
        (fun rest => l1Evs a side u ++ Ev.setEpoch (l1Next a u).epoch :: rest)
    | .cont => (l1Loop a main side n (l1Next a u)).map (fun rest => l1Evs a side u ++ rest)

def l1Start (main : Nat → List Nat) (s : Start) : U := ⟨s.epoch, s.update, s.sample, 0, main s.epoch⟩

def l1 (a : Args) (main : Nat → List Nat) (side : Nat → Nat → List Nat) (n : Nat) (s : Start) :
    Option (List Ev) :=
  (l1Loop a main side n (l1Start main s)).map (fun evs => Ev.setEpoch s.epoch :: evs)

/-- projection of the stream onto the main sampler (indices below the main data source's size) -/
def mainProj (mds : Nat) : List Ev → List Ev
  | [] => []
  | .setEpoch e :: r => .setEpoch e :: mainProj mds r
  | .idx f i :: r => if i < mds then .idx f i :: mainProj mds r else mainProj mds r

end KDVerif.Interleaved
