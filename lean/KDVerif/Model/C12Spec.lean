/-
Specification-level definitions for the properties C12 / C13 (rank-aware samplers): the epoch's draw as the
iterator sees it, and torch's contracts for the draws on the tape (`randperm`, `multinomial`), written
independently of the recursion of the model.  Nothing here is used by the executable model or the drivers.
Core Lean only.
-/
import KDVerif.Model.Samplers

namespace KDVerif.Samplers

/-! ### DistributedSampler -/

/-- the one draw of an epoch of the distributed sampler: torch's answer to `randperm(n)` (the first tape
    entry) when shuffling, `range(n)` otherwise -/
def distDraw (c : DistCfg) (tape : Tape) : List Nat :=
  if c.shuffle then tape.headD [] else List.range c.n

/-- the tape answers the request of the distributed sampler: when shuffling its first entry is a
    `randperm(n)` result, i.e. has `n` entries (torch's shape contract; nothing is drawn without shuffle) -/
def DistTapeOk (c : DistCfg) (tape : Tape) : Prop :=
  c.shuffle = true → ∃ perm rest, tape = perm :: rest ∧ perm.length = c.n

/-! ### torch's contracts for single draws -/

/-- shape and range contract of `torch.randperm(m)`: `m` entries, all below `m` -/
def RandpermShape (m : Nat) (p : List Nat) : Prop := p.length = m ∧ ∀ x, x ∈ p → x < m

/-- content contract of `torch.randperm(m)`: a permutation of `0 … m-1` -/
def RandpermOk (m : Nat) (p : List Nat) : Prop := p.Perm (List.range m)

/-- every answer on the tape is a permutation of `0 … len-1` (content contract of `torch.randperm` for a tape
    that only holds `randperm` answers) -/
def TapePermsOk (tape : List (List Nat)) : Prop := ∀ p, p ∈ tape → RandpermOk p.length p

/-- contract of `torch.multinomial(weights, k, replacement=False)` with `nWeights` weights:
    `k` entries, all of them positions of the weight vector, no position twice -/
structure MultinomialOk (nWeights k : Nat) (d : List Nat) : Prop where
  shape : d.length = k
  range : ∀ x, x ∈ d → x < nWeights
  distinct : d.Nodup

/-! ### WeightedSampler -/

/-- `effective_length` when its assert holds: `size`, defaulting to the dataset size -/
def wSize (c : WCfg) : Nat := c.size.getD c.n

/-! ### ClassBalancedSampler -/

/-- the `randperm` answers the class-balanced sampler consumes with `shuffle=True`, class by class:
    `blocks[i]` holds the `⌈samples_per_class / m_i⌉` permutations of the `m_i` samples of class `i` that the
    `while remaining_indices > 0` loop asks for (each of the shape torch guarantees) -/
def CBBlocksOk (spc : Nat) : List (List Nat) → List (List (List Nat)) → Prop
  | [], [] => True
  | pool :: pools, block :: blocks =>
    (block.length = ceilDiv spc pool.length ∧ ∀ p, p ∈ block → RandpermShape pool.length p) ∧
      CBBlocksOk spc pools blocks
  | _, _ => False

/-- the tape answers the requests of one epoch of the class-balanced sampler: nothing is needed without
    shuffle; with shuffle it starts with the per-class permutations (`CBBlocksOk`) followed by the final
    `randperm(num_classes * samples_per_class)` -/
def CBTapeOk (c : CBCfg) (tape : Tape) : Prop :=
  c.shuffle = true → ∃ blocks fp rest, tape = blocks.flatten ++ fp :: rest ∧
    CBBlocksOk (cbSpc c) (cbPools c) blocks ∧ RandpermShape (cbEffective c) fp

/-- the dataset keeps the promise of `getdim_class()`: every label is one of the class ids `0 … C-1` -/
def CBLabelsOk (c : CBCfg) : Prop := ∀ v, v ∈ c.classes → ∃ i, i < cbNumClasses c ∧ v = Int.ofNat i

/-! ### SemiSampler -/

/-- the sizes of the `randperm` calls of one run of the semi-supervised sampler's loop, in the order they are
    made: `k` indices still to yield, `i` the position in the epoch, `bL` / `bU` how many entries of the
    current labeled / unlabeled permutation are still unused (`mL`, `mU`: the pool sizes) -/
def semiSchedule (L U mL mU : Nat) : Nat → Nat → Nat → Nat → List Nat
  | 0, _, _, _ => []
  | k + 1, i, bL, bU =>
    if i % (L + U) < L then
      (if bL = 0 then mL :: semiSchedule L U mL mU k (i + 1) (mL - 1) bU
       else semiSchedule L U mL mU k (i + 1) (bL - 1) bU)
    else
      (if bU = 0 then mU :: semiSchedule L U mL mU k (i + 1) bL (mU - 1)
       else semiSchedule L U mL mU k (i + 1) bL (bU - 1))

/-- the tape answers the requests of one epoch of the semi-supervised sampler: the two seed scalars, then
    `randperm` results of the scheduled sizes (shape and range contract of torch) -/
def SemiTapeOk (c : SemiCfg) (tape : Tape) : Prop :=
  ∃ a b perms rest, tape = [a] :: [b] :: (perms ++ rest) ∧
    perms.map List.length =
      semiSchedule c.L c.U (semiLabeled c).length (semiUnlabeled c).length (semiLen c) 0 0 0 ∧
    ∀ p, p ∈ perms → ∀ x, x ∈ p → x < p.length

end KDVerif.Samplers
