/-
Model of the marker protocol of
  `kappadata/copying/folder.py        : copy_folder_from_global_to_local`
  `kappadata/copying/image_folder.py  : copy_imagefolder_from_global_to_local`   (same protocol, statement by statement)
plus `_check_src_path` and `copying_utils.folder_contains_mostly_zips` (format detection).

File-system abstraction (what the protocol can observe / what the property speaks about):
* `dst`  — the destination folder: absent, or present with: start marker?, end marker?, for every file `i < nFiles` of
           a complete copy whether it is absent / partially written / whole, and a list of foreign entries
           (entries a copy never produces, e.g. the content of a user-provided folder);
* `tmp`  — the staging folder `<dst>.autocopy_tmp`: absent, or present with / without a start marker.
Sub-directories inside `dst` are not part of the abstraction (their mkdir/rmdir are silent steps).

One invocation is a sequence of *mutating steps* (one system call that changes the tree: unlink one entry, mkdir, create a
marker, create a file (it exists but is partial), complete a file, rename) separated by control transitions that only read
(`tau`: the `exists()` tests, "listdir is exhausted", "every file is copied").  The process may die before every mutating step:
`exec` performs exactly one mutating step per element of its tape and stops (crash) when the tape is exhausted.
The order in which `os.listdir`/`shutil.rmtree`/`shutil.copytree`/`ZipFile.extractall`/joblib workers visit entries is an
oracle: the tape element says which entry is taken next (any order is allowed, an invalid choice falls back to the first
candidate).  The three source formats differ only in how the files `0..nFiles-1` are produced (tree copy / members of one
zip / members of several zips), which is below this abstraction; the detected format is reported in the result.
No imports: core Lean only.
-/
namespace KDVerif.CopyProtocol

inductive Fmt where
  | raw | zip | zips
deriving Repr, DecidableEq

/-- what the code can see of the source -/
structure Src where
  isDir : Bool        -- `src_path.exists() and src_path.is_dir()`
  zipSibling : Bool   -- `src_path.with_suffix(".zip").exists()`
  nItems : Nat        -- `len(os.listdir(src_path))`
  nZips : Nat         -- entries ending in ".zip"
  nFiles : Nat        -- number of files a complete copy holds (ids `0 .. nFiles-1`)
deriving Repr

/-- `folder_contains_mostly_zips`: `len(zips) > 0 and len(zips) >= len(items) // 2` -/
def mostlyZips (s : Src) : Bool := decide (0 < s.nZips) && decide (s.nItems / 2 ≤ s.nZips)

/-- `_check_src_path` -/
def checkSrc (s : Src) : Bool := s.isDir || s.zipSibling

/-- the `if src_path.is_dir(): (zips | raw) elif zip exists: zip else: raise NotImplementedError` cascade -/
def fmtOf (s : Src) : Option Fmt :=
  if s.isDir then (if mostlyZips s then some .zips else some .raw)
  else if s.zipSibling then some .zip else none

inductive FileSt where
  | absent | part | whole
deriving Repr, DecidableEq

structure Dir where
  start : Bool
  end_ : Bool
  files : Nat → FileSt
  foreign : List Nat

structure FS where
  dst : Option Dir
  tmp : Option Bool     -- staging folder: `some hasStartMarker`

/-- `CopyFolderResult` (`CopyImageFolderResult` carries the same information: `was_zip`/`was_zip_classwise` = format) -/
structure Result where
  wasCopied : Bool
  wasDeleted : Bool
  fmt : Option Fmt
deriving Repr, DecidableEq

def nothingDone : Result := ⟨false, false, none⟩

inductive Pc where
  | entry                     -- before the assert and the `exists()` cascade
  | wipe                      -- incomplete copy: `for item in os.listdir(dst): ... remove unless start marker`
  | stageClean                -- `if tmp_path.exists(): shutil.rmtree(tmp_path)`
  | stageMkdir                -- `tmp_path.mkdir(parents=True)`
  | stageStart                -- `open(tmp_path / "autocopy_start.txt", "w")`
  | stageRename               -- `os.rename(tmp_path, dst_path)`
  | copy (deleted : Bool)     -- copytree / extractall / unzip jobs
  | writeEnd (deleted : Bool) -- `open(end_copy_file, "w")`
  | ret (r : Result)          -- returned normally
  | failed                    -- AssertionError (invalid source)
deriving Repr, DecidableEq

structure Cfg where
  fs : FS
  pc : Pc

/-- which entry the next mutating step takes (scandir / worker order oracle) -/
inductive Choice where
  | file (i : Nat)
  | foreign (g : Nat)
  | endMarker
  | any
deriving Repr, DecidableEq

/-- the mutating operations -/
inductive Label where
  | rmFile (i : Nat) | rmForeign (g : Nat) | rmEnd
  | tmpRmStart | tmpRmdir | tmpMkdir | tmpStart | rename
  | create (i : Nat) | fill (i : Nat) | createEnd
deriving Repr, DecidableEq

def setFile (files : Nat → FileSt) (i : Nat) (x : FileSt) : Nat → FileSt :=
  fun j => if j = i then x else files j

/-- ids of the files present (absent ≠) among `0..n-1` -/
def present (n : Nat) (files : Nat → FileSt) : List Nat :=
  (List.range n).filter (fun i => files i != .absent)

/-- ids of the files not yet whole among `0..n-1` -/
def pending (n : Nat) (files : Nat → FileSt) : List Nat :=
  (List.range n).filter (fun i => files i != .whole)

/-- nothing but (possibly) the start marker is left in the folder -/
def wiped (n : Nat) (d : Dir) : Bool :=
  !d.end_ && (present n d.files).isEmpty && d.foreign.isEmpty

/-- one control transition (reads only) -/
def tau (src : Src) (c : Cfg) : Cfg :=
  match c.pc with
  | .entry =>
    if !checkSrc src then { c with pc := .failed }
    else match c.fs.dst with
      | some d =>
        if d.start then
          if d.end_ then { c with pc := .ret nothingDone }     -- already copied
          else { c with pc := .wipe }                          -- incomplete copy
        else { c with pc := .ret nothingDone }                 -- manually copied
      | none => { c with pc := .stageClean }
  | .wipe =>
    match c.fs.dst with
    | some d => if wiped src.nFiles d then { c with pc := .copy true } else c
    | none => c
  | .stageClean =>
    match c.fs.tmp with
    | none => { c with pc := .stageMkdir }
    | some _ => c
  | .copy del =>
    match c.fs.dst with
    | some d => if (pending src.nFiles d.files).isEmpty then { c with pc := .writeEnd del } else c
    | none => c
  | _ => c

/-- all control transitions up to the next mutating step (chains have length ≤ 3) -/
def settle (src : Src) (c : Cfg) : Cfg := tau src (tau src (tau src (tau src c)))

/-- the entry the wipe loop removes next -/
def wipeTarget (n : Nat) (d : Dir) (ch : Choice) : Option Label :=
  let dflt : Option Label :=
    if d.end_ then some .rmEnd
    else match present n d.files with
      | i :: _ => some (.rmFile i)
      | [] => match d.foreign with
        | g :: _ => some (.rmForeign g)
        | [] => none
  match ch with
  | .file i => if i < n ∧ d.files i ≠ .absent then some (.rmFile i) else dflt
  | .foreign g => if g ∈ d.foreign then some (.rmForeign g) else dflt
  | .endMarker => if d.end_ then some .rmEnd else dflt
  | .any => dflt

/-- the file the copy works on next -/
def copyTarget (n : Nat) (d : Dir) (ch : Choice) : Option Nat :=
  let dflt := (pending n d.files).head?
  match ch with
  | .file i => if i < n ∧ d.files i ≠ .whole then some i else dflt
  | _ => dflt

/-- one mutating step of a settled configuration (`none`: nothing left to do) -/
def mstep (src : Src) (ch : Choice) (c : Cfg) : Cfg × Option Label :=
  match c.pc with
  | .wipe =>
    match c.fs.dst with
    | some d =>
      match wipeTarget src.nFiles d ch with
      | some (.rmFile i) => ({ c with fs := { c.fs with dst := some { d with files := setFile d.files i .absent } } }, some (.rmFile i))
      | some (.rmForeign g) => ({ c with fs := { c.fs with dst := some { d with foreign := d.foreign.filter (· != g) } } }, some (.rmForeign g))
      | some .rmEnd => ({ c with fs := { c.fs with dst := some { d with end_ := false } } }, some .rmEnd)
      | _ => (c, none)
    | none => (c, none)
  | .stageClean =>
    match c.fs.tmp with
    | some true => ({ c with fs := { c.fs with tmp := some false } }, some .tmpRmStart)
    | some false => ({ c with fs := { c.fs with tmp := none } }, some .tmpRmdir)
    | none => (c, none)
  | .stageMkdir => ({ fs := { c.fs with tmp := some false }, pc := .stageStart }, some .tmpMkdir)
  | .stageStart => ({ fs := { c.fs with tmp := some true }, pc := .stageRename }, some .tmpStart)
  | .stageRename =>
    ({ fs := { dst := some ⟨c.fs.tmp.getD false, false, fun _ => .absent, []⟩, tmp := none }, pc := .copy false }, some .rename)
  | .copy _ =>
    match c.fs.dst with
    | some d =>
      match copyTarget src.nFiles d ch with
      | some i =>
        if d.files i = .absent then
          ({ c with fs := { c.fs with dst := some { d with files := setFile d.files i .part } } }, some (.create i))
        else
          ({ c with fs := { c.fs with dst := some { d with files := setFile d.files i .whole } } }, some (.fill i))
      | none => (c, none)
    | none => (c, none)
  | .writeEnd del =>
    match c.fs.dst with
    | some d => ({ fs := { c.fs with dst := some { d with end_ := true } }, pc := .ret ⟨true, del, fmtOf src⟩ }, some .createEnd)
    | none => (c, none)
  | _ => (c, none)

/-- run: one mutating step per tape element, die when the tape is exhausted
    (a configuration that has returned ignores the rest of the tape) -/
def exec (src : Src) : List Choice → Cfg → Cfg
  | [], c => settle src c
  | ch :: rest, c => exec src rest (mstep src ch (settle src c)).1

/-- the mutating operations `exec` performs -/
def trace (src : Src) : List Choice → Cfg → List Label
  | [], _ => []
  | ch :: rest, c =>
    let r := mstep src ch (settle src c)
    match r.2 with
    | some l => l :: trace src rest r.1
    | none => trace src rest r.1

/-- one invocation on the file system `fs` with the given tape -/
def attempt (src : Src) (tape : List Choice) (fs : FS) : Cfg := exec src tape ⟨fs, .entry⟩

/-- any number of successive invocations (each killed wherever its tape ends, or returning) -/
def history (src : Src) (tapes : List (List Choice)) (fs : FS) : FS :=
  tapes.foldl (fun fs t => (attempt src t fs).fs) fs

/-- executable form of the file-system invariant for a destination that stems from automatic copies
    (`Lemmas/CopyProtocol.lean: invAutoB_iff`): start marker present, nothing foreign, end marker ⇒ every file whole -/
def invAutoB (src : Src) (fs : FS) : Bool :=
  match fs.dst with
  | none => true
  | some d => d.start && d.foreign.isEmpty && (!d.end_ || (List.range src.nFiles).all (fun i => d.files i == .whole))

end KDVerif.CopyProtocol
