/-
C02 — additional SPEC-level definitions and small model additions (nothing here is used by the JSON drivers; the existing
model in Model/IndexMaps.lean is unchanged).

1. `specItem`: item `k` of a stack as the COMPOSITION OF THE LAYERS' INDEX MAPS, balanced concats included.  Every layer kind has
   a stand-alone index map written without the implementation's devices (no cumulative sizes, no bisect, no exception plumbing of
   `len`):  `baseMap`, `subsetMap`, `concatMap` (walk along the row of parts, subtracting sizes), `balancedMap` (round-robin:
   part `k mod P`, item `trunc(k / P) mod size(part)`).
2. `validB`: the stacks the real constructors accept (a balanced concat may sit on top, below wrappers, and below any subset —
   but never, directly or through non-remapping wrappers, as a *part* of another concat, because `ConcatDataset.__init__` takes
   `len` of every part and `KDConcatDataset.__len__` asserts `not balanced_sampling`).
3. minimal container model of `getall_as_list/numpy/tensor` (`Conv` → container tag, same element list).
4. introspection additions: `all_wrapper_types`, `getshape_x` / `getdim_x` resolution.
-/
import KDVerif.Model.IndexMaps

namespace KDVerif.IndexMaps

/-! ### sizes -/

/-- a stack *has a length*: everything except a balanced concat (seen through non-remapping wrappers) -/
def sized : DS → Bool
  | .base _ _ _ => true
  | .subset _ _ _ _ => true
  | .wrap _ _ d => sized d
  | .concat _ bal => !bal

mutual
/-- spec-level size of a sized stack (for a stack without length the value `0` is a placeholder that no theorem uses) -/
def size : DS → Nat
  | .base _ n _ => n
  | .subset _ _ _ idx => idx.length
  | .wrap _ _ d => size d
  | .concat ds bal => if bal then 0 else sumNat (sizes ds)
def sizes : List DS → List Nat
  | [] => []
  | d :: ds => size d :: sizes ds
end

def sizedAll : List DS → Bool
  | [] => true
  | d :: ds => sized d && sizedAll ds

mutual
/-- the stacks the real constructors accept: every concat has at least one part and each of its parts has a length.
    Nothing is required of subset indices: an index that the layer below rejects makes `getitem` raise, and `specItem` says so. -/
def validB : DS → Bool
  | .base _ _ _ => true
  | .subset _ _ d _ => validB d
  | .wrap _ _ d => validB d
  | .concat ds _ => !ds.isEmpty && sizedAll ds && validBAll ds
def validBAll : List DS → Bool
  | [] => true
  | d :: ds => validB d && validBAll ds
end

/-! ### the index map of each layer kind -/

/-- base dataset of `n` samples: `-n ≤ k < n`, negative counts from the end -/
def baseMap (n : Nat) (k : Int) : Except Err Nat :=
  if -(n : Int) ≤ k ∧ k < n then .ok (norm n k).toNat else .error .index

/-- subset layer: position `k` (negative counts from the end of `indices`) ↦ the stored index -/
def subsetMap (idx : List Int) (k : Int) : Except Err Int :=
  if -(idx.length : Int) ≤ k ∧ k < idx.length then .ok (idx.getD (norm idx.length k).toNat 0) else .error .index

/-- position `p` in a row of blocks of the given sizes: `(block, offset)`; empty blocks are stepped over -/
def rowPos : List Nat → Nat → Option (Nat × Nat)
  | [], _ => none
  | s :: ss, p => if p < s then some (0, p) else
      match rowPos ss (p - s) with
      | none => none
      | some (j, r) => some (j + 1, r)

/-- plain concat of parts with the given sizes: `k` (negative counts from the end of the whole) ↦ `(part, index in part)`;
    too negative: `ValueError`, too large: `IndexError` -/
def concatMap (szs : List Nat) (k : Int) : Except Err (Nat × Int) :=
  if k < -(sumNat szs : Int) then .error .value else
  match rowPos szs (norm (sumNat szs) k).toNat with
  | none => .error .index
  | some (j, r) => .ok (j, (r : Int))

/-- balanced concat of `P` parts with the given sizes: round-robin — part `k mod P` (Python `%`: never negative), item
    `trunc(k / P) mod size(part)`; an empty part makes Python raise `ZeroDivisionError` -/
def balancedMap (szs : List Nat) (k : Int) : Except Err (Nat × Int) :=
  match szs[(k % (szs.length : Int)).toNat]? with
  | none => .error .index
  | some L => if L = 0 then .error .zeroDiv else .ok ((k % (szs.length : Int)).toNat, (Int.tdiv k szs.length) % (L : Int))

mutual
/-- **SPEC: item `k` of a stack = the composition of the layers' index maps** -/
def specItem : DS → Int → Except Err Sample
  | .base id n _, k => match baseMap n k with
    | .error e => .error e
    | .ok i => .ok (id, i)
  | .subset _ _ d idx, k => match subsetMap idx k with
    | .error e => .error e
    | .ok i => specItem d i
  | .wrap _ _ d, k => specItem d k
  | .concat ds bal, k => match (if bal then balancedMap (sizes ds) k else concatMap (sizes ds) k) with
    | .error e => .error e
    | .ok (j, i) => specItemAt ds j i
/-- item `i` of part `j` -/
def specItemAt : List DS → Nat → Int → Except Err Sample
  | [], _, _ => .error .index
  | d :: _, 0, i => specItem d i
  | _ :: ds, j + 1, i => specItemAt ds j i
end

mutual
/-- well-formed for *successful* access: constructible, every subset index addresses an existing position of a sized layer
    below (any index is fine above a balanced concat, which has no end), every part of a balanced concat is non-empty -/
def wfB : DS → Bool
  | .base _ _ _ => true
  | .subset _ _ d idx => wfB d && (!sized d || idx.all (fun i => decide (-(size d : Int) ≤ i ∧ i < (size d : Int))))
  | .wrap _ _ d => wfB d
  | .concat ds bal => !ds.isEmpty && sizedAll ds && wfBAll ds && (!bal || (sizes ds).all (fun s => decide (0 < s)))
def wfBAll : List DS → Bool
  | [] => true
  | d :: ds => wfB d && wfBAll ds
end

/-! ### containers of `getall_as_*` -/

/-- `utils.getall`: the container that comes back — the bulk accessor's own container on the fast path, a Python list built by
    the comprehension on the slow path — and its elements -/
def getallUtilK (d : DS) : Except Err (Kind × List Sample) :=
  if hasGetall d then getall d
  else match perSample d with
    | .error e => .error e
    | .ok xs => .ok (.list, xs)

/-- errors of the converters: what `getall` raised, or the final `raise NotImplementedError` of `getall_as_list` -/
inductive CErr where
  | inner (e : Err)
  | notImplemented
deriving Repr, DecidableEq

/-- the branch structure of `getall_as_list` / `getall_as_numpy` / `getall_as_tensor` on a tagged container; every conversion
    (`tolist`, `torch.tensor`, `.numpy()`, `torch.from_numpy`) changes the tag and keeps the element list.
    `.absent` stands for "neither list nor tensor nor ndarray" (never produced, see `getallUtilK_kind`). -/
def convert : Conv → Kind × List Sample → Except CErr (Kind × List Sample)
  | .asList, (.list, xs) => .ok (.list, xs)          -- `return items`
  | .asList, (.tensor, xs) => .ok (.list, xs)        -- `items.tolist()`
  | .asList, (.ndarray, xs) => .ok (.list, xs)       -- `items.tolist()`
  | .asList, (.absent, _) => .error .notImplemented
  | .asNumpy, (.ndarray, xs) => .ok (.ndarray, xs)   -- `return items`
  | .asNumpy, (.tensor, xs) => .ok (.ndarray, xs)    -- `items.numpy()`
  | .asNumpy, (_, xs) => .ok (.ndarray, xs)          -- `torch.tensor(items).numpy()`
  | .asTensor, (.ndarray, xs) => .ok (.tensor, xs)   -- `torch.from_numpy(items)`
  | .asTensor, (.tensor, xs) => .ok (.tensor, xs)    -- `return items`
  | .asTensor, (_, xs) => .ok (.tensor, xs)          -- `torch.tensor(items)`

/-- the container kind a converter promises -/
def Conv.target : Conv → Kind
  | .asList => .list
  | .asNumpy => .ndarray
  | .asTensor => .tensor

/-- `getall_as_list/numpy/tensor(dataset, item)` with containers -/
def getallAsK (c : Conv) (d : DS) : Except CErr (Kind × List Sample) :=
  match getallUtilK d with
  | .error e => .error (.inner e)
  | .ok r => convert c r

/-! ### introspection additions -/

mutual
/-- `all_wrapper_types` (class of every wrapper layer, outermost first); concat delegates to `datasets[0]` -/
def allWrapperTypes : DS → List Nat
  | .base _ _ _ => []
  | .subset _ ty d _ => ty :: allWrapperTypes d
  | .wrap _ ty d => ty :: allWrapperTypes d
  | .concat ds _ => allWrapperTypesHead ds
def allWrapperTypesHead : List DS → List Nat
  | [] => []
  | d :: _ => allWrapperTypes d
end

mutual
/-- `stack.getdim_x()` where `getshape_x` is the attribute `name` of the convention of `lookup` (a layer of class `name` overrides
    it, the base defines it iff `name = 0`), and the value stands for the one-element shape tuple.
    `KDDataset.__getattr__` / `KDWrapper.__getattr__` intercept `getdim_…` and evaluate `self.getshape_x()` *from that layer*
    (`assert hasattr(self, "getshape_x")` → `AssertionError`); `KDSubset.__getattr__` and `KDConcatDataset.__getattr__` have no
    such alias and pass the name `getdim_x` on to `dataset` / `datasets[0]`. -/
def getdim (name : Nat) : DS → Except Err Nat
  | .base id n k => match lookup name (.base id n k) with
    | some v => .ok v
    | none => .error .assertion
  | .subset _ _ d _ => getdim name d
  | .wrap u t d => match lookup name (.wrap u t d) with
    | some v => .ok v
    | none => .error .assertion
  | .concat ds _ => getdimHead name ds
def getdimHead (name : Nat) : List DS → Except Err Nat
  | [] => .error .index
  | d :: _ => getdim name d
end

end KDVerif.IndexMaps
