/-
Seed flow through the dataset layer (C08: seeded sample wrappers; C09: worker initialisation).
Builds on `Model/RngFlow.lean` (transform trees, `setRng`, `draws`).

`SeedRow` / `LayerRow` are regenerated from /repo by harness/kdv/translate_wrappers.py.
Generator identity is a number: a generator built as `default_rng(seed + idx)` is `seed + idx`;
the `k`-th generator a worker derives from its global NumPy state is `base + k`.
Core Lean only.
-/
import KDVerif.Model.RngFlow

namespace KDVerif.SeedFlow
open KDVerif.RngFlow

/-! ### C08 -/

structure SeedRow where
  name : String
  seedPlusIdx : Bool          -- generator created inside the per-sample method as default_rng(self.seed + idx)
  applied : List String       -- slots whose members the per-sample method calls
  seeded : List String        -- slots whose members receive set_rng(that generator) under a guard every KDTransform passes
deriving Repr, DecidableEq

def seedRowOk (r : SeedRow) : Bool := r.seedPlusIdx && r.applied.all (fun s => r.seeded.contains s)

/-- the transforms a wrapper holds all conform to the transform table -/
def allConform (tb : Table) : Kids → Bool
  | .nil => true
  | .cons _ t rest => conforms tb t && allConform tb rest

/-- one seeded per-sample request: the fresh generator `seed + idx` is injected into the seeded slots -/
def seededGetitem (tb : Table) (r : SeedRow) (seed idx : Nat) (kids : Kids) : Kids :=
  setRngKids tb (seed + idx) r.seeded kids

/-- cells the request can draw from: every cell of the members of the applied slots -/
def appliedDraws (tb : Table) (applied : List String) : Kids → List Nat
  | .nil => []
  | .cons s t rest => (if applied.contains s then draws tb t else []) ++ appliedDraws tb applied rest

/-! ### C09 -/

inductive LayerKind where
  | root | wrapper | multi
deriving Repr, DecidableEq

structure LayerRow where
  name : String
  kind : LayerKind
  slots : List String          -- transform-holding attributes
  initSlots : List String      -- slots whose members receive worker_init_fn from the resolved hook
  forwardsInner : Bool         -- resolved worker_init_fn forwards to the inner dataset / to every part
  reseedsCollators : Bool      -- (root) collators get set_rng(get_rng_from_global())
deriving Repr, DecidableEq

def layerOk (r : LayerRow) : Bool :=
  r.slots.all (fun s => r.initSlots.contains s) &&
  (match r.kind with
   | .root => r.reseedsCollators
   | .wrapper => r.forwardsInner
   | .multi => r.forwardsInner)

def layersOk (lt : List LayerRow) : Bool := lt.all layerOk

def lookupLayer (lt : List LayerRow) (cls : String) : Option LayerRow := lt.find? (fun r => r.name == cls)

mutual
  /-- a dataset stack: every layer carries the transforms it holds; the root also its registered collators -/
  inductive DS where
    | root (cls : String) (kids : Kids) (collators : Kids)
    | wrap (cls : String) (kids : Kids) (inner : DS)
    | multi (cls : String) (parts : DSList)
  inductive DSList where
    | nil
    | cons (d : DS) (rest : DSList)
end

/-- `transform.worker_init_fn(rank)` on the members of the initialised slots: each member gets its own freshly
    derived generator `base + k` (KDTransform.worker_init_fn = set_rng(get_rng_from_global()) …) -/
def initKids (tb : Table) (base : Nat) (fw : List String) : Nat → Kids → Kids × Nat
  | k, .nil => (.nil, k)
  | k, .cons s t rest =>
    if fw.contains s then
      let r := initKids tb base fw (k + 1) rest
      (.cons s (setRng tb (base + k) t) r.1, r.2)
    else
      let r := initKids tb base fw k rest
      (.cons s t r.1, r.2)

/-- root: all registered collators share one freshly derived generator -/
def initCollators (tb : Table) (g : Nat) : Kids → Kids
  | .nil => .nil
  | .cons s t rest => .cons s (setRng tb g t) (initCollators tb g rest)

mutual
  /-- the `worker_init_fn` chain; `k` counts the generators derived so far in this worker -/
  def workerInit (tb : Table) (lt : List LayerRow) (base : Nat) : Nat → DS → DS × Nat
    | k, .root cls kids cols =>
      match lookupLayer lt cls with
      | none => (.root cls kids cols, k)
      | some r =>
        let cols' := if r.reseedsCollators then initCollators tb (base + k) cols else cols
        let k1 := if r.reseedsCollators then k + 1 else k
        let rk := initKids tb base r.initSlots k1 kids
        (.root cls rk.1 cols', rk.2)
    | k, .wrap cls kids inner =>
      match lookupLayer lt cls with
      | none => (.wrap cls kids inner, k)
      | some r =>
        let rk := initKids tb base r.initSlots k kids
        if r.forwardsInner then
          let ri := workerInit tb lt base rk.2 inner
          (.wrap cls rk.1 ri.1, ri.2)
        else (.wrap cls rk.1 inner, rk.2)
    | k, .multi cls parts =>
      match lookupLayer lt cls with
      | none => (.multi cls parts, k)
      | some r =>
        if r.forwardsInner then
          let rp := workerInitList tb lt base k parts
          (.multi cls rp.1, rp.2)
        else (.multi cls parts, k)
  def workerInitList (tb : Table) (lt : List LayerRow) (base : Nat) : Nat → DSList → DSList × Nat
    | k, .nil => (.nil, k)
    | k, .cons d rest =>
      let rd := workerInit tb lt base k d
      let rr := workerInitList tb lt base rd.2 rest
      (.cons rd.1 rr.1, rr.2)
end

mutual
  /-- every generator cell reachable from the stack -/
  def stackCells (tb : Table) : DS → List Nat
    | .root _ kids cols => drawsKids tb kids ++ drawsKids tb cols
    | .wrap _ kids inner => drawsKids tb kids ++ stackCells tb inner
    | .multi _ parts => stackCellsList tb parts
  def stackCellsList (tb : Table) : DSList → List Nat
    | .nil => []
    | .cons d rest => stackCells tb d ++ stackCellsList tb rest
end

/-- kids only in declared slots -/
def kidsInSlots (slots : List String) : Kids → Bool
  | .nil => true
  | .cons s _ rest => slots.contains s && kidsInSlots slots rest

mutual
  /-- the stack is built from the layer table: known classes of the right kind, transforms only in declared
      slots, every transform / collator conforming to the transform table -/
  def conformsDS (tb : Table) (lt : List LayerRow) : DS → Bool
    | .root cls kids cols =>
      (match lookupLayer lt cls with
       | some r => r.kind == .root && kidsInSlots r.slots kids
       | none => false) && allConform tb kids && allConform tb cols
    | .wrap cls kids inner =>
      (match lookupLayer lt cls with
       | some r => r.kind == .wrapper && kidsInSlots r.slots kids
       | none => false) && allConform tb kids && conformsDS tb lt inner
    | .multi cls parts =>
      (match lookupLayer lt cls with
       | some r => r.kind == .multi
       | none => false) && conformsDSList tb lt parts
  def conformsDSList (tb : Table) (lt : List LayerRow) : DSList → Bool
    | .nil => true
    | .cons d rest => conformsDS tb lt d && conformsDSList tb lt rest
end

end KDVerif.SeedFlow
