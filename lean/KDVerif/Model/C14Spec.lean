/-
C14 — specification vocabulary for "the recorded parameters reproduce the output when applied to the input by hand".

Nothing here is used by the drivers; these are the *by-hand* operations and the *cell-wise specs* the property theorems
of `Props/C14.lean` are stated in (core Lean only, executable).

  * `Grid.cell g r c`            the cell in row `r`, column `c` (`none` outside the grid)
  * `applyPads fill ps g`        the recorded `pad` calls of `KDRandomCrop._pad_image` applied in order (constant mode)
  * `Grid.cropBox g b`           torchvision `crop(img, b.i, b.j, b.h, b.w)` with a recorded box
  * `Grid.pasteBox g b v`        `x[b.i : b.i + b.h, b.j : b.j + b.w] = v` with a recorded box
  * `Box.contains b r c`         the pixel `(r, c)` lies in the box (integer coordinates, as recorded)
  * `paddedCell …`               closed form of a constant-padded image, written without reference to `Grid.pad`
  * `eraseSpecCell …`            closed form of an erased image: the last recorded box containing the pixel wins
  * `resizeWith k th tw g`       any resize: one value per output position, computed by the kernel `k` from the input
  * `shufflePos`                 position map of `x[:, perm]` (`PatchwiseShuffle`) on the flat patch layout
  * `truncZero`, `specFront`     `Tensor.long()` and the exact-arithmetic front end of `KDSpecAugment._mask_along_axis`
-/
import KDVerif.Model.Geometry
import KDVerif.Model.Rearrange

namespace KDVerif.Geometry

namespace Grid
variable {α : Type}

/-- cell `(r, c)`; `none` outside the grid -/
def cell (g : Grid α) (r c : Nat) : Option α :=
  match g[r]? with
  | some row => row[c]?
  | none => none

/-- `crop(img, top, left, height, width)` with the recorded box -/
def cropBox (g : Grid α) (b : Box) : Grid α := g.crop b.i.toNat b.j.toNat b.h.toNat b.w.toNat

/-- `x[top : top + h, left : left + w] = v` with the recorded box -/
def pasteBox (g : Grid α) (b : Box) (v : α) : Grid α := g.paste b.i.toNat b.j.toNat b.h.toNat b.w.toNat v

/-- one constant `pad` call with recorded amounts -/
def padWith (g : Grid α) (p : Pad) (fill : α) : Grid α := g.pad p.l.toNat p.t.toNat p.r.toNat p.b.toNat fill

end Grid

/-- the recorded `pad` calls, applied in order (constant mode, one fill value) -/
def applyPads {α : Type} (fill : α) (ps : List Pad) (g : Grid α) : Grid α :=
  ps.foldl (fun g p => g.padWith p fill) g

/-- every amount of every pad call is non-negative -/
def padsNonneg (ps : List Pad) : Prop := ∀ p ∈ ps, 0 ≤ p.l ∧ 0 ≤ p.t ∧ 0 ≤ p.r ∧ 0 ≤ p.b

/-- rows added above the input by all pad calls together -/
def padTop (ps : List Pad) : Nat := (ps.map (fun p => p.t.toNat)).sum
/-- columns added left of the input by all pad calls together -/
def padLeft (ps : List Pad) : Nat := (ps.map (fun p => p.l.toNat)).sum

/-- **closed form of constant padding** (written without `Grid.pad`): cell `(x, y)` of the `HH × WW` image obtained from
    the `h × w` image `g` by adding `T` rows on top and `L` columns on the left (and the rest below / right) -/
def paddedCell {α : Type} (fill : α) (g : Grid α) (h w T L HH WW : Nat) (x y : Nat) : Option α :=
  if x < HH ∧ y < WW then
    (if T ≤ x ∧ x < T + h ∧ L ≤ y ∧ y < L + w then g.cell (x - T) (y - L) else some fill)
  else none

/-- **by-hand spec of "pad, then crop the recorded box"** (constant mode): output cell `(r, k)` is the cell of the padded
    image at `(b.i + r, b.j + k)`, i.e. the input cell `(b.i + r - T, b.j + k - L)` when that position falls on the input
    (`T` / `L` rows / columns were added above / left of it) and the fill value otherwise -/
def padCropCell {α : Type} (fill : α) (g : Grid α) (h w : Nat) (ps : List Pad) (b : Box) (r k : Nat) : Option α :=
  let x := b.i.toNat + r
  let y := b.j.toNat + k
  if padTop ps ≤ x ∧ x < padTop ps + h ∧ padLeft ps ≤ y ∧ y < padLeft ps + w
  then g.cell (x - padTop ps) (y - padLeft ps) else some fill

/-- pixel `(r, c)` lies in the box -/
def Box.contains (b : Box) (r c : Nat) : Prop :=
  b.i ≤ (r : Int) ∧ (r : Int) < b.i + b.h ∧ b.j ≤ (c : Int) ∧ (c : Int) < b.j + b.w

instance (b : Box) (r c : Nat) : Decidable (b.contains r c) := by unfold Box.contains; infer_instance

/-- erase the boxes in order, box `k` with its own replacement value -/
def erasePaste {α : Type} (g : Grid α) (bvs : List (Box × α)) : Grid α :=
  bvs.foldl (fun g bv => g.pasteBox bv.1 bv.2) g

/-- **closed form of an erased image** (written without `Grid.paste`): the *last* recorded box that contains the pixel
    decides its value; a pixel in no box keeps the input's value -/
def eraseSpecCell {α : Type} (g : Grid α) (bvs : List (Box × α)) (r c : Nat) : Option α :=
  match bvs.reverse.find? (fun bv => decide (bv.1.contains r c)) with
  | some bv => some bv.2
  | none => g.cell r c

/-- any resize to `th × tw`: the value at output position `(r, c)` is whatever the interpolation kernel `k` computes from
    the input grid (nearest, bilinear, bicubic, … are all of this form) -/
def resizeWith {α β : Type} (k : Grid α → Nat → Nat → β) (th tw : Nat) (g : Grid α) : Grid β :=
  (List.range th).map (fun r => (List.range tw).map (fun c => k g r c))

/-- `Tensor.long()`: truncation towards zero -/
def truncZero (q : Rat) : Int := if 0 ≤ q then q.floor else -((-q).floor)

/-- the front end of `_mask_along_axis` in exact arithmetic: `value = r1 * mask_param`,
    `min_value = r2 * (size - value)`; returns `(value.long(), min_value.long())` -/
def specFront (size : Nat) (P : Int) (r1 r2 : Rat) : Int × Int :=
  (truncZero (r1 * (P : Rat)), truncZero (r2 * ((size : Rat) - r1 * (P : Rat))))

/-- what `_mask_along_axis` guarantees about one axis of length `size` masked with parameter `P` from the front-end
    integers `fe = (value.long(), min_value.long())` -/
structure SpecAxisOk (size : Nat) (P : Int) (fe : Int × Int) (m : SpecMask) : Prop where
  start_eq : m.start = fe.2
  len_eq : m.stop - m.start = fe.1
  /-- the length of the masked interval is below the parameter (the code's `assert`) -/
  len_lt : m.stop - m.start < P
  /-- the masked positions are exactly the positions of the axis inside the interval — all of them inside the input -/
  mem_iff : ∀ k, k ∈ m.idx ↔ k < size ∧ m.start ≤ (k : Int) ∧ (k : Int) < m.stop
  count_lt : (m.idx.length : Int) < P
  count_le : (m.idx.length : Int) ≤ imax 0 (m.stop - m.start)
  /-- when the front end's integers describe an interval of the axis, the interval itself lies inside the input and is
      masked completely -/
  inside : 0 ≤ fe.2 → 0 ≤ fe.1 → fe.2 + fe.1 ≤ size →
    0 ≤ m.start ∧ m.start ≤ m.stop ∧ m.stop ≤ size ∧ (m.idx.length : Int) = m.stop - m.start


end KDVerif.Geometry

namespace KDVerif.Rearrange

/-- position map of `x[:, perm]` on the flat layout `c l e` (`l < L` patches of `P` elements each): the element of
    patch `l` lands in patch `perm.idxOf l` (`x'[c, l'] = x[c, perm[l']]`), channel and offset inside the patch stay -/
def shufflePos (perm : List Nat) (L P q : Nat) : Nat :=
  (q / (L * P)) * (L * P) + perm.idxOf ((q / P) % L) * P + q % P

end KDVerif.Rearrange
