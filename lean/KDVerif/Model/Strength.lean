/-
Strength scaling (C15): `_scale_strength` of every transform that supports it, over exact rationals, and the
per-worker batch-index arithmetic of `KDScheduledTransform`.

Each `scale…` mirrors the Python method: it reads only the `og_*` fields (and never-written fields) and writes
the current fields. Mirrors: KDColorJitter, KDGaussianBlurPIL/TV, KDSolarize (int and float branch),
KDRandomGrayscale, KDRandomRotation (incl. its assertion), MagnitudeSampler (KDRandAugment, KDThreshold,
KDAdditive*Noise delegate to it), KDComposeTransform (= map over children), delegating KDRandom* wrappers.
Core Lean only (`Rat` is core).
-/
namespace KDVerif.Strength

def rmax (a b : Rat) : Rat := if a ≤ b then b else a
def rmin (a b : Rat) : Rat := if a ≤ b then a else b

/-! ### KDColorJitter -/

/-- one brightness/contrast/saturation range (centered at 1, lower bound ≥ 0) -/
structure Range where
  ogLb : Rat
  ogUb : Rat
  lb : Rat
  ub : Rat
deriving Repr, DecidableEq

def Range.mk0 (lb ub : Rat) : Range := ⟨lb, ub, lb, ub⟩

/-- `lb = max(0, 1 - (1 - og_lb) * f)`, `ub = 1 + (og_ub - 1) * f` -/
def scaleCentered (r : Range) (f : Rat) : Range :=
  { r with lb := rmax 0 (1 - (1 - r.ogLb) * f), ub := 1 + (r.ogUb - 1) * f }

/-- hue: `lb = max(-0.5, og_lb * f)`, `ub = min(0.5, og_ub * f)` -/
def scaleHue (r : Range) (f : Rat) : Range :=
  { r with lb := rmax (-1/2) (r.ogLb * f), ub := rmin (1/2) (r.ogUb * f) }

structure ColorJitter where
  brightness : Option Range
  contrast : Option Range
  saturation : Option Range
  hue : Option Range
deriving Repr, DecidableEq

def scaleColorJitter (c : ColorJitter) (f : Rat) : ColorJitter :=
  ⟨c.brightness.map (scaleCentered · f), c.contrast.map (scaleCentered · f),
   c.saturation.map (scaleCentered · f), c.hue.map (scaleHue · f)⟩

/-! ### KDGaussianBlurPIL / KDGaussianBlurTV -/

structure Blur where
  sigmaLb : Rat
  ogSigmaUb : Rat
  sigmaUb : Rat
deriving Repr, DecidableEq

/-- `sigma_ub = sigma_lb + (og_sigma_ub - sigma_lb) * f` -/
def scaleBlur (b : Blur) (f : Rat) : Blur := { b with sigmaUb := b.sigmaLb + (b.ogSigmaUb - b.sigmaLb) * f }

/-! ### KDSolarize -/

/-- float branch: `threshold = 1 - (1 - og) * f` -/
def scaleSolarizeFloat (og f : Rat) : Rat := 1 - (1 - og) * f

/-- python `int(q)`: truncation toward zero -/
def truncRat (q : Rat) : Int := if q ≥ 0 then q.floor else -((-q).floor)

/-- int branch: `threshold = int(256 - (256 - og) * f)` -/
def scaleSolarizeInt (og : Int) (f : Rat) : Int := truncRat (256 - (256 - (og : Rat)) * f)

/-! ### KDRandomGrayscale -/

def scaleGrayscale (ogP f : Rat) : Rat := ogP * f

/-! ### KDRandomRotation -/

structure Rotation where
  ogLb : Rat
  ogUb : Rat
  lb : Rat
  ub : Rat
deriving Repr, DecidableEq

/-- `assert og_lb == -og_ub; lb = og_lb * f; ub = og_ub * f` -/
def scaleRotation (r : Rotation) (f : Rat) : Option Rotation :=
  if r.ogLb = -r.ogUb then some { r with lb := r.ogLb * f, ub := r.ogUb * f } else none

/-! ### MagnitudeSampler -/

structure Magnitude where
  ogMag : Rat
  ogStd : Rat
  ogMin : Rat
  ogMax : Rat
  mag : Rat
  std : Rat
  min : Rat
  max : Rat
deriving Repr, DecidableEq

def scaleMagnitude (m : Magnitude) (f : Rat) : Magnitude :=
  { m with mag := m.ogMag * f, std := m.ogStd * f, min := m.ogMin * f, max := m.ogMax * f }

/-! ### compositions -/

/-- a transform tree as far as strength is concerned -/
inductive T where
  | jitter (c : ColorJitter)
  | blur (b : Blur)
  | solarizeF (og cur : Rat)
  | solarizeI (og cur : Int)
  | grayscale (ogP p : Rat)
  | rotation (r : Rotation)
  | magnitude (m : Magnitude)
  | other                      -- transform without strength (scale_strength is a no-op)
  | wrap (inner : T)           -- KDRandomColorJitter, KDRandomGaussianBlur*, KDRandomSolarize, KDRandomThreshold … delegate
  | compose (ts : List T)      -- KDComposeTransform
deriving Repr

/-- `scale_strength(f)` (`none` = the rotation assertion fired somewhere in the tree) -/
def scale (f : Rat) : T → Option T
  | .jitter c => some (.jitter (scaleColorJitter c f))
  | .blur b => some (.blur (scaleBlur b f))
  | .solarizeF og _ => some (.solarizeF og (scaleSolarizeFloat og f))
  | .solarizeI og _ => some (.solarizeI og (scaleSolarizeInt og f))
  | .grayscale ogP _ => some (.grayscale ogP (scaleGrayscale ogP f))
  | .rotation r => (scaleRotation r f).map .rotation
  | .magnitude m => some (.magnitude (scaleMagnitude m f))
  | .other => some .other
  | .wrap t => (scale f t).map .wrap
  | .compose ts => (scaleList f ts).map .compose
where
  scaleList (f : Rat) : List T → Option (List T)
    | [] => some []
    | t :: ts =>
      match scale f t, scaleList f ts with
      | some t', some ts' => some (t' :: ts')
      | _, _ => none

/-! ### KDScheduledTransform: batch index from the per-worker sample counter -/

/-- `batch_idx = sample_counter // batch_size * num_workers + rank` -/
def batchIdx (counter batchSize numWorkers rank : Nat) : Nat := counter / batchSize * numWorkers + rank

/-- the dataloader hands global batch `b` to worker `b % W`, as that worker's `(b / W)`-th batch; sample `s` of the
    batch is therefore the worker's local sample number `(b / W) * B + s` -/
def localCounter (b s batchSize numWorkers : Nat) : Nat := b / numWorkers * batchSize + s

/-! ### KDScheduledTransform._worker_init_fn: total number of batches of the run (the schedule's length) -/

inductive RunLen where
  | epochs (e datasetLen worldSize : Nat) (dropLast : Bool)
  | updates (u : Nat)
  | samples (s : Nat)
deriving Repr, DecidableEq

/-- `n_batches` as computed in `_worker_init_fn` -/
def nBatches (B : Nat) : RunLen → Nat
  | .epochs e n W dl =>
    let n' := n / W
    e * (if dl then n' / B else (n' + B - 1) / B)
  | .updates u => u
  | .samples s => if s % B = 0 then s / B else s / B + 1

end KDVerif.Strength
