/-
Specification-level view of the source of `copy_folder_from_global_to_local` (C20): the three source layouts as abstract
file sets, written independently of the protocol machine in `Model/CopyProtocol.lean`.

What the protocol machine distinguishes / does not distinguish:
* source format (plain folder / single zip / folder of zips): only through `fmtOf` (the `source_format` of the result)
  and through `nFiles`; *how* the files `0..nFiles-1` come into being (copytree / extractall / one extractall per
  archive) is below the machine's abstraction — each file is created (partial) and later completed, in any order.
  `SrcTree.members` below says which files these are for each layout; `SrcTree.toSrc` is the observation the machine sees.
* `relative_path`: not represented.  In the code it is joined to *both* `global_path` and `local_path` before anything
  else happens (`src_path`, `dst_path`; the image-folder twin first strips a trailing ".zip" from it); every later statement only uses
  `src_path` / `dst_path`.  The machine is a model
  of the code from that point on, so it covers both cases by construction.
* `num_workers`: not represented as a number.  Workers only change the order / interleaving in which files are created
  and completed; the machine quantifies over every such order through the `Choice` oracle on the tape (several files may
  be partial at the same time), so 0, 1 or many workers are all covered by "for all tapes".
Core Lean only.
-/
import KDVerif.Model.CopyProtocol

namespace KDVerif.CopyProtocol

/-- abstract content of the source; a file is named by its path relative to the destination folder -/
inductive SrcTree where
  /-- plain folder: `nItems` top-level entries of which `nZips` end in ".zip"; `files`: all files below it (relative paths).
      `zipSibling`: whether `<src>.zip` exists as well (the folder takes precedence) -/
  | raw (zipSibling : Bool) (nItems nZips : Nat) (files : List String)
  /-- `<src>` is no folder but `<src>.zip` exists; `members`: the member names of the archive -/
  | zip (members : List String)
  /-- folder of zips: per archive the list of its members as paths relative to the destination
      (`folder.py` extracts every archive directly into the destination, the image-folder twin into `<dst>/<archive stem>/`),
      plus `others` non-zip entries (README …, which are *not* copied) -/
  | zips (zipSibling : Bool) (archives : List (List String)) (others : Nat)

/-- the files a complete copy has to hold: the tree itself / the members of the archive / the members of every archive -/
def SrcTree.members : SrcTree → List String
  | .raw _ _ _ files => files
  | .zip ms => ms
  | .zips _ archives _ => archives.flatten

/-- the format the layout is meant to be -/
def SrcTree.format : SrcTree → Fmt
  | .raw .. => .raw
  | .zip .. => .zip
  | .zips .. => .zips

/-- what the code observes of the source -/
def SrcTree.toSrc : SrcTree → Src
  | .raw sib nItems nZips files => ⟨true, sib, nItems, nZips, files.length⟩
  | .zip ms => ⟨false, true, 0, 0, ms.length⟩
  | .zips sib archives others => ⟨true, sib, archives.length + others, archives.length, archives.flatten.length⟩

/-- the layout is clear-cut: a plain folder is not "mostly zips", a folder of zips is
    (`len(zips) > 0 and len(zips) >= len(items) // 2`) -/
def SrcTree.Clear : SrcTree → Prop
  | .raw _ nItems nZips _ => nZips = 0 ∨ nZips < nItems / 2
  | .zip _ => True
  | .zips _ archives others => 0 < archives.length ∧ (archives.length + others) / 2 ≤ archives.length

/-- the destination holds the file `p` of the source completely written -/
def holdsWhole (t : SrcTree) (d : Dir) (p : String) : Prop :=
  ∃ i, t.members[i]? = some p ∧ d.files i = .whole

/-- the destination holds an entry for the file `p` of the source (possibly partially written) -/
def holdsSome (t : SrcTree) (d : Dir) (p : String) : Prop :=
  ∃ i, t.members[i]? = some p ∧ d.files i ≠ .absent

end KDVerif.CopyProtocol
