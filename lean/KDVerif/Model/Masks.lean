/-
Model of the mask collators of KappaData (C17).

Mirrored Python (statement by statement):
* `kappadata/collators/kd_dino_mask_collator.py`
    `KDDinoMaskCollator._mask_block`     ↦ `Dino.blockLoop` (the 10-try loop with its three rejections + the update)
    `KDDinoMaskCollator._generate_mask`  ↦ `Dino.genLoop` (the outer `while`, with fuel)
    `KDDinoMaskCollator.collate`         ↦ `Dino.collate` (zeros, the first `numMasked` masks generated, final shuffle)
* `kappadata/collators/kd_ijepa_mask_collator.py`
    `_sample_block_size` (integer part)  ↦ `Ijepa.blockSize` (`min(h, H-1)`, `min(w, W-1)`)
    `_sample_block_mask`                 ↦ `Ijepa.sampleBlock`
    `_sample_block_mask_constrained`     ↦ `Ijepa.constrainedLoop` (relaxation `k = max(len(regions) - tries // self.tries, 0)`)
    `collate`                            ↦ `Ijepa.collate` (per sample: predictor masks, encoder masks; truncation to the
                                            common minimum length; `concat(default_collate(..))` layout), `step` ↦ `Ijepa.step`

Randomness is a tape. DINO: one `Proposal` per loop iteration of `_mask_block` = the block size `(h, w)` the float front end
produced (`int(round(sqrt(..)))`, executed in the real run and recorded) and the location `(top, left)` that was drawn (ignored
when the size is rejected); the per-mask target `total = int(uniform(..) * num_patches)` is handed in. I-JEPA: the rounded sizes
of the float front end per step and the flat list of `rng.integers` results. The models also emit the bounds of every integer
draw they request (`reqs`), which the correspondence compares with the recorded calls.
A 2-d torch tensor is a list of rows (DINO) or its row-major flattening with index decoding `k ↦ (k / W, k % W)` (I-JEPA,
whose outputs are flat indices).
No imports: core Lean only.
-/
namespace KDVerif.Masks

inductive Err where
  | tapeEnd      -- the tape ran out (a non-terminating sampler, or a harness error)
  | index        -- IndexError (block or mask outside the grid)
  | outOfFuel    -- fuel of the outer loop exhausted (never happens: theorem)
  | tape         -- tape does not fit the run (wrong number of entries, or a draw outside the generator's contract)
deriving DecidableEq, Repr

/-- `(r.drop a).take n` = python `r[a:a+n]` -/
def seg {α : Type} (r : List α) (a n : Nat) : List α := (r.drop a).take n

namespace Dino

abbrev Mask := List (List Bool)

def zeros (H W : Nat) : Mask := List.replicate H (List.replicate W false)

def countRow (r : List Bool) : Nat := r.countP (fun b => b)

/-- `mask.sum()` -/
def count (m : Mask) : Nat := (m.map countRow).sum

/-- a row after `row[left:left+w] = 1` -/
def setRow (left w : Nat) (r : List Bool) : List Bool :=
  r.take left ++ List.replicate (seg r left w).length true ++ r.drop (left + w)

/-- the mask after the update loop over `range(top, bot) x range(left, right)` -/
def setRect (top left h w : Nat) (m : Mask) : Mask :=
  m.take top ++ (seg m top h).map (setRow left w) ++ m.drop (top + h)

/-- `mask[top:bot, left:right].sum()` (python slices clip) -/
def onesInRect (top left h w : Nat) (m : Mask) : Nat :=
  ((seg m top h).map (fun r => countRow (seg r left w))).sum

/-- number of `delta += 1` executions of the update loop: cells of the block that were 0 -/
def zerosInRect (top left h w : Nat) (m : Mask) : Nat :=
  ((seg m top h).map (fun r => (seg r left w).length - countRow (seg r left w))).sum

structure Proposal where
  h : Nat
  w : Nat
  top : Nat
  left : Nat
deriving DecidableEq, Repr

inductive Tr where
  | req (hiTop hiLeft : Nat)     -- `integers(0, hiTop)`, `integers(0, hiLeft)` were requested
  | block (rem delta : Nat)      -- one `_mask_block(mask, rem)` call returned `delta`
deriving DecidableEq, Repr

structure BlockRes where
  mask : Mask
  delta : Nat
  rest : List Proposal
  trace : List Tr
deriving DecidableEq, Repr

/-- `_mask_block`: `t` = remaining iterations of `for _ in range(10)` -/
def blockLoop (H W rem : Nat) : Nat → Mask → Nat → List Proposal → List Tr → Except Err BlockRes
  | 0, m, d, tape, tr => .ok ⟨m, d, tape, tr⟩
  | t + 1, m, d, tape, tr =>
    match tape with
    | [] => .error .tapeEnd
    | p :: tape =>
      -- resample if block is out of bounds
      if p.w ≥ W ∨ p.h ≥ H then blockLoop H W rem t m d tape tr
      else
        let tr := tr ++ [.req (H - p.h + 1) (W - p.w + 1)]
        let nu := p.h * p.w - onesInRect p.top p.left p.h p.w m
        -- resample if block is already fully masked out
        if nu = 0 then blockLoop H W rem t m d tape tr
        -- resample if masking out the block would result in more masked patches than defined
        else if nu > rem then blockLoop H W rem t m d tape tr
        else if p.top + p.h > H ∨ p.left + p.w > W then .error .index
        else
          let d' := d + zerosInRect p.top p.left p.h p.w m
          let m' := setRect p.top p.left p.h p.w m
          if d' > 0 then .ok ⟨m', d', tape, tr⟩ else blockLoop H W rem t m' d' tape tr

def maskBlock (H W rem : Nat) (m : Mask) (tape : List Proposal) (tr : List Tr) : Except Err BlockRes :=
  blockLoop H W rem 10 m 0 tape tr

structure GenRes where
  mask : Mask
  done : Nat                 -- num_masked_patches
  rest : List Proposal
  trace : List Tr
deriving DecidableEq, Repr

/-- `_generate_mask`: the `while num_masked_patches < total` loop -/
def genLoop (H W total : Nat) : Nat → Mask → Nat → List Proposal → List Tr → Except Err GenRes
  | 0, _, _, _, _ => .error .outOfFuel
  | f + 1, m, done, tape, tr =>
    if done < total then
      match maskBlock H W (total - done) m tape tr with
      | .error e => .error e
      | .ok r =>
        let tr := r.trace ++ [.block (total - done) r.delta]
        if r.delta = 0 then .ok ⟨r.mask, done, r.rest, tr⟩
        else genLoop H W total f r.mask (done + r.delta) r.rest tr
    else .ok ⟨m, done, tape, tr⟩

def generateMask (H W total : Nat) (m : Mask) (tape : List Proposal) : Except Err GenRes :=
  genLoop H W total (total + 1) m 0 tape []

structure Gen where
  total : Nat                -- num_masked_patches_total of this mask
  tape : List Proposal
deriving DecidableEq, Repr

/-- `for i in range(num_masked_samples): self._generate_mask(masks[i], total_i)` -/
def generateAll (H W : Nat) : List Gen → Except Err (List GenRes)
  | [] => .ok []
  | g :: gs =>
    match generateMask H W g.total (zeros H W) g.tape with
    | .error e => .error e
    | .ok r =>
      match generateAll H W gs with
      | .error e => .error e
      | .ok rs => .ok (r :: rs)

/-- `rng.shuffle(masks)` with the drawn permutation `perm` (position `j` receives `masks[perm[j]]`) -/
def applyPerm {α : Type} (perm : List Nat) (l : List α) : List α := perm.filterMap (fun i => l[i]?)

structure Out (β : Type) where
  batch : β
  masks : List Mask
  gens : List GenRes
deriving Repr

/-- `collate`: `n = batch_size * num_views` masks, the first `numMasked = int(n * mask_prob)` generated, shuffled;
    the batch itself is handed back -/
def collate {β : Type} (batch : β) (H W n numMasked : Nat) (gens : List Gen) (perm : List Nat) : Except Err (Out β) :=
  if gens.length ≠ numMasked then .error .tape
  else if numMasked > n then .error .index
  else
    match generateAll H W gens with
    | .error e => .error e
    | .ok rs =>
      let masks := rs.map GenRes.mask ++ List.replicate (n - numMasked) (zeros H W)
      .ok ⟨batch, applyPerm perm masks, rs⟩

end Dino

namespace Ijepa

/-- cell `k` of the flattened `H x W` grid lies in `[top, top+h) x [left, left+w)` -/
def inRect (W top left h w k : Nat) : Bool :=
  decide (top ≤ k / W ∧ k / W < top + h ∧ left ≤ k % W ∧ k % W < left + w)

/-- `mask = zeros((H, W)); mask[top:bot, left:right] = 1`, flattened -/
def rectFlat (H W top left h w : Nat) : List Bool := (List.range (H * W)).map (inRect W top left h w)

/-- `mask_complement = ones((H, W)); mask_complement[top:bot, left:right] = 0`, flattened -/
def complFlat (H W top left h w : Nat) : List Bool := (rectFlat H W top left h w).map (fun b => !b)

/-- `mask *= region` -/
def mulFlat (a b : List Bool) : List Bool := List.zipWith (fun x y => x && y) a b

/-- `flat.nonzero()`: the indices (from `off`) of the true entries, ascending -/
def nonzeroFrom : Nat → List Bool → List Nat
  | _, [] => []
  | off, b :: r => if b then off :: nonzeroFrom (off + 1) r else nonzeroFrom (off + 1) r

def nonzero (l : List Bool) : List Nat := nonzeroFrom 0 l

structure Cfg where
  H : Nat            -- seqlen_h
  W : Nat            -- seqlen_w
  nPred : Nat
  nEnc : Nat
  minKeep : Nat
  tries : Nat
deriving DecidableEq, Repr

/-- what the float front end of `_sample_block_size` hands to the integer part at one step:
    the rounded predictor and encoder block sizes -/
structure Rounded where
  ph : Nat
  pw : Nat
  eh : Nat
  ew : Nat
deriving DecidableEq, Repr

/-- `h = min(h, self.seqlen_h - 1); w = min(w, self.seqlen_w - 1)` -/
def blockSize (c : Cfg) (h0 w0 : Nat) : Nat × Nat := (min h0 (c.H - 1), min w0 (c.W - 1))

/-- `step()`: increments the shared counter and returns it -/
def step (counter : Int) : Int × Int := (counter + 1, counter + 1)

structure Block where
  idx : List Nat          -- `mask.flatten().nonzero().squeeze(1)`
  compl : List Bool       -- `mask_complement`, flattened
deriving DecidableEq, Repr

/-- `_sample_block_mask` given the two draws -/
def sampleBlock (c : Cfg) (h w top left : Nat) : Block :=
  ⟨nonzero (rectFlat c.H c.W top left h w), complFlat c.H c.W top left h w⟩

/-- the mask of one try of `_sample_block_mask_constrained`: the block times the first `k` acceptable regions -/
def constrainedMask (c : Cfg) (h w : Nat) (regions : List (List Bool)) (t top left : Nat) : List Bool :=
  (regions.take (regions.length - t / c.tries)).foldl mulFlat (rectFlat c.H c.W top left h w)

/-- `_sample_block_mask_constrained`: `t` = `tries`; consumes two draws per iteration; returns the mask, the number of
    failed tries and the rest of the tape -/
def constrainedLoop (c : Cfg) (h w : Nat) (regions : List (List Bool)) : Nat → List Nat → Except Err (List Nat × Nat × List Nat)
  | t, top :: left :: tape =>
    -- contract of `rng.integers(0, H - h)`, `rng.integers(0, W - w)`
    if top < c.H - h ∧ left < c.W - w then
      let idx := nonzero (constrainedMask c h w regions t top left)
      if idx.length > c.minKeep then .ok (idx, t, tape) else constrainedLoop c h w regions (t + 1) tape
    else .error .tape
  | _, _ => .error .tapeEnd

/-- `num_pred_masks` calls of `_sample_block_mask` -/
def samplePreds (c : Cfg) (h w : Nat) : Nat → List Nat → Except Err (List Block × List Nat)
  | 0, tape => .ok ([], tape)
  | n + 1, top :: left :: tape =>
    -- contract of `rng.integers(0, H - h)`, `rng.integers(0, W - w)`
    if top < c.H - h ∧ left < c.W - w then
      match samplePreds c h w n tape with
      | .error e => .error e
      | .ok (bs, rest) => .ok (sampleBlock c h w top left :: bs, rest)
    else .error .tape
  | _ + 1, _ => .error .tapeEnd

/-- `num_enc_masks` calls of `_sample_block_mask_constrained`; also returns the tries counters -/
def sampleEncs (c : Cfg) (h w : Nat) (regions : List (List Bool)) : Nat → List Nat → Except Err (List (List Nat × Nat) × List Nat)
  | 0, tape => .ok ([], tape)
  | n + 1, tape =>
    match constrainedLoop c h w regions 0 tape with
    | .error e => .error e
    | .ok (idx, t, rest) =>
      match sampleEncs c h w regions n rest with
      | .error e => .error e
      | .ok (ms, rest') => .ok ((idx, t) :: ms, rest')

structure SampleMasks where
  preds : List Block
  encs : List (List Nat × Nat)
deriving DecidableEq, Repr

/-- the body of `for _ in range(batch_size)` -/
def sampleOne (c : Cfg) (p e : Nat × Nat) (tape : List Nat) : Except Err (SampleMasks × List Nat) :=
  match samplePreds c p.1 p.2 c.nPred tape with
  | .error er => .error er
  | .ok (bs, rest) =>
    match sampleEncs c e.1 e.2 (bs.map Block.compl) c.nEnc rest with
    | .error er => .error er
    | .ok (ms, rest') => .ok (⟨bs, ms⟩, rest')

def sampleAll (c : Cfg) (p e : Nat × Nat) : Nat → List Nat → Except Err (List SampleMasks × List Nat)
  | 0, tape => .ok ([], tape)
  | n + 1, tape =>
    match sampleOne c p e tape with
    | .error er => .error er
    | .ok (s, rest) =>
      match sampleAll c p e n rest with
      | .error er => .error er
      | .ok (ss, rest') => .ok (s :: ss, rest')

/-- `min_keep = min(min_keep, len(mask))` over all masks, starting from `H * W` -/
def minLen (start : Nat) (ms : List (List Nat)) : Nat := ms.foldl (fun a m => min a m.length) start

/-- `torch.concat(default_collate([[mask[:k] for mask in masks] for masks in per_sample]))`:
    row `j * B + b` = mask `j` of sample `b`, truncated -/
def layout (k n : Nat) (perSample : List (List (List Nat))) : List (List Nat) :=
  (List.range n).flatMap (fun j => perSample.filterMap (fun ms => (ms[j]?).map (fun m => m.take k)))

structure Out (β : Type) where
  batch : β
  counter : Int
  predSize : Nat × Nat
  encSize : Nat × Nat
  samples : List SampleMasks
  predRows : List (List Nat)     -- ctx["predictor_masks"]
  encRows : List (List Nat)      -- ctx["encoder_masks"]
  rest : List Nat
deriving Repr

/-- `collate`; `sizes` is the float front end as a function of the step (the seed of the torch generator) -/
def collate {β : Type} (batch : β) (c : Cfg) (sizes : Int → Rounded) (counter : Int) (B : Nat) (tape : List Nat) :
    Except Err (Out β) :=
  let (counter', seed) := step counter
  let r := sizes seed
  let p := blockSize c r.ph r.pw
  let e := blockSize c r.eh r.ew
  match sampleAll c p e B tape with
  | .error er => .error er
  | .ok (ss, rest) =>
    let pm := ss.map (fun s => s.preds.map Block.idx)
    let em := ss.map (fun s => s.encs.map Prod.fst)
    let kp := minLen (c.H * c.W) pm.flatten
    let ke := minLen (c.H * c.W) em.flatten
    .ok ⟨batch, counter', p, e, ss, layout kp c.nPred pm, layout ke c.nEnc em, rest⟩

end Ijepa

end KDVerif.Masks
