/-
Model of the batch mixup/cutmix collator (C10).

Mirrors `kappadata/collators/kd_mix_collator.py`:
  `KDMixCollator.__init__`      ↦ `ctor`
  `KDMixCollator.shuffle`       ↦ `shuffle` (+ `rollIdx`, `flipIdx`)
  `KDMixCollator.get_random_bbox` ↦ `mkBox`, `adjLam`, `getRandomBbox` (integer core; the float part
                                   `floor(0.5*sqrt(1-lam)*h)` is handed in as `halves`)
  `KDMixCollator.collate`       ↦ `planBatch` / `planSample` (everything that touches the generator, in the
                                   order the code draws) + `collate` (get_item, mixing, ctx, set_item)
and the static helpers `ModeWrapper.has_item / get_item / set_item` of `wrappers/mode_wrapper.py`.
`MAEFinetuneMixCollator` is the configuration (0.5, 0.5, batch, batch, flip) on mode "x class".

Conventions: reals are `Rat`; an image is its element function `channel → row → col → value` (the batch
carries `h w`); the tape lists the generator draws in order (recorded from the real run), every draw is
checked against the call the code makes at that point (`Err.tape` otherwise) and the tape must be used up.
Not modelled: float32 rounding, Beta sampling, in-place aliasing of the input tensors (`x_clone` isolates
reads from writes, every row is written once), the unused `apply` decision is recorded only.
-/
namespace KDVerif.MixCollator

inductive Err where
  | assertion | notImplemented | typeError | tape
  deriving Repr, DecidableEq

inductive Shuffle where
  | roll | flip | random
  deriving Repr, DecidableEq

inductive PerMode where
  | batch | sample
  deriving Repr, DecidableEq

structure Cfg where
  mixupP : Rat
  cutmixP : Rat
  /-- `self.total_p` = float sum `mixup_p + cutmix_p` (handed in; the constructor forces it to be 1) -/
  totalP : Rat
  mixupAlpha : Option Rat
  cutmixAlpha : Option Rat
  applyMode : PerMode
  lambMode : PerMode
  shuffle : Shuffle

structure CtorArgs where
  mixupP : Option Rat
  cutmixP : Option Rat
  mixupAlpha : Option Rat
  cutmixAlpha : Option Rat
  /-- float sum of the two probabilities after `or 0.` -/
  floatSum : Rat
  applyMode : Option PerMode     -- `none` = a string outside the accepted list
  lambMode : Option PerMode
  shuffle : Option Shuffle

/-- `x or 0.` for `x : Optional[float]` -/
def orZero (x : Option Rat) : Rat := x.getD 0

def alphaOk (p : Rat) (alpha : Option Rat) : Bool :=
  if p == 0 then alpha.isNone else
    match alpha with
    | some a => decide (0 < a)
    | none => false

/-- `KDMixCollator.__init__` (argument checks in the order of the code) -/
def ctor (a : CtorArgs) : Except Err Cfg :=
  if a.mixupP.isNone && a.cutmixP.isNone then .error .assertion else
  let mp := orZero a.mixupP
  let cp := orZero a.cutmixP
  if !(decide (0 ≤ mp) && decide (mp ≤ 1)) then .error .assertion else
  if !(decide (0 ≤ cp) && decide (cp ≤ 1)) then .error .assertion else
  if !(decide (0 < a.floatSum) && decide (a.floatSum ≤ 1)) then .error .assertion else
  if a.floatSum != 1 then .error .notImplemented else
  if !(alphaOk mp a.mixupAlpha) then .error .assertion else
  if !(alphaOk cp a.cutmixAlpha) then .error .assertion else
  match a.applyMode, a.lambMode, a.shuffle with
  | some am, some lm, some sm => .ok ⟨mp, cp, a.floatSum, a.mixupAlpha, a.cutmixAlpha, am, lm, sm⟩
  | _, _, _ => .error .assertion

/-! ### generator draws -/

inductive Draw where
  /-- `rng.random()` -/
  | unif (v : Rat)
  /-- `rng.random(n)` -/
  | unifs (vs : List Rat)
  /-- `rng.beta(alpha, alpha)` -/
  | beta (alpha : Rat) (v : Rat)
  /-- `rng.beta(alpha, alpha, size=n)` -/
  | betas (alpha : Rat) (vs : List Rat)
  /-- `rng.integers(hi, size=(n,))` -/
  | ints (hi : Nat) (vs : List Nat)
  /-- `rng.permutation(n)` -/
  | perm (n : Nat) (l : List Nat)
  /-- any other generator call (the model has no counterpart: never accepted) -/
  | other

abbrev Tape := List Draw

/-- the generator's contract for one draw -/
def Draw.Ok : Draw → Prop
  | .unif v => 0 ≤ v ∧ v < 1
  | .unifs vs => ∀ v ∈ vs, 0 ≤ v ∧ v < 1
  | .beta _ v => 0 ≤ v ∧ v ≤ 1
  | .betas _ vs => ∀ v ∈ vs, 0 ≤ v ∧ v ≤ 1
  | .ints hi vs => ∀ v ∈ vs, v < hi
  | .perm n l => l.Perm (List.range n)
  | .other => True

def TapeOk (t : Tape) : Prop := ∀ d ∈ t, d.Ok

def popUnif : Tape → Except Err (Rat × Tape)
  | .unif v :: t => .ok (v, t)
  | _ => .error .tape

def popUnifs (n : Nat) : Tape → Except Err (List Rat × Tape)
  | .unifs vs :: t => if vs.length = n then .ok (vs, t) else .error .tape
  | _ => .error .tape

def popBeta (alpha : Rat) : Tape → Except Err (Rat × Tape)
  | .beta a v :: t => if a = alpha then .ok (v, t) else .error .tape
  | _ => .error .tape

def popBetas (alpha : Rat) (n : Nat) : Tape → Except Err (List Rat × Tape)
  | .betas a vs :: t => if a = alpha ∧ vs.length = n then .ok (vs, t) else .error .tape
  | _ => .error .tape

def popInts (hi n : Nat) : Tape → Except Err (List Nat × Tape)
  | .ints hi' vs :: t => if hi' = hi ∧ vs.length = n then .ok (vs, t) else .error .tape
  | _ => .error .tape

def popPerm (n : Nat) : Tape → Except Err (List Nat × Tape)
  | .perm n' l :: t => if n' = n ∧ l.length = n then .ok (l, t) else .error .tape
  | _ => .error .tape

/-- `rng.beta(None, None)` raises `TypeError` -/
def needAlpha : Option Rat → Except Err Rat
  | some a => .ok a
  | none => .error .typeError

/-! ### shuffle -/

/-- indices gathered by `item.roll(shifts=1, dims=0)`: position `i` receives item `(i-1) mod n` -/
def rollIdx (n : Nat) : List Nat := (List.range n).map (fun i => (i + n - 1) % n)

/-- indices gathered by `item.flip(0)` -/
def flipIdx (n : Nat) : List Nat := (List.range n).map (fun i => n - 1 - i)

/-- `KDMixCollator.shuffle`, at the level of gathered indices: returns (indices, permutation, rest of tape) -/
def shuffle (m : Shuffle) (n : Nat) (perm : Option (List Nat)) (t : Tape) :
    Except Err (List Nat × Option (List Nat) × Tape) :=
  if n = 1 then .ok ([0], none, t)                       -- item.clone(), None
  else match m with
    | .roll => .ok (rollIdx n, none, t)
    | .flip => if n % 2 = 0 then .ok (flipIdx n, none, t) else .error .assertion
    | .random =>
      match perm with
      | some p => .ok (p, some p, t)
      | none =>
        match popPerm n t with
        | .ok (p, t') => .ok (p, some p, t')
        | .error e => .error e

/-! ### boxes -/

structure Box where
  top : Nat
  left : Nat
  bot : Nat
  right : Nat
  deriving Repr, DecidableEq

/-- integer core of `get_random_bbox` for one box: `clamp(c - half, min=0)`, `clamp(c + half, max=extent)`
    (truncated subtraction on `Nat` is the clamp at 0; `c` and `half` are non-negative) -/
def mkBox (h w ch cw hh wh : Nat) : Box := ⟨ch - hh, cw - wh, min (ch + hh) h, min (cw + wh) w⟩

def Box.area (b : Box) : Nat := (b.bot - b.top) * (b.right - b.left)

/-- `lamb_adjusted = 1.0 - (bot - top) * (right - left) / (h * w)` -/
def adjLam (h w : Nat) (b : Box) : Rat := 1 - (b.area : Rat) / ((h * w : Nat) : Rat)

/-- membership in the slice `[top:bot, left:right]` -/
def Box.mem (b : Box) (r k : Nat) : Bool :=
  decide (b.top ≤ r) && decide (r < b.bot) && decide (b.left ≤ k) && decide (k < b.right)

/-- `get_random_bbox` after the two `integers` draws: boxes and adjusted lambdas, one per requested lambda -/
def getRandomBbox (h w n : Nat) (chs cws : List Nat) (halves : List (Nat × Nat)) : List Box :=
  (List.range n).map (fun i =>
    mkBox h w (chs.getD i 0) (cws.getD i 0) (halves.getD i (0, 0)).1 (halves.getD i (0, 0)).2)

/-! ### images and labels -/

abbrev Img := Nat → Nat → Nat → Rat

def zeroImg : Img := fun _ _ _ => 0

/-- `x[..., top:bot, left:right] = x2[..., top:bot, left:right]` -/
def paste (b : Box) (x x2 : Img) : Img := fun c r k => if b.mem r k then x2 c r k else x c r k

/-- `x.mul_(lam).add_(x2.mul_(1 - lam))` -/
def mixImg (lam : Rat) (x x2 : Img) : Img := fun c r k => lam * x c r k + (1 - lam) * x2 c r k

/-- `y.mul_(lam).add_(y2.mul_(1 - lam))` on one label row -/
def mixRow (lam : Rat) (y y2 : List Rat) : List Rat := List.zipWith (fun a b => lam * a + (1 - lam) * b) y y2

/-! ### the draws of one `collate` call -/

structure Plan where
  /-- `ctx["apply"]` -/
  apply : List Bool
  /-- `ctx["use_cutmix"]` (one entry in lamb_mode=batch) -/
  useCutmix : List Bool
  /-- `ctx["lambda"]` (one entry in lamb_mode=batch) -/
  lambda : List Rat
  /-- rows of `bbox` -/
  boxes : List Box
  /-- indices gathered for the image (`x2` / `x2_indices`) -/
  idxX : List Nat
  /-- indices gathered for the label (`y2`), second `shuffle` call -/
  idxY : List Nat
  /-- final value of the local `permutation` -/
  perm : Option (List Nat)

/-- `apply = …` (sampled, recorded in the context, not used otherwise) -/
def popApply (cfg : Cfg) (B : Nat) (t : Tape) : Except Err (List Bool × Tape) :=
  match cfg.applyMode with
  | .batch => do
    let r ← popUnif t
    pure (List.replicate B (decide (r.1 < cfg.totalP)), r.2)
  | .sample => do
    let r ← popUnifs B t
    pure (r.1.map (fun v => decide (v < cfg.totalP)), r.2)

def needHalves (n : Nat) (halves : List (Nat × Nat)) : Except Err Unit :=
  if halves.length = n then .ok () else .error .tape

def needEmpty (t : Tape) : Except Err Unit :=
  if t.isEmpty then .ok () else .error .tape

/-- `lamb_mode == "batch"` -/
def planBatch (cfg : Cfg) (halves : List (Nat × Nat)) (tape : Tape) (B h w : Nat) : Except Err Plan := do
  let a ← popApply cfg B tape
  let u ← popUnif a.2
  let uc := decide (u.1 * cfg.totalP < cfg.cutmixP)
  let alpha ← needAlpha (if uc then cfg.cutmixAlpha else cfg.mixupAlpha)
  let l ← popBeta alpha u.2
  -- apply x
  let sx ← shuffle cfg.shuffle B none l.2
  let bb ← (if uc then do
      let ch ← popInts h 1 sx.2.2
      let cw ← popInts w 1 ch.2
      needHalves 1 halves
      let boxes := getRandomBbox h w 1 ch.1 cw.1 halves
      pure (boxes, boxes.map (adjLam h w), cw.2)
    else pure ([], [l.1], sx.2.2) : Except Err (List Box × List Rat × Tape))
  -- apply y
  let sy ← shuffle cfg.shuffle B sx.2.1 bb.2.2
  needEmpty sy.2.2
  pure ⟨a.1, [uc], bb.2.1, bb.1, sx.1, sy.1, sy.2.1⟩

/-- `lamb_mode == "sample"`. `torch.empty(batch_size)` (uninitialised) is `[]` here: it is never selected,
    see `C10.empty_never_selected`. -/
def planSample (cfg : Cfg) (halves : List (Nat × Nat)) (tape : Tape) (B h w : Nat) : Except Err Plan := do
  let a ← popApply cfg B tape
  let u ← popUnifs B a.2
  let uc := u.1.map (fun v => decide (v * cfg.totalP < cfg.cutmixP))
  let ml ← (if 0 < cfg.mixupP then do
      let alpha ← needAlpha cfg.mixupAlpha
      popBetas alpha B u.2
    else pure ([], u.2) : Except Err (List Rat × Tape))
  let cl ← (if 0 < cfg.cutmixP then do
      let alpha ← needAlpha cfg.cutmixAlpha
      let l ← popBetas alpha B ml.2
      let ch ← popInts h B l.2
      let cw ← popInts w B ch.2
      needHalves B halves
      let boxes := getRandomBbox h w B ch.1 cw.1 halves
      pure (boxes, boxes.map (adjLam h w), cw.2)
    else pure ([], [], ml.2) : Except Err (List Box × List Rat × Tape))
  -- lamb = torch.where(use_cutmix, cutmix_lamb, mixup_lamb)
  let lamb := (List.range B).map (fun i => if uc.getD i false then cl.2.1.getD i 0 else ml.1.getD i 0)
  let sx ← shuffle cfg.shuffle B none cl.2.2
  let sy ← shuffle cfg.shuffle B sx.2.1 sx.2.2
  needEmpty sy.2.2
  pure ⟨a.1, uc, lamb, cl.1, sx.1, sy.1, sy.2.1⟩

def plan (cfg : Cfg) (halves : List (Nat × Nat)) (tape : Tape) (B h w : Nat) : Except Err Plan :=
  match cfg.lambMode with
  | .batch => planBatch cfg halves tape B h w
  | .sample => planSample cfg halves tape B h w

/-! ### per-sample view of the plan (broadcast of one-entry tensors in lamb_mode=batch) -/

def pick (m : PerMode) (i : Nat) : Nat :=
  match m with
  | .batch => 0
  | .sample => i

/-- is sample `i`'s image cut-mixed: `use_cutmix` (batch) / `use_cutmix[i]` (sample) -/
def flagAt (cfg : Cfg) (pl : Plan) (i : Nat) : Bool := pl.useCutmix.getD (pick cfg.lambMode i) false
/-- `lamb` (batch, broadcast) / `lamb[i]` (sample) -/
def lamAt (cfg : Cfg) (pl : Plan) (i : Nat) : Rat := pl.lambda.getD (pick cfg.lambMode i) 0
/-- `bbox[0]` (batch) / `bbox[i]` (sample) -/
def boxAt (cfg : Cfg) (pl : Plan) (i : Nat) : Box := pl.boxes.getD (pick cfg.lambMode i) ⟨0, 0, 0, 0⟩

/-! ### batch layout -/

inductive Item where
  /-- stacked images `(B, c, h, w)`: the batch carries `h w` -/
  | x (h w : Nat) (imgs : List Img)
  /-- 2-d label tensor `(B, C)` -/
  | cls2 (rows : List (List Rat))
  /-- 1-d label tensor `(B,)` (binary classification) -/
  | cls1 (ys : List Rat)
  /-- anything else (index, …), identified by a tag -/
  | other (tag : Nat)

/-- `ModeWrapper.get_item` on a tuple batch -/
def getItem (mode : List String) (item : String) (batch : List Item) : Option Item := batch[mode.idxOf item]?

/-- `ModeWrapper.set_item`: `tuple(it if i != idx else value for i, it in enumerate(batch))` -/
def setItem (mode : List String) (item : String) (batch : List Item) (value : Item) : List Item :=
  batch.mapIdx (fun i it => if i ≠ mode.idxOf item then it else value)

structure Out where
  batch : List Item
  ctxApply : List Bool
  ctxUseCutmix : List Bool
  ctxLambda : List Rat
  perm : Option (List Nat)

/-- `if idx is not None: batch = set_item(mode, "index", batch, idx)` with `idx = get_item(mode, "index", batch)` -/
def afterIndex (mode : List String) (batch : List Item) : List Item :=
  if mode.contains "index" then
    match getItem mode "index" batch with
    | some v => setItem mode "index" batch v
    | none => batch
  else batch

/-- label tensor as a matrix: (rows, is_binary_classification) -/
def getLabels (mode : List String) (batch : List Item) : Except Err (Option (List (List Rat) × Bool)) :=
  if mode.contains "class" then
    match getItem mode "class" batch with
    | some (.cls2 rows) => .ok (some (rows, false))
    | some (.cls1 ys) =>
      -- assert y.ndim == 1 and 0. <= y.min() and y.max() <= 1.
      if ys.all (fun v => decide (0 ≤ v) && decide (v ≤ 1)) then .ok (some (ys.map (fun v => [v]), true))   -- unsqueeze(1)
      else .error .assertion
    | _ => .error .typeError
  else .ok none

def outImgs (cfg : Cfg) (pl : Plan) (imgs : List Img) : List Img :=
  (List.range imgs.length).map (fun i =>
    let x := imgs.getD i zeroImg
    let x2 := imgs.getD (pl.idxX.getD i 0) zeroImg
    if flagAt cfg pl i then paste (boxAt cfg pl i) x x2 else mixImg (lamAt cfg pl i) x x2)

def outRows (cfg : Cfg) (pl : Plan) (rows : List (List Rat)) : List (List Rat) :=
  (List.range rows.length).map (fun i =>
    mixRow (lamAt cfg pl i) (rows.getD i []) (rows.getD (pl.idxY.getD i 0) []))

/-- `KDMixCollator.collate(batch, dataset_mode, ctx)` on a default-collated tuple batch -/
def collate (cfg : Cfg) (halves : List (Nat × Nat)) (tape : Tape) (mode : List String) (batch : List Item) :
    Except Err Out := do
  -- y = get_item(...) with the ndim assertion comes first in the code
  let lab ← getLabels mode batch
  -- x = get_item(...) ; batch_size = len(x)  (TypeError when the mode has no "x")
  let xi ← (if mode.contains "x" then
      match getItem mode "x" batch with
      | some (.x h w imgs) => .ok (h, w, imgs)
      | _ => .error .typeError
    else .error .typeError : Except Err (Nat × Nat × List Img))
  let h := xi.1
  let w := xi.2.1
  let imgs := xi.2.2
  let B := imgs.length
  let pl ← plan cfg halves tape B h w
  -- write back
  let b1 := afterIndex mode batch
  let b2 := setItem mode "x" b1 (.x h w (outImgs cfg pl imgs))
  let b3 ← (match lab with
    | none => .ok b2
    | some (rows, binary) =>
      if rows.length = B then
        let rows' := outRows cfg pl rows
        .ok (setItem mode "class" b2 (if binary then .cls1 rows'.flatten else .cls2 rows'))   -- squeeze(1)
      else .error .typeError : Except Err (List Item))
  pure ⟨b3, pl.apply, pl.useCutmix, pl.lambda, pl.perm⟩

/-! ### specification vocabulary -/

/-- partner of sample `i` as the shuffle mode promises it (`perm` = the permutation drawn, if any) -/
def partnerSpec (m : Shuffle) (B : Nat) (perm : Option (List Nat)) (i : Nat) : Nat :=
  if B = 1 then 0 else
  match m with
  | .roll => (i + B - 1) % B
  | .flip => B - 1 - i
  | .random => (perm.getD []).getD i 0

/-- the weight the context reports for sample `i` (`ctx["lambda"]`, broadcast in lamb_mode=batch) -/
def ctxWeight (cfg : Cfg) (o : Out) (i : Nat) : Rat := o.ctxLambda.getD (pick cfg.lambMode i) 0

/-- the cut-mix flag the context reports for sample `i` -/
def ctxFlag (cfg : Cfg) (o : Out) (i : Nat) : Bool := o.ctxUseCutmix.getD (pick cfg.lambMode i) false

end KDVerif.MixCollator
