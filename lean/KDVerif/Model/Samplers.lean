/-
Model of the rank-aware and composed-epoch samplers of `kappadata/samplers`:

* `DistributedSampler.__init__/__iter__/__len__/set_epoch` (`distributed_sampler.py`) together with the
  inherited `torch.utils.data.DistributedSampler.__init__/__iter__` (taken when `num_repeats == 1`)
  — `distCtor`, `numSamples`, `distBase`, `distPad`, `distGlobal`, `distRankOf`, `distIter`.
  The model is of the code *after* `fix: import math` (the third padding branch is reachable).
* `RandomSampler.__iter__` (`random_sampler.py`) and the inherited `torch.utils.data.RandomSampler.__iter__`
  — `randIter`.
* `ClassBalancedSampler.__init__/__len__/__iter__` (`class_balanced_sampler.py`) — `cbCtor`, `cbPools`,
  `cbClass` (the `while remaining_indices > 0` loop), `cbDraw`, `cbGlobal`, `cbIter`.
* `WeightedSampler.effective_length/__len__/__iter__` (`weighted_sampler.py`) — `wEffective`, `wIter`.
* `SemiSampler.__init__/effective_length/__len__/__iter__` (`semi_sampler.py`) — `semiCtor`,
  `semiEffective`, `semiNext` (= `next(_iterator(idxs))`), `semiLoop`, `semiIter`.
* `rank or get_rank()` / `world_size or get_world_size()` outside a process group
  (`utils/distributed.py`) — `rankOf`, `wsOf`.

Randomness: every torch draw is an entry of an explicit tape (`Tape`), consumed in the order the code
draws; the model also emits the list of *requests* it makes (`Req`: generator creation with its seed,
`randperm`, `multinomial`, `randint`, `tensor.random_`) so that the correspondence can compare kinds, order,
arguments and generator identity with what the real code asked torch for.  A tape entry is accepted only
if it has the shape torch guarantees for the request (`popLen`: a `randperm(n)` result has `n` entries);
anything else ends the run with `Err.tapeEnd`.  Contracts about the *content* of draws (a permutation,
duplicate free) are hypotheses of the theorems, not of the model.
No imports: core Lean only.
-/
namespace KDVerif.Samplers

inductive Err where
  | assertion     -- Python `assert` failed
  | valueError    -- `ValueError` raised by torch's constructors on purpose
  | indexError    -- tensor / list indexed out of range
  | tapeEnd       -- the tape does not hold (a well-shaped answer to) the draw the code makes next
  | nonterm       -- a `while` loop of the code would never end
deriving Repr, DecidableEq

/-- which generator a draw uses -/
inductive Gen where
  | default          -- torch's global generator (`generator=None`)
  | user             -- a generator object handed in by the caller
  | made (k : Nat)   -- the k-th `torch.Generator()` created during this `__iter__`
deriving Repr, DecidableEq

/-- a request to torch's RNG -/
inductive Req where
  | newGen (seed : Int)                                         -- `torch.Generator().manual_seed(seed)`
  | randperm (g : Gen) (n : Nat)
  | multinomial (g : Gen) (nWeights k : Nat) (replacement : Bool)
  | randint (g : Gen) (high size : Nat)
  | randomScalar (g : Gen) (bits : Nat)                         -- `torch.empty((), dtype=int<bits>).random_(generator=g)`
deriving Repr, DecidableEq

abbrev Tape := List (List Nat)

/-- what one `list(sampler)` does: the requests made and the indices yielded (or the exception) -/
structure Run where
  reqs : List Req
  out : Except Err (List Nat)

/-! ### Python primitives -/

/-- `math.ceil(a / b)` for non-negative `a`, positive `b` -/
def ceilDiv (a b : Nat) : Nat := (a + b - 1) / b

/-- `len(range(start, stop, step))` -/
def sliceLen (start stop step : Nat) : Nat :=
  if start < stop then (stop - start + step - 1) / step else 0

/-- `xs[start:stop:step]` for non-negative `start`, `stop` and positive `step`:
    the elements at positions `start, start+step, …` below `min stop (len xs)` -/
def pySlice (xs : List Nat) (start stop step : Nat) : List Nat :=
  (List.range (sliceLen start (min stop xs.length) step)).filterMap (fun k => xs[start + k * step]?)

/-- `pool[idx]` with an index tensor/list: `IndexError` if any index is out of range
    (the default of `getD` is therefore never used) -/
def gather (pool idx : List Nat) : Except Err (List Nat) :=
  if idx.all (fun i => decide (i < pool.length)) then .ok (idx.map (fun i => pool.getD i 0))
  else .error .indexError

/-- `tensor.repeat_interleave(repeats=R)` -/
def repeatInterleave (R : Nat) (xs : List Nat) : List Nat := xs.flatMap (List.replicate R)

/-- python `list * c` -/
def tile (c : Nat) (xs : List Nat) : List Nat := (List.replicate c xs).flatten

/-- `x or d` for an optional non-negative integer: `None` and `0` are falsy -/
def orDefault (x : Option Nat) (d : Nat) : Nat :=
  match x with
  | none => d
  | some 0 => d
  | some v => v

/-- `rank or get_rank()` outside a process group -/
def rankOf (r : Option Nat) : Nat := orDefault r 0
/-- `world_size or get_world_size()` outside a process group -/
def wsOf (w : Option Nat) : Nat := orDefault w 1

/-- `(mask).nonzero().squeeze(1)`: the positions whose class satisfies `p`, ascending -/
def positions (p : Int → Bool) (classes : List Int) : List Nat :=
  (List.range classes.length).filter (fun i => match classes[i]? with | some c => p c | none => false)

/-- next tape entry, accepted only with the length torch guarantees for the request -/
def popLen (n : Nat) (t : Tape) : Option (List Nat × Tape) :=
  match t with
  | [] => none
  | p :: t' => if p.length = n then some (p, t') else none

/-- `k` consecutive draws of length `n` -/
def popK (n : Nat) : Nat → Tape → Option (List (List Nat) × Tape)
  | 0, t => some ([], t)
  | k + 1, t =>
    match popLen n t with
    | none => none
    | some (p, t') =>
      match popK n k t' with
      | none => none
      | some (ps, t'') => some (p :: ps, t'')

/-- the strided rank split followed by the tail cut used by the class-balanced and the weighted sampler:
    `indices[rank:effective_length:world_size][:len(self)]` -/
def rankSlice (g : List Nat) (rank W eff len : Nat) : List Nat := (pySlice g rank eff W).take len

/-! ### DistributedSampler -/

structure DistCfg where
  n : Nat          -- len(dataset)
  W : Nat          -- num_replicas
  rank : Nat
  shuffle : Bool
  seed : Int
  dropLast : Bool
  R : Nat          -- num_repeats
deriving Repr

/-- `super().__init__` (invalid rank) then `assert 1 <= num_repeats` -/
def distCtor (c : DistCfg) : Except Err Unit :=
  if c.W ≤ c.rank then .error .valueError
  else if c.R < 1 then .error .assertion
  else .ok ()

/-- `self.num_samples` (torch): `ceil((n - W) / W)` when dropping and not divisible, else `ceil(n / W)`.
    For `n < W` the quotient `(n - W) / W` lies in `(-1, 0)` and its ceiling is `0`. -/
def numSamples (n W : Nat) (dropLast : Bool) : Nat :=
  if dropLast && n % W != 0 then
    (if W ≤ n then ceilDiv (n - W) W else 0)
  else ceilDiv n W

def totalSize (c : DistCfg) : Nat := numSamples c.n c.W c.dropLast * c.W

/-- `__len__` -/
def distLen (c : DistCfg) : Nat := numSamples c.n c.W c.dropLast

/-- the seed of the epoch's generator: `self.seed + self.epoch` -/
def epochSeed (seed : Int) (epoch : Nat) : Int := seed + epoch

/-- the index list before padding: torch's branch (`num_repeats == 1`: permutation or `range(n)`) or the
    repeated-augmentation branch (`assert self.shuffle`; `repeat_interleave(R)[:n]`) -/
def distBase (c : DistCfg) (perm : List Nat) : Except Err (List Nat) :=
  if c.R = 1 then .ok (if c.shuffle then perm else List.range c.n)
  else if c.shuffle = false then .error .assertion
  else .ok ((repeatInterleave c.R perm).take c.n)

/-- pad by wrapping around (three branches) or cut the tail -/
def distPad (total : Nat) (dropLast : Bool) (indices : List Nat) : List Nat :=
  if dropLast = false then
    let padding := total - indices.length
    if padding ≤ indices.length then indices ++ indices.take padding
    else indices ++ (tile (ceilDiv padding indices.length) indices).take padding
  else indices.take total

/-- the global (rank independent) index list of one epoch incl. `assert len(indices) == self.total_size` -/
def distGlobal (c : DistCfg) (perm : List Nat) : Except Err (List Nat) :=
  match distBase c perm with
  | .error e => .error e
  | .ok indices =>
    let g := distPad (totalSize c) c.dropLast indices
    if g.length = totalSize c then .ok g else .error .assertion

/-- `indices[self.rank:self.total_size:self.num_replicas]` and `assert len(indices) == self.num_samples` -/
def distRankOf (c : DistCfg) (g : List Nat) : Except Err (List Nat) :=
  let s := pySlice g c.rank (totalSize c) c.W
  if s.length = distLen c then .ok s else .error .assertion

def distStream (c : DistCfg) (perm : List Nat) : Except Err (List Nat) :=
  match distGlobal c perm with
  | .error e => .error e
  | .ok g => distRankOf c g

/-- `__iter__` after `set_epoch(epoch)` -/
def distIter (c : DistCfg) (epoch : Nat) (tape : Tape) : Run :=
  if c.shuffle = false then
    -- no draw at all: torch's `list(range(n))` branch, or the failing `assert self.shuffle`
    ⟨[], distStream c []⟩
  else
    let reqs := [Req.newGen (epochSeed c.seed epoch), Req.randperm (.made 0) c.n]
    match popLen c.n tape with
    | none => ⟨reqs, .error .tapeEnd⟩
    | some (perm, _) => ⟨reqs, distStream c perm⟩

/-! ### RandomSampler -/

structure RandCfg where
  n : Nat                       -- len(data_source)
  replacement : Bool
  numSamplesArg : Option Nat
  userGen : Bool                -- a generator object was handed in
  R : Nat
deriving Repr

def randNumSamples (c : RandCfg) : Nat :=
  match c.numSamplesArg with
  | none => c.n
  | some k => k

/-- `__len__` / `effective_length` -/
def randLen (c : RandCfg) : Nat := randNumSamples c

def randCtor (c : RandCfg) : Except Err Unit :=
  if randNumSamples c = 0 then .error .valueError
  else if c.R < 1 then .error .assertion
  else .ok ()

/-- the draws after the generator is fixed -/
def randBody (c : RandCfg) (g : Gen) (tape : Tape) : Run :=
  let n := c.n
  let ns := randNumSamples c
  if c.R = 1 then
    -- torch.utils.data.RandomSampler.__iter__
    if c.replacement then
      let reqs := (List.replicate (ns / 32) (Req.randint g n 32)) ++ [Req.randint g n (ns % 32)]
      match popK 32 (ns / 32) tape with
      | none => ⟨reqs, .error .tapeEnd⟩
      | some (ps, t) =>
        match popLen (ns % 32) t with
        | none => ⟨reqs, .error .tapeEnd⟩
        | some (p, _) => ⟨reqs, .ok (ps.flatten ++ p)⟩
    else
      let reqs := List.replicate (ns / n + 1) (Req.randperm g n)
      match popK n (ns / n) tape with
      | none => ⟨reqs, .error .tapeEnd⟩
      | some (ps, t) =>
        match popLen n t with
        | none => ⟨reqs, .error .tapeEnd⟩
        | some (p, _) => ⟨reqs, .ok (ps.flatten ++ p.take (ns % n))⟩
  else
    let req := if c.replacement then Req.randint g n n else Req.randperm g n
    match popLen n tape with
    | none => ⟨[req], .error .tapeEnd⟩
    | some (d, _) => ⟨[req], .ok ((repeatInterleave c.R d).take n)⟩

/-- `__iter__`: without a generator a seed is drawn from the global generator first -/
def randIter (c : RandCfg) (tape : Tape) : Run :=
  if c.userGen then randBody c .user tape
  else
    match popLen 1 tape with
    | none => ⟨[Req.randomScalar .default 64], .error .tapeEnd⟩
    | some (v, t) =>
      let r := randBody c (.made 0) t
      ⟨[Req.randomScalar .default 64, Req.newGen (Int.ofNat (v.getD 0 0))] ++ r.reqs, r.out⟩

/-! ### ClassBalancedSampler -/

structure CBCfg where
  classes : List Int        -- getall_as_tensor(dataset, item="class")
  dimClass : Nat            -- dataset.getdim_class()
  shuffle : Bool
  spcArg : Option Nat       -- samples_per_class
  seed : Int
  rankArg : Option Nat
  wsArg : Option Nat
deriving Repr

def cbNumClasses (c : CBCfg) : Nat := max 2 c.dimClass

/-- `counts.max()` of `classes.unique(return_counts=True)` -/
def maxCount (classes : List Int) : Nat := (classes.map (fun v => classes.count v)).foldl max 0

/-- `assert len(unique) == self.num_classes` -/
def cbCtor (c : CBCfg) : Except Err Unit :=
  if c.classes.eraseDups.length = cbNumClasses c then .ok () else .error .assertion

/-- `self.indices_per_class` -/
def cbPools (c : CBCfg) : List (List Nat) :=
  (List.range (cbNumClasses c)).map (fun (i : Nat) => positions (fun v => v == Int.ofNat i) c.classes)

/-- `samples_per_class or counts.max().item()` -/
def cbSpc (c : CBCfg) : Nat := orDefault c.spcArg (maxCount c.classes)

def cbEffective (c : CBCfg) : Nat := cbNumClasses c * cbSpc c

/-- `__len__` -/
def cbLen (c : CBCfg) : Nat := cbEffective c / wsOf c.wsArg

/-- the permutation used by one pass of the `while` loop: a draw (shuffle) or `torch.arange` -/
def cbPerm (shuffle : Bool) (m : Nat) (t : Tape) : Option (List Nat × Tape) :=
  if shuffle then popLen m t else some (List.range m, t)

/-- the `while remaining_indices > 0` loop of one class (first argument: fuel).
    Returns (indices drawn for the class, the permutations it used, rest of the tape). -/
def cbClass (shuffle : Bool) (pool : List Nat) :
    Nat → Nat → Tape → Except Err (List Nat × List (List Nat) × Tape)
  | _, 0, t => .ok ([], [], t)
  | 0, _ + 1, _ => .error .nonterm
  | fuel + 1, rem + 1, t =>
    match cbPerm shuffle pool.length t with
    | none => .error .tapeEnd
    | some (p, t') =>
      match gather pool (p.take (rem + 1)) with
      | .error e => .error e
      | .ok xs =>
        match cbClass shuffle pool fuel (rem + 1 - (p.take (rem + 1)).length) t' with
        | .error e => .error e
        | .ok (ys, used, t'') => .ok (xs ++ ys, p :: used, t'')

/-- the `for indices_per_class in self.indices_per_class` loop: per class (drawn indices, used permutations).
    Every pass of the inner loop removes at least one remaining index unless the permutation is empty,
    so `spc` passes are enough fuel: running out of it means the real loop spins forever. -/
def cbDraw (shuffle : Bool) (spc : Nat) :
    List (List Nat) → Tape → Except Err (List (List Nat) × List (List (List Nat)) × Tape)
  | [], t => .ok ([], [], t)
  | pool :: ps, t =>
    match cbClass shuffle pool spc spc t with
    | .error e => .error e
    | .ok (xs, used, t') =>
      match cbDraw shuffle spc ps t' with
      | .error e => .error e
      | .ok (xss, useds, t'') => .ok (xs :: xss, used :: useds, t'')

structure CBGlobal where
  perClass : List (List Nat)          -- what was drawn for each class, before the final shuffle
  used : List (List (List Nat))       -- per class: the permutations used
  final : Option (List Nat)           -- the final shuffling permutation (shuffle only)
  g : List Nat                        -- the global draw (same on every rank)

/-- everything of `__iter__` before the rank split -/
def cbGlobal (c : CBCfg) (tape : Tape) : Except Err CBGlobal :=
  match cbDraw c.shuffle (cbSpc c) (cbPools c) tape with
  | .error e => .error e
  | .ok (xss, useds, t) =>
    if c.shuffle then
      match popLen xss.flatten.length t with
      | none => .error .tapeEnd
      | some (fp, _) =>
        match gather xss.flatten fp with
        | .error e => .error e
        | .ok g => .ok ⟨xss, useds, some fp, g⟩
    else .ok ⟨xss, useds, none, xss.flatten⟩

def cbReqs (c : CBCfg) (epoch : Nat) (G : CBGlobal) : List Req :=
  Req.newGen (epochSeed c.seed epoch) ::
    (if c.shuffle then
      (G.used.flatten.map (fun p => Req.randperm (.made 0) p.length)) ++ [Req.randperm (.made 0) G.perClass.flatten.length]
     else [])

/-- `__iter__` after `set_epoch(epoch)` -/
def cbIter (c : CBCfg) (epoch : Nat) (tape : Tape) : Run :=
  match cbGlobal c tape with
  | .error e => ⟨[Req.newGen (epochSeed c.seed epoch)], .error e⟩
  | .ok G => ⟨cbReqs c epoch G, .ok (rankSlice G.g (rankOf c.rankArg) (wsOf c.wsArg) (cbEffective c) (cbLen c))⟩

/-! ### WeightedSampler -/

structure WCfg where
  n : Nat                -- len(dataset)
  nWeights : Nat         -- len(weights)
  size : Option Nat
  seed : Int
  rankArg : Option Nat
  wsArg : Option Nat
deriving Repr

def wCtor (c : WCfg) : Except Err Unit :=
  if c.n = c.nWeights then .ok () else .error .assertion

/-- `effective_length` incl. `assert len(self.dataset) >= self.size` -/
def wEffective (c : WCfg) : Except Err Nat :=
  match c.size with
  | none => .ok c.n
  | some s => if s ≤ c.n then .ok s else .error .assertion

/-- `__len__` -/
def wLen (c : WCfg) : Except Err Nat :=
  match wEffective c with
  | .error e => .error e
  | .ok eff => .ok (eff / wsOf c.wsArg)

/-- `__iter__` after `set_epoch(epoch)`: the generator is created before `effective_length` is evaluated -/
def wIter (c : WCfg) (epoch : Nat) (tape : Tape) : Run :=
  let r0 := Req.newGen (epochSeed c.seed epoch)
  match wEffective c with
  | .error e => ⟨[r0], .error e⟩
  | .ok eff =>
    let reqs := [r0, Req.multinomial (.made 0) c.nWeights eff false]
    match popLen eff tape with
    | none => ⟨reqs, .error .tapeEnd⟩
    | some (g, _) => ⟨reqs, .ok (rankSlice g (rankOf c.rankArg) (wsOf c.wsArg) eff (eff / wsOf c.wsArg))⟩

/-! ### SemiSampler -/

inductive LengthMode where
  | labeled | unlabeled | all | invalid
deriving Repr, DecidableEq

structure SemiCfg where
  classes : List Int
  L : Nat                -- num_labeled
  U : Nat                -- num_unlabeled
  rankArg : Option Nat
  wsArg : Option Nat
  seed : Int
  mode : LengthMode
deriving Repr

def semiLabeled (c : SemiCfg) : List Nat := positions (fun v => v != -1) c.classes
def semiUnlabeled (c : SemiCfg) : List Nat := positions (fun v => v == -1) c.classes

def semiCtor (c : SemiCfg) : Except Err Unit :=
  if c.L < 1 then .error .assertion
  else if c.U < 1 then .error .assertion
  else if c.mode = .invalid then .error .assertion
  else if (semiLabeled c).length = 0 ∨ (semiUnlabeled c).length = 0 then .error .assertion
  else .ok ()

/-- number of (labeled chunk + unlabeled chunk) groups of one epoch for the three length modes -/
def semiChunks (c : SemiCfg) : Nat :=
  match c.mode with
  | .labeled => (semiLabeled c).length / c.L
  | .unlabeled => (semiUnlabeled c).length / c.U
  | _ => ((semiLabeled c).length + (semiUnlabeled c).length) / (c.L + c.U)

def semiEffective (c : SemiCfg) : Nat := semiChunks c * (c.L + c.U)

/-- `__len__` (takes no rank: the same on every rank) -/
def semiLen (c : SemiCfg) : Nat := semiEffective c / wsOf c.wsArg

/-- one yielded index: from which pool, which position of the pool, the dataset index, and the permutation
    that had to be drawn for it (if the pool's current permutation was used up) -/
structure Step where
  lab : Bool
  j : Nat
  val : Nat
  drew : Option (List Nat)
deriving Repr, DecidableEq

/-- `next(iterator)` of `_iterator(idxs)`: `buf` is what is left of the current permutation of a pool of
    size `m`. (An empty permutation would make the real generator draw again for ever; the constructor
    asserts non-empty pools and `popLen` only accepts `m` entries, hence `nonterm` only for `m = 0`.) -/
def semiNext (m : Nat) (buf : List Nat) (t : Tape) : Except Err (Nat × List Nat × Tape × Option (List Nat)) :=
  match buf with
  | j :: b => .ok (j, b, t, none)
  | [] =>
    match popLen m t with
    | none => .error .tapeEnd
    | some ([], _) => .error .nonterm
    | some (j :: b, t') => .ok (j, b, t', some (j :: b))

/-- `for i in range(len(self))`, started at `i` with `k` iterations to go -/
def semiLoop (L U : Nat) (lab unl : List Nat) :
    Nat → Nat → List Nat → List Nat → Tape → Except Err (List Step)
  | 0, _, _, _, _ => .ok []
  | k + 1, i, bufL, bufU, t =>
    if i % (L + U) < L then
      match semiNext lab.length bufL t with
      | .error e => .error e
      | .ok (j, bufL', t', drew) =>
        match lab[j]? with
        | none => .error .indexError
        | some x =>
          match semiLoop L U lab unl k (i + 1) bufL' bufU t' with
          | .error e => .error e
          | .ok rest => .ok (⟨true, j, x, drew⟩ :: rest)
    else
      match semiNext unl.length bufU t with
      | .error e => .error e
      | .ok (j, bufU', t', drew) =>
        match unl[j]? with
        | none => .error .indexError
        | some x =>
          match semiLoop L U lab unl k (i + 1) bufL bufU' t' with
          | .error e => .error e
          | .ok rest => .ok (⟨false, j, x, drew⟩ :: rest)

/-- the `randperm` requests of a run, in the order they were made -/
def semiStepReqs (steps : List Step) : List Req :=
  steps.filterMap (fun s => s.drew.map (fun p => Req.randperm (.made 2) p.length))

/-- the seed of the rank's generator: `self.seed + rank_seed.item() + epoch_seed.item()` -/
def semiSeed (seed : Int) (rankSeed epochSeedV : Nat) : Int := seed + rankSeed + epochSeedV

structure SemiRun where
  reqs : List Req
  steps : Except Err (List Step)

/-- `__iter__` after `set_epoch(epoch)` with its intermediate step list -/
def semiRun (c : SemiCfg) (epoch : Nat) (tape : Tape) : SemiRun :=
  let r1 := [Req.newGen (Int.ofNat (rankOf c.rankArg)), Req.randomScalar (.made 0) 32]
  match popLen 1 tape with
  | none => ⟨r1, .error .tapeEnd⟩
  | some (v1, t1) =>
    let r2 := r1 ++ [Req.newGen (Int.ofNat epoch), Req.randomScalar (.made 1) 32]
    match popLen 1 t1 with
    | none => ⟨r2, .error .tapeEnd⟩
    | some (v2, t2) =>
      let r3 := r2 ++ [Req.newGen (semiSeed c.seed (v1.getD 0 0) (v2.getD 0 0))]
      match semiLoop c.L c.U (semiLabeled c) (semiUnlabeled c) (semiLen c) 0 [] [] t2 with
      | .error e => ⟨r3, .error e⟩
      | .ok steps => ⟨r3 ++ semiStepReqs steps, .ok steps⟩

def semiIter (c : SemiCfg) (epoch : Nat) (tape : Tape) : Run :=
  let r := semiRun c epoch tape
  ⟨r.reqs, match r.steps with | .error e => .error e | .ok steps => .ok (steps.map (·.val))⟩

end KDVerif.Samplers
