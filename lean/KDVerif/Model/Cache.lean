/-
Model of `kappadata/caching/shared_dict_dataset.py : SharedDictDataset._cached_getitem / dispose` and
`kappadata/caching/cached_dataset.py : CachedDataset.__getitem__` (transform applied after the cache).

Shared state: the Manager dict (`dict : index ↦ cached raw sample`), plus two logs the property speaks about: the loads from
the wrapped dataset and the applications of the post-cache transform.  Any number of readers (processes holding a proxy of
the same dict) each run a program of `get i` / `clear` (= `dispose()`); a reader is a program counter over the *atomic* steps
of `_cached_getitem`:

    if idx not in self.shared_dict:          -- step `contains`         idle      → hit i | miss i
        sample = self.dataset[idx]           -- step `load`             miss i    → loaded i v
        self.shared_dict[idx] = sample       -- step `store` (+return)  loaded i v → idle
    else:
        try: sample = self.shared_dict[idx]  -- step `read` (+return)   hit i     → idle
        except KeyError: (load, store)       --   … entry disposed in between:    hit i → miss i
    return transform(sample)                 -- local to the reader: part of the step that obtains the sample

`dispose` is one atomic step (`shared_dict.clear()`).  A schedule is a list of reader ids; `run` lets the named reader perform
its next atomic step (a finished or unknown reader: no-op).  The wrapped dataset is a pure function `f`, the transform `t`.
No imports: core Lean only.
-/
namespace KDVerif.Cache

abbrev Val := Nat

inductive Op where
  | get (i : Nat)
  | clear
deriving Repr, DecidableEq

inductive Res where
  | val (i : Nat) (v : Val)    -- `cached[i]` returned `v`
  | cleared                    -- `dispose()` returned
deriving Repr, DecidableEq

inductive Pc where
  | idle
  | hit (i : Nat)              -- membership test answered "present"
  | miss (i : Nat)             -- membership test answered "absent" (or the read found the entry disposed)
  | loaded (i : Nat) (v : Val) -- sample loaded from the wrapped dataset, not yet stored
deriving Repr, DecidableEq

structure Reader where
  pc : Pc
  todo : List Op
  out : List Res
deriving Repr

/-- the part of the state all readers share -/
structure Shared where
  dict : Nat → Option Val
  loads : List Nat             -- indices loaded from the wrapped dataset, oldest first
  tapps : List Nat             -- indices whose sample went through the transform, oldest first

structure State where
  sh : Shared
  readers : List Reader

/-- observable atomic events (for the schedule-replay correspondence) -/
inductive Ev where
  | contains (i : Nat) (present : Bool)
  | read (i : Nat) (present : Bool)
  | load (i : Nat)
  | store (i : Nat)
  | clear
  | noop
deriving Repr, DecidableEq

def store (d : Nat → Option Val) (i : Nat) (v : Val) : Nat → Option Val :=
  fun k => if k = i then some v else d k

def emptyDict : Nat → Option Val := fun _ => none

/-- one atomic step of one reader -/
def stepReader (f : Nat → Val) (t : Val → Val) (sh : Shared) (rd : Reader) : Shared × Reader × Ev :=
  match rd.pc with
  | .idle =>
    match rd.todo with
    | [] => (sh, rd, .noop)
    | .get i :: rest =>
      match sh.dict i with
      | some _ => (sh, { rd with pc := .hit i, todo := rest }, .contains i true)
      | none => (sh, { rd with pc := .miss i, todo := rest }, .contains i false)
    | .clear :: rest =>
      ({ sh with dict := emptyDict }, { rd with todo := rest, out := rd.out ++ [.cleared] }, .clear)
  | .hit i =>
    match sh.dict i with
    | some v => ({ sh with tapps := sh.tapps ++ [i] }, { rd with pc := .idle, out := rd.out ++ [.val i (t v)] }, .read i true)
    | none => (sh, { rd with pc := .miss i }, .read i false)
  | .miss i => ({ sh with loads := sh.loads ++ [i] }, { rd with pc := .loaded i (f i) }, .load i)
  | .loaded i v =>
    ({ sh with dict := store sh.dict i v, tapps := sh.tapps ++ [i] },
     { rd with pc := .idle, out := rd.out ++ [.val i (t v)] }, .store i)

/-- reader `r` performs its next atomic step -/
def step (f : Nat → Val) (t : Val → Val) (r : Nat) (s : State) : State :=
  match s.readers[r]? with
  | none => s
  | some rd =>
    let x := stepReader f t s.sh rd
    { sh := x.1, readers := s.readers.set r x.2.1 }

def stepEv (f : Nat → Val) (t : Val → Val) (r : Nat) (s : State) : Ev :=
  match s.readers[r]? with
  | none => .noop
  | some rd => (stepReader f t s.sh rd).2.2

def run (f : Nat → Val) (t : Val → Val) : List Nat → State → State
  | [], s => s
  | r :: rest, s => run f t rest (step f t r s)

def events (f : Nat → Val) (t : Val → Val) : List Nat → State → List Ev
  | [], _ => []
  | r :: rest, s => stepEv f t r s :: events f t rest (step f t r s)

/-- empty cache, every reader at the start of its program -/
def init (progs : List (List Op)) : State :=
  { sh := ⟨emptyDict, [], []⟩, readers := progs.map (fun p => ⟨.idle, p, []⟩) }

/-- what the wrapped dataset followed by the transform answers -/
def spec (f : Nat → Val) (t : Val → Val) : Op → Res
  | .get i => .val i (t (f i))
  | .clear => .cleared

/-- sequential history: one reader, scheduled until it is done (`4` steps per operation always suffice) -/
def seqRun (f : Nat → Val) (t : Val → Val) (ops : List Op) : State :=
  run f t (List.replicate (4 * ops.length) 0) (init [ops])

/-- the loads a cache *should* make on a sequential history: `seen` = indices accessed since the last clear -/
def loadsSpec : List Op → List Nat → List Nat
  | [], _ => []
  | .get i :: rest, seen => if i ∈ seen then loadsSpec rest seen else i :: loadsSpec rest (i :: seen)
  | .clear :: rest, _ => loadsSpec rest []

end KDVerif.Cache
