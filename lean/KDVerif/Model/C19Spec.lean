/-
Variant of the shared-cache model (`KDVerif.Model.Cache`) with MUTABLE payloads, for the part of C19 that the `Val := Nat`
abstraction cannot express: `SharedDictDataset._cached_getitem` returns `deepcopy(sample)`, because a tensor sent to the
Manager travels via shared memory — the cached tensor and the tensor handed out share their storage, and the post-cache
transform (`CachedDataset.__getitem__`) may work in place.

A sample is a *cell* of a heap (address = position in `heap`, contents = what the cell currently holds); the dict maps an
index to the address of the cached cell; `loaded i a` = the reader holds the cell `a` it has just loaded.  Handing out a
sample (`handOut`): with `copy` a fresh cell with the same contents is allocated (`deepcopy`), without it the cached cell
itself is handed out; then the transform overwrites the handed-out cell in place and the reader gets its contents.
The control structure (atomic steps, readers, schedules, events) is the one of `KDVerif.Model.Cache`.
No imports other than that model: core Lean only.
-/
import KDVerif.Model.Cache

namespace KDVerif.Cache.Mut
open KDVerif.Cache

structure MShared where
  heap : List Val              -- contents of the cells allocated so far
  dict : Nat → Option Nat      -- index ↦ address of the cached cell

structure MState where
  sh : MShared
  readers : List Reader        -- `Pc.loaded i a`: `a` is an address

/-- hand out the sample held in cell `a` and run the in-place transform on what was handed out:
    returns the new heap and the value the reader sees -/
def handOut (copy : Bool) (t : Val → Val) (heap : List Val) (a : Nat) : List Val × Val :=
  let heap1 := if copy then heap ++ [heap.getD a 0] else heap      -- `deepcopy(sample)` allocates a fresh cell
  let a' := if copy then heap.length else a                         -- the cell that is handed out
  let heap2 := heap1.set a' (t (heap1.getD a' 0))                   -- the transform works in place
  (heap2, heap2.getD a' 0)

/-- one atomic step of one reader (same steps and events as `Cache.stepReader`) -/
def mstepReader (copy : Bool) (f : Nat → Val) (t : Val → Val) (sh : MShared) (rd : Reader) : MShared × Reader × Ev :=
  match rd.pc with
  | .idle =>
    match rd.todo with
    | [] => (sh, rd, .noop)
    | .get i :: rest =>
      match sh.dict i with
      | some _ => (sh, { rd with pc := .hit i, todo := rest }, .contains i true)
      | none => (sh, { rd with pc := .miss i, todo := rest }, .contains i false)
    | .clear :: rest =>
      ({ sh with dict := emptyDict }, { rd with todo := rest, out := rd.out ++ [.cleared] }, .clear)
  | .hit i =>
    match sh.dict i with
    | some a =>
      let x := handOut copy t sh.heap a
      ({ sh with heap := x.1 }, { rd with pc := .idle, out := rd.out ++ [.val i x.2] }, .read i true)
    | none => (sh, { rd with pc := .miss i }, .read i false)
  | .miss i =>
    -- the wrapped dataset produces a fresh cell holding `f i`
    ({ sh with heap := sh.heap ++ [f i] }, { rd with pc := .loaded i sh.heap.length }, .load i)
  | .loaded i a =>
    -- `shared_dict[idx] = sample`: the cached cell IS the loaded cell (shared storage)
    let x := handOut copy t sh.heap a
    ({ heap := x.1, dict := store sh.dict i a }, { rd with pc := .idle, out := rd.out ++ [.val i x.2] }, .store i)

def mstep (copy : Bool) (f : Nat → Val) (t : Val → Val) (r : Nat) (s : MState) : MState :=
  match s.readers[r]? with
  | none => s
  | some rd =>
    let x := mstepReader copy f t s.sh rd
    { sh := x.1, readers := s.readers.set r x.2.1 }

def mrun (copy : Bool) (f : Nat → Val) (t : Val → Val) : List Nat → MState → MState
  | [], s => s
  | r :: rest, s => mrun copy f t rest (mstep copy f t r s)

def minit (progs : List (List Op)) : MState :=
  { sh := ⟨[], emptyDict⟩, readers := progs.map (fun p => ⟨.idle, p, []⟩) }

/-- the contents of the cell cached for index `i` (if any) -/
def cachedContents (s : MState) (i : Nat) : Option Val :=
  match s.sh.dict i with
  | some a => s.sh.heap[a]?
  | none => none

end KDVerif.Cache.Mut
