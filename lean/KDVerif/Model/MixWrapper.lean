/-
Model of the sample-level mix wrapper (C11).

Mirrors `kappadata/wrappers/sample_wrappers/kd_mix_wrapper.py`:
  `KDMixWrapper.__init__`        ↦ `ctor`
  `KDMixWrapper.getitem_xclass`  ↦ `getitemXClass` (draw order: apply, partner index, lambda), with the
        `pad_or_cut_end` branch as the code's sequential per-dimension loop `unifyLoop`
        (`torch.nn.functional.pad` ↦ `torchPad`, which interprets the `paddings` list the way torch does;
         `index_select(dim, arange(n))` ↦ `indexSelectPrefix`) and, separately, the closed form `unifyClosed`
  `getitem_x`, `getitem_class`, `fused_operations` + the ModeWrapper call plan ↦ `modeGet`
and `kappadata/utils/one_hot.py: to_one_hot_vector` on an int label ↦ `oneHot`.

Conventions: reals are `Rat`; a tensor is (rank, extents, element function on index tuples); the generator is
`np.random.default_rng(seed + idx)` per call, its draws come in as a tape recorded from the real run (each
call has its own tape; with a seed all calls for one index see the same tape).
Not modelled: Beta sampling, float32 rounding, in-place mutation of tensors handed out by the wrapped dataset.
-/
namespace KDVerif.MixWrapper

inductive Err where
  | assertion | notImplemented | typeError | runtime | tape
  deriving Repr, DecidableEq

/-- `mixup_unify_shapes_mode`: `None`, `"pad_or_cut_end"`, any other string -/
inductive Unify where
  | padOrCutEnd | other
  deriving Repr, DecidableEq

structure Cfg where
  mixupP : Rat
  cutmixP : Rat
  /-- `self.total_p` = float sum `mixup_p + cutmix_p` (handed in) -/
  totalP : Rat
  mixupAlpha : Option Rat
  cutmixAlpha : Option Rat
  unify : Option Unify

structure CtorArgs where
  mixupP : Option Rat
  cutmixP : Option Rat
  mixupAlpha : Option Rat
  cutmixAlpha : Option Rat
  unify : Option Unify
  floatSum : Rat

def orZero (x : Option Rat) : Rat := x.getD 0

def alphaPos (alpha : Option Rat) : Bool :=
  match alpha with
  | some a => decide (0 < a)
  | none => false

/-- `KDMixWrapper.__init__` (argument checks in the order of the code) -/
def ctor (a : CtorArgs) : Except Err Cfg :=
  if a.mixupP.isNone && a.cutmixP.isNone then .error .assertion else
  let mp := orZero a.mixupP
  let cp := orZero a.cutmixP
  if !(decide (0 ≤ mp) && decide (mp ≤ 1)) then .error .assertion else
  if !(decide (0 ≤ cp) && decide (cp ≤ 1)) then .error .assertion else
  if !(decide (0 < a.floatSum) && decide (a.floatSum ≤ 1)) then .error .assertion else
  if !(if mp == 0 then a.mixupAlpha.isNone && a.unify.isNone else alphaPos a.mixupAlpha) then .error .assertion else
  if !(if cp == 0 then a.cutmixAlpha.isNone else alphaPos a.cutmixAlpha) then .error .assertion else
  .ok ⟨mp, cp, a.floatSum, a.mixupAlpha, a.cutmixAlpha, a.unify⟩

/-! ### tensors -/

structure Ten where
  rank : Nat
  shape : Nat → Nat
  el : (Nat → Nat) → Rat

/-- index tuple `ι` addresses an element of a tensor with the given extents -/
def InRange (n : Nat) (shape ι : Nat → Nat) : Prop := ∀ d, d < n → ι d < shape d

instance (n : Nat) (shape ι : Nat → Nat) : Decidable (InRange n shape ι) := by
  unfold InRange; exact inferInstance

def shapeList (t : Ten) : List Nat := (List.range t.rank).map t.shape

/-- `torch.nn.functional.pad(t, pads, mode="constant", value=0.)`:
    `pads = [left_last, right_last, left_(last-1), right_(last-1), …]` -/
def torchPad (t : Ten) (pads : List Nat) : Ten :=
  let n := t.rank
  let lp := fun d => pads.getD (2 * (n - 1 - d)) 0
  let rp := fun d => pads.getD (2 * (n - 1 - d) + 1) 0
  { rank := n
    shape := fun d => if d < n then lp d + t.shape d + rp d else t.shape d
    el := fun ι =>
      if ∀ d, d < n → lp d ≤ ι d ∧ ι d < lp d + t.shape d then t.el (fun d => ι d - lp d) else 0 }

/-- `t.index_select(dim=i, index=torch.arange(m))` (keeps the first `m` entries along `i`) -/
def indexSelectPrefix (t : Ten) (i m : Nat) : Ten :=
  { rank := t.rank, shape := fun d => if d = i then m else t.shape d, el := t.el }

/-- `deltas = [s - s2 for s, s2 in zip(x.shape, x2.shape)]` -/
def deltas (x x2 : Ten) : List Int :=
  List.zipWith (fun (s s2 : Nat) => (s : Int) - (s2 : Int)) (shapeList x) (shapeList x2)

/-- one iteration of `for i, delta in enumerate(deltas)` -/
def unifyStep (x : Ten) (ds : List Int) (acc : Ten) (i : Nat) : Ten :=
  let delta := ds.getD i 0
  if delta = 0 then acc
  else if delta > 0 then
    -- paddings = [0] * ((len(deltas) - i) * 2 - 1) + [delta]
    torchPad acc (List.replicate ((ds.length - i) * 2 - 1) 0 ++ [delta.toNat])
  else indexSelectPrefix acc i (x.shape i)

/-- the `pad_or_cut_end` loop of the code -/
def unifyLoop (x x2 : Ten) : Ten :=
  let ds := deltas x x2
  (List.range ds.length).foldl (unifyStep x ds) x2

/-- closed form: `x`'s extents, `x2`'s content where both overlap, zeros elsewhere -/
def unifyClosed (x x2 : Ten) : Ten :=
  { rank := x2.rank
    shape := fun d => if d < x2.rank then x.shape d else x2.shape d
    el := fun ι => if InRange x2.rank x2.shape ι then x2.el ι else 0 }

/-- `x.mul_(lam).add_(x2.mul_(1 - lam))` (same shapes) -/
def mixTen (lam : Rat) (x x2 : Ten) : Ten :=
  { rank := x.rank, shape := x.shape, el := fun ι => lam * x.el ι + (1 - lam) * x2.el ι }

def sameShape (x x2 : Ten) : Bool := shapeList x == shapeList x2

/-! ### labels -/

/-- `to_one_hot_vector(int, n_classes)`; torch raises `RuntimeError` for a class `≥ n_classes` -/
def oneHot (n c : Nat) : Except Err (List Rat) :=
  if c < n then .ok ((List.range n).map (fun k => if k = c then 1 else 0)) else .error .runtime

/-- `cls.mul_(lamb).add_(cls2.mul_(1. - lamb))` -/
def mixRow (lam : Rat) (y y2 : List Rat) : List Rat := List.zipWith (fun a b => lam * a + (1 - lam) * b) y y2

/-! ### draws -/

inductive Draw where
  /-- `rng.random()` -/
  | unif (v : Rat)
  /-- `rng.integers(hi)` -/
  | int (hi : Nat) (v : Nat)
  /-- `rng.beta(alpha, alpha)` -/
  | beta (alpha : Rat) (v : Rat)
  | other

abbrev Tape := List Draw

def Draw.Ok : Draw → Prop
  | .unif v => 0 ≤ v ∧ v < 1
  | .int hi v => v < hi
  | .beta _ v => 0 ≤ v ∧ v ≤ 1
  | .other => True

def TapeOk (t : Tape) : Prop := ∀ d ∈ t, d.Ok

structure DS where
  len : Nat
  x : Nat → Ten
  cls : Nat → Nat
  /-- `getdim_class()` -/
  nClasses : Nat

def needAlpha : Option Rat → Except Err Rat
  | some a => .ok a
  | none => .error .typeError

/-- the shape-unification step of the mixup branch -/
def unifyWith (cfg : Cfg) (x x2 : Ten) : Except Err Ten :=
  match cfg.unify with
  | none => if sameShape x x2 then .ok x2 else .error .assertion      -- assert x.shape == x2.shape
  | some .padOrCutEnd => .ok (unifyLoop x x2)
  | some .other => .error .notImplemented

/-- `KDMixWrapper.getitem_xclass(idx)` with the draws of its generator -/
def getitemXClass (cfg : Cfg) (tape : Tape) (ds : DS) (i : Nat) : Except Err (Ten × List Rat) :=
  let x := ds.x i
  let c := ds.cls i
  match tape with
  | .unif apply :: t1 =>
    if apply > cfg.totalP then
      -- nothing applied: one-hot label
      match oneHot ds.nClasses c, t1 with
      | .ok oh, [] => .ok (x, oh)
      | .ok _, _ => .error .tape
      | .error e, _ => .error e
    else
      let useCutmix := decide (apply < cfg.cutmixP)
      match t1 with
      | .int hi idx2 :: t2 =>
        if hi ≠ ds.len then .error .tape else
        let x2 := ds.x idx2
        let c2 := ds.cls idx2
        match oneHot ds.nClasses c, oneHot ds.nClasses c2 with
        | .ok cls, .ok cls2 =>
          match needAlpha (if useCutmix then cfg.cutmixAlpha else cfg.mixupAlpha) with
          | .error e => .error e
          | .ok alpha =>
            match t2 with
            | [.beta a lam] =>
              if a ≠ alpha then .error .tape else
              if useCutmix then .error .notImplemented else
              match unifyWith cfg x x2 with
              | .error e => .error e
              | .ok x2' => .ok (mixTen lam x x2', mixRow lam cls cls2)
            | _ => .error .tape
        | .error e, _ => .error e
        | _, .error e => .error e
      | _ => .error .tape
  | _ => .error .tape

/-! ### what ModeWrapper calls for the four request layouts -/

inductive Req where
  /-- mode "x class": the fused `getitem_xclass` -/
  | xclass
  /-- mode "class x": `getitem_class`, then the fused `getitem_xclass` whose results overwrite both slots -/
  | classx
  /-- mode "x": `getitem_x = getitem_xclass(idx)[0]` -/
  | x
  /-- mode "class": `getitem_class = getitem_xclass(idx)[1]` -/
  | cls
  deriving Repr, DecidableEq

/-- `tapes k` = draws of the generator created by the `k`-th `getitem_xclass` call of this request -/
def modeGet (cfg : Cfg) (tapes : Nat → Tape) (ds : DS) (i : Nat) : Req → Except Err (Option Ten × Option (List Rat))
  | .xclass =>
    match getitemXClass cfg (tapes 0) ds i with
    | .ok r => .ok (some r.1, some r.2)
    | .error e => .error e
  | .classx =>
    match getitemXClass cfg (tapes 0) ds i with
    | .error e => .error e
    | .ok _ =>
      match getitemXClass cfg (tapes 1) ds i with
      | .ok r => .ok (some r.1, some r.2)
      | .error e => .error e
  | .x =>
    match getitemXClass cfg (tapes 0) ds i with
    | .ok r => .ok (some r.1, none)
    | .error e => .error e
  | .cls =>
    match getitemXClass cfg (tapes 0) ds i with
    | .ok r => .ok (none, some r.2)
    | .error e => .error e

end KDVerif.MixWrapper
