/-
Model of the label-rewriting / label-encoding wrappers (property C16).

  wrappers/dataset_wrappers/class_groups_wrapper.py      → `cgCtor`, `cgMap` (`_map_cls`), `cgGetitem`, `cgGetall`
  wrappers/dataset_wrappers/random_superclass_wrapper.py → `rsCtor`, `rsMap`, `rsGetitem`, `rsGetall`, `rsShape`
  wrappers/dataset_wrappers/swap_label_wrapper.py        → `swCtor`, `swGetitem`, `swGetall`
  wrappers/dataset_wrappers/overwrite_classes_wrapper.py → `owCtor`, `owGetitem`, `owGetall`
  wrappers/dataset_wrappers/allgather_class_wrapper.py   → `agCtor` (pad → `rearrange` → cut), `agGetitem`, `agGetall`
  wrappers/dataset_wrappers/kd_pseudo_label_wrapper.py   → `plCtor`, `plGetitem` (`_getitem_class`), `plGetall`
  wrappers/sample_wrappers/kd_random_class_wrapper.py    → `rcCtor` (`_random`, `_randperm`, `_gatherbug`), `rcGetitem`, `rcGetall`
  wrappers/sample_wrappers/semi_wrapper.py               → `smCtor`, `smGetitem`, `smGetall`
  wrappers/sample_wrappers/label_smoothing_wrapper.py    → `lsCtor`, `lsEncode`, `lsGetitem` (bulk path is the delegated one)
  wrappers/sample_wrappers/one_hot_wrapper.py, utils/one_hot.py → `ohEncode`, `ohGetitem` (bulk path is the delegated one)

The wrapped dataset is a list of labels: `getitem_class(i) = labels[i]`, `getall_class() = labels` (a fresh list),
`getshape_class() = (nc,)`; -1 = unlabeled.

Randomness: the model never implements a generator. Every draw the code makes is an argument (the *tape*), in the
order the code makes it:
  `rng.permuted(table)`       → the permuted table itself                         (ClassGroupsWrapper)
  `rng.permutation(k)`        → the permutation of `range k`                      (RandomSuperclass ×2, Semi)
  `rng.random(size=n)`        → the n uniforms as exact rationals (a double is one) (SwapLabel)
  `rng.integers(0, nc, n)`    → the n integers                                    (SwapLabel)
  `rng.integers(k)` / `rng.multinomial(1, w).argmax()` → one position `< k`      (KDPseudoLabel top-k)
  `torch.randint(nc, (n,))`, `torch.randperm(nc)`                                 (KDRandomClassWrapper)
Theorems quantify over all tapes satisfying the generators' contracts.

Floats: `int(len * semi_percent)` is handed in as an integer (float front end outside the model);
`softmax(row).max() > threshold` is handed in as one oracle bit per row, `torch.topk(row, k).indices` as one oracle
row of positions per row; label smoothing / one-hot are computed over exact rationals.

State after the repairs of this round (fix: commits): `AllgatherClassWrapper.getall_class`,
`OverwriteClassesWrapper.getall_class` and the thresholded branch of `KDPseudoLabelWrapper.getall_class`
are list comprehensions over `getitem_class`.

No imports: core Lean only.
-/
namespace KDVerif.Labels

inductive Err where
  | assertion        -- AssertionError
  | notImplemented   -- NotImplementedError
  | index            -- IndexError
  | zeroDiv          -- ZeroDivisionError
  | einops           -- einops.EinopsError (length not divisible by world_size)
  | runtime          -- RuntimeError (torch.topk with k > row length, one_hot of a label outside 0..n-1)
  | tape             -- the tape handed to the model lacks a draw the code made (driver input error)
deriving Repr, DecidableEq

/-! ### Python primitives -/

/-- `l[i]` for a non-negative Python int: `IndexError` outside -/
def listGet (l : List α) (i : Nat) : Except Err α :=
  match l[i]? with
  | some x => .ok x
  | none => .error .index

/-- `l[i]` for any Python int on a list / ndarray / tensor: negative `i` counts from the end -/
def pyGet (l : List α) (i : Int) : Except Err α :=
  let j : Int := if i < 0 then i + (l.length : Int) else i
  if j < 0 then .error .index else listGet l j.toNat

/-- `[f(x) for x in xs]` where `f` may raise: the first exception wins -/
def mapE (f : α → Except Err β) : List α → Except Err (List β)
  | [] => .ok []
  | x :: xs =>
    match f x with
    | .error e => .error e
    | .ok y =>
      match mapE f xs with
      | .error e => .error e
      | .ok ys => .ok (y :: ys)

/-- `[f(i) for i in range(n)]` -/
def forRange (n : Nat) (f : Nat → Except Err β) : Except Err (List β) := mapE f (List.range n)

/-- `[f(idx, c) for idx, c in enumerate(xs, start=k)]` -/
def forEnumFrom (f : Nat → α → Except Err β) : Nat → List α → Except Err (List β)
  | _, [] => .ok []
  | k, c :: cs =>
    match f k c with
    | .error e => .error e
    | .ok y =>
      match forEnumFrom f (k + 1) cs with
      | .error e => .error e
      | .ok ys => .ok (y :: ys)

/-- `math.ceil(a / b)` for small non-negative ints, `b > 0` -/
def ceilDiv (a b : Nat) : Nat := (a + b - 1) / b

/-- fancy indexing `x[pos]` -/
def gather (x : List α) (pos : List Nat) : List α := pos.filterMap (fun j => x[j]?)

/-- the `defaultdict(int)` counter loop: entry i = number of earlier samples with the same class -/
def idxWithinGo : List Int → List Int → List Nat
  | [], _ => []
  | c :: cs, seen => seen.count c :: idxWithinGo cs (c :: seen)

def idxWithin (cls : List Int) : List Nat := idxWithinGo cls []

/-- the wrapped dataset's `getitem_class` -/
def dsGet (labels : List Int) (i : Nat) : Except Err Int := listGet labels i

/-! ### ClassGroupsWrapper -/

structure CG where
  labels : List Int
  cpg : Nat
  table : List Nat      -- cls_to_clsgroup
  within : List Nat     -- idx_within_class
deriving Repr

/-- `np.arange(num_clsgroups).repeat(classes_per_group)` -/
def cgTable0 (nc cpg : Nat) : List Nat :=
  (List.range (ceilDiv nc cpg)).flatMap (fun g => List.replicate cpg g)

/-- `__init__`; `permuted` = result of `rng.permuted(cls_to_clsgroup)` (read only when `shuffle`) -/
def cgCtor (labels : List Int) (nc cpg : Nat) (shuffle : Bool) (permuted : List Nat) : Except Err CG :=
  if cpg = 0 then .error .zeroDiv
  else .ok ⟨labels, cpg, if shuffle then permuted else cgTable0 nc cpg, idxWithin labels⟩

/-- `_map_cls(idx, cls)` -/
def cgMap (st : CG) (idx : Nat) (cls : Int) : Except Err Int :=
  match pyGet st.table cls with
  | .error e => .error e
  | .ok g =>
    match listGet st.within idx with
    | .error e => .error e
    | .ok w => .ok ((g * st.cpg + w % st.cpg : Nat) : Int)

def cgGetitem (st : CG) (idx : Nat) : Except Err Int :=
  match dsGet st.labels idx with
  | .error e => .error e
  | .ok c => cgMap st idx c

def cgGetall (st : CG) : Except Err (List Int) := forEnumFrom (cgMap st) 0 st.labels

/-! ### RandomSuperclassWrapper -/

structure RS where
  labels : List Int
  cps : Nat
  splits : Nat
  og : Nat                      -- og_num_classes
  perm : List Nat
  within : Option (List Nat)    -- idx_within_class (None unless superclass_splits > 1)
deriving Repr

/-- `np.argsort(p)` for a permutation `p` of `range(len p)`: entry v = position of v -/
def argsortPerm (p : List Nat) : List Nat := (List.range p.length).map (fun v => p.idxOf v)

/-- `__init__`; `perm1` = `rng.permutation(nc)`, `perm2` = `rng.permutation(len(classes))` (read only when `shuffle`) -/
def rsCtor (labels : List Int) (nc cps splits : Nat) (shuffle : Bool) (perm1 perm2 : List Nat) : Except Err RS :=
  if cps = 0 then .error .zeroDiv
  else
    let perm := if shuffle then perm1 else List.range nc
    let within :=
      if splits > 1 then
        let p2 := if shuffle then perm2 else List.range labels.length
        some (gather (idxWithin (gather labels p2)) (argsortPerm p2))
      else none
    .ok ⟨labels, cps, splits, ceilDiv nc cps, perm, within⟩

/-- `getshape_class()[0]` -/
def rsShape (st : RS) : Nat := st.og * st.splits

def rsMap (st : RS) (idx : Nat) (cls : Int) : Except Err Int :=
  match pyGet st.perm cls with
  | .error e => .error e
  | .ok p =>
    match st.within with
    | none => .ok ((p / st.cps : Nat) : Int)
    | some ws =>
      match listGet ws idx with
      | .error e => .error e
      | .ok w => .ok ((p / st.cps + w % st.splits * st.og : Nat) : Int)

def rsGetitem (st : RS) (idx : Nat) : Except Err Int :=
  match dsGet st.labels idx with
  | .error e => .error e
  | .ok c => rsMap st idx c

def rsGetall (st : RS) : Except Err (List Int) := forEnumFrom (rsMap st) 0 st.labels

/-! ### SwapLabelWrapper -/

structure SW where
  classes : List Int
  apply : List Bool
deriving Repr, DecidableEq

/-- `__init__`; `us` = `rng.random(size=n)`, `news` = `rng.integers(0, nc, size=n)` -/
def swCtor (labels : List Int) (p : Rat) (us : List Rat) (news : List Int) : Except Err SW :=
  if 0 ≤ p ∧ p ≤ 1 then
    let apply := us.map (fun u => decide (u < p))
    .ok ⟨List.zipWith (fun (an : Bool × Int) og => if an.1 then an.2 else og) (apply.zip news) labels, apply⟩
  else .error .assertion

def swGetitem (st : SW) (idx : Nat) : Except Err Int := listGet st.classes idx
def swGetall (st : SW) : Except Err (List Int) := .ok st.classes
def swGetitemApply (st : SW) (idx : Nat) : Except Err Bool := listGet st.apply idx

/-! ### OverwriteClassesWrapper (classes=... form) -/

structure OW where
  classes : List Int
  n : Nat
deriving Repr

def owCtor (labels : List Int) (classes : List Int) : Except Err OW :=
  if classes.length = labels.length then .ok ⟨classes, labels.length⟩ else .error .assertion

def owGetitem (st : OW) (idx : Nat) : Except Err Int := listGet st.classes idx
def owGetall (st : OW) : Except Err (List Int) := forRange st.n (owGetitem st)

/-! ### AllgatherClassWrapper -/

/-- `einops.rearrange(xs, "(s w) -> (w s)", w=W)` for `W > 0` -/
def rearrange (xs : List α) (W : Nat) : Except Err (List α) :=
  if xs.length % W ≠ 0 then .error .einops
  else
    .ok ((List.range W).flatMap (fun wi => (List.range (xs.length / W)).filterMap (fun si => xs[si * W + wi]?)))

/-- `(world_size - n % world_size) % world_size` -/
def padCount (n W : Nat) : Nat := (W - n % W) % W

structure AG where
  labels : List Int
  indices : List Nat
deriving Repr

def agIndices (n W : Nat) : Except Err (List Nat) :=
  if W = 0 then .error .zeroDiv
  else
    let idx := List.range n
    let pad := padCount n W
    let idx1 := if pad > 0 then idx ++ idx.take pad else idx
    match rearrange idx1 W with
    | .error e => .error e
    | .ok idx2 => .ok (if pad > 0 then idx2.take (idx2.length - pad) else idx2)

def agCtor (labels : List Int) (W : Nat) : Except Err AG :=
  match agIndices labels.length W with
  | .error e => .error e
  | .ok ix => .ok ⟨labels, ix⟩

def agGetitem (st : AG) (idx : Nat) : Except Err Int :=
  match listGet st.indices idx with
  | .error e => .error e
  | .ok j => dsGet st.labels j

def agGetall (st : AG) : Except Err (List Int) := forRange st.labels.length (agGetitem st)

/-! ### KDPseudoLabelWrapper (pseudo_labels=... form) -/

inductive Tau where
  | none | inf | fin
deriving Repr, DecidableEq

inductive PTable where
  | hard (ls : List Int)            -- 1-d tensor of labels
  | soft (rows : List (List Rat))   -- 2-d tensor of logits / probabilities
deriving Repr

structure PL where
  n : Nat                        -- len(dataset)
  table : PTable
  thr : Option (List Bool)       -- threshold given; bit i = (softmax(row i).max() > threshold)
  topk : Option Nat
  tau : Tau
  topkIdx : List (List Nat)      -- row i = torch.topk(row i, k).indices (read only when topk is given)
deriving Repr

/-- `tensor.argmax()`: position of the first maximal entry -/
def argmaxGo : List Rat → Nat → Nat → Rat → Nat
  | [], _, bi, _ => bi
  | y :: ys, pos, bi, bv => if bv < y then argmaxGo ys (pos + 1) pos y else argmaxGo ys (pos + 1) bi bv

def argmax : List Rat → Nat
  | [] => 0
  | x :: xs => argmaxGo xs 1 0 x

/-- the asserts of `__init__`; `C` = `dataset.getshape_class()[0]` -/
def plCtor (n C : Nat) (table : PTable) (thr : Option (List Bool)) (topk : Option Nat) (tau : Tau)
    (topkIdx : List (List Nat)) : Except Err PL :=
  match table with
  | .hard ls => if ls.length = n then .ok ⟨n, table, thr, topk, tau, topkIdx⟩ else .error .assertion
  | .soft rows =>
    if rows.length = n ∧ rows.all (fun r => r.length == C) = true then .ok ⟨n, table, thr, topk, tau, topkIdx⟩
    else .error .assertion

/-- `getitem_class(idx)`; `draw` = the position this call draws (read only when topk is given) -/
def plGetitem (st : PL) (idx : Nat) (draw : Nat) : Except Err Int :=
  match st.topk with
  | some k =>
    if st.thr.isSome then .error .assertion
    else
      match st.table with
      | .hard _ => .error .assertion
      | .soft rows =>
        match listGet rows idx with
        | .error e => .error e
        | .ok row =>
          if k > row.length then .error .runtime
          else
            match st.topkIdx[idx]? with
            | none => .error .tape
            | some ids =>
              match listGet ids draw with
              | .error e => .error e
              | .ok c => .ok (c : Int)
  | none =>
    if st.tau ≠ .none then .error .assertion
    else
      match st.table with
      | .hard ls => if st.thr.isSome then .error .assertion else listGet ls idx
      | .soft rows =>
        match listGet rows idx with
        | .error e => .error e
        | .ok row =>
          match st.thr with
          | none => .ok (argmax row : Int)
          | some bits =>
            match bits[idx]? with
            | none => .error .tape
            | some b => .ok (if b then (argmax row : Int) else -1)

def plGetall (st : PL) : Except Err (List Int) :=
  if st.tau ≠ .none ∨ st.topk.isSome then .error .notImplemented
  else if st.thr.isSome then forRange st.n (fun i => plGetitem st i 0)
  else
    match st.table with
    | .hard ls => .ok ls
    | .soft rows => .ok (rows.map (fun r => (argmax r : Int)))

/-! ### KDRandomClassWrapper -/

inductive RCMode where
  | random | randperm | gatherbug (W : Nat) | other
deriving Repr

/-- `tensor.repeat(ceil(size / nc))[:size]` -/
def repeatTake (p : List Nat) (size nc : Nat) : List Nat :=
  (List.replicate (ceilDiv size nc) p).flatten.take size

/-- `_generate_classes`; `ints` = `torch.randint(nc, (n,))`, `perm` = `torch.randperm(nc)` -/
def rcCtor (n nc : Nat) (mode : RCMode) (ints perm : List Nat) : Except Err (List Nat) :=
  match mode with
  | .random => .ok ints
  | .randperm => if nc = 0 then .error .zeroDiv else .ok (repeatTake perm n nc)
  | .gatherbug W =>
    if nc = 0 then .error .zeroDiv
    else if W = 0 then .error .zeroDiv
    else
      let spc := (n + nc - 1) / nc
      let classes := ((List.range nc).flatMap (fun c => List.replicate spc c)).take n
      let pad := padCount n W
      let c1 := if pad > 0 then classes ++ classes.take pad else classes
      match rearrange c1 W with
      | .error e => .error e
      | .ok c2 => .ok (if pad > 0 then c2.take n else c2)
  | .other => .error .notImplemented

def rcGetitem (classes : List Nat) (idx : Nat) : Except Err Int :=
  match listGet classes idx with
  | .error e => .error e
  | .ok c => .ok (c : Int)

def rcGetall (classes : List Nat) : Except Err (List Int) := .ok (classes.map (fun (c : Nat) => (c : Int)))

/-! ### SemiWrapper -/

structure SM where
  labels : List Int
  semi : List Nat       -- semi_idxs (a set; iteration order does not influence the result)
deriving Repr

/-- `__init__`; `pOk` = `0 <= semi_percent <= 1`, `k` = `int(len * semi_percent)`, `perm` = `rng.permutation(len)` -/
def smCtor (labels : List Int) (pOk : Bool) (k : Nat) (perm : List Nat) : Except Err SM :=
  if pOk then .ok ⟨labels, perm.take k⟩ else .error .assertion

def smGetitem (st : SM) (idx : Nat) : Except Err Int :=
  if idx ∈ st.semi then .ok (-1) else dsGet st.labels idx

/-- `for idx in semi_idxs: cls[idx] = -1` -/
def setAll : List Nat → List Int → Except Err (List Int)
  | [], l => .ok l
  | i :: rest, l => if i < l.length then setAll rest (l.set i (-1)) else .error .index

def smGetall (st : SM) : Except Err (List Int) := setAll st.semi st.labels

/-! ### LabelSmoothingWrapper, OneHotWrapper (encodings) -/

inductive Enc where
  | cls (y : Int)          -- the label itself (smoothing == 0)
  | scalar (q : Rat)       -- binary case
  | vec (v : List Rat)
deriving Repr, DecidableEq

def lsCtor (s : Rat) : Except Err Unit := if 0 ≤ s ∧ s ≤ 1 then .ok () else .error .assertion

/-- body of `LabelSmoothingWrapper.getitem_class` after the label `y` was fetched; `nc` = `getdim_class()` -/
def lsEncode (s : Rat) (nc : Nat) (y : Int) : Except Err Enc :=
  if s = 0 then .ok (.cls y)
  else if y = -1 then .ok (.vec (List.replicate nc (-1)))
  else if nc = 1 then .ok (.scalar (if (1 / 2 : Rat) < (y : Rat) then (y : Rat) - s / 2 else (y : Rat) + s / 2))
  else if nc = 0 then .error .zeroDiv
  else
    let off : Rat := s / (nc : Rat)
    let on : Rat := 1 - s + off
    let j : Int := if y < 0 then y + (nc : Int) else y
    if j < 0 ∨ (nc : Int) ≤ j then .error .index
    else .ok (.vec ((List.replicate nc off).set j.toNat on))

def lsGetitem (s : Rat) (nc : Nat) (labels : List Int) (idx : Nat) : Except Err Enc :=
  match dsGet labels idx with
  | .error e => .error e
  | .ok y => lsEncode s nc y

/-- `to_one_hot_vector(y, n_classes)` for an int `y` -/
def ohEncode (nc : Nat) (y : Int) : Except Err (List Rat) :=
  if y < 0 ∨ (nc : Int) ≤ y then .error .runtime
  else .ok ((List.range nc).map (fun (k : Nat) => if (k : Int) = y then (1 : Rat) else 0))

def ohGetitem (nc : Nat) (labels : List Int) (idx : Nat) : Except Err (List Rat) :=
  match dsGet labels idx with
  | .error e => .error e
  | .ok y => ohEncode nc y

/-- the bulk path of the two encoding wrappers is the wrapped dataset's (they define no `getall_class`) -/
def encGetall (labels : List Int) : Except Err (List Int) := .ok labels

end KDVerif.Labels
