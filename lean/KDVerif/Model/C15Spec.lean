/-
C15 — specification-side definitions for the strength-scaling property (core Lean only; nothing here is used by
the drivers, nothing in Model/Strength.lean is changed).

* `weakest`        the weakest setting of every node of a transform tree, written without reference to `scale`
* `asConstructed`  the tree as its constructors left it (every current field := its `og_*` field)
* `Constructed`    the tree is in the state its constructors produce (current = og, og inside torchvision's ranges)
* `Domain`         the constructed (`og_*`) parameters lie in the ranges the constructors guarantee
* `Supported`      no `KDRandomRotation` with an asymmetric range in the tree (its `_scale_strength` asserts)
* `Weaker a b`     node by node, every bound of `a` is at most as strong as the same bound of `b`
* `scaleHistory`   a sequence of `scale_strength` calls on the same object
* `Sched`          the stateful `KDScheduledTransform.__call__` (per-worker sample counter, wrapped transform state)
* `loaderRun`      a DataLoader with `W` workers dealing global batches round-robin to per-worker copies
-/
import KDVerif.Model.Strength

namespace KDVerif.Strength

/-! ### weakest setting, defined independently of `scale` -/

/-- brightness / contrast / saturation: the identity factor is 1 -/
def weakestCentered (r : Range) : Range := { r with lb := 1, ub := 1 }
/-- hue: the identity shift is 0 -/
def weakestHue (r : Range) : Range := { r with lb := 0, ub := 0 }

def weakestJitter (c : ColorJitter) : ColorJitter :=
  ⟨c.brightness.map weakestCentered, c.contrast.map weakestCentered, c.saturation.map weakestCentered,
   c.hue.map weakestHue⟩

/-- every node at its weakest setting: colour ranges `[1,1]` / hue `[0,0]` (identity), blur `σ_ub = σ_lb` (no
    identity exists: the weakest blur), solarize threshold at its no-op value (1.0 / 256), grayscale probability 0,
    rotation `[0,0]`, magnitude sampler all 0 -/
def weakest : T → T
  | .jitter c => .jitter (weakestJitter c)
  | .blur b => .blur { b with sigmaUb := b.sigmaLb }
  | .solarizeF og _ => .solarizeF og 1
  | .solarizeI og _ => .solarizeI og 256
  | .grayscale ogP _ => .grayscale ogP 0
  | .rotation r => .rotation { r with lb := 0, ub := 0 }
  | .magnitude m => .magnitude { m with mag := 0, std := 0, min := 0, max := 0 }
  | .other => .other
  | .wrap t => .wrap (weakest t)
  | .compose ts => .compose (weakestList ts)
where
  weakestList : List T → List T
    | [] => []
    | t :: ts => weakest t :: weakestList ts

/-! ### the constructed parameters -/

def Range.asConstructed (r : Range) : Range := { r with lb := r.ogLb, ub := r.ogUb }
def ColorJitter.asConstructed (c : ColorJitter) : ColorJitter :=
  ⟨c.brightness.map Range.asConstructed, c.contrast.map Range.asConstructed,
   c.saturation.map Range.asConstructed, c.hue.map Range.asConstructed⟩
def Blur.asConstructed (b : Blur) : Blur := { b with sigmaUb := b.ogSigmaUb }
def Rotation.asConstructed (r : Rotation) : Rotation := { r with lb := r.ogLb, ub := r.ogUb }
def Magnitude.asConstructed (m : Magnitude) : Magnitude :=
  { m with mag := m.ogMag, std := m.ogStd, min := m.ogMin, max := m.ogMax }

/-- the tree exactly as `__init__` left it: every current field is reset to the `og_*` field next to it; two
    trees with the same `asConstructed` were built with the same parameters -/
def asConstructed : T → T
  | .jitter c => .jitter c.asConstructed
  | .blur b => .blur b.asConstructed
  | .solarizeF og _ => .solarizeF og og
  | .solarizeI og _ => .solarizeI og og
  | .grayscale ogP _ => .grayscale ogP ogP
  | .rotation r => .rotation r.asConstructed
  | .magnitude m => .magnitude m.asConstructed
  | .other => .other
  | .wrap t => .wrap (asConstructed t)
  | .compose ts => .compose (asConstructedList ts)
where
  asConstructedList : List T → List T
    | [] => []
    | t :: ts => asConstructed t :: asConstructedList ts

/-- the state the constructors produce: current = og; brightness/contrast/saturation lower bound ≥ 0 and hue
    within ±½ (torchvision's `ColorJitter._check_input`); rotation range symmetric (otherwise the transform does
    not support strength scaling: `_scale_strength` asserts) -/
def Constructed : T → Prop
  | .jitter c =>
    (∀ r, c.brightness = some r → 0 ≤ r.ogLb ∧ r.lb = r.ogLb ∧ r.ub = r.ogUb) ∧
    (∀ r, c.contrast = some r → 0 ≤ r.ogLb ∧ r.lb = r.ogLb ∧ r.ub = r.ogUb) ∧
    (∀ r, c.saturation = some r → 0 ≤ r.ogLb ∧ r.lb = r.ogLb ∧ r.ub = r.ogUb) ∧
    (∀ r, c.hue = some r → -1/2 ≤ r.ogLb ∧ r.ogUb ≤ 1/2 ∧ r.lb = r.ogLb ∧ r.ub = r.ogUb)
  | .blur b => b.sigmaUb = b.ogSigmaUb
  | .solarizeF og cur => cur = og
  | .solarizeI og cur => cur = og
  | .grayscale ogP p => p = ogP
  | .rotation r => r.ogLb = -r.ogUb ∧ r.lb = r.ogLb ∧ r.ub = r.ogUb
  | .magnitude m => m.mag = m.ogMag ∧ m.std = m.ogStd ∧ m.min = m.ogMin ∧ m.max = m.ogMax
  | .other => True
  | .wrap t => Constructed t
  | .compose ts => constructedList ts
where
  constructedList : List T → Prop
    | [] => True
    | t :: ts => Constructed t ∧ constructedList ts

/-- a centered range as torchvision preprocesses it: `0 ≤ lb ≤ 1 ≤ ub` -/
def CenteredDomain (r : Range) : Prop := 0 ≤ r.ogLb ∧ r.ogLb ≤ 1 ∧ 1 ≤ r.ogUb
/-- a hue range as torchvision preprocesses it: `-½ ≤ lb ≤ 0 ≤ ub ≤ ½` -/
def HueDomain (r : Range) : Prop := -1/2 ≤ r.ogLb ∧ r.ogLb ≤ 0 ∧ 0 ≤ r.ogUb ∧ r.ogUb ≤ 1/2

/-- the constructed parameters are in the ranges the constructors guarantee: colour ranges as above; blur
    `σ_lb ≤ σ_ub` (torchvision `GaussianBlur`); solarize threshold at most its no-op value (and ≥ 0 for the int
    branch); grayscale probability ≥ 0; rotation symmetric (any sign); `MagnitudeSampler`'s asserts
    `0 ≤ min ≤ magnitude ≤ max`, `0 ≤ std` (only the four signs are needed) -/
def Domain : T → Prop
  | .jitter c =>
    (∀ r, c.brightness = some r → CenteredDomain r) ∧ (∀ r, c.contrast = some r → CenteredDomain r) ∧
    (∀ r, c.saturation = some r → CenteredDomain r) ∧ (∀ r, c.hue = some r → HueDomain r)
  | .blur b => b.sigmaLb ≤ b.ogSigmaUb
  | .solarizeF og _ => og ≤ 1
  | .solarizeI og _ => 0 ≤ og ∧ og ≤ 256
  | .grayscale ogP _ => 0 ≤ ogP
  | .rotation r => r.ogLb = -r.ogUb
  | .magnitude m => 0 ≤ m.ogMag ∧ 0 ≤ m.ogStd ∧ 0 ≤ m.ogMin ∧ 0 ≤ m.ogMax
  | .other => True
  | .wrap t => Domain t
  | .compose ts => domainList ts
where
  domainList : List T → Prop
    | [] => True
    | t :: ts => Domain t ∧ domainList ts

/-- every rotation in the tree has a symmetric constructed range -/
def Supported : T → Prop
  | .rotation r => r.ogLb = -r.ogUb
  | .wrap t => Supported t
  | .compose ts => supportedList ts
  | .jitter _ => True
  | .blur _ => True
  | .solarizeF _ _ => True
  | .solarizeI _ _ => True
  | .grayscale _ _ => True
  | .magnitude _ => True
  | .other => True
where
  supportedList : List T → Prop
    | [] => True
    | t :: ts => Supported t ∧ supportedList ts

/-! ### node-wise "at most as strong as" -/

/-- `x` lies between 0 and `y` (whatever the sign of `y`) -/
def between0 (x y : Rat) : Prop := (0 ≤ x ∧ x ≤ y) ∨ (y ≤ x ∧ x ≤ 0)

/-- same constructed range, and the current range of `a` is inside the current range of `b` -/
def Range.Inside (a b : Range) : Prop := a.ogLb = b.ogLb ∧ a.ogUb = b.ogUb ∧ b.lb ≤ a.lb ∧ a.ub ≤ b.ub

def optRel {α : Type} (R : α → α → Prop) : Option α → Option α → Prop
  | none, none => True
  | some a, some b => R a b
  | _, _ => False

mutual
  /-- `Weaker a b`: `a` and `b` are the same transform tree (same shape, same constructed parameters) and at
      every node every bound of `a` is at most as strong as the corresponding bound of `b`: colour / hue ranges of
      `a` inside those of `b`, blur `σ_ub` smaller, solarize threshold larger (closer to the no-op), grayscale
      probability smaller, rotation bounds between 0 and those of `b`, magnitude / std / min / max smaller -/
  inductive Weaker : T → T → Prop
    | jitter (a b : ColorJitter) : optRel Range.Inside a.brightness b.brightness →
        optRel Range.Inside a.contrast b.contrast → optRel Range.Inside a.saturation b.saturation →
        optRel Range.Inside a.hue b.hue → Weaker (.jitter a) (.jitter b)
    | blur (a b : Blur) : a.sigmaLb = b.sigmaLb → a.ogSigmaUb = b.ogSigmaUb → a.sigmaUb ≤ b.sigmaUb →
        Weaker (.blur a) (.blur b)
    | solarizeF (og ca cb : Rat) : cb ≤ ca → Weaker (.solarizeF og ca) (.solarizeF og cb)
    | solarizeI (og ca cb : Int) : cb ≤ ca → Weaker (.solarizeI og ca) (.solarizeI og cb)
    | grayscale (ogP pa pb : Rat) : pa ≤ pb → Weaker (.grayscale ogP pa) (.grayscale ogP pb)
    | rotation (a b : Rotation) : a.ogLb = b.ogLb → a.ogUb = b.ogUb → between0 a.lb b.lb → between0 a.ub b.ub →
        Weaker (.rotation a) (.rotation b)
    | magnitude (a b : Magnitude) : a.ogMag = b.ogMag → a.ogStd = b.ogStd → a.ogMin = b.ogMin → a.ogMax = b.ogMax →
        a.mag ≤ b.mag → a.std ≤ b.std → a.min ≤ b.min → a.max ≤ b.max → Weaker (.magnitude a) (.magnitude b)
    | other : Weaker .other .other
    | wrap (a b : T) : Weaker a b → Weaker (.wrap a) (.wrap b)
    | compose (as bs : List T) : WeakerList as bs → Weaker (.compose as) (.compose bs)
  inductive WeakerList : List T → List T → Prop
    | nil : WeakerList [] []
    | cons (a b : T) (as bs : List T) : Weaker a b → WeakerList as bs → WeakerList (a :: as) (b :: bs)
end

/-! ### histories of `scale_strength` calls -/

/-- `scale_strength(f₁); scale_strength(f₂); …` on the same object (`none` once an assertion has fired) — the loop
    of the driver's `st.scale` -/
def scaleHistory (fs : List Rat) (t : T) : Option T := fs.foldl (fun o f => o.bind (scale f)) (some t)

/-! ### stateful `KDScheduledTransform` -/

/-- the attributes `__call__` reads and writes, in one worker process -/
structure Sched where
  rank : Nat
  numWorkers : Nat
  batchSize : Nat
  nBatches : Nat
  /-- `self.sample_counter`: 0 from `__init__`, `+= 1` per call; lives as long as the worker's copy of the object -/
  sampleCounter : Nat
  /-- state of `self.transform` (`none` after a failed rotation assertion) -/
  inner : Option T
deriving Repr

/-- the worker's copy right after `worker_init_fn(rank, batch_size=…, epochs=/updates=/samples=…)` -/
def Sched.workerInit (rank numWorkers batchSize : Nat) (run : RunLen) (inner : T) : Sched :=
  ⟨rank, numWorkers, batchSize, KDVerif.Strength.nBatches batchSize run, 0, some inner⟩

/-- what one `__call__` makes observable -/
structure CallOut where
  /-- the `batch_idx` it computed -/
  batchIdx : Nat
  /-- `ctx[self.ctx_key]` -/
  ctxStrength : Rat
  /-- the wrapped transform as it is applied to the sample (after `scale_strength(strength)`) -/
  applied : Option T
deriving Repr

/-- one `__call__` (worker-initialised branch): `batch_idx` from the counter, `strength = schedule.get_value(batch_idx,
    n_batches)`, counter `+= 1`, `transform.scale_strength(strength)`, `ctx[key] = strength` -/
def Sched.call (schedule : Nat → Nat → Rat) (s : Sched) : CallOut × Sched :=
  let bi := batchIdx s.sampleCounter s.batchSize s.numWorkers s.rank
  let v := schedule bi s.nBatches
  let inner' := s.inner.bind (scale v)
  (⟨bi, v, inner'⟩, { s with sampleCounter := s.sampleCounter + 1, inner := inner' })

/-- the object's state after `k` calls -/
def Sched.after (schedule : Nat → Nat → Rat) : Nat → Sched → Sched
  | 0, s => s
  | k + 1, s => Sched.after schedule k (s.call schedule).2

/-- what the `k`-th call (0-based) of a worker makes observable -/
def Sched.nthCall (schedule : Nat → Nat → Rat) (s : Sched) (k : Nat) : CallOut :=
  ((Sched.after schedule k s).call schedule).1

/-- `m` consecutive calls: their outputs and the state afterwards -/
def Sched.calls (schedule : Nat → Nat → Rat) : Nat → Sched → List CallOut × Sched
  | 0, s => ([], s)
  | m + 1, s =>
    let (o, s') := s.call schedule
    let (os, s'') := Sched.calls schedule m s'
    (o :: os, s'')

/-- `j`-th batch of worker `w` among `W`: the loader deals global batches round-robin, so worker `w` gets
    `w, w+W, w+2W, …` -/
def workerBatch (w W j : Nat) : Nat := w + j * W

/-- a DataLoader run with `W` worker processes, each holding its own copy of the scheduled transform
    (`workers w`), full batches of `B` samples: global batches `b, b+1, …, b+cnt-1` are processed in order, batch `b`
    by worker `b % W`, which calls the transform once per sample. Returns per global batch the observable outputs
    of its `B` calls. (Workers run concurrently in reality; their copies share nothing, so any interleaving gives
    these per-batch outputs.) -/
def loaderRun (schedule : Nat → Nat → Rat) (W B : Nat) : (b cnt : Nat) → (workers : Nat → Sched) → List (List CallOut)
  | _, 0, _ => []
  | b, cnt + 1, workers =>
    let r := Sched.calls schedule B (workers (b % W))
    r.1 :: loaderRun schedule W B (b + 1) cnt (fun w => if w = b % W then r.2 else workers w)

end KDVerif.Strength
