/-
Model of the dataset-stack addressing of KappaData (property C02).

Mirrored Python (statement by statement):
* `kappadata/datasets/kd_subset.py`   `KDSubset.__getattr__/_call_getitem/_call_getall`, introspection members
* `kappadata/datasets/kd_concat_dataset.py`  `KDConcatDataset.__init__` (torch `ConcatDataset.__init__`: non-empty assert,
  `cumsum` over `len(part)`), `_call_getitem` (balanced round-robin / `_to_concat_idx`: negative index, `bisect_right`
  over `cumulative_sizes`), `_call_getall` (`assert isinstance(.., list)`, `+=`), `__len__` (assert not balanced),
  `dispose`, `root_dataset`, `all_wrappers`, `get_wrappers_of_type`, `has_wrapper(_type)` (all delegate to `datasets[0]`)
* `kappadata/datasets/kd_wrapper.py`  `KDWrapper.__len__/__getattr__` delegation, `dispose`, `root_dataset`, `all_wrappers`,
  `get_wrappers_of_type`, `has_wrapper(_type)`
* `kappadata/datasets/kd_dataset.py`  the chain ends: `root_dataset = self`, `all_wrappers = []`, …
* `kappadata/utils/getall_as_tensor.py`  `getall` (fast path if `hasattr(getall_<item>)` — truthful through subset/concat layers since repo commit 24251f5 —, else per-sample loop),
  `getall_as_list/numpy/tensor` (value-preserving conversions; after the F02 repair the tensor case returns `items`)

A sample of the stack is identified by `(base id, sample number)`; a base dataset of size `n` answers `getitem_x(k)` by Python
list indexing (`-n ≤ k < n`, else `IndexError`) and, if it has a bulk accessor, returns its samples as list / tensor / ndarray
(`Kind`).  `flatten` at the end of the file is the SPEC (no bisect, no cumulative sizes): the list of underlying samples.

Imports: only the `bisectRight`/`cumsum` micro-models shared with the interleaved sampler model.
-/
import KDVerif.Model.Interleaved

namespace KDVerif.IndexMaps
open KDVerif.Interleaved (bisectRight cumsum)

/-- the Python exceptions that can surface from the modelled code -/
inductive Err where
  | index      -- IndexError
  | value      -- ValueError ("absolute value of index should not exceed dataset length")
  | assertion  -- AssertionError
  | attribute  -- AttributeError
  | zeroDiv    -- ZeroDivisionError
deriving Repr, DecidableEq

/-- what `getall_x()` of a base dataset returns (`absent`: the base has no bulk accessor) -/
inductive Kind where
  | list | tensor | ndarray | absent
deriving Repr, DecidableEq

/-- a dataset stack. `uid` identifies the layer object, `ty` its Python class. -/
inductive DS where
  | base   (id n : Nat) (kind : Kind)
  | subset (uid ty : Nat) (d : DS) (idx : List Int)   -- KDSubset family: `indices` as given (may be negative)
  | wrap   (uid ty : Nat) (d : DS)                    -- KDWrapper family layer that does not remap indices
  | concat (ds : List DS) (balanced : Bool)           -- KDConcatDataset
deriving Repr

abbrev Sample := Nat × Nat

/-! ### Python indexing -/

/-- `range(n)[k]` / list index normalisation: `-n ≤ k < n`, negative counts from the end -/
def pyIdx (n : Nat) (k : Int) : Except Err Nat :=
  if 0 ≤ k then (if k < n then .ok k.toNat else .error .index)
  else (if -k ≤ n then .ok (k + n).toNat else .error .index)

/-- `l[k]` for a Python list / tensor / ndarray -/
def pyGet {α : Type} (l : List α) (k : Int) : Except Err α :=
  match pyIdx l.length k with
  | .error e => .error e
  | .ok i => match l[i]? with
    | some x => .ok x
    | none => .error .index

/-- `[f(i) for i in xs]` where `f` may raise: the first exception wins -/
def mapE {α β : Type} (f : α → Except Err β) : List α → Except Err (List β)
  | [] => .ok []
  | x :: xs => match f x with
    | .error e => .error e
    | .ok y => match mapE f xs with
      | .error e => .error e
      | .ok ys => .ok (y :: ys)

def sumNat : List Nat → Nat
  | [] => 0
  | x :: xs => x + sumNat xs

/-! ### `len` -/

mutual
/-- `len(stack)`; `KDConcatDataset.__len__` asserts `not balanced_sampling`, otherwise `cumulative_sizes[-1]` -/
def len : DS → Except Err Nat
  | .base _ n _ => .ok n
  | .subset _ _ _ idx => .ok idx.length
  | .wrap _ _ d => len d
  | .concat ds bal => if bal then .error .assertion else
      match lens ds with
      | .error e => .error e
      | .ok szs => .ok (sumNat szs)
/-- `[len(e) for e in datasets]` as evaluated by `ConcatDataset.cumsum` in the constructor -/
def lens : List DS → Except Err (List Nat)
  | [] => .ok []
  | d :: ds => match len d with
    | .error e => .error e
    | .ok n => match lens ds with
      | .error e => .error e
      | .ok ns => .ok (n :: ns)
end

/-! ### construction -/

mutual
/-- constructing the stack bottom-up: `ConcatDataset.__init__` asserts a non-empty part list and takes `len` of every
    part (which asserts for a balanced part); `Subset.__init__` and `KDWrapper.__init__` only store their arguments -/
def build : DS → Except Err Unit
  | .base _ _ _ => .ok ()
  | .subset _ _ d _ => build d
  | .wrap _ _ d => build d
  | .concat ds _ => match buildAll ds with
    | .error e => .error e
    | .ok () => if ds.isEmpty then .error .assertion else
      match lens ds with
      | .error e => .error e
      | .ok _ => .ok ()
def buildAll : List DS → Except Err Unit
  | [] => .ok ()
  | d :: ds => match build d with
    | .error e => .error e
    | .ok () => buildAll ds
end

/-! ### per-sample path -/

/-- the bisect step of `_to_concat_idx` for a non-negative position: `(dataset_idx, sample_idx)` -/
def concatPos (szs : List Nat) (k' : Int) : Nat × Int :=
  let cum := cumsum 0 szs
  let di := bisectRight cum k'.toNat
  if di = 0 then (0, k') else (di, k' - (cum.getD (di - 1) 0 : Nat))

/-- `_to_concat_idx` on the constructor's sizes: negative index handling, then bisect -/
def toConcatIdx (szs : List Nat) (k : Int) : Except Err (Nat × Int) :=
  let total : Nat := sumNat szs
  if k < 0 ∧ -k > total then .error .value else
  .ok (concatPos szs (if k < 0 then total + k else k))

/-- balanced sampling: `idx % P`, `int(idx / P) % len(part)` -/
def balancedPart (P : Nat) (k : Int) : Nat := (k % (P : Int)).toNat
def balancedSample (P : Nat) (ln : Nat) (k : Int) : Int := (Int.tdiv k P) % (ln : Int)

mutual
/-- `stack.getitem_x(k)` -/
def resolve : DS → Int → Except Err Sample
  | .base id n _, k => match pyIdx n k with
    | .error e => .error e
    | .ok i => .ok (id, i)
  | .subset _ _ d idx, k => match pyGet idx k with   -- func(self.indices[idx])
    | .error e => .error e
    | .ok i => resolve d i
  | .wrap _ _ d, k => resolve d k
  | .concat ds bal, k =>
    if bal then
      let di := balancedPart ds.length k
      match lenAt ds di with                         -- len(self.datasets[dataset_idx])
      | .error e => .error e
      | .ok ln => if ln = 0 then .error .zeroDiv else resolveAt ds di (balancedSample ds.length ln k)
    else
      match lens ds with                             -- cumulative_sizes (fixed at construction)
      | .error e => .error e
      | .ok szs => match toConcatIdx szs k with
        | .error e => .error e
        | .ok (di, si) => resolveAt ds di si
/-- `self.datasets[j].getitem_x(k)` (`IndexError` when `j` is past the last part) -/
def resolveAt : List DS → Nat → Int → Except Err Sample
  | [], _, _ => .error .index
  | d :: _, 0, k => resolve d k
  | _ :: ds, j + 1, k => resolveAt ds j k
/-- `len(self.datasets[j])` -/
def lenAt : List DS → Nat → Except Err Nat
  | [], _ => .error .index
  | d :: _, 0 => len d
  | _ :: ds, j + 1 => lenAt ds j
end

/-! ### bulk path -/

mutual
/-- `hasattr(stack, "getall_x")`: a subset answers the name only if the wrapped dataset does, a concat only if all its parts do
    (`__getattr__` raises `AttributeError` otherwise), a wrapper delegates -/
def hasGetall : DS → Bool
  | .base _ _ kind => kind != .absent
  | .subset _ _ d _ => hasGetall d
  | .wrap _ _ d => hasGetall d
  | .concat ds _ => hasGetallAll ds
def hasGetallAll : List DS → Bool
  | [] => true
  | d :: ds => hasGetall d && hasGetallAll ds
end

mutual
/-- `stack.getall_x()`: the kind of container that comes back, and its elements -/
def getall : DS → Except Err (Kind × List Sample)
  | .base id n kind => if kind = .absent then .error .attribute else .ok (kind, (List.range n).map (fun i => (id, i)))
  | .subset _ _ d idx =>
    if !hasGetall d then .error .attribute else        -- `if not hasattr(self.dataset, item): raise AttributeError`
    match getall d with
    | .error e => .error e
    | .ok (_, r) => match mapE (pyGet r) idx with      -- [result[i] for i in self.indices]
      | .error e => .error e
      | .ok xs => .ok (.list, xs)
  | .wrap _ _ d => getall d
  | .concat ds _ =>
    if !hasGetallAll ds then .error .attribute else    -- `if not all(hasattr(dataset, item) for dataset in self.datasets)`
    match getallParts ds with
    | .error e => .error e
    | .ok xs => .ok (.list, xs)
/-- the loop of `KDConcatDataset._call_getall` -/
def getallParts : List DS → Except Err (List Sample)
  | [] => .ok []
  | d :: ds => match getall d with
    | .error e => .error e
    | .ok (kind, r) => if kind ≠ .list then .error .assertion else
      match getallParts ds with
      | .error e => .error e
      | .ok rs => .ok (r ++ rs)
end

/-- the slow path of `getall`: `[getitem(i) for i in range(len(dataset))]` -/
def perSample (d : DS) : Except Err (List Sample) :=
  match len d with
  | .error e => .error e
  | .ok n => mapE (fun i : Nat => resolve d (i : Int)) (List.range n)

/-- `utils.getall_as_tensor.getall` (every modelled stack has `getitem_x`) -/
def getallUtil (d : DS) : Except Err (List Sample) :=
  if hasGetall d then
    match getall d with
    | .error e => .error e
    | .ok (_, xs) => .ok xs
  else perSample d

/-- the three converters: which one is irrelevant for the values (list ↔ tensor ↔ ndarray conversions keep every element) -/
inductive Conv where
  | asList | asNumpy | asTensor
deriving Repr, DecidableEq

def getallAs (_c : Conv) (d : DS) : Except Err (List Sample) := getallUtil d

/-! ### introspection -/

mutual
/-- `root_dataset` (id of the base it ends at); concat delegates to `datasets[0]` -/
def root : DS → Option Nat
  | .base id _ _ => some id
  | .subset _ _ d _ => root d
  | .wrap _ _ d => root d
  | .concat ds _ => rootHead ds
def rootHead : List DS → Option Nat
  | [] => none
  | d :: _ => root d
end

mutual
/-- `all_wrappers` as `(uid, ty)` pairs, outermost first -/
def allWrappers : DS → List (Nat × Nat)
  | .base _ _ _ => []
  | .subset uid ty d _ => (uid, ty) :: allWrappers d
  | .wrap uid ty d => (uid, ty) :: allWrappers d
  | .concat ds _ => allWrappersHead ds
def allWrappersHead : List DS → List (Nat × Nat)
  | [] => []
  | d :: _ => allWrappers d
end

mutual
/-- `get_wrappers_of_type(t)` -/
def wrappersOfType (t : Nat) : DS → List Nat
  | .base _ _ _ => []
  | .subset uid ty d _ => if ty = t then uid :: wrappersOfType t d else wrappersOfType t d
  | .wrap uid ty d => if ty = t then uid :: wrappersOfType t d else wrappersOfType t d
  | .concat ds _ => wrappersOfTypeHead t ds
def wrappersOfTypeHead (t : Nat) : List DS → List Nat
  | [] => []
  | d :: _ => wrappersOfType t d
end

mutual
/-- `has_wrapper(obj)` -/
def hasWrapper (u : Nat) : DS → Bool
  | .base _ _ _ => false
  | .subset uid _ d _ => if uid = u then true else hasWrapper u d
  | .wrap uid _ d => if uid = u then true else hasWrapper u d
  | .concat ds _ => hasWrapperHead u ds
def hasWrapperHead (u : Nat) : List DS → Bool
  | [] => false
  | d :: _ => hasWrapper u d
end

mutual
/-- `has_wrapper_type(t)` -/
def hasWrapperType (t : Nat) : DS → Bool
  | .base _ _ _ => false
  | .subset _ ty d _ => if ty = t then true else hasWrapperType t d
  | .wrap _ ty d => if ty = t then true else hasWrapperType t d
  | .concat ds _ => hasWrapperTypeHead t ds
def hasWrapperTypeHead (t : Nat) : List DS → Bool
  | [] => false
  | d :: _ => hasWrapperType t d
end

mutual
/-- `dispose()`: the bases whose `dispose` is reached, in call order (concat disposes every part) -/
def dispose : DS → List Nat
  | .base id _ _ => [id]
  | .subset _ _ d _ => dispose d
  | .wrap _ _ d => dispose d
  | .concat ds _ => disposeAll ds
def disposeAll : List DS → List Nat
  | [] => []
  | d :: ds => dispose d ++ disposeAll ds
end

mutual
/-- attribute lookup `getattr(stack, name)` for the convention "layer of class `ty` defines attribute `ty` with value `uid`,
    every base defines attribute `0` with value `id`": own attribute first, else delegate inwards (concat: `datasets[0]`) -/
def lookup (name : Nat) : DS → Option Nat
  | .base id _ _ => if name = 0 then some id else none
  | .subset uid ty d _ => if ty = name then some uid else lookup name d
  | .wrap uid ty d => if ty = name then some uid else lookup name d
  | .concat ds _ => lookupHead name ds
def lookupHead (name : Nat) : List DS → Option Nat
  | [] => none
  | d :: _ => lookup name d
end

/-! ### SPEC -/

/-- normalised Python index: negative counts from the end -/
def norm (n : Nat) (k : Int) : Int := if k < 0 then k + n else k

/-- spec-level Python list access -/
def specGet? {α : Type} (l : List α) (k : Int) : Option α :=
  if 0 ≤ norm l.length k then l[(norm l.length k).toNat]? else none

mutual
/-- the SPEC: the underlying samples the stack exposes, in order.  Base: its samples; subset: the chosen positions of the inner
    list; wrapper: unchanged; concat: the parts one after another.  No cumulative sizes, no bisect. -/
def flatten : DS → List Sample
  | .base id n _ => (List.range n).map (fun i => (id, i))
  | .subset _ _ d idx => idx.filterMap (specGet? (flatten d))
  | .wrap _ _ d => flatten d
  | .concat ds _ => flattenAll ds
def flattenAll : List DS → List Sample
  | [] => []
  | d :: ds => flatten d ++ flattenAll ds
end

mutual
/-- the domain of the sized-stack theorems: every subset index addresses an existing position of the layer below, every concat
    is non-empty and not balanced (a balanced concat has no `len`; it is covered by `balanced_round_robin`) -/
def valid : DS → Bool
  | .base _ _ _ => true
  | .subset _ _ d idx => valid d && idx.all (fun i => decide (-((flatten d).length : Int) ≤ i ∧ i < ((flatten d).length : Int)))
  | .wrap _ _ d => valid d
  | .concat ds bal => !bal && !ds.isEmpty && validAll ds
def validAll : List DS → Bool
  | [] => true
  | d :: ds => valid d && validAll ds
end

mutual
/-- every base has a bulk accessor and every concat part hands a *list* to `KDConcatDataset._call_getall` -/
def bulkOk : DS → Bool
  | .base _ _ kind => kind != .absent
  | .subset _ _ d _ => bulkOk d
  | .wrap _ _ d => bulkOk d
  | .concat ds _ => bulkOkParts ds
def bulkOkParts : List DS → Bool
  | [] => true
  | d :: ds => bulkOk d && listKind d && bulkOkParts ds
/-- the stack's `getall_x()` returns a Python list -/
def listKind : DS → Bool
  | .base _ _ kind => kind == .list
  | .subset _ _ _ _ => true
  | .wrap _ _ d => listKind d
  | .concat _ _ => true
end

/-- the kind of container `getall_x()` returns -/
def kindOf : DS → Kind
  | .base _ _ kind => kind
  | .subset _ _ _ _ => .list
  | .wrap _ _ d => kindOf d
  | .concat _ _ => .list

end KDVerif.IndexMaps
