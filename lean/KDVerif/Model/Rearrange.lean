/-
C14 model — einops rearrangements as flat-index maps, patch permutations, per-channel normalisation.

Mirrors:
  * `einops.rearrange(x, "lhs -> rhs", **sizes)` as used by `PatchifyImage`, `UnpatchifyImage`, `Patchify`, `Unpatchify`,
    `PatchwiseTransform` (the pattern strings themselves are extracted from the source into `Gen/Patterns.lean`)      → `rearrange`
  * `PatchwiseShuffle.__call__` (`x[:, permutation]`) and its inverse via the recorded permutation (`argsort`)         → `gather`, `invPerm`
  * `KDImageNorm.normalize / denormalize`, `KDImageRangeNorm`, `get_denorm_transform` (torchvision `normalize`:
    `(x - mean) / std` per channel; the denormalisation is the code's two steps `normalize(0, 1/std)` then
    `normalize(-mean, 1)`)                                                                                            → `normalize`, `denormalize`, `normChannels`, `denormChannels`

A pattern is a pair of lists of axis groups (`"c (lh ph) (lw pw)"` ↦ `[["c"], ["lh","ph"], ["lw","pw"]]`). A tensor is
identified with its row-major flat list; `rearrange p sizes i` is the flat position in the output of the element at flat
position `i` of the input: decode `i` in the mixed radix of the left axes, read the coordinates per axis name, encode them in
the order of the right axes. (Grouping by parentheses does not change row-major flat positions, it only changes the reported
shape, `shapeOf`.)
-/
namespace KDVerif.Rearrange

abbrev Axis := String

structure Pattern where
  lhs : List (List Axis)
  rhs : List (List Axis)
  deriving DecidableEq, Repr

def Pattern.swap (p : Pattern) : Pattern := ⟨p.rhs, p.lhs⟩

/-- every axis occurs once on each side and both sides name the same axes (einops raises otherwise) -/
def Pattern.WellFormed (p : Pattern) : Prop :=
  p.lhs.flatten.Nodup ∧ p.rhs.flatten.Nodup ∧
    (∀ a ∈ p.lhs.flatten, a ∈ p.rhs.flatten) ∧ (∀ a ∈ p.rhs.flatten, a ∈ p.lhs.flatten)

instance (p : Pattern) : Decidable p.WellFormed := by unfold Pattern.WellFormed; infer_instance

abbrev Sizes := Axis → Nat

/-- sizes from an association list (absent axes have size 1) -/
def sizesOf (l : List (Axis × Nat)) : Sizes := fun a => ((l.find? (fun p => p.1 == a)).map Prod.snd).getD 1

def prodSizes (s : Sizes) : List Axis → Nat
  | [] => 1
  | a :: r => s a * prodSizes s r

/-- mixed-radix decode of a flat row-major index: coordinate of every axis -/
def decode (s : Sizes) : List Axis → Nat → (Axis → Nat)
  | [], _ => fun _ => 0
  | a :: r, i => fun b => if b = a then i / prodSizes s r else decode s r (i % prodSizes s r) b

/-- row-major encode of the coordinates along the given axis order -/
def encode (s : Sizes) : List Axis → (Axis → Nat) → Nat
  | [], _ => 0
  | a :: r, c => c a * prodSizes s r + encode s r c

/-- position in the output of input element `i` -/
def rearrange (p : Pattern) (s : Sizes) (i : Nat) : Nat :=
  encode s p.rhs.flatten (decode s p.lhs.flatten i)

/-- shape of one side (one entry per group) -/
def shapeOf (s : Sizes) (side : List (List Axis)) : List Nat := side.map (prodSizes s)

/-! ### permutations of patches -/

/-- `xs[perm]` (IndexError ↦ `none`) -/
def gather {α : Type} (xs : List α) : List Nat → Option (List α)
  | [] => some []
  | k :: r => match xs[k]?, gather xs r with
    | some a, some l => some (a :: l)
    | _, _ => none

/-- `argsort(perm)`: position of `k` in `perm` -/
def invPerm (perm : List Nat) : List Nat := (List.range perm.length).map (fun k => perm.idxOf k)

/-! ### normalisation -/

/-- torchvision `normalize` on one value of a channel: `(x - mean) / std` -/
def normalize (m s x : Rat) : Rat := (x - m) / s

/-- `KDImageNorm.denormalize`: `normalize(x, 0, 1/std)` then `normalize(·, -mean, 1)` -/
def denormalize (m s x : Rat) : Rat := normalize (-m) 1 (normalize 0 (1 / s) x)

/-- per-channel application; `none` = the length assertion / torchvision's channel check fails -/
def mapChannels (f : Rat → Rat → Rat → Rat) : List Rat → List Rat → List (List Rat) → Option (List (List Rat))
  | [], [], [] => some []
  | m :: ms, s :: ss, ch :: chs => (mapChannels f ms ss chs).map (fun r => ch.map (f m s) :: r)
  | _, _, _ => none

def normChannels := mapChannels normalize
def denormChannels := mapChannels denormalize

/-- `KDImageRangeNorm`: mean = std = 0.5 -/
def rangeNormalize (x : Rat) : Rat := normalize (1 / 2) (1 / 2) x
/-- `KDImageRangeNorm.denormalize`: `normalize(0, 2)` then `normalize(-0.5, 1)` -/
def rangeDenormalize (x : Rat) : Rat := normalize (-(1 / 2)) 1 (normalize 0 2 x)

end KDVerif.Rearrange
