import KDVerif.Driver.J
import KDVerif.Model.Samplers
open Lean KDVerif.J

/- Line-protocol driver of the sampler models (executable only).
   One request = one sampler configuration + a list of runs `{rank, epoch, tape}`;
   the answer has one entry per run: constructor outcome, `len`, requests made, outcome, indices. -/
namespace KDVerif.Samplers.Driver
open KDVerif.Samplers

def errStr : Err → String
  | .assertion => "assert"
  | .valueError => "value"
  | .indexError => "index"
  | .tapeEnd => "tape"
  | .nonterm => "nonterm"

def genJson : Gen → Json
  | .default => ofInt (-1)
  | .user => ofInt (-2)
  | .made k => ofNat k

def reqJson : Req → Json
  | .newGen s => Json.arr #["seed", ofInt s]
  | .randperm g n => Json.arr #["randperm", genJson g, ofNat n]
  | .multinomial g nw k r => Json.arr #["multinomial", genJson g, ofNat nw, ofNat k, Json.bool r]
  | .randint g h s => Json.arr #["randint", genJson g, ofNat h, ofNat s]
  | .randomScalar g b => Json.arr #["random_", genJson g, ofNat b]

def runJson (ctor : Except Err Unit) (len : Except Err Nat) (r : Unit → Run) : Json :=
  match ctor with
  | .error e => Json.mkObj [("ctor", errStr e)]
  | .ok () =>
    let lenJ : Json := match len with | .ok l => ofNat l | .error e => Json.str (errStr e)
    let run := r ()
    match run.out with
    | .error e => Json.mkObj [("ctor", "ok"), ("len", lenJ), ("iter", errStr e)]
    | .ok out => Json.mkObj [("ctor", "ok"), ("len", lenJ), ("iter", "ok"),
        ("reqs", Json.arr (run.reqs.map reqJson).toArray), ("out", ofNatList out)]

structure RunArg where
  rank : Option Nat
  epoch : Nat
  tape : Tape

def parseRuns (j : Json) : Except String (List RunArg) := do
  let a ← arr j "runs"
  a.toList.mapM (fun r => do
    pure ⟨← optNat r "rank", ← nat r "epoch", ← natListList (← val r "tape")⟩)

def answer (rs : List Json) : Json := Json.mkObj [("runs", Json.arr rs.toArray)]

def dist (j : Json) : Except String Json := do
  let n ← nat j "n"
  let W ← nat j "W"
  let shuffle ← bool j "shuffle"
  let seed ← int j "seed"
  let dl ← bool j "dl"
  let R ← nat j "R"
  let runs ← parseRuns j
  pure <| answer <| runs.map (fun r =>
    let c : DistCfg := ⟨n, W, r.rank.getD 0, shuffle, seed, dl, R⟩
    runJson (distCtor c) (.ok (distLen c)) (fun _ => distIter c r.epoch r.tape))

def rand (j : Json) : Except String Json := do
  let c : RandCfg := ⟨← nat j "n", ← bool j "replacement", ← optNat j "num_samples", ← bool j "user_gen", ← nat j "R"⟩
  let runs ← parseRuns j
  pure <| answer <| runs.map (fun r => runJson (randCtor c) (.ok (randLen c)) (fun _ => randIter c r.tape))

def cb (j : Json) : Except String Json := do
  let classes ← intList (← val j "classes")
  let dim ← nat j "dim"
  let shuffle ← bool j "shuffle"
  let spc ← optNat j "spc"
  let seed ← int j "seed"
  let W ← optNat j "W"
  let runs ← parseRuns j
  pure <| answer <| runs.map (fun r =>
    let c : CBCfg := ⟨classes, dim, shuffle, spc, seed, r.rank, W⟩
    runJson (cbCtor c) (.ok (cbLen c)) (fun _ => cbIter c r.epoch r.tape))

def weighted (j : Json) : Except String Json := do
  let n ← nat j "n"
  let nw ← nat j "nw"
  let size ← optNat j "size"
  let seed ← int j "seed"
  let W ← optNat j "W"
  let runs ← parseRuns j
  pure <| answer <| runs.map (fun r =>
    let c : WCfg := ⟨n, nw, size, seed, r.rank, W⟩
    runJson (wCtor c) (wLen c) (fun _ => wIter c r.epoch r.tape))

def semi (j : Json) : Except String Json := do
  let classes ← intList (← val j "classes")
  let L ← nat j "L"
  let U ← nat j "U"
  let seed ← int j "seed"
  let W ← optNat j "W"
  let mode := match (← str j "mode") with
    | "labeled" => LengthMode.labeled
    | "unlabeled" => .unlabeled
    | "all" => .all
    | _ => .invalid
  let runs ← parseRuns j
  pure <| answer <| runs.map (fun r =>
    let c : SemiCfg := ⟨classes, L, U, r.rank, W, seed, mode⟩
    runJson (semiCtor c) (.ok (semiLen c)) (fun _ => semiIter c r.epoch r.tape))

def handle (op : String) (j : Json) : Except String Json :=
  match op with
  | "s.dist" => dist j
  | "s.rand" => rand j
  | "s.cb" => cb j
  | "s.weighted" => weighted j
  | "s.semi" => semi j
  | _ => throw s!"unknown op {op}"

end KDVerif.Samplers.Driver
