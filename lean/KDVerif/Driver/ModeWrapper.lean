import KDVerif.Driver.J
import KDVerif.Model.ModeWrapper
import KDVerif.Model.C01Spec
open Lean KDVerif.J

namespace KDVerif.ModeWrapper.Driver
open KDVerif.ModeWrapper

def strList (v : Json) : Except String (List String) := do
  let a ← v.getArr?
  a.toList.mapM (·.getStr?)

def parseStack (j : Json) : Except String Stack := do
  let fused ← (← arr j "fused").toList.mapM strList
  let onType ← strList (← val j "onType")
  let reachable ← strList (← val j "reachable")
  let recs ← (← arr j "records").toList.mapM (fun r => do
    let l ← strList r
    match l with
    | [a, b] => pure (a, b)
    | _ => throw "records: pairs")
  pure ⟨fused, onType, reachable, recs, ← nat j "len", ← bool j "rpc"⟩

partial def valJson : Val → Json
  | .index i => Json.arr #[Json.str "i", ofInt i]
  | .tag n i c => Json.arr #[Json.str "t", Json.str n, ofInt i, ofNat c]
  | .tuple vs => Json.arr (#[Json.str "T"] ++ (vs.map valJson).toArray)
  | .keyError k => Json.arr #[Json.str "KeyError", Json.str k]
  | .none => Json.null

partial def hasKeyError : Val → Bool
  | .keyError _ => true
  | .tuple vs => vs.any hasKeyError
  | _ => false

partial def outJson : Out → Json
  | .bare v => if hasKeyError v then Json.str "KeyError" else Json.mkObj [("b", valJson v)]
  | .tuple vs => if vs.any hasKeyError then Json.str "KeyError" else Json.mkObj [("t", Json.arr (vs.map valJson).toArray)]
  | .withCtx o c =>
    match outJson o with
    | .str s => Json.str s
    | oj =>
      let cs := (c.map (fun p => (p.1, valJson p.2))).toArray.qsort (fun a b => a.1 < b.1)
      Json.mkObj [("o", oj), ("ctx", Json.arr (cs.map (fun p => Json.arr #[Json.str p.1, p.2])))]
  | .list os =>
    let js := os.map outJson
    if js.any (fun j => j == Json.str "KeyError") then Json.str "KeyError" else Json.arr js.toArray
  | .indexError => Json.str "IndexError"

/-- index forms: int | {"s":[start,stop,step]} | [forms…]  →  the model-level `Form` (the dispatch itself is
    `KDVerif.ModeWrapper.getForm` in `Model/C01Spec.lean`, the function the C01 theorems speak about) -/
partial def parseForm (f : Json) : Except String Form := do
  match f with
  | .arr a =>
    let mut fs : List Form := []
    for e in a.toList do
      fs := fs ++ [← parseForm e]
    pure (.list fs)
  | .obj _ =>
    let sl ← arr f "s"
    if sl.size != 3 then throw "slice: 3 fields"
    pure (.slice (← asOptInt sl[0]!) (← asOptInt sl[1]!) (← asOptInt sl[2]!))
  | _ => pure (.int (← f.getInt?))

def entryJson : Entry → Json
  | .single item pos => Json.mkObj [("name", Json.str item), ("idxs", ofNat pos)]
  | .fused ops poss => Json.mkObj [("name", Json.str (String.join ops)), ("idxs", ofNatList poss)]

def handle (op : String) (j : Json) : Except String Json :=
  match op with
  | "mw.run" => do
    let s ← parseStack (← val j "stack")
    let mode ← str j "mode"
    let rc ← bool j "return_ctx"
    match ctor s mode rc with
    | .error .dupFused => pure (Json.mkObj [("ctor", "assert-dup")])
    | .error (.notOnType n) => pure (Json.mkObj [("ctor", "assert-type"), ("name", Json.str n)])
    | .error (.notReachable n) => pure (Json.mkObj [("ctor", "assert-attr"), ("name", Json.str n)])
    | .ok mw =>
      let forms ← arr j "forms"
      let mut outs : List Json := []
      let mut c := 0
      for f in forms.toList do
        let r := getForm s mw c (← parseForm f)
        outs := outs ++ [outJson r.1]
        c := r.2
      -- `list(iter(mw))` after the forms (the loader-call counter keeps running) and `len(mw)`
      let it := iterAll s mw c
      pure (Json.mkObj [("ctor", "ok"), ("plan", Json.arr (mw.entries.map entryJson).toArray),
        ("propagate", Json.bool mw.propagateCtx), ("outs", Json.arr outs.toArray), ("len", ofNat (lenOf s mw)),
        ("iter", outJson (Out.list it.1))])
  | "mw.static" => do
    let mode ← str j "mode"
    let item ← str j "item"
    let n ← nat j "n"
    let batch := List.range n
    pure (Json.mkObj [("has", Json.bool (hasItem mode item)), ("idx", ofOptNat (getItemIndex mode item)),
      ("add", Json.str (addItem mode item)),
      ("get", match getItem mode item batch with | some v => ofNat v | none => Json.null),
      ("set", match setItem mode item batch 99 with | some l => ofNatList l | none => Json.null)])
  | "mw.slice" => do
    let n ← nat j "n"
    let sl ← arr j "s"
    let start ← asOptInt sl[0]!
    let stop ← asOptInt sl[1]!
    let step := (← asOptInt sl[2]!).getD 1
    pure (ofIntList (sliceRange n start stop step))
  | _ => throw s!"unknown op {op}"

end KDVerif.ModeWrapper.Driver
