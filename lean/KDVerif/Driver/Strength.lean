import KDVerif.Driver.J
import KDVerif.Model.Strength
import KDVerif.Model.C15Spec
open Lean KDVerif.J

namespace KDVerif.Strength.Driver
open KDVerif.Strength

def optRange (j : Json) (k : String) : Except String (Option Range) :=
  match j.getObjVal? k with
  | .ok .null => pure none
  | .error _ => pure none
  | .ok v => do
    let l ← ratList v
    match l with
    | [a, b, c, d] => pure (some ⟨a, b, c, d⟩)
    | _ => throw "range: 4 rationals"

partial def parseT (j : Json) : Except String T := do
  let k ← str j "k"
  match k with
  | "jitter" => pure (.jitter ⟨← optRange j "b", ← optRange j "c", ← optRange j "s", ← optRange j "h"⟩)
  | "blur" => do
    match (← ratList (← val j "v")) with
    | [a, b, c] => pure (.blur ⟨a, b, c⟩)
    | _ => throw "blur"
  | "solF" => do
    match (← ratList (← val j "v")) with
    | [a, b] => pure (.solarizeF a b)
    | _ => throw "solF"
  | "solI" => pure (.solarizeI (← int j "og") (← int j "cur"))
  | "gray" => do
    match (← ratList (← val j "v")) with
    | [a, b] => pure (.grayscale a b)
    | _ => throw "gray"
  | "rot" => do
    match (← ratList (← val j "v")) with
    | [a, b, c, d] => pure (.rotation ⟨a, b, c, d⟩)
    | _ => throw "rot"
  | "mag" => do
    match (← ratList (← val j "v")) with
    | [a, b, c, d, e, f, g, h] => pure (.magnitude ⟨a, b, c, d, e, f, g, h⟩)
    | _ => throw "mag"
  | "other" => pure .other
  | "wrap" => do pure (.wrap (← parseT (← val j "t")))
  | "compose" => do
    let ts ← (← arr j "ts").toList.mapM parseT
    pure (.compose ts)
  | _ => throw s!"T kind {k}"

def rangeJson : Option Range → Json
  | none => Json.null
  | some r => ofRatList [r.ogLb, r.ogUb, r.lb, r.ub]

partial def tJson : T → Json
  | .jitter c => Json.mkObj [("k", "jitter"), ("b", rangeJson c.brightness), ("c", rangeJson c.contrast),
      ("s", rangeJson c.saturation), ("h", rangeJson c.hue)]
  | .blur b => Json.mkObj [("k", "blur"), ("v", ofRatList [b.sigmaLb, b.ogSigmaUb, b.sigmaUb])]
  | .solarizeF og cur => Json.mkObj [("k", "solF"), ("v", ofRatList [og, cur])]
  | .solarizeI og cur => Json.mkObj [("k", "solI"), ("og", ofInt og), ("cur", ofInt cur)]
  | .grayscale a b => Json.mkObj [("k", "gray"), ("v", ofRatList [a, b])]
  | .rotation r => Json.mkObj [("k", "rot"), ("v", ofRatList [r.ogLb, r.ogUb, r.lb, r.ub])]
  | .magnitude m => Json.mkObj [("k", "mag"), ("v", ofRatList [m.ogMag, m.ogStd, m.ogMin, m.ogMax, m.mag, m.std, m.min, m.max])]
  | .other => Json.mkObj [("k", "other")]
  | .wrap t => Json.mkObj [("k", "wrap"), ("t", tJson t)]
  | .compose ts => Json.mkObj [("k", "compose"), ("ts", Json.arr (ts.map tJson).toArray)]

def handle (op : String) (j : Json) : Except String Json :=
  match op with
  | "st.scale" => do
    let t ← parseT (← val j "t")
    let fs ← ratList (← val j "factors")
    -- apply the factors in sequence; report the state after each
    let mut cur : Option T := some t
    let mut outs : List Json := []
    for f in fs do
      cur := cur.bind (scale f)
      outs := outs ++ [match cur with | some t' => tJson t' | none => Json.str "assert"]
    pure (Json.arr outs.toArray)
  | "st.nbatches" => do
    let B ← nat j "B"
    let k ← str j "kind"
    let r ← match k with
      | "epochs" => pure (RunLen.epochs (← nat j "v") (← nat j "n") (← nat j "W") (← bool j "dl"))
      | "updates" => pure (RunLen.updates (← nat j "v"))
      | "samples" => pure (RunLen.samples (← nat j "v"))
      | _ => throw "kind"
    pure (ofNat (nBatches B r))
  | "st.loader" => do
    -- the stateful scheduled transform (`Model/C15Spec`): W worker copies, batches dealt round-robin, B calls per batch;
    -- the schedule is handed in as the table of its values at 0..N-1
    let W ← nat j "W"
    let B ← nat j "B"
    let N ← nat j "N"
    let t ← parseT (← val j "t")
    let tbl ← ratList (← val j "schedule")
    let sch : Nat → Nat → Rat := fun b _ => tbl.getD b 0
    let outs := loaderRun sch W B 0 N (fun w => Sched.workerInit w W B (.updates N) t)
    pure (Json.arr (outs.map (fun batch => Json.arr (batch.map (fun (o : CallOut) =>
      Json.mkObj [("b", ofNat o.batchIdx), ("strength", ofRat o.ctxStrength),
        ("applied", match o.applied with | some t' => tJson t' | none => Json.str "assert")])).toArray)).toArray)
  | "st.batchidx" => do
    pure (ofNat (batchIdx (← nat j "counter") (← nat j "B") (← nat j "W") (← nat j "rank")))
  | _ => throw s!"unknown op {op}"

end KDVerif.Strength.Driver
