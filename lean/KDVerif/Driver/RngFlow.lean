import KDVerif.Driver.J
import KDVerif.Model.RngFlow
import KDVerif.Gen.RngTable
open Lean KDVerif.J

namespace KDVerif.RngFlow.Driver
open KDVerif.RngFlow

/- tree json: null | {"cls": str, "cell": nat, "kids": [[slot, tree], ...]} -/
partial def parseT (j : Json) : Except String T := do
  match j with
  | .null => pure .leaf
  | _ =>
    let cls ← str j "cls"
    let cell ← nat j "cell"
    let ks ← arr j "kids"
    let kids ← ks.toList.mapM (fun k => do
      let a ← k.getArr?
      if a.size != 2 then throw "kid: [slot, tree]"
      let s ← a[0]!.getStr?
      let t ← parseT a[1]!
      pure (s, t))
    pure (.node cls cell (kids.foldr (fun (p : String × T) acc => Kids.cons p.1 p.2 acc) Kids.nil))

mutual
  partial def tJson : T → Json
    | .leaf => Json.null
    | .node cls cell kids => Json.mkObj [("cls", Json.str cls), ("cell", ofNat cell), ("kids", Json.arr (kidsJson kids).toArray)]
  partial def kidsJson : Kids → List Json
    | .nil => []
    | .cons s t rest => Json.arr #[Json.str s, tJson t] :: kidsJson rest
end

def handle (op : String) (j : Json) : Except String Json :=
  match op with
  | "rf.setrng" => do
    let t ← parseT (← val j "tree")
    let g ← nat j "g"
    let tb := KDVerif.Gen.RngTable.table
    let t' := setRng tb g t
    pure (Json.mkObj [("conforms", Json.bool (conforms tb t)), ("after", tJson t'),
      ("draws", ofNatList (draws tb t')), ("wf", Json.bool (wellFormed tb))])
  | "rf.rowok" => do
    let tb := KDVerif.Gen.RngTable.table
    pure (Json.arr ((tb.filter (fun r => !rowOk tb r)).map (fun r => Json.str r.name)).toArray)
  | _ => throw s!"unknown op {op}"

end KDVerif.RngFlow.Driver
