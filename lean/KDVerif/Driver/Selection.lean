import KDVerif.Driver.J
import KDVerif.Model.Selection
import KDVerif.Model.C03Spec
open Lean KDVerif.J

namespace KDVerif.Selection.Driver
open KDVerif.Selection

def errStr : Err → String
  | .assertion => "assert"
  | .runtime => "runtime"
  | .notImplemented => "notimpl"
  | .valueError => "value"
  | .attribute => "attr"
  | .index => "index"
  | .tape => "tape"
  | .outOfFuel => "timeout"

def answer : Except Err (List Nat) → Json
  | .ok l => Json.mkObj [("ok", ofNatList l)]
  | .error e => Json.mkObj [("err", Json.str (errStr e))]

def optRat (j : Json) (k : String) : Except String (Option Rat) :=
  match j.getObjVal? k with
  | .ok .null => pure none
  | .ok v => some <$> asRat v
  | .error _ => pure none

def optIntList (j : Json) (k : String) : Except String (Option (List Int)) :=
  match j.getObjVal? k with
  | .ok .null => pure none
  | .ok v => some <$> intList v
  | .error _ => pure none

/-- the float front end's answers: rows `[num, den, n, value]` meaning `cut (num/den) n = value`
    (computed by the harness with the code's own float expression); anything else ↦ a visible sentinel -/
def cutTable (j : Json) (k : String) : Except String (Rat → Nat → Nat) := do
  match j.getObjVal? k with
  | .error _ => pure (fun _ _ => 999999)
  | .ok v =>
    let rows ← v.getArr?
    let tab ← rows.toList.mapM (fun r => do
      let a ← r.getArr?
      if a.size != 4 then throw "cut row: 4 fields"
      let p ← asRat (Json.arr #[a[0]!, a[1]!])
      pure (p, ← a[2]!.getNat?, ← a[3]!.getNat?))
    pure (fun p n => match tab.find? (fun r => r.1 == p && r.2.1 == n) with
      | some r => r.2.2
      | none => 999999)

def handle (op : String) (j : Json) : Except String Json :=
  match op with
  | "sel.exactCut" => do
    -- the exact-rational cuts of `Model/C03Spec` (the functions the `*_exact_*` theorems of C03 are about)
    let rows ← (← arr j "rows").toList.mapM (fun r => do
      let a ← r.getArr?
      let p ← asRat (Json.arr #[a[0]!, a[1]!])
      pure (p, ← a[2]!.getNat?))
    pure (Json.arr (rows.map (fun r => ofNatList [exactCutF r.1 r.2, exactCutC r.1 r.2])).toArray)
  | "sel.classFilter" => do
    pure (answer (classFilter (← intList (← val j "cls")) (← optIntList j "valid") (← optIntList j "invalid")))
  | "sel.percentFilter" => do
    pure (answer (percentFilter (← cutTable j "cutF") (← cutTable j "cutC") (← nat j "n") (← optRat j "from") (← optRat j "to")
      (← bool j "ceilFrom") (← bool j "ceilTo")))
  | "sel.subsetRange" => do
    pure (answer (subsetRange (← cutTable j "cutF") (← nat j "n") (← optNat j "si") (← optNat j "ei") (← optRat j "sp") (← optRat j "ep")))
  | "sel.subsetExplicit" => do
    let n ← nat j "n"
    match subsetExplicit n (← intList (← val j "idx")) (← bool j "other") with
    | .ok l => pure (Json.mkObj [("ok", ofIntList l), ("ids", ofNatList (l.map (pyIndex n)))])
    | .error e => pure (Json.mkObj [("err", Json.str (errStr e))])
  | "sel.shuffle" => do
    pure (answer (.ok (shuffle (← nat j "n") (← natList (← val j "perm")))))
  | "sel.repeat" => do
    pure (answer (repeatW (← nat j "n") (← optInt j "reps") (← optInt j "minSize")))
  | "sel.oversample" => do
    let mode := match (← str j "mode") with
      | "multiply" => OsMode.multiply
      | "exact" => OsMode.exact
      | _ => OsMode.other
    pure (answer (oversample (← nat j "fuel") (← intList (← val j "cls")) (← nat j "nc") mode))
  | "sel.sortByClass" => do
    pure (answer (.ok (sortByClass (← intList (← val j "cls")) (← nat j "nc"))))
  | "sel.intraClassShuffle" => do
    pure (answer (intraClassShuffle (← intList (← val j "cls")) (← nat j "nc") (← bool j "seedGiven") (← natListList (← val j "tape"))))
  | "sel.fewshot" => do
    pure (answer (fewshot (← intList (← val j "cls")) (← int j "shots") (← natListList (← val j "tape"))))
  | "sel.classwiseSubset" => do
    pure (answer (classwiseSubset (← cutTable j "cutT") (← intList (← val j "cls")) (← nat j "nc") (← optNat j "si") (← optNat j "ei")
      (← optRat j "sp") (← optRat j "ep") (← bool j "check")))
  | _ => throw s!"unknown op {op}"

end KDVerif.Selection.Driver
