/- line-protocol driver for the C14 models (executable only) -/
import KDVerif.Driver.J
import KDVerif.Model.Geometry
import KDVerif.Model.Rearrange
import KDVerif.Model.C14Spec
open Lean KDVerif.J

namespace KDVerif.Geometry.Driver
open KDVerif.Geometry KDVerif.Rearrange

def errStr : Err → String
  | .valueError => "valueError"
  | .genValueError => "genValueError"
  | .assertion => "assertion"
  | .zeroDiv => "zeroDiv"
  | .tapeEnd => "tapeEnd"
  | .kindMismatch => "kindMismatch"
  | .contract => "contract"
  | .frontEnd => "frontEnd"
  | .fuel => "fuel"

def errJson (e : Err) : Json := Json.mkObj [("err", Json.str (errStr e))]

def parseDraw (v : Json) : Except String Draw := do
  let a ← v.getArr?
  if a.size == 0 then throw "draw: empty"
  let k ← a[0]!.getStr?
  match k with
  | "i" =>
    if a.size != 4 then throw "draw i: 4 entries"
    pure (.ints (← a[1]!.getInt?) (← a[2]!.getInt?) (← a[3]!.getInt?))
  | "u" => do
    if a.size != 2 then throw "draw u: 2 entries"
    pure (.unif (← asRat a[1]!))
  | "r" => do
    if a.size != 2 then throw "draw r: 2 entries"
    pure (.rand (← asRat a[1]!))
  | "n" => pure .normal
  | _ => throw s!"draw kind {k}"

def tapeOf (j : Json) : Except String Tape := do
  let a ← arr j "tape"
  a.toList.mapM parseDraw

def pairList (v : Json) : Except String (List (Int × Int)) := do
  let a ← v.getArr?
  a.toList.mapM (fun e => do
    let l ← intList e
    match l with
    | [x, y] => pure (x, y)
    | _ => throw "pair: 2 ints")

def intPair (v : Json) : Except String (Int × Int) := do
  match (← intList v) with
  | [x, y] => pure (x, y)
  | _ => throw "pair: 2 ints"

def boolList (v : Json) : Except String (List Bool) := do
  let a ← v.getArr?
  a.toList.mapM (·.getBool?)

def parsePadding (j : Json) : Except String Padding :=
  match j.getObjVal? "padding" with
  | .ok .null => pure .none
  | .error _ => pure .none
  | .ok v => do
    match (← intList v) with
    | [p] => pure (.all p)
    | [a, b] => pure (.two a b)
    | [a, b, c, d] => pure (.four a b c d)
    | _ => throw "padding: 1, 2 or 4 ints"

def cropCfg (j : Json) : Except String CropCfg := do
  pure ⟨← int j "th", ← int j "tw", ← parsePadding j, ← bool j "pin"⟩

def boxJson (b : Box) : Json := ofIntList [b.i, b.j, b.h, b.w]
def padJson (p : Pad) : Json := ofIntList [p.l, p.t, p.r, p.b]
def pairsJson (l : List (Int × Int)) : Json := Json.arr (l.map (fun p => ofIntList [p.1, p.2])).toArray

def parseBox (v : Json) : Except String Box := do
  match (← intList v) with
  | [a, b, c, d] => pure ⟨a, b, c, d⟩
  | _ => throw "box: 4 ints"

def maskJson : Option SpecMask → Json
  | none => Json.null
  | some m => Json.mkObj [("start", ofInt m.start), ("stop", ofInt m.stop), ("idx", ofNatList m.idx)]

def parseOp (v : Json) : Except String PairOp := do
  let k ← str v "k"
  match k with
  | "crop" => do
    match (← natList (← val v "v")) with
    | [a, b, c, d] => pure (.crop a b c d)
    | _ => throw "crop: 4 nats"
  | "pad" => do
    match (← natList (← val v "v")) with
    | [a, b, c, d] => pure (.pad a b c d)
    | _ => throw "pad: 4 nats"
  | "hflip" => pure .hflip
  | "skip" => pure .skip
  | _ => throw s!"op {k}"

def intListList (v : Json) : Except String (List (List Int)) := do
  let a ← v.getArr?
  a.toList.mapM intList

def ofIntListList (l : List (List Int)) : Json := Json.arr (l.map ofIntList).toArray

def strListList (v : Json) : Except String (List (List String)) := do
  let a ← v.getArr?
  a.toList.mapM (fun g => do
    let b ← g.getArr?
    b.toList.mapM (·.getStr?))

def sizesList (v : Json) : Except String (List (String × Nat)) := do
  let a ← v.getArr?
  a.toList.mapM (fun e => do
    let b ← e.getArr?
    if b.size != 2 then throw "size: [name, n]"
    pure (← b[0]!.getStr?, ← b[1]!.getNat?))

def ratListList (v : Json) : Except String (List (List Rat)) := do
  let a ← v.getArr?
  a.toList.mapM ratList

def ofRatListList (l : List (List Rat)) : Json := Json.arr (l.map ofRatList).toArray


/-- `Option Int` cells of a closed-form matrix (`none` = "no such cell" is sent as `null`) -/
def ofOptIntListList (l : List (List (Option Int))) : Json :=
  Json.arr (l.map (fun row => Json.arr (row.map (fun c => match c with | some v => ofInt v | none => Json.null)).toArray)).toArray

def parsePad (v : Json) : Except String Pad := do
  match (← intList v) with
  | [a, b, c, d] => pure ⟨a, b, c, d⟩
  | _ => throw "pad: 4 ints [l, t, r, b]"

/-- height / width of a grid as the property theorems take them (`g.Shaped h w`) -/
def gridH (g : Grid Int) : Nat := g.length
def gridW (g : Grid Int) : Nat := (g.head?.map List.length).getD 0

/-- the pad calls of a "geo.padcrop" request: explicit `pads`, or the model's own `padSeq` of a crop configuration
    (`th`, `tw`, `padding`, `pin`), or the model's `semsegPad` for a target size `semseg = [th, tw]` -/
def padsOf (j : Json) (g : Grid Int) : Except String (List Pad) := do
  match j.getObjVal? "pads" with
  | .ok v => (← v.getArr?).toList.mapM parsePad
  | .error _ =>
    match j.getObjVal? "semseg" with
    | .ok v => do
      let (th, tw) ← intPair v
      pure [semsegPad (gridH g : Int) (gridW g : Int) th tw]
    | .error _ => do
      let c ← cropCfg j
      pure (padSeq c (gridH g : Int) (gridW g : Int))

def handle (op : String) (j : Json) : Except String Json :=
  match op with
  | "geo.crop" => do
    let c ← cropCfg j
    match randomCrop c (← int j "h") (← int j "w") (← tapeOf j) with
    | .error e => pure (errJson e)
    | .ok (o, t) => pure (Json.mkObj [("pads", Json.arr (o.pads.map padJson).toArray), ("H", ofInt o.H), ("W", ofInt o.W),
        ("box", boxJson o.box), ("rest", ofNat t.length)])
  | "geo.two" => do
    let c ← cropCfg j
    let omin ← asRat (← val j "omin")
    let omax ← asRat (← val j "omax")
    let tries ← optNat j "tries"
    match twoCrop c omin omax tries (← nat j "fuel") (← int j "h") (← int j "w") (← tapeOf j) with
    | .error e => pure (errJson e)
    | .ok (o, t) => pure (Json.mkObj [("pads", Json.arr (o.pads.map padJson).toArray), ("H", ofInt o.H), ("W", ofInt o.W),
        ("b0", boxJson o.b0), ("b1", boxJson o.res.b1), ("oot", Json.bool o.res.outOfTries), ("overlap", ofRat o.res.overlap),
        ("rest", ofNat t.length)])
  | "geo.rrc" => do
    let fe : RrcFront := ⟨← asRat (← val j "inRatio"), ← asRat (← val j "qh"), ← asRat (← val j "qw")⟩
    match rrc (← int j "W") (← int j "H") (← asRat (← val j "r0")) (← asRat (← val j "r1")) (← pairList (← val j "props")) fe
        (← tapeOf j) with
    | .error e => pure (errJson e)
    | .ok (o, ps, t) => pure (Json.mkObj [("box", boxJson o.box), ("fallback", Json.bool o.fallback),
        ("restProps", ofNat ps.length), ("rest", ofNat t.length)])
  | "geo.erase" => do
    let c : EraseCfg := ⟨← asRat (← val j "p"), ← int j "minc", ← int j "maxc", ← bool j "stoch"⟩
    match erasing c (← int j "H") (← int j "W") (← pairList (← val j "props")) (← tapeOf j) with
    | .error e => pure (errJson e)
    | .ok (o, ps, t) => pure (Json.mkObj [("applied", Json.bool o.applied), ("n", ofInt o.nRects),
        ("boxes", Json.arr (o.boxes.map boxJson).toArray), ("restProps", ofNat ps.length), ("rest", ofNat t.length)])
  | "geo.spec" => do
    match specAugment (← nat j "nT") (← nat j "nF") (← optInt j "tm") (← optInt j "fm") (← intPair (← val j "feT"))
        (← intPair (← val j "feF")) (← tapeOf j) with
    | .error e => pure (errJson e)
    | .ok (m1, m2, t) => pure (Json.mkObj [("t", maskJson m1), ("f", maskJson m2), ("rest", ofNat t.length)])
  | "geo.scrop" => do
    match semsegCrop (← int j "H") (← int j "W") (← int j "th") (← int j "tw") (← bool j "retry") (← boolList (← val j "oks"))
        (← tapeOf j) with
    | .error e => pure (errJson e)
    | .ok (b, oks, t) => pure (Json.mkObj [("box", boxJson b), ("restOks", ofNat oks.length), ("rest", ofNat t.length)])
  | "geo.spad" => do
    pure (Json.mkObj [("pad", padJson (semsegPad (← int j "H") (← int j "W") (← int j "th") (← int j "tw")))])
  | "geo.sresize" => do
    let r := semsegResizeSize (← int j "h") (← int j "w") (← int j "bh") (← int j "bw") (← asRat (← val j "ratio"))
    pure (Json.mkObj [("size", ofIntList [r.1, r.2])])
  | "geo.sresizeold" => do
    let r := semsegResizeOldSize (← int j "bh") (← int j "bw") (← asRat (← val j "ratio"))
    pure (Json.mkObj [("size", ofIntList [r.1, r.2])])
  | "geo.flip" => do
    match applyDraw (← asRat (← val j "p")) (← tapeOf j) with
    | .error e => pure (errJson e)
    | .ok (b, t) => pure (Json.mkObj [("applied", Json.bool b), ("rest", ofNat t.length)])
  | "geo.multi" => do
    match multiCropGrid (← int j "H") (← int j "W") (← int j "ch") (← int j "cw") with
    | .error e => pure (errJson e)
    | .ok bs => pure (Json.mkObj [("boxes", Json.arr (bs.map boxJson).toArray)])
  | "geo.inter" => do
    pure (Json.mkObj [("area", ofInt (interArea (← parseBox (← val j "a")) (← parseBox (← val j "b"))))])
  | "geo.grid" => do
    let g ← intListList (← val j "grid")
    let s ← intListList (← val j "mask")
    let ops ← (← arr j "ops").toList.mapM parseOp
    let r := runPair (← int j "fillX") (← int j "fillS") ops (g, s)
    pure (Json.mkObj [("x", ofIntListList r.1), ("s", ofIntListList r.2)])
  | "geo.padcrop" => do
    -- the by-hand definitions of Model/C14Spec.lean, run on a concrete integer image with recorded parameters:
    -- operational (`applyPads`, `Grid.cropBox`) and closed form (`paddedCell`, `padCropCell`), instantiated as in Props/C14
    let g ← intListList (← val j "grid")
    let fill ← int j "fill"
    let ps ← padsOf j g
    let boxes ← (← arr j "boxes").toList.mapM parseBox
    let h := gridH g
    let w := gridW g
    let padded := applyPads fill ps g
    let HH := (padH (h : Int) ps).toNat
    let WW := (padW (w : Int) ps).toNat
    let paddedSpec := (List.range HH).map (fun x => (List.range WW).map (fun y =>
      paddedCell fill g h w (padTop ps) (padLeft ps) HH WW x y))
    let outs := boxes.map (fun b => Json.mkObj [
      ("op", ofIntListList (padded.cropBox b)),
      ("spec", ofOptIntListList ((List.range b.h.toNat).map (fun r => (List.range b.w.toNat).map (fun k =>
        padCropCell fill g h w ps b r k))))])
    pure (Json.mkObj [("pads", Json.arr (ps.map padJson).toArray), ("HW", ofIntList [padH (h : Int) ps, padW (w : Int) ps]),
      ("padded", ofIntListList padded), ("paddedSpec", ofOptIntListList paddedSpec), ("outs", Json.arr outs.toArray)])
  | "geo.erasepaste" => do
    let g ← intListList (← val j "grid")
    let boxes ← (← arr j "boxes").toList.mapM parseBox
    let vals ← intList (← val j "values")
    if boxes.length != vals.length then throw "erasepaste: one value per box"
    let bvs := boxes.zip vals
    pure (Json.mkObj [("op", ofIntListList (erasePaste g bvs)),
      ("spec", ofOptIntListList ((List.range (gridH g)).map (fun r => (List.range (gridW g)).map (fun c =>
        eraseSpecCell g bvs r c))))])
  | "re.map" => do
    let p : Pattern := ⟨← strListList (← val j "lhs"), ← strListList (← val j "rhs")⟩
    let s := sizesOf (← sizesList (← val j "sizes"))
    let total := prodSizes s p.lhs.flatten
    pure (Json.mkObj [("wf", Json.bool (decide p.WellFormed)), ("total", ofNat total),
      ("shapeIn", ofNatList (shapeOf s p.lhs)), ("shapeOut", ofNatList (shapeOf s p.rhs)),
      ("map", ofNatList ((List.range total).map (rearrange p s))),
      ("back", ofNatList ((List.range total).map (fun i => rearrange p.swap s (rearrange p s i))))])
  | "re.gather" => do
    let xs ← natList (← val j "xs")
    let perm ← natList (← val j "perm")
    let inv := invPerm perm
    let ys := gather xs perm
    let back := ys.bind (fun y => gather y inv)
    pure (Json.mkObj [("ys", match ys with | some y => ofNatList y | none => Json.null), ("inv", ofNatList inv),
      ("back", match back with | some y => ofNatList y | none => Json.null)])
  | "re.norm" => do
    let ms ← ratList (← val j "mean")
    let ss ← ratList (← val j "std")
    let img ← ratListList (← val j "img")
    if ss.any (· == 0) then pure (Json.mkObj [("err", Json.str "zeroStd")]) else
    match normChannels ms ss img with
    | none => pure (Json.mkObj [("err", Json.str "channels")])
    | some y =>
      match denormChannels ms ss y with
      | none => pure (Json.mkObj [("err", Json.str "channels")])
      | some z => pure (Json.mkObj [("norm", ofRatListList y), ("back", ofRatListList z)])
  | "re.rangenorm" => do
    let xs ← ratList (← val j "xs")
    pure (Json.mkObj [("norm", ofRatList (xs.map rangeNormalize)), ("back", ofRatList (xs.map (fun x => rangeDenormalize (rangeNormalize x))))])
  | _ => throw s!"unknown op {op}"

end KDVerif.Geometry.Driver
