/- generic line-protocol loop: one JSON request per line in, one JSON answer per line out -/
import Lean.Data.Json
open Lean

namespace KDVerif.Driver

partial def loop (handle : String → Json → Except String Json) (h out : IO.FS.Stream) : IO Unit := do
  let line ← h.getLine
  if line.isEmpty then return ()
  let ans := match Json.parse line with
    | .error e => Json.mkObj [("error", Json.str s!"parse: {e}")]
    | .ok j =>
      match j.getObjVal? "op" >>= (·.getStr?) with
      | .error e => Json.mkObj [("error", Json.str s!"op: {e}")]
      | .ok op => match handle op j with
        | .ok r => r
        | .error e => Json.mkObj [("error", Json.str e)]
  out.putStrLn ans.compress
  loop handle h out

def mainLoop (handle : String → Json → Except String Json) : IO Unit := do
  let i ← IO.getStdin
  let o ← IO.getStdout
  loop handle i o
  o.flush

end KDVerif.Driver
