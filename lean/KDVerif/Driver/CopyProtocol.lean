import KDVerif.Driver.J
import KDVerif.Model.CopyProtocol
import KDVerif.Model.C20Spec
open Lean KDVerif.J

namespace KDVerif.CopyProtocol.Driver
open KDVerif.CopyProtocol

def parseSrc (j : Json) : Except String Src := do
  pure ⟨← bool j "isDir", ← bool j "zipSibling", ← nat j "nItems", ← nat j "nZips", ← nat j "nFiles"⟩

def fileStOfNat : Nat → FileSt
  | 0 => .absent
  | 1 => .part
  | _ => .whole

def natOfFileSt : FileSt → Nat
  | .absent => 0
  | .part => 1
  | .whole => 2

def parseFS (j : Json) : Except String FS := do
  let dstJ ← val j "dst"
  let dst ← match dstJ with
    | .null => pure none
    | d => do
      let fl ← natList (← val d "files")
      let files : Nat → FileSt := fun i => fileStOfNat (fl.getD i 0)
      pure (some (⟨← bool d "start", ← bool d "end", files, ← natList (← val d "foreign")⟩ : Dir))
  let tmp ← match j.getObjVal? "tmp" with
    | .ok .null => pure none
    | .ok v => some <$> v.getBool?
    | .error _ => pure none
  pure ⟨dst, tmp⟩

def parseChoice (v : Json) : Except String Choice := do
  let a ← v.getArr?
  if a.size == 0 then throw "choice: empty"
  match (← a[0]!.getStr?) with
  | "f" => pure (.file (← a[1]!.getNat?))
  | "g" => pure (.foreign (← a[1]!.getNat?))
  | "e" => pure .endMarker
  | _ => pure .any

def fsJson (n : Nat) (fs : FS) : Json :=
  Json.mkObj [
    ("dst", match fs.dst with
      | none => .null
      | some d => Json.mkObj [("start", d.start), ("end", d.end_),
          ("files", ofNatList ((List.range n).map (fun i => natOfFileSt (d.files i)))),
          ("foreign", ofNatList d.foreign)]),
    ("tmp", match fs.tmp with
      | none => .null
      | some b => Json.bool b)]

def labelJson : Label → Json
  | .rmFile i => Json.arr #["rmFile", ofNat i]
  | .rmForeign g => Json.arr #["rmForeign", ofNat g]
  | .rmEnd => Json.arr #["rmEnd"]
  | .tmpRmStart => Json.arr #["tmpRmStart"]
  | .tmpRmdir => Json.arr #["tmpRmdir"]
  | .tmpMkdir => Json.arr #["tmpMkdir"]
  | .tmpStart => Json.arr #["tmpStart"]
  | .rename => Json.arr #["rename"]
  | .create i => Json.arr #["create", ofNat i]
  | .fill i => Json.arr #["fill", ofNat i]
  | .createEnd => Json.arr #["createEnd"]

def fmtJson : Option Fmt → Json
  | none => .null
  | some .raw => "raw"
  | some .zip => "zip"
  | some .zips => "zips"

def pcJson : Pc → List (String × Json)
  | .ret r => [("pc", "ret"), ("result", Json.arr #[Json.bool r.wasCopied, Json.bool r.wasDeleted, fmtJson r.fmt])]
  | .failed => [("pc", "failed"), ("result", .null)]
  | .entry => [("pc", "entry"), ("result", .null)]
  | .wipe => [("pc", "wipe"), ("result", .null)]
  | .stageClean => [("pc", "stageClean"), ("result", .null)]
  | .stageMkdir => [("pc", "stageMkdir"), ("result", .null)]
  | .stageStart => [("pc", "stageStart"), ("result", .null)]
  | .stageRename => [("pc", "stageRename"), ("result", .null)]
  | .copy _ => [("pc", "copy"), ("result", .null)]
  | .writeEnd _ => [("pc", "writeEnd"), ("result", .null)]

/-- op "cp.attempt": one invocation (killed when the tape ends) -/
def runAttempt (j : Json) : Except String Json := do
  let src ← parseSrc (← val j "src")
  let fs ← parseFS (← val j "fs")
  let tape ← (← arr j "tape").toList.mapM parseChoice
  let c := attempt src tape fs
  let ls := trace src tape ⟨fs, .entry⟩
  pure (Json.mkObj ([("labels", Json.arr (ls.map labelJson).toArray), ("fs", fsJson src.nFiles c.fs),
    ("fmt", fmtJson (fmtOf src)), ("inv0", Json.bool (invAutoB src fs)), ("inv", Json.bool (invAutoB src c.fs))] ++ pcJson c.pc))

/-! ### op "cp.srctree": the specification-level source layouts of `Model/C20Spec.lean`, evaluated as they are defined
    (the harness materialises the same layout on disk, runs the real copy functions on it and compares) -/

def strList (v : Json) : Except String (List String) := do
  let a ← v.getArr?
  a.toList.mapM (·.getStr?)

def parseSrcTree (j : Json) : Except String SrcTree := do
  match (← str j "kind") with
  | "raw" => pure (.raw (← bool j "zipSibling") (← nat j "nItems") (← nat j "nZips") (← strList (← val j "files")))
  | "zip" => pure (.zip (← strList (← val j "members")))
  | "zips" => do
    let a ← arr j "archives"
    pure (.zips (← bool j "zipSibling") (← a.toList.mapM strList) (← nat j "others"))
  | k => throw s!"srctree: unknown kind {k}"

/-- `SrcTree.Clear` is decidable: on every constructor it reduces (definitionally) to a decidable arithmetic statement.
    The driver evaluates `decide t.Clear`, i.e. the model's own definition, not a re-implementation of it. -/
instance clearDecidable : (t : SrcTree) → Decidable t.Clear
  | .raw _ nItems nZips _ => inferInstanceAs (Decidable (nZips = 0 ∨ nZips < nItems / 2))
  | .zip _ => inferInstanceAs (Decidable True)
  | .zips _ archives others =>
    inferInstanceAs (Decidable (0 < archives.length ∧ (archives.length + others) / 2 ≤ archives.length))

def srcJson (s : Src) : Json :=
  Json.mkObj [("isDir", s.isDir), ("zipSibling", s.zipSibling), ("nItems", ofNat s.nItems), ("nZips", ofNat s.nZips),
    ("nFiles", ofNat s.nFiles)]

/-- op "cp.srctree": `members`, `format`, `toSrc`, `Clear` of a source layout, and `checkSrc` / `fmtOf` of its observation -/
def runSrcTree (j : Json) : Except String Json := do
  let t ← parseSrcTree (← val j "tree")
  pure (Json.mkObj [
    ("members", Json.arr (t.members.map Json.str).toArray),
    ("format", fmtJson (some t.format)),
    ("toSrc", srcJson t.toSrc),
    ("clear", Json.bool (decide t.Clear)),
    ("checkSrc", Json.bool (checkSrc t.toSrc)),
    ("fmtOf", fmtJson (fmtOf t.toSrc))])

def handle (op : String) (j : Json) : Except String Json :=
  match op with
  | "cp.attempt" => runAttempt j
  | "cp.srctree" => runSrcTree j
  | _ => throw s!"unknown op {op}"

end KDVerif.CopyProtocol.Driver
