import KDVerif.Driver.J
import KDVerif.Driver.RngFlow
import KDVerif.Model.SeedFlow
import KDVerif.Gen.RngTable
import KDVerif.Gen.WrapperTable
open Lean KDVerif.J

namespace KDVerif.SeedFlow.Driver
open KDVerif.RngFlow KDVerif.SeedFlow KDVerif.RngFlow.Driver

def parseKids (j : Json) : Except String Kids := do
  let ks ← j.getArr?
  let kids ← ks.toList.mapM (fun k => do
    let a ← k.getArr?
    if a.size != 2 then throw "kid: [slot, tree]"
    let s ← a[0]!.getStr?
    let t ← parseT a[1]!
    pure (s, t))
  pure (kids.foldr (fun (p : String × T) acc => Kids.cons p.1 p.2 acc) Kids.nil)

mutual
  partial def parseDS (j : Json) : Except String DS := do
    let k ← str j "k"
    let cls ← str j "cls"
    match k with
    | "root" => pure (.root cls (← parseKids (← val j "kids")) (← parseKids (← val j "cols")))
    | "wrap" => pure (.wrap cls (← parseKids (← val j "kids")) (← parseDS (← val j "inner")))
    | "multi" => do
      let ps ← arr j "parts"
      let parts ← ps.toList.mapM parseDS
      pure (.multi cls (parts.foldr (fun d acc => DSList.cons d acc) DSList.nil))
    | _ => throw "ds kind"
end

mutual
  partial def dsJson : DS → Json
    | .root cls kids cols => Json.mkObj [("k", "root"), ("cls", Json.str cls), ("kids", Json.arr (kidsJson kids).toArray),
        ("cols", Json.arr (kidsJson cols).toArray)]
    | .wrap cls kids inner => Json.mkObj [("k", "wrap"), ("cls", Json.str cls), ("kids", Json.arr (kidsJson kids).toArray),
        ("inner", dsJson inner)]
    | .multi cls parts => Json.mkObj [("k", "multi"), ("cls", Json.str cls), ("parts", Json.arr (dsListJson parts).toArray)]
  partial def dsListJson : DSList → List Json
    | .nil => []
    | .cons d rest => dsJson d :: dsListJson rest
end

def handle (op : String) (j : Json) : Except String Json :=
  let tb := KDVerif.Gen.RngTable.table
  match op with
  | "sf.getitem" => do
    let name ← str j "cls"
    let seed ← nat j "seed"
    let idx ← nat j "idx"
    let kids ← parseKids (← val j "kids")
    match KDVerif.Gen.WrapperTable.seedRows.find? (fun r => r.name == name) with
    | none => pure (Json.mkObj [("row", Json.null)])
    | some r =>
      let kids' := seededGetitem tb r seed idx kids
      pure (Json.mkObj [("row", Json.bool (seedRowOk r)), ("conforms", Json.bool (allConform tb kids)),
        ("after", Json.arr (kidsJson kids').toArray), ("applied_draws", ofNatList (appliedDraws tb r.applied kids'))])
  | "sf.workerinit" => do
    let d ← parseDS (← val j "ds")
    let base ← nat j "base"
    let lt := KDVerif.Gen.WrapperTable.layerRows
    let r := workerInit tb lt base 0 d
    pure (Json.mkObj [("conforms", Json.bool (conformsDS tb lt d)), ("after", dsJson r.1), ("n", ofNat r.2),
      ("cells", ofNatList (stackCells tb r.1))])
  | _ => KDVerif.RngFlow.Driver.handle op j

end KDVerif.SeedFlow.Driver
