import KDVerif.Driver.J
import KDVerif.Model.MixCollator
open Lean KDVerif.J

namespace KDVerif.MixCollator.Driver
open KDVerif.MixCollator

def asOptRat (v : Json) : Except String (Option Rat) :=
  match v with
  | .null => pure none
  | v => some <$> asRat v

def optRat (j : Json) (k : String) : Except String (Option Rat) :=
  match j.getObjVal? k with
  | .ok v => asOptRat v
  | .error _ => pure none

def perMode (s : String) : Option PerMode :=
  match s with
  | "batch" => some .batch
  | "sample" => some .sample
  | _ => none

def shuffleMode (s : String) : Option Shuffle :=
  match s with
  | "roll" => some .roll
  | "flip" => some .flip
  | "random" => some .random
  | _ => none

def parseCtor (j : Json) : Except String CtorArgs := do
  pure ⟨← optRat j "mixup_p", ← optRat j "cutmix_p", ← optRat j "mixup_alpha", ← optRat j "cutmix_alpha",
        ← asRat (← val j "float_sum"), perMode (← str j "apply_mode"), perMode (← str j "lamb_mode"),
        shuffleMode (← str j "shuffle_mode")⟩

def parseDraw (j : Json) : Except String Draw := do
  match (← str j "k") with
  | "unif" => pure (.unif (← asRat (← val j "v")))
  | "unifs" => pure (.unifs (← ratList (← val j "vs")))
  | "beta" => pure (.beta (← asRat (← val j "a")) (← asRat (← val j "v")))
  | "betas" => pure (.betas (← asRat (← val j "a")) (← ratList (← val j "vs")))
  | "ints" => pure (.ints (← nat j "hi") (← natList (← val j "vs")))
  | "perm" => pure (.perm (← nat j "n") (← natList (← val j "l")))
  | _ => pure .other

/-- nested integer lists (c × h × w) ↦ element function -/
def imgOfLists (d : List (List (List Int))) : Img :=
  fun c r k => ((((d.getD c []).getD r []).getD k 0 : Int) : Rat)

def parseImg (v : Json) : Except String (List (List (List Int))) := do
  let chans ← v.getArr?
  chans.toList.mapM (fun ch => do
    let rows ← ch.getArr?
    rows.toList.mapM intList)

def parseItem (j : Json) : Except String Item := do
  match (← str j "t") with
  | "x" =>
    let imgs ← (← arr j "imgs").toList.mapM parseImg
    pure (.x (← nat j "h") (← nat j "w") (imgs.map imgOfLists))
  | "cls2" =>
    let rows ← (← arr j "rows").toList.mapM ratList
    pure (.cls2 rows)
  | "cls1" => pure (.cls1 (← ratList (← val j "ys")))
  | _ => pure (.other (← nat j "tag"))

def imgJson (c h w : Nat) (im : Img) : Json :=
  Json.arr ((List.range c).map (fun ci =>
    Json.arr ((List.range h).map (fun r =>
      Json.arr ((List.range w).map (fun k => ofRat (im ci r k))).toArray)).toArray)).toArray

def itemJson (c : Nat) : Item → Json
  | .x h w imgs => Json.mkObj [("t", "x"), ("h", ofNat h), ("w", ofNat w),
      ("imgs", Json.arr (imgs.map (imgJson c h w)).toArray)]
  | .cls2 rows => Json.mkObj [("t", "cls2"), ("rows", Json.arr (rows.map ofRatList).toArray)]
  | .cls1 ys => Json.mkObj [("t", "cls1"), ("ys", ofRatList ys)]
  | .other tag => Json.mkObj [("t", "other"), ("tag", ofNat tag)]

def boolList (l : List Bool) : Json := Json.arr (l.map Json.bool).toArray

def errName : Err → String
  | .assertion => "assert"
  | .notImplemented => "notimpl"
  | .typeError => "type"
  | .tape => "tape"

/-- op "mc.collate": constructor + one collate call on a default-collated tuple batch -/
def run (j : Json) : Except String Json := do
  let a ← parseCtor (← val j "ctor")
  match ctor a with
  | .error e => pure (Json.mkObj [("ctor", errName e)])
  | .ok cfg =>
    let mode ← (← arr j "mode").toList.mapM (·.getStr?)
    let batch ← (← arr j "items").toList.mapM parseItem
    let tape ← (← arr j "tape").toList.mapM parseDraw
    let halves ← (← arr j "halves").toList.mapM (fun v => do
      let l ← natList v
      pure (l.getD 0 0, l.getD 1 0))
    let c ← nat j "c"
    match collate cfg halves tape mode batch with
    | .error e => pure (Json.mkObj [("ctor", "ok"), ("res", errName e)])
    | .ok o =>
      pure (Json.mkObj [("ctor", "ok"), ("res", "ok"),
        ("items", Json.arr (o.batch.map (itemJson c)).toArray),
        ("apply", boolList o.ctxApply), ("use_cutmix", boolList o.ctxUseCutmix),
        ("lambda", ofRatList o.ctxLambda),
        ("perm", match o.perm with | none => Json.null | some l => ofNatList l)])

def handle (op : String) (j : Json) : Except String Json :=
  match op with
  | "mc.collate" => run j
  | _ => throw s!"unknown op {op}"

end KDVerif.MixCollator.Driver
