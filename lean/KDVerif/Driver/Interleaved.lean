import KDVerif.Lemmas.C05Extra
import KDVerif.Driver.J
import KDVerif.Model.Interleaved
open Lean KDVerif.J

namespace KDVerif.Interleaved.Driver
open KDVerif.Interleaved

def parseCfg (v : Json) : Except String Config := do
  let a ← v.getArr?
  if a.size != 6 then throw "cfg: 6 fields"
  pure ⟨← asOptNat a[0]!, ← asOptNat a[1]!, ← asOptNat a[2]!, ← asOptNat a[3]!, ← a[4]!.getNat?, ← a[5]!.getNat?⟩

def parseArgs (j : Json) : Except String Args := do
  let bv ← nat j "bv"
  let budget ← match (← str j "bk") with
    | "e" => pure (Budget.epochs bv)
    | "u" => pure (Budget.updates bv)
    | "s" => pure (Budget.samples bv)
    | _ => throw "bk"
  let cfgs ← (← arr j "cfgs").toList.mapM parseCfg
  pure ⟨← nat j "N", ← nat j "mds", ← nat j "B", ← bool j "dl", ← optNat j "dlbs", budget, cfgs⟩

def parseStart (j : Json) : Except String StartArg := do
  let k ← str j "sk"
  match k with
  | "n" => pure .none
  | "e" => pure (.epoch (← nat j "sv"))
  | "u" => pure (.update (← nat j "sv"))
  | "s" => pure (.sample (← nat j "sv"))
  | _ => throw "sk"

def evJson : Ev → Json
  | .idx f i => ofNatList [if f then 1 else 0, i]
  | .setEpoch e => ofNatList [2, e]

/-- op "il.run": constructor + full stream + batch sampler + resolution of every yielded index -/
def run (j : Json) : Except String Json := do
  let a ← parseArgs j
  let s ← parseStart j
  let mainT ← natListList (← val j "main")
  let sideT ← natListList (← val j "side")
  let fuel ← nat j "fuel"
  let main : Nat → List Nat := fun e => mainT.getD e []
  let side : Nat → Nat → List Nat := fun i _ => sideT.getD i []
  match ctor a s with
  | .error .assertion => pure (Json.mkObj [("ctor", "assert")])
  | .error .notImplemented => pure (Json.mkObj [("ctor", "notimpl")])
  | .ok st =>
    match iter a st main side fuel with
    | .error .assertion => pure (Json.mkObj [("ctor", "ok"), ("start", ofNatList [st.epoch, st.update, st.sample]), ("iter", "assert")])
    | .error .outOfFuel => pure (Json.mkObj [("ctor", "ok"), ("start", ofNatList [st.epoch, st.update, st.sample]), ("iter", "nonterm")])
    | .ok evs =>
      let bs := batchSampler evs
      let resolved := bs.1.map (fun b => b.map (fun i => let r := concatGet (dsSizes a) i; [r.1, r.2]))
      let total := (cumsum 0 (dsSizes a)).getLastD 0
      let negs := (List.range (total + 2)).map (fun (k : Nat) =>
        match concatGetInt (dsSizes a) (-(Int.ofNat k + 1)) with
        | some r => ofNatList [r.1, r.2]
        | none => Json.str "ValueError")
      pure (Json.mkObj [("ctor", "ok"), ("start", ofNatList [st.epoch, st.update, st.sample]), ("iter", "ok"), ("repeat_ok", Json.bool true),
        ("evs", Json.arr (evs.map evJson).toArray),
        ("batches", ofNatListList bs.1), ("rest", ofNatList bs.2),
        ("resolved", Json.arr (resolved.map ofNatListList).toArray),
        ("colls", Json.arr (bs.1.map (fun b =>
          match collateDispatch (b.map (fun i => (concatGet (dsSizes a) i).1)) with
          | some d => ofNat d
          | none => Json.num (-1 : Int))).toArray),
        ("neg", Json.arr negs.toArray)])

def handle (op : String) (j : Json) : Except String Json :=
  match op with
  | "il.run" => run j
  | _ => throw s!"unknown op {op}"

end KDVerif.Interleaved.Driver
