/- dispatch of the line protocol over all per-property drivers -/
import KDVerif.Driver.Interleaved
open Lean

namespace KDVerif.Driver

def dispatch (j : Json) : Except String Json := do
  let op ← (← j.getObjVal? "op").getStr?
  let pre := (op.splitOn ".").headD ""
  match pre with
  | "il" => KDVerif.Interleaved.Driver.handle op j
  | _ => throw s!"unknown op prefix {pre}"

end KDVerif.Driver
