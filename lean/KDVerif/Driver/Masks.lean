import KDVerif.Driver.J
import KDVerif.Model.Masks
open Lean KDVerif.J

namespace KDVerif.Masks.Driver
open KDVerif.Masks

def errStr : Err → String
  | .tapeEnd => "nonterm"
  | .index => "index"
  | .outOfFuel => "fuel"
  | .tape => "tape"

def parseProposal (v : Json) : Except String Dino.Proposal := do
  let a ← natList v
  match a with
  | [h, w, t, l] => pure ⟨h, w, t, l⟩
  | [h, w] => pure ⟨h, w, 0, 0⟩
  | _ => throw "proposal: [h,w] or [h,w,top,left]"

def parseGen (v : Json) : Except String Dino.Gen := do
  let tape ← (← arr v "props").toList.mapM parseProposal
  pure ⟨← nat v "total", tape⟩

def maskJson (m : Dino.Mask) : Json :=
  Json.arr (m.map (fun r => ofNatList (r.map (fun b => if b then 1 else 0)))).toArray

def trJson : Dino.Tr → Json
  | .req a b => Json.arr #["req", ofNat a, ofNat b]
  | .block r d => Json.arr #["blk", ofNat r, ofNat d]

/-- op "dino.collate" -/
def dino (j : Json) : Except String Json := do
  let H ← nat j "H"
  let W ← nat j "W"
  let n ← nat j "n"
  let k ← nat j "numMasked"
  let gens ← (← arr j "gens").toList.mapM parseGen
  let perm ← natList (← val j "perm")
  match Dino.collate () H W n k gens perm with
  | .error e => pure (Json.mkObj [("out", errStr e)])
  | .ok o =>
    pure (Json.mkObj [("out", "ok"), ("masks", Json.arr (o.masks.map maskJson).toArray), ("shuffles", ofNatList [n]),
      ("gens", Json.arr (o.gens.map (fun g => Json.mkObj [("done", ofNat g.done), ("left", ofNat g.rest.length),
        ("trace", Json.arr (g.trace.map trJson).toArray)])).toArray)])

/-- op "ijepa.collate" -/
def ijepa (j : Json) : Except String Json := do
  let c : Ijepa.Cfg := ⟨← nat j "H", ← nat j "W", ← nat j "nPred", ← nat j "nEnc", ← nat j "minKeep", ← nat j "tries"⟩
  let r ← natList (← val j "rounded")
  let rounded ← match r with
    | [a, b, c, d] => pure (Ijepa.Rounded.mk a b c d)
    | _ => throw "rounded: 4 values"
  let counter ← int j "counter"
  let B ← nat j "B"
  let tape ← natList (← val j "tape")
  match Ijepa.collate () c (fun _ => rounded) counter B tape with
  | .error e => pure (Json.mkObj [("out", errStr e)])
  | .ok o =>
    -- bounds of the integer draws in request order: per sample nPred x (H-ph, W-pw), then per encoder try (H-eh, W-ew)
    let reqs := o.samples.flatMap (fun s =>
      (List.replicate s.preds.length [c.H - o.predSize.1, c.W - o.predSize.2]).flatten ++
      (s.encs.flatMap (fun m => (List.replicate (m.2 + 1) [c.H - o.encSize.1, c.W - o.encSize.2]).flatten)))
    pure (Json.mkObj [("out", "ok"), ("seed", ofInt o.counter), ("pred_size", ofNatList [o.predSize.1, o.predSize.2]),
      ("enc_size", ofNatList [o.encSize.1, o.encSize.2]),
      ("pred", ofNatListList o.predRows), ("enc", ofNatListList o.encRows), ("left", ofNat o.rest.length),
      ("reqs", ofNatList reqs),
      ("enc_tries", ofNatList (o.samples.flatMap (fun s => s.encs.map Prod.snd)))])

def handle (op : String) (j : Json) : Except String Json :=
  match op with
  | "dino.collate" => dino j
  | "ijepa.collate" => ijepa j
  | _ => throw s!"unknown op {op}"

end KDVerif.Masks.Driver
