import KDVerif.Driver.J
import KDVerif.Model.IndexMaps
import KDVerif.Model.C02Spec
open Lean KDVerif.J

namespace KDVerif.IndexMaps.Driver
open KDVerif.IndexMaps

def errStr : Err → String
  | .index => "IndexError"
  | .value => "ValueError"
  | .assertion => "AssertionError"
  | .attribute => "AttributeError"
  | .zeroDiv => "ZeroDivisionError"

def kindStr : Kind → String
  | .list => "list"
  | .tensor => "tensor"
  | .ndarray => "ndarray"
  | .absent => "absent"

def parseKind : String → Except String Kind
  | "list" => pure .list
  | "tensor" => pure .tensor
  | "ndarray" => pure .ndarray
  | "absent" => pure .absent
  | s => throw s!"kind {s}"

partial def parseDS (j : Json) : Except String DS := do
  match (← str j "t") with
  | "base" => pure (.base (← nat j "id") (← nat j "n") (← parseKind (← str j "kind")))
  | "subset" => pure (.subset (← nat j "uid") (← nat j "ty") (← parseDS (← val j "d")) (← intList (← val j "idx")))
  | "wrap" => pure (.wrap (← nat j "uid") (← nat j "ty") (← parseDS (← val j "d")))
  | "concat" => pure (.concat (← (← arr j "ds").toList.mapM parseDS) (← bool j "bal"))
  | t => throw s!"node {t}"

def sampleJson (s : Sample) : Json := ofNatList [s.1, s.2]
def samplesJson (l : List Sample) : Json := Json.arr (l.map sampleJson).toArray

def exc {α : Type} (f : α → Json) : Except Err α → Json
  | .ok a => f a
  | .error e => Json.str (errStr e)

def optNatJson : Option Nat → Json
  | none => Json.null
  | some n => ofNat n

/-- `getall_as_list/numpy/tensor` with container kinds (`Model/C02Spec.getallAsK`): the elements if the container that comes back
    is of the kind the converter promises, else what the harness reports for a wrong container -/
def convJson (c : Conv) (d : DS) : Json :=
  match getallAsK c d with
  | .ok r => if r.1 == c.target then samplesJson r.2 else Json.str s!"wrong-type:{kindStr r.1}"
  | .error (.inner e) => Json.str (errStr e)
  | .error .notImplemented => Json.str "NotImplementedError"

/-- op "im.run": construction outcome, len, every requested per-sample access, the bulk accessor, the three converters and the
    introspection answers of one stack -/
def run (j : Json) : Except String Json := do
  let d ← parseDS (← val j "ds")
  let ks ← intList (← val j "ks")
  let tys ← natList (← val j "tys")
  let uids ← natList (← val j "uids")
  match build d with
  | .error e => pure (Json.mkObj [("build", Json.str (errStr e))])
  | .ok () =>
    pure (Json.mkObj [
      ("build", "ok"),
      ("len", exc ofNat (len d)),
      ("items", Json.arr (ks.map (fun k => exc sampleJson (resolve d k))).toArray),
      ("getall", exc (fun (r : Kind × List Sample) => Json.arr #[Json.str (kindStr r.1), samplesJson r.2]) (getall d)),
      ("hasattr", Json.bool (hasGetall d)),
      ("as_list", convJson .asList d),
      ("as_numpy", convJson .asNumpy d),
      ("as_tensor", convJson .asTensor d),
      ("getdim", exc ofNat (getdim 0 d)),
      ("wrapper_types", ofNatList (allWrapperTypes d)),
      ("root", optNatJson (root d)),
      ("wrappers", Json.arr ((allWrappers d).map (fun p => ofNatList [p.1, p.2])).toArray),
      ("of_type", Json.arr (tys.map (fun t => ofNatList (wrappersOfType t d))).toArray),
      ("has_type", Json.arr (tys.map (fun t => Json.bool (hasWrapperType t d))).toArray),
      ("has", Json.arr (uids.map (fun u => Json.bool (hasWrapper u d))).toArray),
      ("dispose", ofNatList (dispose d)),
      ("lookup", Json.arr ((0 :: tys).map (fun t => optNatJson (lookup t d))).toArray),
      ("flatten", samplesJson (flatten d)),
      ("valid", Json.bool (valid d))])

/-- op "im.py": the Python micro-semantics used by the model, for the CPython correspondence -/
def py (j : Json) : Except String Json := do
  let n ← nat j "n"
  let k ← int j "k"
  let szs ← natList (← val j "szs")
  let P ← nat j "P"
  pure (Json.mkObj [
    ("idx", exc ofNat (pyIdx n k)),
    ("concat", exc (fun (r : Nat × Int) => Json.arr #[ofNat r.1, ofInt r.2]) (toConcatIdx szs k)),
    ("bal", Json.arr #[ofNat (balancedPart P k), ofInt (balancedSample P (max n 1) k)])])

def handle (op : String) (j : Json) : Except String Json :=
  match op with
  | "im.run" => run j
  | "im.py" => py j
  | _ => throw s!"unknown op {op}"

end KDVerif.IndexMaps.Driver
