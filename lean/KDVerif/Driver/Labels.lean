import KDVerif.Driver.J
import KDVerif.Model.Labels
open Lean KDVerif.J

namespace KDVerif.Labels.Driver
open KDVerif.Labels

def errStr : Err → String
  | .assertion => "assertion"
  | .notImplemented => "notImplemented"
  | .index => "index"
  | .zeroDiv => "zeroDiv"
  | .einops => "einops"
  | .runtime => "runtime"
  | .tape => "tape"

def itemJ : Except Err Int → Json
  | .ok v => ofInt v
  | .error e => Json.str (errStr e)

def bulkJ : Except Err (List Int) → Json
  | .ok v => ofIntList v
  | .error e => Json.str (errStr e)

def ctorErr (e : Err) : Json := Json.mkObj [("ctor", Json.str (errStr e))]

def answer (n : Nat) (item : Nat → Except Err Int) (bulk : Except Err (List Int)) (extra : List (String × Json) := []) : Json :=
  Json.mkObj ([("ctor", Json.str "ok"), ("items", Json.arr ((List.range n).map (fun i => itemJ (item i))).toArray),
    ("bulk", bulkJ bulk)] ++ extra)

def boolList (v : Json) : Except String (List Bool) := do
  let a ← v.getArr?
  a.toList.mapM (·.getBool?)

def optField (j : Json) (k : String) : Option Json :=
  match j.getObjVal? k with
  | .ok .null => none
  | .ok v => some v
  | .error _ => none

def cg (j : Json) : Except String Json := do
  let labels ← intList (← val j "labels")
  let permuted ← natList (← val j "permuted")
  match cgCtor labels (← nat j "nc") (← nat j "cpg") (← bool j "shuffle") permuted with
  | .error e => pure (ctorErr e)
  | .ok st => pure (answer labels.length (cgGetitem st) (cgGetall st) [("table", ofNatList st.table), ("within", ofNatList st.within)])

def rs (j : Json) : Except String Json := do
  let labels ← intList (← val j "labels")
  match rsCtor labels (← nat j "nc") (← nat j "cps") (← nat j "splits") (← bool j "shuffle")
      (← natList (← val j "perm1")) (← natList (← val j "perm2")) with
  | .error e => pure (ctorErr e)
  | .ok st => pure (answer labels.length (rsGetitem st) (rsGetall st) [("shape", ofNat (rsShape st))])

def swap (j : Json) : Except String Json := do
  let labels ← intList (← val j "labels")
  match swCtor labels (← asRat (← val j "p")) (← ratList (← val j "us")) (← intList (← val j "news")) with
  | .error e => pure (ctorErr e)
  | .ok st => pure (answer labels.length (swGetitem st) (swGetall st)
      [("apply", Json.arr (st.apply.map (fun b => Json.bool b)).toArray)])

def ow (j : Json) : Except String Json := do
  let labels ← intList (← val j "labels")
  match owCtor labels (← intList (← val j "classes")) with
  | .error e => pure (ctorErr e)
  | .ok st => pure (answer labels.length (owGetitem st) (owGetall st))

def ag (j : Json) : Except String Json := do
  let labels ← intList (← val j "labels")
  match agCtor labels (← nat j "W") with
  | .error e => pure (ctorErr e)
  | .ok st => pure (answer labels.length (agGetitem st) (agGetall st) [("indices", ofNatList st.indices)])

def ratRows (v : Json) : Except String (List (List Rat)) := do
  let a ← v.getArr?
  a.toList.mapM ratList

def pl (j : Json) : Except String Json := do
  let n ← nat j "n"
  let table ← match optField j "hard" with
    | some h => do pure (PTable.hard (← intList h))
    | none => do pure (PTable.soft (← ratRows (← val j "soft")))
  let thr ← match optField j "thr" with
    | some b => do pure (some (← boolList b))
    | none => pure none
  let tau ← match (← str j "tau") with
    | "none" => pure Tau.none
    | "inf" => pure Tau.inf
    | "fin" => pure Tau.fin
    | _ => throw "tau"
  let draws ← natList (← val j "draws")
  match plCtor n (← nat j "C") table thr (← optNat j "topk") tau (← natListList (← val j "topkIdx")) with
  | .error e => pure (ctorErr e)
  | .ok st => pure (answer n (fun i => plGetitem st i (draws.getD i 0)) (plGetall st))

def rc (j : Json) : Except String Json := do
  let n ← nat j "n"
  let nc ← nat j "nc"
  let mode ← match (← str j "mode") with
    | "random" => pure RCMode.random
    | "randperm" => pure RCMode.randperm
    | "gatherbug" => do pure (RCMode.gatherbug (← nat j "W"))
    | _ => pure RCMode.other
  match rcCtor n nc mode (← natList (← val j "ints")) (← natList (← val j "perm")) with
  | .error e => pure (ctorErr e)
  | .ok cl => pure (answer n (rcGetitem cl) (rcGetall cl) [("shape", ofNat nc)])

def semi (j : Json) : Except String Json := do
  let labels ← intList (← val j "labels")
  match smCtor labels (← bool j "pOk") (← nat j "k") (← natList (← val j "perm")) with
  | .error e => pure (ctorErr e)
  | .ok st => pure (answer labels.length (smGetitem st) (smGetall st))

def encJ : Except Err Enc → Json
  | .ok (.cls y) => ofInt y
  | .ok (.scalar q) => Json.mkObj [("s", ofRat q)]
  | .ok (.vec v) => Json.mkObj [("v", ofRatList v)]
  | .error e => Json.str (errStr e)

def ls (j : Json) : Except String Json := do
  let labels ← intList (← val j "labels")
  let s ← asRat (← val j "s")
  let nc ← nat j "nc"
  match lsCtor s with
  | .error e => pure (ctorErr e)
  | .ok _ => pure (Json.mkObj [("ctor", Json.str "ok"),
      ("items", Json.arr ((List.range labels.length).map (fun i => encJ (lsGetitem s nc labels i))).toArray),
      ("bulk", bulkJ (encGetall labels))])

def oh (j : Json) : Except String Json := do
  let labels ← intList (← val j "labels")
  let nc ← nat j "nc"
  pure (Json.mkObj [("ctor", Json.str "ok"),
    ("items", Json.arr ((List.range labels.length).map (fun i =>
      encJ ((ohGetitem nc labels i).map Enc.vec))).toArray),
    ("bulk", bulkJ (encGetall labels))])

def handle (op : String) (j : Json) : Except String Json :=
  match op with
  | "lb.cg" => cg j
  | "lb.rs" => rs j
  | "lb.swap" => swap j
  | "lb.ow" => ow j
  | "lb.ag" => ag j
  | "lb.pl" => pl j
  | "lb.rc" => rc j
  | "lb.semi" => semi j
  | "lb.ls" => ls j
  | "lb.oh" => oh j
  | _ => throw s!"unknown op {op}"

end KDVerif.Labels.Driver
