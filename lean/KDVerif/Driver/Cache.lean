import KDVerif.Driver.J
import KDVerif.Model.Cache
import KDVerif.Model.C19Spec
open Lean KDVerif.J

namespace KDVerif.Cache.Driver
open KDVerif.Cache

def parseOp (v : Json) : Except String Op := do
  let a ← v.getArr?
  if a.size == 0 then throw "op: empty"
  match (← a[0]!.getStr?) with
  | "g" => pure (.get (← a[1]!.getNat?))
  | "c" => pure .clear
  | s => throw s!"op: {s}"

def resJson : Res → Json
  | .val i v => Json.arr #["val", ofNat i, ofNat v]
  | .cleared => Json.arr #["cleared"]

def evJson (r : Nat) : Ev → Json
  | .contains i b => Json.arr #[ofNat r, "contains", ofNat i, Json.bool b]
  | .read i b => Json.arr #[ofNat r, "read", ofNat i, Json.bool b]
  | .load i => Json.arr #[ofNat r, "load", ofNat i]
  | .store i => Json.arr #[ofNat r, "store", ofNat i]
  | .clear => Json.arr #[ofNat r, "clear"]
  | .noop => Json.arr #[ofNat r, "noop"]

/-- op "cache.run": replay a schedule -/
def runSched (j : Json) : Except String Json := do
  let fl ← natList (← val j "f")
  let tadd ← nat j "t"
  let progs ← (← arr j "progs").toList.mapM (fun p => do (← p.getArr?).toList.mapM parseOp)
  let sched ← natList (← val j "sched")
  let f : Nat → Val := fun i => fl.getD i 0
  let t : Val → Val := fun v => v + tadd
  let s0 := init progs
  let s := run f t sched s0
  let evs := events f t sched s0
  let dictL := (List.range fl.length).filterMap (fun i => (s.sh.dict i).map (fun v => ofNatList [i, v]))
  -- the mutable-payload variant (`Model/C19Spec`): samples are heap cells, the transform works in place on what is handed out,
  -- the cache hands out a copy (as the repaired `SharedDictDataset` does)
  let ms := Mut.mrun true f t sched (Mut.minit progs)
  let mdictL := (List.range fl.length).filterMap (fun i => (Mut.cachedContents ms i).map (fun v => ofNatList [i, v]))
  pure (Json.mkObj [
    ("outs", Json.arr (s.readers.map (fun rd => Json.arr (rd.out.map resJson).toArray)).toArray),
    ("loads", ofNatList s.sh.loads),
    ("tapps", ofNat s.sh.tapps.length),
    ("dict", Json.arr dictL.toArray),
    ("mut_outs", Json.arr (ms.readers.map (fun rd => Json.arr (rd.out.map resJson).toArray)).toArray),
    ("mut_dict", Json.arr mdictL.toArray),
    ("trace", Json.arr ((sched.zip evs).map (fun x => evJson x.1 x.2)).toArray),
    ("done", Json.arr (s.readers.map (fun rd => Json.bool (rd.todo.isEmpty && rd.pc == .idle))).toArray)])

def handle (op : String) (j : Json) : Except String Json :=
  match op with
  | "cache.run" => runSched j
  | _ => throw s!"unknown op {op}"

end KDVerif.Cache.Driver
