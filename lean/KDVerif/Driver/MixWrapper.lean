import KDVerif.Driver.J
import KDVerif.Model.MixWrapper
open Lean KDVerif.J

namespace KDVerif.MixWrapper.Driver
open KDVerif.MixWrapper

def asOptRat (v : Json) : Except String (Option Rat) :=
  match v with
  | .null => pure none
  | v => some <$> asRat v

def optRat (j : Json) (k : String) : Except String (Option Rat) :=
  match j.getObjVal? k with
  | .ok v => asOptRat v
  | .error _ => pure none

def parseUnify (j : Json) : Except String (Option Unify) :=
  match j.getObjVal? "unify" with
  | .ok (.str "pad_or_cut_end") => pure (some .padOrCutEnd)
  | .ok (.str _) => pure (some .other)
  | _ => pure none

def parseCtor (j : Json) : Except String CtorArgs := do
  pure ⟨← optRat j "mixup_p", ← optRat j "cutmix_p", ← optRat j "mixup_alpha", ← optRat j "cutmix_alpha",
        ← parseUnify j, ← asRat (← val j "float_sum")⟩

def parseDraw (j : Json) : Except String Draw := do
  match (← str j "k") with
  | "unif" => pure (.unif (← asRat (← val j "v")))
  | "int" => pure (.int (← nat j "hi") (← nat j "v"))
  | "beta" => pure (.beta (← asRat (← val j "a")) (← asRat (← val j "v")))
  | _ => pure .other

/-- row-major flat data ↦ tensor -/
def tenOfFlat (shape : List Nat) (data : List Int) : Ten :=
  { rank := shape.length
    shape := fun d => shape.getD d 0
    el := fun ι =>
      let off := (List.range shape.length).foldl (fun acc d => acc * shape.getD d 0 + ι d) 0
      ((data.getD off 0 : Int) : Rat) }

def parseTen (j : Json) : Except String Ten := do
  pure (tenOfFlat (← natList (← val j "shape")) (← intList (← val j "data")))

/-- all index tuples of the given extents, row-major -/
def allIdx : List Nat → List (List Nat)
  | [] => [[]]
  | s :: rest => (List.range s).flatMap (fun i => (allIdx rest).map (fun t => i :: t))

def tenJson (t : Ten) : Json :=
  let shape := shapeList t
  Json.mkObj [("shape", ofNatList shape),
    ("data", Json.arr ((allIdx shape).map (fun idx => ofRat (t.el (fun d => idx.getD d 0)))).toArray)]

def errName : Err → String
  | .assertion => "assert"
  | .notImplemented => "notimpl"
  | .typeError => "type"
  | .runtime => "RuntimeError"
  | .tape => "tape"

def parseReq (s : String) : Except String Req :=
  match s with
  | "x class" => pure .xclass
  | "class x" => pure .classx
  | "x" => pure .x
  | "class" => pure .cls
  | _ => throw "req"

/-- op "mw.get": constructor + one ModeWrapper request -/
def run (j : Json) : Except String Json := do
  let a ← parseCtor (← val j "ctor")
  match ctor a with
  | .error e => pure (Json.mkObj [("ctor", errName e)])
  | .ok cfg =>
    let dj ← val j "ds"
    let xs ← (← arr dj "xs").toList.mapM parseTen
    let cls ← natList (← val dj "cls")
    let zero : Ten := ⟨0, fun _ => 0, fun _ => 0⟩
    let ds : DS := ⟨← nat dj "len", fun k => xs.getD k zero, fun k => cls.getD k 0, ← nat dj "n_classes"⟩
    let tapes ← (← arr j "tapes").toList.mapM (fun t => do (← t.getArr?).toList.mapM parseDraw)
    let req ← parseReq (← str j "req")
    match modeGet cfg (fun k => tapes.getD k []) ds (← nat j "idx") req with
    | .error e => pure (Json.mkObj [("ctor", "ok"), ("res", errName e)])
    | .ok (x, l) =>
      pure (Json.mkObj [("ctor", "ok"), ("res", "ok"),
        ("x", match x with | some t => tenJson t | none => Json.null),
        ("cls", match l with | some l => ofRatList l | none => Json.null)])

def handle (op : String) (j : Json) : Except String Json :=
  match op with
  | "mw.get" => run j
  | _ => throw s!"unknown op {op}"

end KDVerif.MixWrapper.Driver
