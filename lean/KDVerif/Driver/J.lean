/- JSON helpers for the line-protocol driver (executable only; nothing here is reasoned about). -/
import Lean.Data.Json
open Lean

namespace KDVerif.J

def nat (j : Json) (k : String) : Except String Nat := do
  let v ← j.getObjVal? k
  v.getNat?

def int (j : Json) (k : String) : Except String Int := do
  let v ← j.getObjVal? k
  v.getInt?

def bool (j : Json) (k : String) : Except String Bool := do
  let v ← j.getObjVal? k
  v.getBool?

def str (j : Json) (k : String) : Except String String := do
  let v ← j.getObjVal? k
  v.getStr?

def arr (j : Json) (k : String) : Except String (Array Json) := do
  let v ← j.getObjVal? k
  v.getArr?

def val (j : Json) (k : String) : Except String Json := j.getObjVal? k

/-- `null` or absent ↦ none -/
def optNat (j : Json) (k : String) : Except String (Option Nat) :=
  match j.getObjVal? k with
  | .ok .null => pure none
  | .ok v => some <$> v.getNat?
  | .error _ => pure none

def optInt (j : Json) (k : String) : Except String (Option Int) :=
  match j.getObjVal? k with
  | .ok .null => pure none
  | .ok v => some <$> v.getInt?
  | .error _ => pure none

def asOptNat (v : Json) : Except String (Option Nat) :=
  match v with
  | .null => pure none
  | v => some <$> v.getNat?

def asOptInt (v : Json) : Except String (Option Int) :=
  match v with
  | .null => pure none
  | v => some <$> v.getInt?

def natList (v : Json) : Except String (List Nat) := do
  let a ← v.getArr?
  a.toList.mapM (·.getNat?)

def intList (v : Json) : Except String (List Int) := do
  let a ← v.getArr?
  a.toList.mapM (·.getInt?)

def natListList (v : Json) : Except String (List (List Nat)) := do
  let a ← v.getArr?
  a.toList.mapM natList

def ofNat (n : Nat) : Json := Json.num (JsonNumber.fromNat n)
def ofNatList (l : List Nat) : Json := Json.arr (l.map ofNat).toArray
def ofIntList (l : List Int) : Json := Json.arr (l.map (fun n => Json.num (JsonNumber.fromInt n))).toArray
def ofNatListList (l : List (List Nat)) : Json := Json.arr (l.map ofNatList).toArray
def ofInt (i : Int) : Json := Json.num (JsonNumber.fromInt i)
def ofOptNat : Option Nat → Json
  | none => .null
  | some n => ofNat n

/-- rational as [num, den] -/
def ofRat (q : Rat) : Json := Json.arr #[ofInt q.num, ofNat q.den]

def asRat (v : Json) : Except String Rat := do
  let a ← v.getArr?
  if a.size != 2 then throw "rat: expected [num, den]"
  let n ← a[0]!.getInt?
  let d ← a[1]!.getNat?
  if d == 0 then throw "rat: zero denominator"
  pure (mkRat n d)

def ratList (v : Json) : Except String (List Rat) := do
  let a ← v.getArr?
  a.toList.mapM asRat

def ofRatList (l : List Rat) : Json := Json.arr (l.map ofRat).toArray

end KDVerif.J
