import KDVerif.Driver.J
import KDVerif.Model.Collate
open Lean KDVerif.J

namespace KDVerif.Collate.Driver
open KDVerif.Collate

def parseField (v : Json) : Except String Field :=
  match v.getObjVal? "q" with
  | .ok q => do pure (.seq (← intList q))
  | .error _ => do pure (.scal (← (← v.getObjVal? "s").getInt?))

def parseCtx1 (v : Json) : Except String Ctx1 := do
  let a ← v.getArr?
  a.toList.mapM (fun kv => do
    let p ← kv.getArr?
    if p.size != 2 then throw "ctx entry: [key, value]"
    pure ((← p[0]!.getNat?), (← p[1]!.getInt?)))

def parseSample (v : Json) : Except String Sample := do
  let its ← (← arr v "items").toList.mapM parseField
  pure ⟨its, ← parseCtx1 (← val v "ctx")⟩

def parseMode (v : Json) : Except String Mode :=
  match v with
  | .null => pure .none
  | .str "before" => pure .before
  | .str "after" => pure .after
  | _ => throw "mode"

def parseMember (v : Json) : Except String Member := do
  match (← str v "kind") with
  | "pad" => pure .pad
  | "probe" =>
    let m ← parseMode ((v.getObjVal? "mode").toOption.getD .null)
    pure (.probe m (← optNat v "key"))
  | _ => throw "member kind"

def fieldJson : Field → Json
  | .seq xs => ofIntList xs
  | .scal x => ofInt x

def colJson : Col → Json
  | .scalars xs => ofIntList xs
  | .rows rs => Json.arr (rs.map ofIntList).toArray

def itemsJson (it : List Field) : Json :=
  match it with
  | [f] => fieldJson f
  | _ => Json.arr (it.map fieldJson).toArray

def colsJson (cols : List Col) : Json :=
  match cols with
  | [c] => colJson c
  | _ => Json.arr (cols.map colJson).toArray

def batchJson : BatchV → Json
  | .raw ss => Json.arr (ss.map (fun s => itemsJson s.items)).toArray
  | .items xs => Json.arr (xs.map itemsJson).toArray
  | .collated _ cols => colsJson cols

def ctxValJson : CtxVal → Json
  | .col xs => ofIntList xs
  | .one x => ofInt x

def insertSorted (k : Nat) : List Nat → List Nat
  | [] => [k]
  | a :: r => if k ≤ a then k :: a :: r else a :: insertSorted k r

def sortNats (l : List Nat) : List Nat := l.foldr insertSorted []

def insertKV (kv : Nat × CtxVal) : List (Nat × CtxVal) → List (Nat × CtxVal)
  | [] => [kv]
  | a :: r => if kv.1 ≤ a.1 then kv :: a :: r else a :: insertKV kv r

def ctxJson (c : Ctx) : Json :=
  Json.arr ((c.foldr insertKV []).map (fun kv => Json.arr #[ofNat kv.1, ctxValJson kv.2])).toArray

def evJson : Ev → Json
  | .dc => Json.arr #["dc"]
  | .dcCtx => Json.arr #["dcctx"]
  | .member t seen => Json.arr #["m", ofNat t, ofNatList (sortNats seen)]

def errJson : Err → Json
  | .assertion => Json.mkObj [("out", "assert")]
  | _ => Json.mkObj [("out", "exc")]

/-- op "cl.run" -/
def runOp (j : Json) : Except String Json := do
  let entry ← str j "entry"
  let rc ← bool j "rc"
  let members ← (← arr j "members").toList.mapM parseMember
  let ss ← (← arr j "samples").toList.mapM parseSample
  if entry == "direct" then
    if rc then
      match padDirect ss with
      | .error e => pure (errJson e)
      | .ok (cols, c) =>
        pure (Json.mkObj [("out", "ok"), ("pair", true), ("batch", colsJson cols), ("ctx", ctxJson c), ("trace", Json.arr #[])])
    else
      match padItems (ss.map Sample.items) with
      | .error e => pure (errJson e)
      | .ok cols =>
        pure (Json.mkObj [("out", "ok"), ("pair", false), ("batch", colsJson cols), ("ctx", Json.arr #[]), ("trace", Json.arr #[])])
  else
    let r ← match entry, members with
      | "compose", ms => pure (composeCall rc ms ss)
      | "single", [m] => pure (singleCall rc m ss)
      | "wrapper", [m] => pure (wrapperCall rc m ss)
      | _, _ => throw "entry/members"
    match r with
    | .error .assertion =>
      if entry == "compose" && members.isEmpty then pure (Json.mkObj [("out", "ctor-assert")]) else pure (errJson .assertion)
    | .error e => pure (errJson e)
    | .ok res =>
      pure (Json.mkObj [("out", "ok"), ("pair", res.isPair), ("batch", batchJson res.batch),
        ("ctx", if res.isPair then ctxJson res.ctx else Json.arr #[]),
        ("trace", Json.arr (res.trace.map evJson).toArray)])

def handle (op : String) (j : Json) : Except String Json :=
  match op with
  | "cl.run" => runOp j
  | _ => throw s!"unknown op {op}"

end KDVerif.Collate.Driver
