/-
Helper lemmas for class-blocked selections (sort-by-class, oversampling, few-shot, class-wise subset, intra-class shuffle).
A *blocked* list is `(l.flatMap g)` where every entry of `g a` is a sample of class `a`.
-/
import KDVerif.Lemmas.Selection

namespace KDVerif.Selection

/-! ### class-blocked lists -/

theorem filter_blocks (cls : List Int) (g : Nat → List Nat)
    (hg : ∀ a, ∀ x ∈ g a, cls[x]? = some (a : Int)) (c : Nat) :
    ∀ l : List Nat, l.Nodup →
      (l.flatMap g).filter (fun i => cls[i]? == some (c : Int)) = if c ∈ l then g c else [] := by
  intro l
  induction l with
  | nil => intro _; simp
  | cons a t ih =>
    intro hd
    rw [List.nodup_cons] at hd
    rw [List.flatMap_cons, List.filter_append, ih hd.2]
    by_cases hac : a = c
    · subst hac
      have h1 : (g a).filter (fun i => cls[i]? == some (a : Int)) = g a := by
        rw [List.filter_eq_self]
        intro x hx
        simp [hg a x hx]
      simp [h1, hd.1]
    · have h1 : (g a).filter (fun i => cls[i]? == some (c : Int)) = [] := by
        rw [List.filter_eq_nil_iff]
        intro x hx
        rw [hg a x hx]
        simp
        omega
      have h2 : (c ∈ a :: t) ↔ c ∈ t := by
        simp [List.mem_cons]
        intro h; exact absurd h.symm hac
      simp only [h1, List.nil_append, h2]

theorem filter_blocks_none (cls : List Int) (g : Nat → List Nat)
    (hg : ∀ a, ∀ x ∈ g a, cls[x]? = some (a : Int)) (c : Int) :
    ∀ l : List Nat, (∀ a ∈ l, (a : Int) ≠ c) →
      (l.flatMap g).filter (fun i => cls[i]? == some c) = [] := by
  intro l h
  rw [List.filter_eq_nil_iff]
  intro x hx
  rw [List.mem_flatMap] at hx
  obtain ⟨a, ha, hxa⟩ := hx
  rw [hg a x hxa]
  simp
  exact h a ha

theorem pairwise_blocks (R : Nat → Nat → Prop) (g : Nat → List Nat) (m : Nat)
    (hin : ∀ a, a < m → (g a).Pairwise R)
    (hcross : ∀ a b, a < b → b < m → ∀ x ∈ g a, ∀ y ∈ g b, R x y) :
    ((List.range m).flatMap g).Pairwise R := by
  rw [List.pairwise_flatMap]
  refine ⟨fun a ha => hin a (List.mem_range.1 ha), ?_⟩
  have := List.pairwise_lt_range (n := m)
  refine this.imp_of_mem ?_
  intro a b _ hb hab x hx y hy
  exact hcross a b hab (List.mem_range.1 hb) x hx y hy

theorem nodup_blocks (cls : List Int) (g : Nat → List Nat) (m : Nat)
    (hg : ∀ a, ∀ x ∈ g a, cls[x]? = some (a : Int)) (hn : ∀ a, a < m → (g a).Nodup) :
    ((List.range m).flatMap g).Nodup := by
  apply pairwise_blocks (· ≠ ·) g m hn
  intro a b hab _ x hx y hy hxy
  subst hxy
  have h1 := hg a x hx
  have h2 := hg b x hy
  rw [h1] at h2
  injection h2 with h2
  omega

/-- blocks in class order are class-sorted; inside a block the given relation holds -/
theorem sorted_blocks (cls : List Int) (g : Nat → List Nat) (m : Nat)
    (hg : ∀ a, ∀ x ∈ g a, cls[x]? = some (a : Int)) (hlt : ∀ a, a < m → (g a).Pairwise (· < ·)) :
    ((List.range m).flatMap g).Pairwise
      (fun i j => ∃ a b, cls[i]? = some a ∧ cls[j]? = some b ∧ (a < b ∨ (a = b ∧ i < j))) := by
  apply pairwise_blocks
  · intro a ha
    refine (hlt a ha).imp_of_mem ?_
    intro x y hx hy hxy
    exact ⟨a, a, hg a x hx, hg a y hy, Or.inr ⟨rfl, hxy⟩⟩
  · intro a b hab _ x hx y hy
    exact ⟨a, b, hg a x hx, hg b y hy, Or.inl (by omega)⟩

theorem countP_range_cls (cls : List Int) (c : Int) :
    (List.range cls.length).countP (fun i => cls[i]? == some c) = cls.count c := by
  induction cls with
  | nil => simp
  | cons a cs ih =>
    rw [List.length_cons, List.range_succ_eq_map, List.countP_cons, List.countP_map, List.count_cons]
    have : ((fun i => (a :: cs)[i]? == some c) ∘ Nat.succ) = (fun i => cs[i]? == some c) := by
      funext i; simp
    rw [this, ih]
    simp

/-! ### class counts -/

theorem classCounts_ok (cls : List Int) (nc : Nat) (counts : List Nat) (h : classCounts cls nc = .ok counts) :
    counts.length = countsLen nc ∧ (∀ i, i < countsLen nc → counts.getD i 0 = cls.count (i : Int)) ∧
    ∀ c ∈ cls, c = -1 ∨ (0 ≤ c ∧ c < (countsLen nc : Int)) := by
  unfold classCounts at h
  split at h
  · rename_i hall
    injection h with h
    subst h
    refine ⟨by simp, ?_, ?_⟩
    · intro i hi
      simp [List.getD_eq_getElem?_getD, hi]
    · intro c hc
      rw [List.all_eq_true] at hall
      have := hall c hc
      simp only [Bool.or_eq_true, beq_iff_eq, Bool.and_eq_true, decide_eq_true_eq] at this
      exact this
  · cases h

theorem le_foldl_max (l : List Nat) : ∀ init, init ≤ l.foldl max init ∧ ∀ x ∈ l, x ≤ l.foldl max init := by
  induction l with
  | nil => intro init; simp
  | cons a t ih =>
    intro init
    simp only [List.foldl_cons]
    obtain ⟨h1, h2⟩ := ih (max init a)
    refine ⟨by omega, ?_⟩
    intro x hx
    rcases List.mem_cons.1 hx with h | h
    · subst h; omega
    · exact h2 x h

theorem foldl_max_mem (l : List Nat) : ∀ init, l.foldl max init = init ∨ l.foldl max init ∈ l := by
  induction l with
  | nil => intro init; simp
  | cons a t ih =>
    intro init
    simp only [List.foldl_cons]
    rcases ih (max init a) with h | h
    · rw [h]
      by_cases hia : a ≤ init
      · left; omega
      · right; rw [Nat.max_eq_right (by omega)]; exact List.mem_cons_self ..
    · right; exact List.mem_cons_of_mem _ h

theorem le_countsLen (nc : Nat) : nc ≤ countsLen nc := by
  unfold countsLen; split <;> omega

theorem classCounts_of_dom (cls : List Int) (nc : Nat)
    (hdom : ∀ c ∈ cls, c = -1 ∨ (0 ≤ c ∧ c < (countsLen nc : Int))) :
    classCounts cls nc = .ok ((List.range (countsLen nc)).map (fun (i : Nat) => cls.count (i : Int))) := by
  unfold classCounts
  rw [if_pos]
  rw [List.all_eq_true]
  intro c hc
  simp only [Bool.or_eq_true, beq_iff_eq, Bool.and_eq_true, decide_eq_true_eq]
  exact hdom c hc

theorem getD_mem_of_lt (l : List Nat) (i : Nat) (h : i < l.length) : l.getD i 0 ∈ l := by
  rw [List.getD_eq_getElem?_getD, List.getElem?_eq_getElem h]
  exact List.getElem_mem h

/-- the `max_class_count` of the code is the largest count of a labeled class -/
theorem mx_spec (cls : List Int) (nc : Nat) (counts : List Nat) (hc : classCounts cls nc = .ok counts)
    (hlen : counts.length ≠ 0) :
    (∀ c : Int, c ≠ -1 → cls.count c ≤ counts.foldl max 0) ∧
    ∃ c : Nat, c < countsLen nc ∧ cls.count (c : Int) = counts.foldl max 0 := by
  obtain ⟨hl, hget, hdom⟩ := classCounts_ok cls nc counts hc
  have h1 : ∀ c : Int, c ≠ -1 → cls.count c ≤ counts.foldl max 0 := by
    intro c hne
    by_cases hmem : c ∈ cls
    · rcases hdom c hmem with h | ⟨h0, h1⟩
      · exact absurd h hne
      · have hi : c.toNat < countsLen nc := by omega
        have hcast : ((c.toNat : Nat) : Int) = c := Int.toNat_of_nonneg h0
        have := hget c.toNat hi
        rw [hcast] at this
        rw [← this]
        exact (le_foldl_max counts 0).2 _ (getD_mem_of_lt counts _ (by omega))
    · rw [List.count_eq_zero.2 hmem]; exact Nat.zero_le _
  refine ⟨h1, ?_⟩
  rcases foldl_max_mem counts 0 with h | h
  · refine ⟨0, by omega, ?_⟩
    have := h1 (0 : Int) (by decide)
    rw [h] at this ⊢
    simpa using this
  · obtain ⟨i, hi, hget'⟩ := List.mem_iff_getElem.1 h
    refine ⟨i, by omega, ?_⟩
    rw [← hget i (by omega), List.getD_eq_getElem?_getD, List.getElem?_eq_getElem hi]
    exact hget'

theorem le_foldl_maxInt (l : List Int) : ∀ init : Int, init ≤ l.foldl max init ∧ ∀ x ∈ l, x ≤ l.foldl max init := by
  induction l with
  | nil => intro init; simp
  | cons a t ih =>
    intro init
    simp only [List.foldl_cons]
    obtain ⟨h1, h2⟩ := ih (max init a)
    refine ⟨by omega, ?_⟩
    intro x hx
    rcases List.mem_cons.1 hx with h | h
    · subst h; omega
    · exact h2 x h

theorem lt_fewshotNumClasses (cls : List Int) (c : Nat) (h : (c : Int) ∈ cls) : c < fewshotNumClasses cls := by
  unfold fewshotNumClasses
  have := (le_foldl_maxInt cls (-1)).2 _ h
  omega

theorem mem_multiplyExtra (cls : List Int) (mx i cnt x : Nat) (hx : x ∈ multiplyExtra cls mx i cnt) :
    cls[x]? = some (i : Int) := by
  unfold multiplyExtra at hx
  dsimp only at hx
  split at hx
  · cases hx
  · split at hx
    · exact (mem_whereEq cls i x).1 ((mem_tile _ _ _).1 hx).2
    · cases hx

theorem length_multiplyExtra (cls : List Int) (mx i cnt : Nat) (h0 : cnt ≠ 0) :
    (multiplyExtra cls mx i cnt).length = (mx / cnt - 1) * cls.count (i : Int) := by
  unfold multiplyExtra
  dsimp only
  rw [if_neg h0]
  by_cases hf : 0 < mx / cnt - 1
  · rw [if_pos hf, length_tile, length_whereEq]
  · rw [if_neg hf]
    have : mx / cnt - 1 = 0 := by omega
    rw [this]; simp

/-! ### mode "exact": the literal loop equals the fuel-free round-robin form -/

/-- the first `rem` entries of `idxs` repeated round-robin -/
def cycTake (idxs : List Nat) (rem : Nat) : List Nat :=
  tile idxs (rem / idxs.length) ++ idxs.take (rem % idxs.length)

theorem cycTake_lt (idxs : List Nat) (rem : Nat) (h : rem < idxs.length) : cycTake idxs rem = idxs.take rem := by
  unfold cycTake
  rw [Nat.div_eq_of_lt h, Nat.mod_eq_of_lt h]
  simp [tile]

theorem cycTake_ge (idxs : List Nat) (rem : Nat) (hpos : 0 < idxs.length) (h : idxs.length ≤ rem) :
    cycTake idxs rem = idxs ++ cycTake idxs (rem - idxs.length) := by
  unfold cycTake
  rw [Nat.div_eq rem, if_pos ⟨hpos, h⟩, tile_succ, Nat.mod_eq_sub_mod h, List.append_assoc]

theorem exactLoop_eq (idxs : List Nat) (hpos : 0 < idxs.length) :
    ∀ fuel rem acc, rem ≤ fuel → exactLoop fuel idxs rem acc = .ok (acc ++ cycTake idxs rem) := by
  intro fuel
  induction fuel with
  | zero =>
    intro rem acc h
    have : rem = 0 := by omega
    subst this
    simp [exactLoop, cycTake, tile]
  | succ fuel ih =>
    intro rem acc h
    by_cases h0 : rem = 0
    · subst h0
      simp [exactLoop, cycTake, tile]
    · have hr : 0 < rem := Nat.pos_of_ne_zero h0
      simp only [exactLoop, hr, if_true, gather_take_range, List.length_take, List.length_range]
      by_cases hlt : rem < idxs.length
      · rw [Nat.min_eq_left (by omega), Nat.sub_self, ih 0 _ (Nat.zero_le _), cycTake_lt _ _ hlt]
        simp [cycTake, tile]
      · have hge : idxs.length ≤ rem := by omega
        rw [Nat.min_eq_right hge, ih _ _ (by omega), cycTake_ge _ _ hpos hge,
          List.take_of_length_le hge, List.append_assoc]

theorem exactLoop_diverges (idxs : List Nat) (h0 : idxs.length = 0) :
    ∀ fuel rem acc, 0 < rem → exactLoop fuel idxs rem acc = .error .outOfFuel := by
  intro fuel
  induction fuel with
  | zero => intro rem acc h; simp [exactLoop, h]
  | succ fuel ih =>
    intro rem acc h
    have hnil : idxs = [] := List.eq_nil_of_length_eq_zero h0
    subst hnil
    simp only [exactLoop, h, if_true]
    simp only [List.length_nil, List.range_zero, List.take_nil, Nat.sub_zero]
    exact ih rem _ h

theorem length_cycTake (idxs : List Nat) (rem : Nat) (hpos : 0 < idxs.length) : (cycTake idxs rem).length = rem := by
  unfold cycTake
  rw [List.length_append, length_tile, List.length_take,
    Nat.min_eq_left (Nat.le_of_lt (Nat.mod_lt _ hpos))]
  have := Nat.div_add_mod rem idxs.length
  rw [Nat.mul_comm] at this
  exact this

theorem mem_cycTake (idxs : List Nat) (rem x : Nat) (h : x ∈ cycTake idxs rem) : x ∈ idxs := by
  unfold cycTake at h
  rcases List.mem_append.1 h with h | h
  · exact ((mem_tile _ _ _).1 h).2
  · exact List.mem_of_mem_take h

theorem prefix_cycTake (idxs : List Nat) (rem : Nat) (hpos : 0 < idxs.length) (h : idxs.length ≤ rem) :
    idxs <+: cycTake idxs rem := by
  rw [cycTake_ge _ _ hpos h]
  exact List.prefix_append _ _

theorem getElem?_cycTake (idxs : List Nat) (hpos : 0 < idxs.length) :
    ∀ rem k, k < rem → (cycTake idxs rem)[k]? = idxs[k % idxs.length]? := by
  intro rem
  induction rem using Nat.strongRecOn with
  | _ rem ih =>
    intro k hk
    by_cases hlt : rem < idxs.length
    · rw [cycTake_lt _ _ hlt, List.getElem?_take, if_pos hk, Nat.mod_eq_of_lt (by omega)]
    · have hge : idxs.length ≤ rem := by omega
      rw [cycTake_ge _ _ hpos hge, List.getElem?_append]
      by_cases hkl : k < idxs.length
      · simp only [hkl, if_true]
        rw [Nat.mod_eq_of_lt hkl]
      · simp only [hkl, if_false]
        rw [ih (rem - idxs.length) (by omega) (k - idxs.length) (by omega)]
        rw [← Nat.mod_eq_sub_mod (by omega)]

/-- block of class `i` produced by mode "exact" -/
def exactBlock (cls : List Int) (mx i cnt : Nat) : List Nat :=
  if cnt = 0 then [] else cycTake (whereEq cls (i : Int)) mx

theorem exactClass_eq (fuel : Nat) (cls : List Int) (mx : Nat) (hf : mx ≤ fuel) (i cnt : Nat)
    (hi : cnt = cls.count (i : Int)) : exactClass fuel cls mx i cnt = .ok (exactBlock cls mx i cnt) := by
  unfold exactClass exactBlock
  by_cases h0 : cnt = 0
  · simp [h0]
  · simp only [h0, if_false]
    have hpos : 0 < (whereEq cls (i : Int)).length := by
      rw [length_whereEq, ← hi]; omega
    rw [exactLoop_eq _ hpos fuel mx [] hf]
    simp

theorem exactGo_eq (fuel : Nat) (cls : List Int) (counts : List Nat) (mx : Nat) (hf : mx ≤ fuel) :
    ∀ l : List Nat, (∀ i ∈ l, counts.getD i 0 = cls.count (i : Int)) →
      exactGo fuel cls counts mx l = .ok (l.flatMap (fun i => exactBlock cls mx i (counts.getD i 0))) := by
  intro l
  induction l with
  | nil => intro _; rfl
  | cons i t ih =>
    intro h
    have hb := exactClass_eq fuel cls mx hf i (counts.getD i 0) (h i (List.mem_cons_self ..))
    simp only [exactGo, hb, ih (fun j hj => h j (List.mem_cons_of_mem _ hj)), List.flatMap_cons]

/-! ### class-wise subset -/

theorem pySlice_sublist (x : List Nat) (s e : Nat) : (pySlice x s e).Sublist x :=
  (List.drop_sublist _ _).trans (List.take_sublist _ _)

theorem classwise_index_block (W : List Nat) (cnt s e : Nat) (hcnt : cnt = W.length) :
    (if cnt ≤ s then [] else pySlice W s (min e cnt)) = (W.take e).drop s := by
  by_cases h : cnt ≤ s
  · rw [if_pos h, List.drop_eq_nil_of_le]
    rw [List.length_take]; omega
  · rw [if_neg h]
    unfold pySlice
    by_cases he : e ≤ cnt
    · rw [Nat.min_eq_left he]
    · rw [Nat.min_eq_right (by omega), List.take_of_length_le (by omega), List.take_of_length_le (by omega)]

theorem pyOrRat_zero (x : Option Rat) : pyOrRat x 0 = x.getD 0 := by
  cases x with
  | none => rfl
  | some v => by_cases h : v = 0 <;> simp [pyOrRat, h]

theorem pyOrNat_zero (x : Option Nat) : pyOrNat x 0 = x.getD 0 := by
  cases x with
  | none => rfl
  | some v => by_cases h : v = 0 <;> simp [pyOrNat, h]

/-! ### intra-class shuffle -/

theorem pyGet_nonneg {α : Type} (l : List α) (c : Int) (h0 : 0 ≤ c) : pyGet l c = l[c.toNat]? := by
  unfold pyGet; rw [if_pos h0]

theorem count_take_lt (pat : List Int) (c : Int) (j1 j2 : Nat) (h1 : pat[j1]? = some c) (h12 : j1 < j2) :
    (pat.take j1).count c < (pat.take j2).count c := by
  obtain ⟨hlt, hget⟩ := List.getElem?_eq_some_iff.1 h1
  have hsub : (pat.take (j1 + 1)).Sublist (pat.take j2) := List.take_sublist_take_left (by omega)
  have := hsub.count_le c
  rw [List.take_succ_eq_append_getElem hlt, List.count_append, hget] at this
  simp at this
  omega

theorem icsGo_spec (ctp : List (List Nat)) : ∀ (pat : List Int) (cnt : Int → Nat),
    (∀ c ∈ pat, 0 ≤ c ∧ c.toNat < ctp.length) →
    (∀ c ∈ pat, cnt c + pat.count c ≤ (ctp.getD c.toNat []).length) →
    ∃ res, icsGo ctp cnt pat = .ok res ∧ res.length = pat.length ∧
      ∀ j c, pat[j]? = some c → res[j]? = (ctp.getD c.toNat [])[cnt c + (pat.take j).count c]? := by
  intro pat
  induction pat with
  | nil => intro cnt _ _; exact ⟨[], rfl, rfl, by simp⟩
  | cons c rest ih =>
    intro cnt hdom hcount
    obtain ⟨h0, hlt⟩ := hdom c (List.mem_cons_self ..)
    have hget : pyGet ctp c = some (ctp.getD c.toNat []) := by
      rw [pyGet_nonneg _ _ h0, List.getD_eq_getElem?_getD, List.getElem?_eq_getElem hlt]; rfl
    have hc := hcount c (List.mem_cons_self ..)
    rw [List.count_cons_self] at hc
    have hk : cnt c < (ctp.getD c.toNat []).length := by omega
    obtain ⟨r, hr, hrlen, hrget⟩ := ih (fun x => if x = c then cnt c + 1 else cnt x)
      (fun c' hc' => hdom c' (List.mem_cons_of_mem _ hc'))
      (by
        intro c' hc'
        have := hcount c' (List.mem_cons_of_mem _ hc')
        by_cases heq : c' = c
        · subst heq
          rw [List.count_cons_self] at this
          simp only [if_true]; omega
        · rw [List.count_cons_of_ne (Ne.symm heq)] at this
          simp only [heq, if_false]; exact this)
    refine ⟨(ctp.getD c.toNat [])[cnt c] :: r, ?_, by simp [hrlen], ?_⟩
    · simp only [icsGo, hget, List.getElem?_eq_getElem hk, hr]
    · intro j c' hj
      cases j with
      | zero =>
        simp at hj
        subst hj
        simp
      | succ j =>
        rw [List.getElem?_cons_succ] at hj
        rw [List.getElem?_cons_succ, hrget j c' hj, List.take_succ_cons]
        by_cases heq : c' = c
        · subst heq
          simp only [if_true, List.count_cons_self]
          congr 1; omega
        · simp only [heq, if_false]
          rw [List.count_cons_of_ne (Ne.symm heq)]

end KDVerif.Selection
