/-
Helper lemmas for C11: how torch reads the `paddings` list the wrapper builds, the loop invariant of the
`pad_or_cut_end` loop, one-hot rows, convex combinations of rows.
-/
import KDVerif.Model.MixWrapper

namespace KDVerif.MixWrapper

/-! ### rationals -/

theorem convex_nonneg (w a b : Rat) (h0 : 0 ≤ w) (h1 : w ≤ 1) (ha : 0 ≤ a) (hb : 0 ≤ b) :
    0 ≤ w * a + (1 - w) * b := by
  have h2 : (0 : Rat) ≤ 1 - w := by grind
  have := Rat.mul_nonneg h0 ha
  have := Rat.mul_nonneg h2 hb
  grind

/-! ### label rows -/

theorem mixRow_sum (lam : Rat) : ∀ (y y2 : List Rat), y.length = y2.length →
    (mixRow lam y y2).sum = lam * y.sum + (1 - lam) * y2.sum := by
  intro y
  induction y with
  | nil =>
    intro y2 h
    cases y2 with
    | nil => simp [mixRow]; grind
    | cons b bs => simp at h
  | cons a as ih =>
    intro y2 h
    cases y2 with
    | nil => simp at h
    | cons b bs =>
      simp only [List.length_cons, Nat.add_right_cancel_iff] at h
      have := ih bs h
      simp only [mixRow, List.zipWith_cons_cons, List.sum_cons] at this ⊢
      rw [this]
      grind

theorem mixRow_nonneg (lam : Rat) (h0 : 0 ≤ lam) (h1 : lam ≤ 1) : ∀ (y y2 : List Rat),
    (∀ v ∈ y, 0 ≤ v) → (∀ v ∈ y2, 0 ≤ v) → ∀ v ∈ mixRow lam y y2, 0 ≤ v := by
  intro y
  induction y with
  | nil => intro y2 _ _ v hv; simp [mixRow] at hv
  | cons a as ih =>
    intro y2 hy hy2 v hv
    cases y2 with
    | nil => simp [mixRow] at hv
    | cons b bs =>
      simp only [mixRow, List.zipWith_cons_cons, List.mem_cons] at hv
      cases hv with
      | inl h =>
        subst h
        exact convex_nonneg lam a b h0 h1 (hy a (by simp)) (hy2 b (by simp))
      | inr h =>
        exact ih bs (fun v hv => hy v (by simp [hv])) (fun v hv => hy2 v (by simp [hv])) v h

/-- indicator sum over `0..n-1` -/
theorem indicator_sum (c : Nat) : ∀ n, ((List.range n).map (fun k => if k = c then (1 : Rat) else 0)).sum =
    if c < n then 1 else 0 := by
  intro n
  induction n with
  | zero => simp
  | succ m ih =>
    rw [List.range_succ, List.map_append, List.sum_append, ih]
    simp only [List.map_cons, List.map_nil, List.sum_cons, List.sum_nil]
    by_cases h1 : c < m
    · have : ¬ m = c := by omega
      have h2 : c < m + 1 := by omega
      simp only [h1, h2, this, if_true, if_false]; grind
    · by_cases h3 : m = c
      · have h2 : c < m + 1 := by omega
        simp only [h1, h2, h3, if_true, if_false]; grind
      · have h2 : ¬ c < m + 1 := by omega
        simp only [h1, h2, h3, if_false]; grind

theorem oneHot_ok {n c : Nat} {l : List Rat} (h : oneHot n c = .ok l) :
    c < n ∧ l.length = n ∧ (∀ v ∈ l, 0 ≤ v) ∧ l.sum = 1 ∧ ∀ k, k < n → l.getD k 0 = if k = c then 1 else 0 := by
  unfold oneHot at h
  by_cases hc : c < n
  · simp only [hc, if_true, Except.ok.injEq] at h
    subst h
    refine ⟨hc, by simp, ?_, ?_, ?_⟩
    · intro v hv
      simp only [List.mem_map, List.mem_range] at hv
      obtain ⟨k, _, hk⟩ := hv
      subst hk
      split <;> grind
    · rw [indicator_sum]; simp [hc]
    · intro k hk
      simp [List.getD_eq_getElem?_getD, List.getElem?_map, List.getElem?_range hk]
  · simp [hc] at h

/-! ### how torch reads the wrapper's `paddings` list -/

theorem pads_getD (m δ j : Nat) : (List.replicate m 0 ++ [δ]).getD j 0 = if j = m then δ else 0 := by
  rw [List.getD_eq_getElem?_getD]
  by_cases h1 : j < m
  · have : j ≠ m := by omega
    rw [List.getElem?_append_left (by simp; exact h1)]
    simp [List.getElem?_replicate, h1, this]
  · by_cases h2 : j = m
    · subst h2
      rw [List.getElem?_append_right (by simp)]
      simp
    · rw [List.getElem?_eq_none (by simp; omega)]
      simp [h2]

/-- padding with the list the wrapper builds for dimension `i` appends `δ` zeros at the END of dimension `i`
    and nothing else -/
theorem torchPad_wrapper_pads (t : Ten) (i δ : Nat) (hi : i < t.rank) :
    let p := torchPad t (List.replicate ((t.rank - i) * 2 - 1) 0 ++ [δ])
    p.rank = t.rank ∧
    (∀ d, d < t.rank → p.shape d = if d = i then t.shape d + δ else t.shape d) ∧
    (∀ ι, p.el ι = if InRange t.rank t.shape ι then t.el ι else 0) := by
  have hl : ∀ d, (List.replicate ((t.rank - i) * 2 - 1) 0 ++ [δ]).getD (2 * (t.rank - 1 - d)) 0 = 0 := by
    intro d
    rw [pads_getD]
    have : 2 * (t.rank - 1 - d) ≠ (t.rank - i) * 2 - 1 := by omega
    simp [this]
  have hr : ∀ d, d < t.rank → (List.replicate ((t.rank - i) * 2 - 1) 0 ++ [δ]).getD (2 * (t.rank - 1 - d) + 1) 0 =
      if d = i then δ else 0 := by
    intro d hd
    rw [pads_getD]
    by_cases hdi : d = i
    · subst hdi
      have : 2 * (t.rank - 1 - d) + 1 = (t.rank - d) * 2 - 1 := by omega
      simp [this]
    · have : 2 * (t.rank - 1 - d) + 1 ≠ (t.rank - i) * 2 - 1 := by omega
      simp [this, hdi]
  refine ⟨rfl, ?_, ?_⟩
  · intro d hd
    simp only [torchPad, hd, if_true, hl, hr d hd]
    by_cases hdi : d = i <;> simp [hdi]
  · intro ι
    simp only [torchPad, hl, Nat.zero_le, true_and, Nat.zero_add, Nat.sub_zero, InRange]

/-! ### the loop -/

theorem shapeList_length (t : Ten) : (shapeList t).length = t.rank := by simp [shapeList]

theorem deltas_length (x x2 : Ten) (h : x.rank = x2.rank) : (deltas x x2).length = x2.rank := by
  simp [deltas, shapeList, h]

theorem deltas_getD (x x2 : Ten) (h : x.rank = x2.rank) (i : Nat) (hi : i < x2.rank) :
    (deltas x x2).getD i 0 = (x.shape i : Int) - (x2.shape i : Int) := by
  have h1 : i < x.rank := by omega
  simp [deltas, shapeList, List.getD_eq_getElem?_getD, List.getElem?_zipWith, List.getElem?_map,
    List.getElem?_range hi, List.getElem?_range h1]

/-- invariant after the first `k` dimensions were processed -/
structure LoopInv (x x2 acc : Ten) (k : Nat) : Prop where
  rank : acc.rank = x2.rank
  shape : ∀ d, d < x2.rank → acc.shape d = if d < k then x.shape d else x2.shape d
  el : ∀ ι, InRange x2.rank acc.shape ι → acc.el ι = if InRange x2.rank x2.shape ι then x2.el ι else 0

theorem loop_step (x x2 acc : Ten) (h : x.rank = x2.rank) (k : Nat) (hk : k < x2.rank)
    (inv : LoopInv x x2 acc k) : LoopInv x x2 (unifyStep x (deltas x x2) acc k) (k + 1) := by
  unfold unifyStep
  rw [deltas_getD x x2 h k hk, deltas_length x x2 h]
  have hshk : acc.shape k = x2.shape k := by
    have := inv.shape k hk
    simpa using this
  by_cases h0 : (x.shape k : Int) - (x2.shape k : Int) = 0
  · -- nothing to do in this dimension
    simp only [h0, if_true]
    refine ⟨inv.rank, ?_, inv.el⟩
    intro d hd
    rw [inv.shape d hd]
    by_cases hdk : d = k
    · subst hdk
      have : x.shape d = x2.shape d := by omega
      simp [this]
    · by_cases hlt : d < k
      · have : d < k + 1 := by omega
        simp [hlt, this]
      · have : ¬ d < k + 1 := by omega
        simp [hlt, this]
  · simp only [h0, if_false]
    by_cases hpos : (x.shape k : Int) - (x2.shape k : Int) > 0
    · -- pad at the end of dimension k
      simp only [hpos, if_true]
      have hkr : k < acc.rank := by rw [inv.rank]; exact hk
      have hp := torchPad_wrapper_pads acc k ((x.shape k : Int) - (x2.shape k : Int)).toNat hkr
      rw [inv.rank] at hp
      obtain ⟨hr, hs, he⟩ := hp
      have hsh : ∀ d, d < x2.rank →
          (torchPad acc (List.replicate ((x2.rank - k) * 2 - 1) 0 ++ [((x.shape k : Int) - (x2.shape k : Int)).toNat])).shape d =
            if d < k + 1 then x.shape d else x2.shape d := by
        intro d hd
        rw [hs d hd, inv.shape d hd]
        by_cases hdk : d = k
        · subst hdk
          have : d < d + 1 := by omega
          simp only [this, if_true, Nat.lt_irrefl, if_false]
          omega
        · by_cases hlt : d < k
          · have : d < k + 1 := by omega
            simp [hdk, hlt, this]
          · have : ¬ d < k + 1 := by omega
            simp [hdk, hlt, this]
      refine ⟨hr, hsh, ?_⟩
      intro ι hι
      rw [he ι]
      by_cases hin : InRange x2.rank acc.shape ι
      · simp only [hin, if_true]
        exact inv.el ι hin
      · simp only [hin, if_false]
        -- the index leaves the old extent only in dimension k, where the old extent is x2's
        have hk' : ¬ ι k < x2.shape k := by
          intro hlt
          apply hin
          intro d hd
          by_cases hdk : d = k
          · subst hdk; rw [hshk]; exact hlt
          · have h1 := hι d hd
            rw [hs d hd] at h1
            simpa [hdk] using h1
        have : ¬ InRange x2.rank x2.shape ι := fun hall => hk' (hall k hk)
        simp [this]
    · -- cut dimension k down to x's extent
      simp only [hpos, if_false]
      have hlt : x.shape k < x2.shape k := by omega
      refine ⟨inv.rank, ?_, ?_⟩
      · intro d hd
        simp only [indexSelectPrefix]
        by_cases hdk : d = k
        · subst hdk
          have : d < d + 1 := by omega
          simp [this]
        · rw [inv.shape d hd]
          by_cases hl : d < k
          · have : d < k + 1 := by omega
            simp [hdk, hl, this]
          · have : ¬ d < k + 1 := by omega
            simp [hdk, hl, this]
      · intro ι hι
        simp only [indexSelectPrefix] at hι ⊢
        apply inv.el
        intro d hd
        have h1 := hι d hd
        by_cases hdk : d = k
        · subst hdk
          simp only [if_true] at h1
          rw [hshk]; omega
        · simpa [hdk] using h1

theorem loop_inv (x x2 : Ten) (h : x.rank = x2.rank) : ∀ k, k ≤ x2.rank →
    LoopInv x x2 ((List.range k).foldl (unifyStep x (deltas x x2)) x2) k := by
  intro k
  induction k with
  | zero =>
    intro _
    refine ⟨rfl, ?_, ?_⟩
    · intro d _; simp
    · intro ι hι
      have hι' : InRange x2.rank x2.shape ι := hι
      simp [hι']
  | succ m ih =>
    intro hm
    rw [List.range_succ, List.foldl_append]
    simp only [List.foldl_cons, List.foldl_nil]
    exact loop_step x x2 _ h m (by omega) (ih (by omega))

end KDVerif.MixWrapper
