/-
Bridge between the core-Lean exact cuts of `Model/C03Spec.lean` and Mathlib's floor/ceil notation on `ℚ`
(kept in a file of its own so that `Props/C03.lean` stays Mathlib-free): for a percentage `p ≥ 0`,
`exactCutF p n = ⌊p * n⌋` and `exactCutC p n = ⌈p * n⌉` (as integers).
-/
import Mathlib.Data.Rat.Floor
import Mathlib.Tactic.Linarith
import KDVerif.Lemmas.C03Extra

namespace KDVerif.Selection

theorem c03x_cutF_eq_mathlib_floor (p : ℚ) (n : ℕ) (hp : 0 ≤ p) : ((exactCutF p n : ℕ) : ℤ) = ⌊p * (n : ℚ)⌋ := by
  symm
  rw [Int.floor_eq_iff]
  have h1 := c03x_cutF_le p n hp
  have h2 := c03x_lt_cutF_add_one p n
  exact ⟨by exact_mod_cast h1, by exact_mod_cast h2⟩

theorem c03x_cutC_eq_mathlib_ceil (p : ℚ) (n : ℕ) (hp : 0 ≤ p) : ((exactCutC p n : ℕ) : ℤ) = ⌈p * (n : ℚ)⌉ := by
  symm
  rw [Int.ceil_eq_iff]
  have h1 := c03x_le_cutC p n
  have h2 := c03x_cutC_lt p n hp
  refine ⟨?_, by exact_mod_cast h1⟩
  have : ((exactCutC p n : ℕ) : ℚ) - 1 < p * (n : ℚ) := by linarith
  exact_mod_cast this

end KDVerif.Selection
