/-
Helper lemmas for C18: default collation keeps the layout; zero padding to the batch maximum.
-/
import KDVerif.Model.Collate

namespace KDVerif.Collate

theorem mapE_ok {α β ε : Type} (f : α → Except ε β) : ∀ (l : List α) (r : List β), mapE f l = .ok r →
    r.length = l.length ∧ ∀ (i : Nat) (hi : i < l.length) (hr : i < r.length), f l[i] = .ok r[i]
  | [], r, h => by
    simp only [mapE, Except.ok.injEq] at h
    subst h
    exact ⟨rfl, fun i hi => by simp at hi⟩
  | a :: l, r, h => by
    unfold mapE at h
    cases hf : f a with
    | error e => simp [hf] at h
    | ok b =>
      simp only [hf] at h
      cases hm : mapE f l with
      | error e => simp [hm] at h
      | ok bs =>
        simp only [hm, Except.ok.injEq] at h
        subst h
        obtain ⟨il, ig⟩ := mapE_ok f l bs hm
        refine ⟨by simp [il], ?_⟩
        intro i hi hr
        cases i with
        | zero => simpa using hf
        | succ i =>
          simp only [List.getElem_cons_succ]
          exact ig i (by simpa using hi) (by simpa using hr)

theorem allScal_eq : ∀ (fs : List Field) (xs : List Int), allScal fs = some xs → fs = xs.map Field.scal
  | [], xs, h => by simp only [allScal, Option.some.injEq] at h; subst h; rfl
  | .scal x :: r, xs, h => by
    unfold allScal at h
    cases hr : allScal r with
    | none => simp [hr] at h
    | some ys =>
      simp only [hr, Option.map_some, Option.some.injEq] at h
      subst h
      simp [allScal_eq r ys hr]
  | .seq _ :: _, xs, h => by simp [allScal] at h

theorem allSeq_eq : ∀ (fs : List Field) (rs : List (List Int)), allSeq fs = some rs → fs = rs.map Field.seq
  | [], rs, h => by simp only [allSeq, Option.some.injEq] at h; subst h; rfl
  | .seq s :: r, rs, h => by
    unfold allSeq at h
    cases hr : allSeq r with
    | none => simp [hr] at h
    | some ys =>
      simp only [hr, Option.map_some, Option.some.injEq] at h
      subst h
      simp [allSeq_eq r ys hr]
  | .scal _ :: _, rs, h => by simp [allSeq] at h

/-- a default-collated column holds exactly the samples' values, in sample order (tensors all of one size) -/
theorem collateCol_ok {fs : List Field} {c : Col} (h : collateCol fs = .ok c) :
    (∃ xs, c = .scalars xs ∧ fs = xs.map Field.scal) ∨
    (∃ rs n, c = .rows rs ∧ fs = rs.map Field.seq ∧ ∀ r ∈ rs, r.length = n) := by
  unfold collateCol at h
  cases fs with
  | nil => simp at h
  | cons f r =>
    cases f with
    | scal x =>
      simp only at h
      cases ha : allScal (.scal x :: r) with
      | none => simp [ha] at h
      | some xs =>
        simp only [ha, Except.ok.injEq] at h
        exact Or.inl ⟨xs, h.symm, allScal_eq _ _ ha⟩
    | seq s =>
      simp only at h
      cases ha : allSeq (.seq s :: r) with
      | none => simp [ha] at h
      | some rs =>
        simp only [ha] at h
        by_cases hall : rs.all (fun r => r.length == s.length) = true
        · simp only [hall, if_true, Except.ok.injEq] at h
          refine Or.inr ⟨rs, s.length, h.symm, allSeq_eq _ _ ha, ?_⟩
          intro r hr
          simp only [List.all_eq_true, beq_iff_eq] at hall
          exact hall r hr
        · simp [hall] at h

/-- the column of a batch whose samples all have more than `j` items: sample `i`'s item `j` -/
theorem column_getElem? (j : Nat) : ∀ (xs : List (List Field)), (∀ it ∈ xs, j < it.length) →
    ∀ i : Nat, (column xs j)[i]? = (xs[i]?).bind (fun it => it[j]?)
  | [], _, i => by simp [column]
  | it :: xs, hl, i => by
    have hj : j < it.length := hl it (by simp)
    have ih := column_getElem? j xs (fun it' h' => hl it' (by simp [h']))
    have hc : column (it :: xs) j = it[j] :: column xs j := by
      simp [column, List.filterMap_cons, List.getElem?_eq_getElem hj]
    rw [hc]
    cases i with
    | zero => simp [List.getElem?_eq_getElem hj]
    | succ i => simpa using ih i

theorem column_length (j : Nat) (xs : List (List Field)) (hl : ∀ it ∈ xs, j < it.length) :
    (column xs j).length = xs.length := by
  induction xs with
  | nil => simp [column]
  | cons it xs ih =>
    have hj : j < it.length := hl it (by simp)
    have hc : column (it :: xs) j = it[j] :: column xs j := by
      simp [column, List.filterMap_cons, List.getElem?_eq_getElem hj]
    rw [hc]
    simp [ih (fun it' h' => hl it' (by simp [h']))]

/-- `default_collate` keeps the layout: one column per item of the mode, column `j` = the stacked `j`-th items -/
theorem collateItems_layout {xs : List (List Field)} {cols : List Col} (h : collateItems xs = .ok cols) :
    ∃ it0 rest, xs = it0 :: rest ∧ (∀ it ∈ xs, it.length = it0.length) ∧ cols.length = it0.length ∧
      ∀ (j : Nat) (hj : j < cols.length), collateCol (column xs j) = .ok cols[j] := by
  unfold collateItems at h
  cases xs with
  | nil => simp at h
  | cons it0 rest =>
    simp only at h
    by_cases hall : (it0 :: rest).all (fun it => it.length == it0.length) = true
    · simp only [hall, if_true] at h
      obtain ⟨hl, hg⟩ := mapE_ok _ _ _ h
      refine ⟨it0, rest, rfl, ?_, by simpa using hl, ?_⟩
      · intro it hit
        simp only [List.all_eq_true, beq_iff_eq] at hall
        exact hall it hit
      · intro j hj
        have hj' : j < (List.range it0.length).length := by rw [← hl]; exact hj
        have := hg j hj' hj
        simpa using this
    · simp [hall] at h

/-! ### padding -/

theorem foldl_max_ge (seqs : List (List Int)) : ∀ a : Nat, a ≤ seqs.foldl (fun a s => max a s.length) a ∧
    ∀ s ∈ seqs, s.length ≤ seqs.foldl (fun a s => max a s.length) a := by
  induction seqs with
  | nil => intro a; simp
  | cons t seqs ih =>
    intro a
    obtain ⟨h1, h2⟩ := ih (max a t.length)
    simp only [List.foldl_cons]
    refine ⟨by omega, ?_⟩
    intro s hs
    simp only [List.mem_cons] at hs
    rcases hs with rfl | hs
    · omega
    · exact h2 s hs

theorem le_maxLen {seqs : List (List Int)} {s : List Int} (h : s ∈ seqs) : s.length ≤ maxLen seqs :=
  (foldl_max_ge seqs 0).2 s h

theorem foldl_max_attained (seqs : List (List Int)) : ∀ a : Nat,
    seqs.foldl (fun a s => max a s.length) a = a ∨ ∃ s ∈ seqs, s.length = seqs.foldl (fun a s => max a s.length) a := by
  induction seqs with
  | nil => intro a; simp
  | cons t seqs ih =>
    intro a
    simp only [List.foldl_cons]
    rcases ih (max a t.length) with h | ⟨s, hs, h⟩
    · by_cases hat : t.length ≤ a
      · left; rw [h]; omega
      · right; exact ⟨t, by simp, by rw [h]; omega⟩
    · right; exact ⟨s, by simp [hs], h⟩

theorem maxLen_attained {seqs : List (List Int)} (h : seqs ≠ []) : ∃ s ∈ seqs, s.length = maxLen seqs := by
  rcases foldl_max_attained seqs 0 with h0 | h1
  · cases seqs with
    | nil => exact absurd rfl h
    | cons t r =>
      refine ⟨t, by simp, ?_⟩
      have := le_maxLen (seqs := t :: r) (s := t) (by simp)
      unfold maxLen at this ⊢
      omega
  · exact h1

end KDVerif.Collate
