/- helper lemmas for the C14 "recorded parameters reproduce the output" theorems: cells of cropped / padded / pasted grids -/
import KDVerif.Model.C14Spec
import KDVerif.Lemmas.Geometry
import KDVerif.Lemmas.GeometryGrid
import KDVerif.Lemmas.GeometryRearrange
import Mathlib.Tactic.SplitIfs
import Mathlib.Data.List.Nodup

namespace KDVerif.Geometry

variable {α : Type}

/-! ### cells -/

theorem c14x_cell_eq (g : Grid α) (r c : Nat) : g.cell r c = (g[r]?).bind (fun row => row[c]?) := by
  unfold Grid.cell
  cases g[r]? <;> rfl

theorem c14x_cell_crop (g : Grid α) (i j h w r c : Nat) (hr : r < h) (hc : c < w) :
    (g.crop i j h w).cell r c = g.cell (i + r) (j + c) := by
  simp only [c14x_cell_eq, Grid.crop, List.getElem?_map, List.getElem?_take, List.getElem?_drop, hr, if_true]
  cases g[i + r]? with
  | none => rfl
  | some row => simp [hc]

theorem c14x_cell_some_of_shaped (g : Grid α) (H W r c : Nat) (hg : g.Shaped H W) (hr : r < H) (hc : c < W) :
    ∃ a, g.cell r c = some a := by
  obtain ⟨hl, hrow⟩ := hg
  have hr' : r < g.length := by omega
  have hlen : g[r].length = W := hrow _ (List.getElem_mem hr')
  have hc' : c < g[r].length := by omega
  exact ⟨g[r][c], by simp [c14x_cell_eq, List.getElem?_eq_getElem hr', List.getElem?_eq_getElem hc']⟩

theorem c14x_cell_none_of_shaped (g : Grid α) (H W r c : Nat) (hg : g.Shaped H W) (h : H ≤ r ∨ W ≤ c) :
    g.cell r c = none := by
  obtain ⟨hl, hrow⟩ := hg
  by_cases hr : r < g.length
  · have hlen : g[r].length = W := hrow _ (List.getElem_mem hr)
    have hc : g[r].length ≤ c := by omega
    simp [c14x_cell_eq, List.getElem?_eq_getElem hr, List.getElem?_eq_none hc]
  · simp [c14x_cell_eq, List.getElem?_eq_none (Nat.le_of_not_lt hr)]

theorem c14x_cell_pad (g : Grid α) (H W l t r b : Nat) (fill : α) (hg : g.Shaped H W) (hH : 0 < H) (x y : Nat) :
    (g.pad l t r b fill).cell x y = paddedCell fill g H W t l (H + t + b) (W + l + r) x y := by
  obtain ⟨hl, hrow⟩ := hg
  have hw : (g.head?.map List.length).getD 0 = W := by
    cases g with
    | nil => simp at hl; omega
    | cons r0 rest => simp [hrow r0 (by simp)]
  unfold paddedCell
  simp only [c14x_cell_eq, Grid.pad, hw]
  by_cases hx1 : x < t
  · -- top band
    rw [List.append_assoc, List.getElem?_append_left (by simpa using hx1)]
    simp only [List.getElem?_replicate, hx1, if_true, Option.bind_some]
    have c1 : ¬ (t ≤ x ∧ x < t + H ∧ l ≤ y ∧ y < l + W) := by omega
    have c2 : (x < H + t + b ∧ y < W + l + r) ↔ y < W + l + r := by constructor <;> intro _ <;> omega
    simp only [c1, if_false, c2]
  · by_cases hx2 : x < t + H
    · -- a padded input row
      rw [List.append_assoc, List.getElem?_append_right (by simpa using Nat.le_of_not_lt hx1),
        List.getElem?_append_left (by simp; omega)]
      simp only [List.length_replicate, List.getElem?_map]
      have hxr : x - t < g.length := by omega
      have hlen : g[x - t].length = W := hrow _ (List.getElem_mem hxr)
      simp only [List.getElem?_eq_getElem hxr, Option.map_some, Option.bind_some]
      have c0 : x < H + t + b := by omega
      by_cases hy1 : y < l
      · rw [List.append_assoc, List.getElem?_append_left (by simpa using hy1)]
        have c1 : ¬ (t ≤ x ∧ x < t + H ∧ l ≤ y ∧ y < l + W) := by omega
        have c2 : y < W + l + r := by omega
        simp [hy1, c0, c1, c2]
      · by_cases hy2 : y < l + W
        · rw [List.append_assoc, List.getElem?_append_right (by simpa using Nat.le_of_not_lt hy1),
            List.getElem?_append_left (by simp; omega)]
          have c1 : (t ≤ x ∧ x < t + H ∧ l ≤ y ∧ y < l + W) := by omega
          have c2 : y < W + l + r := by omega
          simp [c0, c1, c2]
        · rw [List.getElem?_append_right (by simp; omega)]
          have c1 : ¬ (t ≤ x ∧ x < t + H ∧ l ≤ y ∧ y < l + W) := by omega
          simp only [List.length_append, List.length_replicate, hlen, List.getElem?_replicate, c0, c1, true_and,
            if_false]
          by_cases c2 : y < W + l + r
          · have : y - (l + W) < r := by omega
            simp [c2, this]
          · have : ¬ y - (l + W) < r := by omega
            simp [c2, this]
    · -- bottom band
      rw [List.getElem?_append_right (by simp; omega)]
      simp only [List.length_append, List.length_replicate, List.length_map, List.getElem?_replicate]
      have c1 : ¬ (t ≤ x ∧ x < t + H ∧ l ≤ y ∧ y < l + W) := by omega
      by_cases c0 : x < H + t + b
      · have : x - (t + g.length) < b := by omega
        simp only [this, if_true, Option.bind_some, List.getElem?_replicate, c0, c1, true_and, if_false]
      · have : ¬ x - (t + g.length) < b := by omega
        simp [this, c0]

theorem c14x_cell_paste (g : Grid α) (i j h w : Nat) (v : α) (r c : Nat) :
    (g.paste i j h w v).cell r c =
      if i ≤ r ∧ r < i + h ∧ j ≤ c ∧ c < j + w then (g.cell r c).map (fun _ => v) else g.cell r c := by
  simp only [c14x_cell_eq, Grid.paste, List.getElem?_mapIdx]
  cases g[r]? with
  | none => simp
  | some row =>
    simp only [Option.map_some, Option.bind_some, List.getElem?_mapIdx]
    cases row[c]? with
    | none => simp
    | some a => by_cases hc : i ≤ r ∧ r < i + h ∧ j ≤ c ∧ c < j + w <;> simp [hc]

theorem c14x_paste_shaped (g : Grid α) (H W i j h w : Nat) (v : α) (hg : g.Shaped H W) :
    (g.paste i j h w v).Shaped H W := by
  obtain ⟨hl, hrow⟩ := hg
  constructor
  · simp [Grid.paste, hl]
  · intro row hr
    simp only [Grid.paste, List.mem_mapIdx] at hr
    obtain ⟨k, hk, rfl⟩ := hr
    simp [hrow _ (List.getElem_mem hk)]

/-! ### the recorded pad calls -/

theorem c14x_padH_cons (h : Int) (p : Pad) (ps : List Pad) : padH h (p :: ps) = padH (h + p.t + p.b) ps := rfl
theorem c14x_padW_cons (w : Int) (p : Pad) (ps : List Pad) : padW w (p :: ps) = padW (w + p.l + p.r) ps := rfl

theorem c14x_padsNonneg_cons {p : Pad} {ps : List Pad} (h : padsNonneg (p :: ps)) :
    (0 ≤ p.l ∧ 0 ≤ p.t ∧ 0 ≤ p.r ∧ 0 ≤ p.b) ∧ padsNonneg ps :=
  ⟨h p (by simp), fun q hq => h q (by simp [hq])⟩

/-- closed form of the whole pad sequence: shape and every cell -/
theorem c14x_applyPads_spec (fill : α) : ∀ (ps : List Pad) (g : Grid α) (H W : Nat), padsNonneg ps → g.Shaped H W → 0 < H →
    (applyPads fill ps g).Shaped (padH (H : Int) ps).toNat (padW (W : Int) ps).toNat ∧
    0 < (padH (H : Int) ps).toNat ∧
    ∀ x y, (applyPads fill ps g).cell x y =
      paddedCell fill g H W (padTop ps) (padLeft ps) (padH (H : Int) ps).toNat (padW (W : Int) ps).toNat x y := by
  intro ps
  induction ps with
  | nil =>
    intro g H W _ hg hH
    refine ⟨by simpa [applyPads, padH, padW] using hg, by simpa [padH] using hH, ?_⟩
    intro x y
    simp only [applyPads, List.foldl_nil, paddedCell, padH, padW, padTop, padLeft, List.map_nil, List.sum_nil,
      Int.toNat_natCast, Nat.zero_le, Nat.zero_add, true_and, Nat.sub_zero]
    by_cases hxy : x < H ∧ y < W
    · simp [hxy]
    · simp only [hxy, if_false]
      exact c14x_cell_none_of_shaped g H W x y hg (by omega)
  | cons p ps ih =>
    intro g H W hn hg hH
    obtain ⟨hp, hn'⟩ := c14x_padsNonneg_cons hn
    have hg' := Grid.pad_shaped g H W p.l.toNat p.t.toNat p.r.toNat p.b.toNat fill hg hH
    have hH' : 0 < H + p.t.toNat + p.b.toNat := by omega
    obtain ⟨i1, i2, i3⟩ := ih (g.padWith p fill) _ _ hn' hg' hH'
    have eH : ((H + p.t.toNat + p.b.toNat : Nat) : Int) = (H : Int) + p.t + p.b := by omega
    have eW : ((W + p.l.toNat + p.r.toNat : Nat) : Int) = (W : Int) + p.l + p.r := by omega
    rw [eH] at i1 i2 i3
    rw [eW] at i1 i3
    have e0 : applyPads fill (p :: ps) g = applyPads fill ps (g.padWith p fill) := rfl
    rw [e0, c14x_padH_cons, c14x_padW_cons]
    refine ⟨i1, i2, ?_⟩
    intro x y
    rw [i3 x y]
    have eT : padTop (p :: ps) = p.t.toNat + padTop ps := by simp [padTop]
    have eL : padLeft (p :: ps) = p.l.toNat + padLeft ps := by simp [padLeft]
    rw [eT, eL]
    generalize padTop ps = T'
    generalize padLeft ps = L'
    generalize (padH ((H : Int) + p.t + p.b) ps).toNat = HH
    generalize (padW ((W : Int) + p.l + p.r) ps).toNat = WW
    unfold paddedCell
    by_cases hout : x < HH ∧ y < WW
    · simp only [hout, and_self, if_true]
      by_cases hin : T' ≤ x ∧ x < T' + (H + p.t.toNat + p.b.toNat) ∧ L' ≤ y ∧ y < L' + (W + p.l.toNat + p.r.toNat)
      · simp only [hin, and_self, if_true]
        have := c14x_cell_pad g H W p.l.toNat p.t.toNat p.r.toNat p.b.toNat fill hg hH (x - T') (y - L')
        unfold Grid.padWith
        rw [this]
        unfold paddedCell
        have c0 : x - T' < H + p.t.toNat + p.b.toNat ∧ y - L' < W + p.l.toNat + p.r.toNat := by omega
        simp only [c0, and_self, if_true]
        by_cases hc : p.t.toNat ≤ x - T' ∧ x - T' < p.t.toNat + H ∧ p.l.toNat ≤ y - L' ∧ y - L' < p.l.toNat + W
        · have hc' : p.t.toNat + T' ≤ x ∧ x < p.t.toNat + T' + H ∧ p.l.toNat + L' ≤ y ∧ y < p.l.toNat + L' + W := by omega
          simp only [hc, hc', and_self, if_true]
          congr 1 <;> omega
        · have hc' : ¬ (p.t.toNat + T' ≤ x ∧ x < p.t.toNat + T' + H ∧ p.l.toNat + L' ≤ y ∧ y < p.l.toNat + L' + W) := by omega
          simp only [hc, hc', if_false]
      · have hc' : ¬ (p.t.toNat + T' ≤ x ∧ x < p.t.toNat + T' + H ∧ p.l.toNat + L' ≤ y ∧ y < p.l.toNat + L' + W) := by omega
        simp only [hin, hc', if_false]
    · simp only [hout, if_false]

/-- the pad calls of `_pad_image` never have a negative amount when the configured padding has none -/
theorem c14x_padSeq_nonneg (c : CropCfg) (h w : Int) (hp : c.padding.nonneg) : padsNonneg (padSeq c h w) := by
  intro p hmem
  unfold padSeq at hmem
  simp only [List.mem_append] at hmem
  rcases hmem with (hmem | hmem) | hmem
  · cases hc : c.padding with
    | none => simp [hc, Padding.toPads] at hmem
    | all q =>
      simp only [hc, Padding.toPads, List.mem_singleton] at hmem
      simp only [hc, Padding.nonneg] at hp
      subst hmem; exact ⟨hp, hp, hp, hp⟩
    | two lr tb =>
      simp only [hc, Padding.toPads, List.mem_singleton] at hmem
      simp only [hc, Padding.nonneg] at hp
      subst hmem; exact ⟨hp.1, hp.2, hp.1, hp.2⟩
    | four l t r b =>
      simp only [hc, Padding.toPads, List.mem_singleton] at hmem
      simp only [hc, Padding.nonneg] at hp
      subst hmem; exact ⟨hp.1, hp.2.1, hp.2.2.1, hp.2.2.2⟩
  · split_ifs at hmem with h1
    · simp only [List.mem_singleton] at hmem
      subst hmem
      refine ⟨?_, ?_, ?_, ?_⟩ <;> dsimp only <;> omega
    · simp at hmem
  · split_ifs at hmem with h1
    · simp only [List.mem_singleton] at hmem
      subst hmem
      refine ⟨?_, ?_, ?_, ?_⟩ <;> dsimp only <;> omega
    · simp at hmem

/-! ### cropping a recorded box -/

theorem c14x_cropBox_shaped (g : Grid α) (H W : Nat) (b : Box) (hg : g.Shaped H W) (hb : b.inside (H : Int) (W : Int)) :
    (g.cropBox b).Shaped b.h.toNat b.w.toNat := by
  obtain ⟨hl, hrow⟩ := hg
  obtain ⟨b1, b2, b3, b4⟩ := hb
  constructor
  · simp only [Grid.cropBox, Grid.crop, List.length_map, List.length_take, List.length_drop]; omega
  · intro row hmem
    simp only [Grid.cropBox, Grid.crop, List.mem_map] at hmem
    obtain ⟨r0, hr0, rfl⟩ := hmem
    have := hrow r0 (List.mem_of_mem_drop (List.mem_of_mem_take hr0))
    simp only [List.length_take, List.length_drop]; omega

/-- cell-wise spec of `crop` with a recorded box: output cell `(r, c)` is input cell `(i + r, j + c)` -/
theorem c14x_cell_cropBox (g : Grid α) (b : Box) (r c : Nat) (hr : r < b.h.toNat) (hc : c < b.w.toNat) :
    (g.cropBox b).cell r c = g.cell (b.i.toNat + r) (b.j.toNat + c) :=
  c14x_cell_crop g _ _ _ _ r c hr hc

/-! ### erasing recorded boxes -/

theorem c14x_contains_iff (b : Box) (r c : Nat) (hi : 0 ≤ b.i) (hj : 0 ≤ b.j) :
    (b.i.toNat ≤ r ∧ r < b.i.toNat + b.h.toNat ∧ b.j.toNat ≤ c ∧ c < b.j.toNat + b.w.toNat) ↔ b.contains r c := by
  unfold Box.contains
  omega

theorem c14x_contains_in_range (b : Box) (H W r c : Nat) (hb : b.inside (H : Int) (W : Int)) (hc : b.contains r c) :
    r < H ∧ c < W := by
  unfold Box.contains at hc
  unfold Box.inside at hb
  omega

theorem c14x_cell_pasteBox (g : Grid α) (H W : Nat) (b : Box) (v : α) (hg : g.Shaped H W)
    (hb : b.inside (H : Int) (W : Int)) (r c : Nat) :
    (g.pasteBox b v).cell r c = if b.contains r c then some v else g.cell r c := by
  unfold Grid.pasteBox
  rw [c14x_cell_paste]
  by_cases hc : b.contains r c
  · have h1 := (c14x_contains_iff b r c hb.1 hb.2.1).2 hc
    have h2 := c14x_contains_in_range b H W r c hb hc
    obtain ⟨a, ha⟩ := c14x_cell_some_of_shaped g H W r c hg h2.1 h2.2
    simp only [h1, and_self, if_true, hc, ha, Option.map_some]
  · have h1 : ¬ (b.i.toNat ≤ r ∧ r < b.i.toNat + b.h.toNat ∧ b.j.toNat ≤ c ∧ c < b.j.toNat + b.w.toNat) :=
      fun h => hc ((c14x_contains_iff b r c hb.1 hb.2.1).1 h)
    simp only [h1, hc, if_false]

/-- closed form of erasing a list of recorded boxes: shape kept, every cell given by `eraseSpecCell` -/
theorem c14x_erasePaste_spec (H W : Nat) : ∀ (bvs : List (Box × α)) (g : Grid α), g.Shaped H W →
    (∀ bv ∈ bvs, bv.1.inside (H : Int) (W : Int)) →
    (erasePaste g bvs).Shaped H W ∧ ∀ r c, (erasePaste g bvs).cell r c = eraseSpecCell g bvs r c := by
  intro bvs
  induction bvs with
  | nil => intro g hg _; exact ⟨hg, fun r c => rfl⟩
  | cons bv rest ih =>
    intro g hg hin
    have hb := hin bv (by simp)
    have hg' : (g.pasteBox bv.1 bv.2).Shaped H W := c14x_paste_shaped g H W _ _ _ _ _ hg
    obtain ⟨i1, i2⟩ := ih (g.pasteBox bv.1 bv.2) hg' (fun x hx => hin x (by simp [hx]))
    have e0 : erasePaste g (bv :: rest) = erasePaste (g.pasteBox bv.1 bv.2) rest := rfl
    rw [e0]
    refine ⟨i1, ?_⟩
    intro r c
    rw [i2 r c]
    unfold eraseSpecCell
    rw [List.reverse_cons, List.find?_append]
    cases hf : rest.reverse.find? (fun bv => decide (bv.1.contains r c)) with
    | some x => simp
    | none =>
      simp only [Option.none_or, List.find?_cons, List.find?_nil]
      rw [c14x_cell_pasteBox g H W bv.1 bv.2 hg hb r c]
      by_cases hc : bv.1.contains r c <;> simp [hc]

/-- the value decided by `eraseSpecCell` when all boxes carry the same replacement value -/
theorem c14x_eraseSpecCell_const (g : Grid α) (bs : List Box) (v : α) (r c : Nat) :
    eraseSpecCell g (bs.map (fun b => (b, v))) r c = if ∃ b ∈ bs, b.contains r c then some v else g.cell r c := by
  unfold eraseSpecCell
  cases hf : (bs.map (fun b => (b, v))).reverse.find? (fun bv => decide (bv.1.contains r c)) with
  | some x =>
    have hm := List.mem_of_find?_eq_some hf
    have hp := List.find?_some hf
    simp only [List.mem_reverse, List.mem_map] at hm
    obtain ⟨b, hb, rfl⟩ := hm
    simp only [decide_eq_true_eq] at hp
    have : ∃ b ∈ bs, b.contains r c := ⟨b, hb, hp⟩
    simp [this]
  | none =>
    rw [List.find?_eq_none] at hf
    have : ¬ ∃ b ∈ bs, b.contains r c := by
      rintro ⟨b, hb, hc⟩
      exact hf (b, v) (by simp [hb]) (by simpa using hc)
    simp [this]

theorem c14x_erasePaste_const (g : Grid α) (bs : List Box) (v : α) :
    bs.foldl (fun g b => g.pasteBox b v) g = erasePaste g (bs.map (fun b => (b, v))) := by
  simp [erasePaste, List.foldl_map]

/-- every cell of any resize result: shape is the requested one -/
theorem c14x_resizeWith_shaped {β : Type} (k : Grid α → Nat → Nat → β) (th tw : Nat) (g : Grid α) :
    (resizeWith k th tw g).Shaped th tw := by
  constructor
  · simp [resizeWith]
  · intro row hr
    simp only [resizeWith, List.mem_map] at hr
    obtain ⟨_, _, rfl⟩ := hr
    simp

theorem c14x_cell_resizeWith {β : Type} (k : Grid α → Nat → Nat → β) (th tw : Nat) (g : Grid α) (r c : Nat)
    (hr : r < th) (hc : c < tw) : (resizeWith k th tw g).cell r c = some (k g r c) := by
  simp [c14x_cell_eq, resizeWith, hr, hc]

/-! ### pad, then crop a recorded box -/

/-- the common core of the crop theorems: pads `ps` (no negative amount) applied to an `h × w` input, then a box inside
    the padded image cropped by hand -/
theorem c14x_pad_crop_spec (fill : α) (g : Grid α) (h w : Nat) (ps : List Pad) (b : Box) (hn : padsNonneg ps)
    (hg : g.Shaped h w) (hh : 0 < h) (hb : b.inside (padH (h : Int) ps) (padW (w : Int) ps)) :
    (applyPads fill ps g).Shaped (padH (h : Int) ps).toNat (padW (w : Int) ps).toNat ∧
    ((applyPads fill ps g).cropBox b).Shaped b.h.toNat b.w.toNat ∧
    ∀ r k, r < b.h.toNat → k < b.w.toNat →
      ((applyPads fill ps g).cropBox b).cell r k = (applyPads fill ps g).cell (b.i.toNat + r) (b.j.toNat + k) ∧
      ((applyPads fill ps g).cropBox b).cell r k = padCropCell fill g h w ps b r k ∧
      ∃ a, ((applyPads fill ps g).cropBox b).cell r k = some a := by
  obtain ⟨s1, s2, s3⟩ := c14x_applyPads_spec fill ps g h w hn hg hh
  have hb' : b.inside (((padH (h : Int) ps).toNat : Nat) : Int) (((padW (w : Int) ps).toNat : Nat) : Int) := by
    unfold Box.inside at hb ⊢
    omega
  have s4 := c14x_cropBox_shaped _ _ _ b s1 hb'
  refine ⟨s1, s4, ?_⟩
  intro r k hr hk
  have e1 := c14x_cell_cropBox (applyPads fill ps g) b r k hr hk
  refine ⟨e1, ?_, c14x_cell_some_of_shaped _ _ _ r k s4 hr hk⟩
  rw [e1, s3]
  unfold paddedCell padCropCell
  have c0 : b.i.toNat + r < (padH (h : Int) ps).toNat ∧ b.j.toNat + k < (padW (w : Int) ps).toNat := by
    unfold Box.inside at hb
    omega
  simp only [c0, and_self, if_true]

/-! ### KDSpecAugment -/

theorem c14x_specAxis_ok (size : Nat) (P : Int) (fe : Int × Int) (t t' : Tape) (m : SpecMask)
    (h : specAxis size P fe t = .ok (some m, t')) : SpecAxisOk size P fe m ∧ 1 ≤ P := by
  unfold specAxis at h
  by_cases hP : P < 1
  · simp [hP] at h
  · simp only [hP, if_false] at h
    cases h1 : drawRand t with
    | error e => simp [h1] at h
    | ok x1 =>
      obtain ⟨_, t1⟩ := x1
      simp only [h1] at h
      cases h2 : drawRand t1 with
      | error e => simp [h2] at h
      | ok x2 =>
        obtain ⟨_, t2⟩ := x2
        simp only [h2] at h
        have hrw : (fe.2 + fe.1 - fe.2 < P) ↔ fe.1 < P := by constructor <;> intro _ <;> omega
        simp only [hrw] at h
        by_cases ha : fe.1 < P
        · simp only [ha, not_true_eq_false, if_false, Except.ok.injEq, Prod.mk.injEq, Option.some.injEq] at h
          obtain ⟨rfl, _⟩ := h
          have hl := maskIdx_length size fe.2 (fe.2 + fe.1)
          refine ⟨⟨rfl, ?_, ?_, ?_, ?_, ?_, ?_⟩, by omega⟩
          · dsimp only; omega
          · dsimp only; omega
          · intro k; exact mem_maskIdx
          · dsimp only; rw [hl]; unfold imax imin; split_ifs <;> omega
          · dsimp only; rw [hl]; unfold imax imin; split_ifs <;> omega
          · intro a b c
            dsimp only; rw [hl]; unfold imax imin; split_ifs <;> omega
        · simp [ha] at h

/-! `Tensor.long()` -/

theorem c14x_truncZero_nonneg {q : Rat} (h : 0 ≤ q) : 0 ≤ truncZero q ∧ ((truncZero q : Int) : Rat) ≤ q := by
  unfold truncZero
  simp only [h, if_true]
  refine ⟨?_, Rat.floor_le q⟩
  exact Rat.le_floor_iff.2 (by simpa using h)

/-- the exact-arithmetic front end satisfies the interval contract -/
theorem c14x_specFront_contract (size : Nat) (P : Int) (r1 r2 : Rat) (hP : 1 ≤ P) (h1 : 0 ≤ r1 ∧ r1 < 1)
    (h2 : 0 ≤ r2 ∧ r2 < 1) (hfit : r1 * (P : Rat) ≤ (size : Rat)) :
    0 ≤ (specFront size P r1 r2).1 ∧ (specFront size P r1 r2).1 < P ∧
      0 ≤ (specFront size P r1 r2).2 ∧ (specFront size P r1 r2).2 + (specFront size P r1 r2).1 ≤ size := by
  have hPq : (0 : Rat) < (P : Rat) := by exact_mod_cast (by omega : 0 < P)
  have hv0 : 0 ≤ r1 * (P : Rat) := mul_nonneg h1.1 (le_of_lt hPq)
  have hvP : r1 * (P : Rat) < (P : Rat) := by nlinarith [h1.2]
  have hm0 : 0 ≤ r2 * ((size : Rat) - r1 * (P : Rat)) := mul_nonneg h2.1 (by linarith)
  have hmle : r2 * ((size : Rat) - r1 * (P : Rat)) ≤ (size : Rat) - r1 * (P : Rat) := by nlinarith [h2.2, h2.1]
  obtain ⟨a1, a2⟩ := c14x_truncZero_nonneg hv0
  obtain ⟨b1, b2⟩ := c14x_truncZero_nonneg hm0
  unfold specFront
  simp only
  refine ⟨a1, ?_, b1, ?_⟩
  · have : ((truncZero (r1 * (P : Rat)) : Int) : Rat) < (P : Rat) := lt_of_le_of_lt a2 hvP
    exact_mod_cast this
  · have : ((truncZero (r2 * ((size : Rat) - r1 * (P : Rat))) + truncZero (r1 * (P : Rat)) : Int) : Rat) ≤ ((size : Int) : Rat) := by
      push_cast
      linarith
    exact_mod_cast this

end KDVerif.Geometry

namespace KDVerif.Rearrange

theorem c14x_swap_swap (p : Pattern) : p.swap.swap = p := rfl

theorem c14x_prodSizes_perm (s : Sizes) {L L' : List Axis} (h : L.Perm L') : prodSizes s L = prodSizes s L' := by
  induction h with
  | nil => rfl
  | cons a _ ih => simp only [prodSizes, ih]
  | swap a b l => simp only [prodSizes]; rw [← Nat.mul_assoc, ← Nat.mul_assoc, Nat.mul_comm (s b)]
  | trans _ _ ih1 ih2 => rw [ih1, ih2]

/-- both sides of a well-formed pattern have the same number of elements -/
theorem c14x_prodSizes_sides (p : Pattern) (hp : p.WellFormed) (s : Sizes) :
    prodSizes s p.lhs.flatten = prodSizes s p.rhs.flatten :=
  c14x_prodSizes_perm s ((List.perm_ext_iff_of_nodup hp.1 hp.2.1).2 (fun a => ⟨hp.2.2.1 a, hp.2.2.2 a⟩))

/-- generic per-channel round trip -/
theorem c14x_mapChannels_roundtrip (f k : Rat → Rat → Rat → Rat) (P : Rat → Prop)
    (hfk : ∀ m s x, P s → k m s (f m s x) = x) :
    ∀ (ms ss : List Rat) (img : List (List Rat)), (∀ s ∈ ss, P s) → ms.length = img.length → ss.length = img.length →
      ∃ y, mapChannels f ms ss img = some y ∧ mapChannels k ms ss y = some img := by
  intro ms ss img
  induction img generalizing ms ss with
  | nil =>
    intro _ hl1 hl2
    cases ms with
    | nil => cases ss with
      | nil => exact ⟨[], rfl, rfl⟩
      | cons _ _ => simp at hl2
    | cons _ _ => simp at hl1
  | cons ch chs ih =>
    intro hs hl1 hl2
    cases ms with
    | nil => simp at hl1
    | cons m ms =>
      cases ss with
      | nil => simp at hl2
      | cons s ss =>
        obtain ⟨y, hy1, hy2⟩ := ih ms ss (fun x hx => hs x (by simp [hx])) (by simpa using hl1) (by simpa using hl2)
        refine ⟨ch.map (f m s) :: y, ?_, ?_⟩
        · simp only [mapChannels]
          rw [hy1]; rfl
        · simp only [mapChannels]
          rw [hy2]
          simp only [Option.map_some, List.map_map]
          congr 2
          rw [List.map_congr_left (g := id)]
          · simp
          · intro x _
            exact hfk m s x (hs s (by simp))

/-! ### positions under a patch shuffle -/

theorem c14x_pos_decomp (L P q : Nat) : q = (q / (L * P)) * (L * P) + ((q / P) % L) * P + q % P := by
  have h1 := Nat.div_add_mod q (L * P)
  have h2 : q % (L * P) = q % P + P * ((q / P) % L) := by rw [Nat.mul_comm L P, Nat.mod_mul]
  rw [Nat.mul_comm ((q / P) % L) P, Nat.mul_comm (q / (L * P)) (L * P)]
  omega

theorem c14x_pos_parts (L P cc l e : Nat) (hl : l < L) (he : e < P) :
    (cc * (L * P) + l * P + e) / (L * P) = cc ∧ ((cc * (L * P) + l * P + e) / P) % L = l ∧
      (cc * (L * P) + l * P + e) % P = e := by
  have hP : 0 < P := by omega
  have hlt : l * P + e < L * P := by
    have : (l + 1) * P ≤ L * P := Nat.mul_le_mul_right P hl
    rw [Nat.succ_mul] at this; omega
  refine ⟨?_, ?_, ?_⟩
  · rw [Nat.add_assoc, Nat.mul_comm cc, Nat.mul_add_div (by omega), Nat.div_eq_of_lt hlt]; rfl
  · have : cc * (L * P) + l * P + e = e + (cc * L + l) * P := by rw [Nat.add_mul, Nat.mul_assoc]; omega
    rw [this, Nat.add_mul_div_right _ _ hP, Nat.div_eq_of_lt he, Nat.zero_add, Nat.mul_comm cc L,
      Nat.mul_add_mod, Nat.mod_eq_of_lt hl]
  · have : cc * (L * P) + l * P + e = e + (cc * L + l) * P := by rw [Nat.add_mul, Nat.mul_assoc]; omega
    rw [this, Nat.add_mul_mod_self_right, Nat.mod_eq_of_lt he]

theorem c14x_idxOf_invPerm (perm : List Nat) (l : Nat) (hl : l < perm.length)
    (hmem : ∀ k, k < perm.length → k ∈ perm) :
    (invPerm perm).idxOf (perm.idxOf l) = l := by
  have hil : (invPerm perm).length = perm.length := by simp [invPerm]
  have hnd' : (invPerm perm).Nodup := by
    unfold invPerm
    apply List.Nodup.map_on _ List.nodup_range
    intro a ha b hb hab
    simp only [List.mem_range] at ha hb
    have ha' := hmem a ha
    have hb' := hmem b hb
    have h1 : perm.idxOf a < perm.length := List.idxOf_lt_length_of_mem ha'
    have e1 := List.getElem_idxOf h1
    have h2 : perm.idxOf b < perm.length := List.idxOf_lt_length_of_mem hb'
    have e2 := List.getElem_idxOf h2
    rw [← e1, ← e2]
    simp only [hab]
  have hl' : l < (invPerm perm).length := by omega
  have e : (invPerm perm)[l] = perm.idxOf l := by simp [invPerm]
  rw [← e, hnd'.idxOf_getElem]

/-- shuffling positions with `π` and then with `argsort π` returns every position; positions stay in the tensor -/
theorem c14x_shufflePos_roundtrip (perm : List Nat) (C L P q : Nat) (hp : perm.Perm (List.range L))
    (hq : q < C * (L * P)) :
    shufflePos perm L P q < C * (L * P) ∧ shufflePos (invPerm perm) L P (shufflePos perm L P q) = q := by
  have hlen : perm.length = L := by simpa using hp.length_eq
  have hmem : ∀ k, k < perm.length → k ∈ perm := fun k hk => by rw [hp.mem_iff]; simpa [hlen] using hk
  have hLP : 0 < L * P := by
    rcases Nat.eq_zero_or_pos (L * P) with h0 | h0
    · rw [h0] at hq; simp at hq
    · exact h0
  have hL : 0 < L := Nat.pos_of_mul_pos_right hLP
  have hP : 0 < P := Nat.pos_of_mul_pos_left hLP
  have hl : (q / P) % L < L := Nat.mod_lt _ hL
  have he : q % P < P := Nat.mod_lt _ hP
  have hcc : q / (L * P) < C := (Nat.div_lt_iff_lt_mul hLP).2 hq
  have hl' : perm.idxOf ((q / P) % L) < L := by
    rw [← hlen]; exact List.idxOf_lt_length_of_mem (hmem _ (by rw [hlen]; exact hl))
  obtain ⟨p1, p2, p3⟩ := c14x_pos_parts L P (q / (L * P)) (perm.idxOf ((q / P) % L)) (q % P) hl' he
  constructor
  · unfold shufflePos
    have h1 : perm.idxOf ((q / P) % L) * P + q % P < L * P := by
      have : (perm.idxOf ((q / P) % L) + 1) * P ≤ L * P := Nat.mul_le_mul_right P hl'
      rw [Nat.succ_mul] at this; omega
    have h2 : (q / (L * P) + 1) * (L * P) ≤ C * (L * P) := Nat.mul_le_mul_right _ hcc
    rw [Nat.succ_mul] at h2
    omega
  · have e0 : shufflePos (invPerm perm) L P (shufflePos perm L P q)
        = (q / (L * P)) * (L * P) + (invPerm perm).idxOf (perm.idxOf ((q / P) % L)) * P + q % P := by
      unfold shufflePos
      rw [p1, p2, p3]
    rw [e0, c14x_idxOf_invPerm perm _ (by rw [hlen]; exact hl) hmem]
    exact (c14x_pos_decomp L P q).symm

end KDVerif.Rearrange
