/-
Helper lemmas for C16, encodings: sums / bounds of smoothed and one-hot rows over `Rat`.
-/
import KDVerif.Lemmas.Labels

namespace KDVerif.Labels

theorem sum_replicate_rat (a : Rat) : ∀ n : Nat, (List.replicate n a).sum = (n : Rat) * a
  | 0 => by simp
  | n + 1 => by
    rw [List.replicate_succ, List.sum_cons, sum_replicate_rat a n, Rat.natCast_add]
    simp
    grind

theorem sum_set_rat : ∀ (l : List Rat) (i : Nat) (b : Rat) (h : i < l.length),
    (l.set i b).sum = l.sum - l[i] + b := by
  intro l
  induction l with
  | nil => intro i b h; simp at h
  | cons a as ih =>
    intro i b h
    cases i with
    | zero => simp only [List.set_cons_zero, List.sum_cons, List.getElem_cons_zero]; grind
    | succ j =>
      simp only [List.length_cons, Nat.add_lt_add_iff_right] at h
      simp only [List.set_cons_succ, List.sum_cons, List.getElem_cons_succ]
      rw [ih j b h]
      grind

theorem natCast_ne_zero_rat {n : Nat} (h : n ≠ 0) : (n : Rat) ≠ 0 := by
  intro e
  exact h (Rat.natCast_eq_zero_iff.mp e)

theorem div_natCast_nonneg (s : Rat) (n : Nat) (hs : 0 ≤ s) (hn : 0 < n) : 0 ≤ s / (n : Rat) := by
  rw [Rat.div_def]
  have h1 : (0 : Rat) < (n : Rat) := Rat.natCast_pos.mpr hn
  have h2 : (0 : Rat) < (n : Rat)⁻¹ := Rat.inv_pos.mpr h1
  exact Rat.mul_nonneg hs (Rat.le_of_lt h2)

theorem natCast_mul_div (s : Rat) (n : Nat) (hn : n ≠ 0) : (n : Rat) * (s / (n : Rat)) = s := by
  rw [Rat.mul_comm]
  exact Rat.div_mul_cancel (natCast_ne_zero_rat hn)

/-- the smoothed row: `off` everywhere, `on` at the label -/
theorem smoothed_sum (s : Rat) (n c : Nat) (hn : n ≠ 0) (hc : c < n) :
    ((List.replicate n (s / (n : Rat))).set c (1 - s + s / (n : Rat))).sum = 1 := by
  rw [sum_set_rat _ _ _ (by simpa using hc), sum_replicate_rat, List.getElem_replicate, natCast_mul_div s n hn]
  grind

/-- indicator sum over `0..n-1` -/
theorem indicator_sum (c : Nat) : ∀ n, ((List.range n).map (fun (k : Nat) => if (k : Int) = (c : Int) then (1 : Rat) else 0)).sum =
    if c < n then 1 else 0 := by
  intro n
  induction n with
  | zero => simp
  | succ n ih =>
    rw [List.range_succ, List.map_append, List.sum_append, ih]
    simp only [List.map_cons, List.map_nil, List.sum_cons, List.sum_nil]
    by_cases h1 : c < n
    · have h2 : c < n + 1 := by omega
      have h3 : ¬ ((n : Int) = (c : Int)) := by omega
      simp [h1, h2, h3]; grind
    · by_cases h2 : c = n
      · subst h2; simp; grind
      · have h3 : ¬ c < n + 1 := by omega
        have h4 : ¬ ((n : Int) = (c : Int)) := by omega
        simp [h1, h3, h4]; grind

end KDVerif.Labels
