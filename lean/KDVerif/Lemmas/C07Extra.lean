/- Helper lemmas for the C07 / C08 / C09 gap theorems (overwrite / replay, skeleton-determinacy, draw sources,
   request sequences, worker-seed reproducibility, guarded worker init). -/
import KDVerif.Lemmas.RngFlow
import KDVerif.Lemmas.SeedFlow
import KDVerif.Model.C07Spec

namespace KDVerif.RngFlow

/-! ### overwrite -/

mutual
  /-- a second injection completely overwrites the first: as trees, for every table and every instance -/
  theorem c07x_setRng_setRng (tb : Table) (g h : Nat) : ∀ (t : T), setRng tb g (setRng tb h t) = setRng tb g t
    | .leaf => by simp [setRng]
    | .node cls cell kids => by
      rcases hl : lookup tb cls with _ | r
      · simp [setRng, hl]
      · simp only [setRng, hl]
        rw [c07x_setRngKids_setRngKids tb g h r.forwards kids]
        cases r.setsOwn <;> simp
  theorem c07x_setRngKids_setRngKids (tb : Table) (g h : Nat) (fw : List String) :
      ∀ (kids : Kids), setRngKids tb g fw (setRngKids tb h fw kids) = setRngKids tb g fw kids
    | .nil => by simp [setRngKids]
    | .cons s t rest => by
      simp only [setRngKids]
      rw [c07x_setRngKids_setRngKids tb g h fw rest]
      cases hfw : fw.contains s
      · simp
      · simp [c07x_setRng_setRng tb g h t]
end

theorem c07x_setRng_injectAll (tb : Table) (g : Nat) : ∀ (hs : List Nat) (t : T),
    setRng tb g (injectAll tb hs t) = setRng tb g t
  | [], t => by simp [injectAll]
  | h :: hs, t => by
    have ih := c07x_setRng_injectAll tb g hs (setRng tb h t)
    simp only [injectAll, List.foldl_cons] at ih ⊢
    rw [ih, c07x_setRng_setRng]

/-! ### skeletons -/

mutual
  theorem c07x_erase_erase : ∀ (t : T), erase (erase t) = erase t
    | .leaf => by simp [erase]
    | .node cls cell kids => by simp [erase, c07x_eraseKids_eraseKids kids]
  theorem c07x_eraseKids_eraseKids : ∀ (kids : Kids), eraseKids (eraseKids kids) = eraseKids kids
    | .nil => by simp [eraseKids]
    | .cons s t rest => by simp [eraseKids, c07x_erase_erase t, c07x_eraseKids_eraseKids rest]
end

mutual
  /-- injection never changes the skeleton -/
  theorem c07x_erase_setRng (tb : Table) (g : Nat) : ∀ (t : T), erase (setRng tb g t) = erase t
    | .leaf => by simp [setRng]
    | .node cls cell kids => by
      rcases hl : lookup tb cls with _ | r
      · simp [setRng, hl]
      · simp [setRng, hl, erase, c07x_eraseKids_setRngKids tb g r.forwards kids]
  theorem c07x_eraseKids_setRngKids (tb : Table) (g : Nat) (fw : List String) :
      ∀ (kids : Kids), eraseKids (setRngKids tb g fw kids) = eraseKids kids
    | .nil => by simp [setRngKids]
    | .cons s t rest => by
      simp only [setRngKids, eraseKids]
      rw [c07x_eraseKids_setRngKids tb g fw rest]
      cases hfw : fw.contains s
      · simp
      · simp [c07x_erase_setRng tb g t]
end

mutual
  /-- how many drawing cells an instance has depends on its skeleton only -/
  theorem c07x_draws_length_erase (tb : Table) : ∀ (t : T), (draws tb (erase t)).length = (draws tb t).length
    | .leaf => by simp [erase]
    | .node cls cell kids => by
      simp only [erase, draws, List.length_append]
      rw [c07x_drawsKids_length_erase tb kids]
      rcases lookup tb cls with _ | r
      · simp
      · cases hh : r.hasCell <;> simp [hh]
  theorem c07x_drawsKids_length_erase (tb : Table) :
      ∀ (kids : Kids), (drawsKids tb (eraseKids kids)).length = (drawsKids tb kids).length
    | .nil => by simp [eraseKids]
    | .cons s t rest => by
      simp only [eraseKids, drawsKids, List.length_append]
      rw [c07x_draws_length_erase tb t, c07x_drawsKids_length_erase tb rest]
end

mutual
  /-- whether an instance is built from the table depends on its skeleton only -/
  theorem c07x_conforms_erase (tb : Table) : ∀ (t : T), conforms tb (erase t) = conforms tb t
    | .leaf => by simp [erase]
    | .node cls cell kids => by
      simp only [erase, conforms]
      rcases lookup tb cls with _ | r
      · rfl
      · exact c07x_conformsKids_erase tb r kids
  theorem c07x_conformsKids_erase (tb : Table) (r : Row) :
      ∀ (kids : Kids), conformsKids tb r (eraseKids kids) = conformsKids tb r kids
    | .nil => by simp [eraseKids]
    | .cons s t rest => by
      simp only [eraseKids, conformsKids]
      rw [c07x_conforms_erase tb t, c07x_conformsKids_erase tb r rest]
      cases t <;> simp [erase]
end

theorem c07x_conforms_setRng (tb : Table) (g : Nat) (t : T) : conforms tb (setRng tb g t) = conforms tb t := by
  rw [← c07x_conforms_erase tb (setRng tb g t), c07x_erase_setRng, c07x_conforms_erase]

theorem c07x_conforms_of_erase_eq (tb : Table) (t₁ t₂ : T) (he : erase t₁ = erase t₂) :
    conforms tb t₂ = conforms tb t₁ := by
  rw [← c07x_conforms_erase tb t₂, ← he, c07x_conforms_erase]

/-- closed form of the drawing cells after an injection: as many copies of `g` as the skeleton has drawing cells -/
theorem c07x_draws_setRng_closed (tb : Table) (hwf : wellFormed tb = true) (g : Nat) (t : T)
    (hc : conforms tb t = true) :
    draws tb (setRng tb g t) = List.replicate (draws tb (erase t)).length g := by
  rw [List.eq_replicate_iff]
  refine ⟨?_, setRng_sound_T tb hwf g t hc⟩
  rw [← c07x_draws_length_erase tb (setRng tb g t), c07x_erase_setRng]

/-! ### draw sources -/

mutual
  /-- in an instance built from a well-formed table every draw site reads the instance's own cells -/
  theorem c07x_drawSources_eq_map (tb : Table) (hwf : wellFormed tb = true) :
      ∀ (t : T), conforms tb t = true → drawSources tb t = (draws tb t).map Source.cell
    | .leaf, _ => by simp [drawSources, draws]
    | .node cls cell kids, hconf => by
      simp only [conforms] at hconf
      rcases hl : lookup tb cls with _ | r
      · rw [hl] at hconf; simp at hconf
      · rw [hl] at hconf
        have hg := no_global_draw tb hwf r (lookup_mem tb cls r hl)
        simp only [drawSources, draws, hl, hg, List.map_append]
        rw [c07x_drawSourcesKids_eq_map tb hwf r kids hconf]
        cases r.hasCell <;> simp
  theorem c07x_drawSourcesKids_eq_map (tb : Table) (hwf : wellFormed tb = true) (r : Row) :
      ∀ (kids : Kids), conformsKids tb r kids = true → drawSourcesKids tb kids = (drawsKids tb kids).map Source.cell
    | .nil, _ => by simp [drawSourcesKids, drawsKids]
    | .cons s t rest, hconf => by
      simp only [conformsKids, Bool.and_eq_true] at hconf
      simp only [drawSourcesKids, drawsKids, List.map_append]
      rw [c07x_drawSources_eq_map tb hwf t hconf.1.2, c07x_drawSourcesKids_eq_map tb hwf r rest hconf.2]
end

mutual
  /-- the cell-reading draw sites are exactly `draws` (for every table and instance) -/
  theorem c07x_drawSources_cells (tb : Table) : ∀ (t : T), (drawSources tb t).filterMap Source.cell? = draws tb t
    | .leaf => by simp [drawSources, draws]
    | .node cls cell kids => by
      simp only [drawSources, draws, List.filterMap_append]
      rw [c07x_drawSourcesKids_cells tb kids]
      rcases lookup tb cls with _ | r
      · simp [List.filterMap, Source.cell?]
      · cases hh : r.hasCell <;> cases hg : r.globalDraw <;> simp [hh, hg, List.filterMap, Source.cell?]
  theorem c07x_drawSourcesKids_cells (tb : Table) :
      ∀ (kids : Kids), (drawSourcesKids tb kids).filterMap Source.cell? = drawsKids tb kids
    | .nil => by simp [drawSourcesKids, drawsKids]
    | .cons s t rest => by
      simp only [drawSourcesKids, drawsKids, List.filterMap_append]
      rw [c07x_drawSources_cells tb t, c07x_drawSourcesKids_cells tb rest]
end

end KDVerif.RngFlow

namespace KDVerif.SeedFlow
open KDVerif.RngFlow

/-! ### C08: requests -/

theorem c07x_appliedDraws_length_erase (tb : Table) (applied : List String) :
    ∀ (kids : Kids), (appliedDraws tb applied (eraseKids kids)).length = (appliedDraws tb applied kids).length
  | .nil => by simp [eraseKids]
  | .cons s t rest => by
    simp only [eraseKids, appliedDraws, List.length_append]
    rw [c07x_appliedDraws_length_erase tb applied rest]
    cases applied.contains s
    · simp
    · simp [c07x_draws_length_erase tb t]

theorem c07x_allConform_erase (tb : Table) : ∀ (kids : Kids), allConform tb (eraseKids kids) = allConform tb kids
  | .nil => by simp [eraseKids]
  | .cons s t rest => by
    simp only [eraseKids, allConform]
    rw [c07x_conforms_erase tb t, c07x_allConform_erase tb rest]

theorem c07x_allConform_setRngKids (tb : Table) (g : Nat) (fw : List String) (kids : Kids) :
    allConform tb (setRngKids tb g fw kids) = allConform tb kids := by
  rw [← c07x_allConform_erase tb (setRngKids tb g fw kids), c07x_eraseKids_setRngKids, c07x_allConform_erase]

/-- closed form of the cells a seeded request can draw from -/
theorem c07x_appliedDraws_closed (tb : Table) (hwf : wellFormed tb = true) (r : SeedRow) (hr : seedRowOk r = true)
    (g : Nat) (kids : Kids) (hc : allConform tb kids = true) :
    appliedDraws tb r.applied (setRngKids tb g r.seeded kids) =
      List.replicate (appliedDraws tb r.applied (eraseKids kids)).length g := by
  rw [List.eq_replicate_iff]
  refine ⟨?_, seeded_sound tb hwf r hr g kids hc⟩
  rw [← c07x_appliedDraws_length_erase tb r.applied (setRngKids tb g r.seeded kids), c07x_eraseKids_setRngKids]

theorem c07x_requestGen (r : SeedRow) (hr : seedRowOk r = true) (seed idx : Nat) (w : WState) :
    requestGen r seed idx w = seed + idx := by
  unfold seedRowOk at hr
  simp only [Bool.and_eq_true] at hr
  simp [requestGen, hr.1]

theorem c07x_request_closed (tb : Table) (hwf : wellFormed tb = true) (r : SeedRow) (hr : seedRowOk r = true)
    (seed idx : Nat) (w : WState) (hc : allConform tb w.kids = true) :
    (request tb r seed idx w).2 = pureGens tb r seed (eraseKids w.kids) idx := by
  simp only [request, pureGens, c07x_requestGen r hr]
  rw [c07x_appliedDraws_closed tb hwf r hr (seed + idx) w.kids hc, Nat.add_comm 1, List.replicate_succ]

theorem c07x_request_skel (tb : Table) (r : SeedRow) (seed idx : Nat) (w : WState) :
    eraseKids (request tb r seed idx w).1.kids = eraseKids w.kids := by
  simp [request, c07x_eraseKids_setRngKids]

theorem c07x_request_conform (tb : Table) (r : SeedRow) (seed idx : Nat) (w : WState) :
    allConform tb (request tb r seed idx w).1.kids = allConform tb w.kids := by
  simp [request, c07x_allConform_setRngKids]

theorem c07x_afterRequests_skel (tb : Table) (r : SeedRow) (seed : Nat) : ∀ (hs : List Nat) (w : WState),
    eraseKids (afterRequests tb r seed hs w).kids = eraseKids w.kids ∧
      allConform tb (afterRequests tb r seed hs w).kids = allConform tb w.kids
  | [], w => by simp [afterRequests]
  | j :: hs, w => by
    have ih := c07x_afterRequests_skel tb r seed hs (request tb r seed j w).1
    simp only [afterRequests, List.foldl_cons] at ih ⊢
    rw [ih.1, ih.2, c07x_request_skel, c07x_request_conform]
    exact ⟨rfl, rfl⟩

theorem c07x_serve_closed (tb : Table) (hwf : wellFormed tb = true) (r : SeedRow) (hr : seedRowOk r = true)
    (seed : Nat) : ∀ (reqs : List Nat) (w : WState), allConform tb w.kids = true →
      serve tb r seed w reqs = reqs.map (pureGens tb r seed (eraseKids w.kids))
  | [], _, _ => by simp [serve]
  | i :: rest, w, hc => by
    have hc' : allConform tb (request tb r seed i w).1.kids = true := by rw [c07x_request_conform]; exact hc
    simp only [serve, List.map_cons]
    rw [c07x_request_closed tb hwf r hr seed i w hc, c07x_serve_closed tb hwf r hr seed rest _ hc',
      c07x_request_skel]

/-! ### C09: same worker seed, same skeleton ⇒ same cells -/

theorem c07x_kidsInSlots_erase (slots : List String) : ∀ (kids : Kids),
    kidsInSlots slots (eraseKids kids) = kidsInSlots slots kids
  | .nil => by simp [eraseKids]
  | .cons s t rest => by simp [eraseKids, kidsInSlots, c07x_kidsInSlots_erase slots rest]

theorem c07x_draws_setRng_erase (tb : Table) (hwf : wellFormed tb = true) (g : Nat) (t : T)
    (hc : conforms tb t = true) : draws tb (setRng tb g (erase t)) = draws tb (setRng tb g t) := by
  have hc' : conforms tb (erase t) = true := by rw [c07x_conforms_erase]; exact hc
  rw [c07x_draws_setRng_closed tb hwf g t hc, c07x_draws_setRng_closed tb hwf g (erase t) hc', c07x_erase_erase]

theorem c07x_initCollators_erase (tb : Table) (hwf : wellFormed tb = true) (g : Nat) :
    ∀ (cols : Kids), allConform tb cols = true →
      drawsKids tb (initCollators tb g (eraseKids cols)) = drawsKids tb (initCollators tb g cols)
  | .nil, _ => by simp [eraseKids]
  | .cons s t rest, hc => by
    simp only [allConform, Bool.and_eq_true] at hc
    simp only [eraseKids, initCollators, drawsKids]
    rw [c07x_draws_setRng_erase tb hwf g t hc.1, c07x_initCollators_erase tb hwf g rest hc.2]

theorem c07x_initKids_erase (tb : Table) (hwf : wellFormed tb = true) (base : Nat) (slots fw : List String)
    (hsub : ∀ s, slots.contains s = true → fw.contains s = true) :
    ∀ (kids : Kids) (k : Nat), allConform tb kids = true → kidsInSlots slots kids = true →
      (initKids tb base fw k (eraseKids kids)).2 = (initKids tb base fw k kids).2 ∧
      drawsKids tb (initKids tb base fw k (eraseKids kids)).1 = drawsKids tb (initKids tb base fw k kids).1
  | .nil, k, _, _ => by simp [eraseKids]
  | .cons s t rest, k, hc, hs => by
    simp only [allConform, Bool.and_eq_true] at hc
    simp only [kidsInSlots, Bool.and_eq_true] at hs
    have hfw : fw.contains s = true := hsub s hs.1
    have ih := c07x_initKids_erase tb hwf base slots fw hsub rest (k + 1) hc.2 hs.2
    simp only [eraseKids, initKids, hfw, if_true, drawsKids]
    rw [ih.1, ih.2, c07x_draws_setRng_erase tb hwf (base + k) t hc.1]
    exact ⟨rfl, rfl⟩

mutual
  theorem c07x_conformsDS_erase (tb : Table) (lt : List LayerRow) :
      ∀ (d : DS), conformsDS tb lt (eraseDS d) = conformsDS tb lt d
    | .root cls kids cols => by
      simp only [eraseDS, conformsDS, c07x_allConform_erase, c07x_kidsInSlots_erase]
    | .wrap cls kids inner => by
      simp only [eraseDS, conformsDS, c07x_allConform_erase, c07x_kidsInSlots_erase,
        c07x_conformsDS_erase tb lt inner]
    | .multi cls parts => by
      simp only [eraseDS, conformsDS, c07x_conformsDSList_erase tb lt parts]
  theorem c07x_conformsDSList_erase (tb : Table) (lt : List LayerRow) :
      ∀ (ds : DSList), conformsDSList tb lt (eraseDSList ds) = conformsDSList tb lt ds
    | .nil => by simp [eraseDSList]
    | .cons d rest => by
      simp only [eraseDSList, conformsDSList, c07x_conformsDS_erase tb lt d, c07x_conformsDSList_erase tb lt rest]
end

mutual
  /-- the worker-init chain on an instance and on its skeleton: same number of derivations, same cells -/
  theorem c07x_workerInit_erase (tb : Table) (hwf : wellFormed tb = true) (lt : List LayerRow)
      (hlt : layersOk lt = true) (base : Nat) : ∀ (d : DS) (k : Nat), conformsDS tb lt d = true →
        (workerInit tb lt base k (eraseDS d)).2 = (workerInit tb lt base k d).2 ∧
        stackCells tb (workerInit tb lt base k (eraseDS d)).1 = stackCells tb (workerInit tb lt base k d).1
    | .root cls kids cols, k, hconf => by
      simp only [conformsDS, Bool.and_eq_true] at hconf
      obtain ⟨⟨hl, hk⟩, hc⟩ := hconf
      rcases hlook : lookupLayer lt cls with _ | r
      · rw [hlook] at hl; simp at hl
      · rw [hlook] at hl
        simp only [Bool.and_eq_true, beq_iff_eq] at hl
        have hok := layerOk_of lt hlt r (lookupLayer_mem lt cls r hlook)
        unfold layerOk at hok
        rw [hl.1] at hok
        simp only [Bool.and_eq_true, List.all_eq_true] at hok
        have hsub : ∀ s, r.slots.contains s = true → r.initSlots.contains s = true := by
          intro s hs
          have : s ∈ r.slots := by simpa using hs
          exact hok.1 s this
        have hkids := c07x_initKids_erase tb hwf base r.slots r.initSlots hsub kids (k + 1) hk hl.2
        simp only [eraseDS, workerInit, hlook, hok.2, if_true, stackCells]
        rw [hkids.1, hkids.2, c07x_initCollators_erase tb hwf (base + k) cols hc]
        exact ⟨rfl, rfl⟩
    | .wrap cls kids inner, k, hconf => by
      simp only [conformsDS, Bool.and_eq_true] at hconf
      obtain ⟨⟨hl, hk⟩, hin⟩ := hconf
      rcases hlook : lookupLayer lt cls with _ | r
      · rw [hlook] at hl; simp at hl
      · rw [hlook] at hl
        simp only [Bool.and_eq_true, beq_iff_eq] at hl
        have hok := layerOk_of lt hlt r (lookupLayer_mem lt cls r hlook)
        unfold layerOk at hok
        rw [hl.1] at hok
        simp only [Bool.and_eq_true, List.all_eq_true] at hok
        have hsub : ∀ s, r.slots.contains s = true → r.initSlots.contains s = true := by
          intro s hs
          have : s ∈ r.slots := by simpa using hs
          exact hok.1 s this
        have hkids := c07x_initKids_erase tb hwf base r.slots r.initSlots hsub kids k hk hl.2
        have hinner := c07x_workerInit_erase tb hwf lt hlt base inner (initKids tb base r.initSlots k kids).2 hin
        simp only [eraseDS, workerInit, hlook, hok.2, if_true, stackCells]
        rw [hkids.1, hkids.2, hinner.1, hinner.2]
        exact ⟨rfl, rfl⟩
    | .multi cls parts, k, hconf => by
      simp only [conformsDS, Bool.and_eq_true] at hconf
      obtain ⟨hl, hp⟩ := hconf
      rcases hlook : lookupLayer lt cls with _ | r
      · rw [hlook] at hl; simp at hl
      · rw [hlook] at hl
        simp only [beq_iff_eq] at hl
        have hok := layerOk_of lt hlt r (lookupLayer_mem lt cls r hlook)
        unfold layerOk at hok
        rw [hl] at hok
        simp only [Bool.and_eq_true] at hok
        have hparts := c07x_workerInitList_erase tb hwf lt hlt base parts k hp
        simp only [eraseDS, workerInit, hlook, hok.2, if_true, stackCells]
        exact hparts
  theorem c07x_workerInitList_erase (tb : Table) (hwf : wellFormed tb = true) (lt : List LayerRow)
      (hlt : layersOk lt = true) (base : Nat) : ∀ (ds : DSList) (k : Nat), conformsDSList tb lt ds = true →
        (workerInitList tb lt base k (eraseDSList ds)).2 = (workerInitList tb lt base k ds).2 ∧
        stackCellsList tb (workerInitList tb lt base k (eraseDSList ds)).1 =
          stackCellsList tb (workerInitList tb lt base k ds).1
    | .nil, k, _ => by simp [eraseDSList]
    | .cons d rest, k, hconf => by
      simp only [conformsDSList, Bool.and_eq_true] at hconf
      have h1 := c07x_workerInit_erase tb hwf lt hlt base d k hconf.1
      have h2 := c07x_workerInitList_erase tb hwf lt hlt base rest (workerInit tb lt base k d).2 hconf.2
      simp only [eraseDSList, workerInitList, stackCellsList]
      rw [h1.1, h1.2, h2.1, h2.2]
      exact ⟨rfl, rfl⟩
end

/-! ### C09: number of derivations -/

theorem c07x_initKids_count (tb : Table) (base : Nat) (fw : List String) : ∀ (kids : Kids) (k : Nat),
    (initKids tb base fw k kids).2 = k + countInit fw kids
  | .nil, k => by simp [initKids, countInit]
  | .cons s t rest, k => by
    cases hfw : fw.contains s
    · simp only [initKids, countInit, hfw, Bool.false_eq_true, if_false]
      rw [c07x_initKids_count tb base fw rest k]; omega
    · simp only [initKids, countInit, hfw, if_true]
      rw [c07x_initKids_count tb base fw rest (k + 1)]; omega

mutual
  theorem c07x_workerInit_count (tb : Table) (lt : List LayerRow) (base : Nat) : ∀ (d : DS) (k : Nat),
      (workerInit tb lt base k d).2 = k + numDerived lt d
    | .root cls kids cols, k => by
      rcases hlook : lookupLayer lt cls with _ | r
      · simp [workerInit, numDerived, hlook]
      · simp only [workerInit, numDerived, hlook, c07x_initKids_count]
        cases r.reseedsCollators <;> simp <;> omega
    | .wrap cls kids inner, k => by
      rcases hlook : lookupLayer lt cls with _ | r
      · simp [workerInit, numDerived, hlook]
      · simp only [workerInit, numDerived, hlook]
        cases hf : r.forwardsInner
        · simp [c07x_initKids_count]
        · simp only [if_true]
          rw [c07x_workerInit_count tb lt base inner, c07x_initKids_count]; omega
    | .multi cls parts, k => by
      rcases hlook : lookupLayer lt cls with _ | r
      · simp [workerInit, numDerived, hlook]
      · simp only [workerInit, numDerived, hlook]
        cases hf : r.forwardsInner
        · simp
        · simp only [if_true]
          exact c07x_workerInitList_count tb lt base parts k
  theorem c07x_workerInitList_count (tb : Table) (lt : List LayerRow) (base : Nat) : ∀ (ds : DSList) (k : Nat),
      (workerInitList tb lt base k ds).2 = k + numDerivedList lt ds
    | .nil, k => by simp [workerInitList, numDerivedList]
    | .cons d rest, k => by
      simp only [workerInitList, numDerivedList]
      rw [c07x_workerInitList_count tb lt base rest, c07x_workerInit_count tb lt base d]; omega
end

/-! ### C09: guarded hooks -/

theorem c07x_initKidsG_true (tb : Table) (base : Nat) (fw : List String) : ∀ (kids : Kids) (k : Nat),
    initKidsG true tb base fw k kids = initKids tb base fw k kids
  | .nil, k => by simp [initKidsG, initKids]
  | .cons s t rest, k => by
    simp only [initKidsG, initKids, Bool.and_true]
    rw [c07x_initKidsG_true tb base fw rest k, c07x_initKidsG_true tb base fw rest (k + 1)]

mutual
  theorem c07x_workerInitGuarded_true (tb : Table) (lt : List LayerRow) (base : Nat) : ∀ (d : DS) (k : Nat),
      workerInitGuarded true true tb lt base k d = workerInit tb lt base k d
    | .root cls kids cols, k => by
      rcases hlook : lookupLayer lt cls with _ | r <;>
        simp only [workerInitGuarded, workerInit, hlook, Bool.and_true, c07x_initKidsG_true]
    | .wrap cls kids inner, k => by
      rcases hlook : lookupLayer lt cls with _ | r <;>
        simp only [workerInitGuarded, workerInit, hlook, c07x_initKidsG_true,
          c07x_workerInitGuarded_true tb lt base inner]
    | .multi cls parts, k => by
      rcases hlook : lookupLayer lt cls with _ | r <;>
        simp only [workerInitGuarded, workerInit, hlook, c07x_workerInitGuardedList_true tb lt base parts]
  theorem c07x_workerInitGuardedList_true (tb : Table) (lt : List LayerRow) (base : Nat) :
      ∀ (ds : DSList) (k : Nat), workerInitGuardedList true true tb lt base k ds = workerInitList tb lt base k ds
    | .nil, k => by simp [workerInitGuardedList, workerInitList]
    | .cons d rest, k => by
      simp only [workerInitGuardedList, workerInitList, c07x_workerInitGuarded_true tb lt base d,
        c07x_workerInitGuardedList_true tb lt base rest]
end

mutual
  theorem c07x_stackSources_nil (tb : Table) : ∀ (d : DS),
      stackSources tb [] d = (stackCells tb d).map StreamSrc.cell
    | .root cls kids cols => by simp [stackSources, stackCells]
    | .wrap cls kids inner => by simp [stackSources, stackCells, c07x_stackSources_nil tb inner]
    | .multi cls parts => by simp [stackSources, stackCells, c07x_stackSourcesList_nil tb parts]
  theorem c07x_stackSourcesList_nil (tb : Table) : ∀ (ds : DSList),
      stackSourcesList tb [] ds = (stackCellsList tb ds).map StreamSrc.cell
    | .nil => by simp [stackSourcesList, stackCellsList]
    | .cons d rest => by
      simp [stackSourcesList, stackCellsList, c07x_stackSources_nil tb d, c07x_stackSourcesList_nil tb rest]
end

end KDVerif.SeedFlow
