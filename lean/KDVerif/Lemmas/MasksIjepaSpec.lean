/-
Helper lemmas for C17 (I-JEPA): what the sampling loops return.
-/
import KDVerif.Lemmas.MasksIjepa

namespace KDVerif.Masks.Ijepa

/-- a predictor block drawn inside the generator's contract -/
def IsPredBlock (c : Cfg) (h w : Nat) (b : Block) : Prop :=
  ∃ top left, top < c.H - h ∧ left < c.W - w ∧ b = sampleBlock c h w top left

/-- an accepted encoder mask: drawn inside the contract, more than `min_keep` cells after `t` failed tries -/
def IsEncMask (c : Cfg) (h w : Nat) (regions : List (List Bool)) (e : List Nat × Nat) : Prop :=
  ∃ top left, top < c.H - h ∧ left < c.W - w ∧ e.1 = nonzero (constrainedMask c h w regions e.2 top left) ∧
    e.1.length > c.minKeep

theorem samplePreds_spec (c : Cfg) (h w : Nat) : ∀ (n : Nat) (tape : List Nat) (bs : List Block) (rest : List Nat),
    samplePreds c h w n tape = .ok (bs, rest) → bs.length = n ∧ ∀ b ∈ bs, IsPredBlock c h w b
  | 0, tape, bs, rest, hs => by
    simp only [samplePreds, Except.ok.injEq, Prod.mk.injEq] at hs
    obtain ⟨rfl, _⟩ := hs
    simp
  | n + 1, [], bs, rest, hs => by simp [samplePreds] at hs
  | n + 1, [_], bs, rest, hs => by simp [samplePreds] at hs
  | n + 1, top :: left :: tape, bs, rest, hs => by
    unfold samplePreds at hs
    by_cases hc : top < c.H - h ∧ left < c.W - w
    · simp only [hc, and_self, if_true] at hs
      cases hr : samplePreds c h w n tape with
      | error e => simp [hr] at hs
      | ok p =>
        obtain ⟨bs', rest'⟩ := p
        simp only [hr, Except.ok.injEq, Prod.mk.injEq] at hs
        obtain ⟨rfl, _⟩ := hs
        obtain ⟨il, ib⟩ := samplePreds_spec c h w n tape bs' rest' hr
        refine ⟨by simp [il], ?_⟩
        intro b hb
        simp only [List.mem_cons] at hb
        rcases hb with rfl | hb
        · exact ⟨top, left, hc.1, hc.2, rfl⟩
        · exact ib b hb
    · simp [hc] at hs

theorem constrainedLoop_spec (c : Cfg) (h w : Nat) (regions : List (List Bool)) :
    ∀ (tape : List Nat) (t : Nat) (idx : List Nat) (t' : Nat) (rest : List Nat),
    constrainedLoop c h w regions t tape = .ok (idx, t', rest) →
    IsEncMask c h w regions (idx, t') ∧
    ((∀ top left, top < c.H - h → left < c.W - w → (nonzero (constrainedMask c h w regions t top left)).length > c.minKeep) → t' = t)
  | [], t, idx, t', rest, hs => by simp [constrainedLoop] at hs
  | [_], t, idx, t', rest, hs => by simp [constrainedLoop] at hs
  | top :: left :: tape, t, idx, t', rest, hs => by
    unfold constrainedLoop at hs
    by_cases hc : top < c.H - h ∧ left < c.W - w
    · simp only [hc, and_self, if_true] at hs
      by_cases hk : (nonzero (constrainedMask c h w regions t top left)).length > c.minKeep
      · simp only [hk, if_true, Except.ok.injEq, Prod.mk.injEq] at hs
        obtain ⟨rfl, rfl, _⟩ := hs
        exact ⟨⟨top, left, hc.1, hc.2, rfl, hk⟩, fun _ => rfl⟩
      · simp only [hk, if_false] at hs
        obtain ⟨i1, _⟩ := constrainedLoop_spec c h w regions tape (t + 1) idx t' rest hs
        exact ⟨i1, fun hall => absurd (hall top left hc.1 hc.2) hk⟩
    · simp [hc] at hs

theorem sampleEncs_spec (c : Cfg) (h w : Nat) (regions : List (List Bool)) :
    ∀ (n : Nat) (tape : List Nat) (ms : List (List Nat × Nat)) (rest : List Nat),
    sampleEncs c h w regions n tape = .ok (ms, rest) →
    ms.length = n ∧ (∀ e ∈ ms, IsEncMask c h w regions e) ∧
    ((∀ top left, top < c.H - h → left < c.W - w → (nonzero (constrainedMask c h w regions 0 top left)).length > c.minKeep) →
      ∀ e ∈ ms, e.2 = 0)
  | 0, tape, ms, rest, hs => by
    simp only [sampleEncs, Except.ok.injEq, Prod.mk.injEq] at hs
    obtain ⟨rfl, _⟩ := hs
    simp
  | n + 1, tape, ms, rest, hs => by
    unfold sampleEncs at hs
    cases hl : constrainedLoop c h w regions 0 tape with
    | error e => simp [hl] at hs
    | ok r =>
      obtain ⟨idx, t, rest1⟩ := r
      simp only [hl] at hs
      cases hr : sampleEncs c h w regions n rest1 with
      | error e => simp [hr] at hs
      | ok p =>
        obtain ⟨ms', rest'⟩ := p
        simp only [hr, Except.ok.injEq, Prod.mk.injEq] at hs
        obtain ⟨rfl, _⟩ := hs
        obtain ⟨e1, e2⟩ := constrainedLoop_spec c h w regions tape 0 idx t rest1 hl
        obtain ⟨il, ie, i0⟩ := sampleEncs_spec c h w regions n rest1 ms' rest' hr
        refine ⟨by simp [il], ?_, ?_⟩
        · intro e he
          simp only [List.mem_cons] at he
          rcases he with rfl | he
          · exact e1
          · exact ie e he
        · intro hall e he
          simp only [List.mem_cons] at he
          rcases he with rfl | he
          · exact e2 hall
          · exact i0 hall e he

/-- what one sample of the batch holds -/
def SampleOk (c : Cfg) (p e : Nat × Nat) (s : SampleMasks) : Prop :=
  s.preds.length = c.nPred ∧ (∀ b ∈ s.preds, IsPredBlock c p.1 p.2 b) ∧
  s.encs.length = c.nEnc ∧ (∀ m ∈ s.encs, IsEncMask c e.1 e.2 (s.preds.map Block.compl) m) ∧
  ((∀ top left, top < c.H - e.1 → left < c.W - e.2 →
      (nonzero (constrainedMask c e.1 e.2 (s.preds.map Block.compl) 0 top left)).length > c.minKeep) → ∀ m ∈ s.encs, m.2 = 0)

theorem sampleOne_spec (c : Cfg) (p e : Nat × Nat) (tape : List Nat) (s : SampleMasks) (rest : List Nat)
    (hs : sampleOne c p e tape = .ok (s, rest)) : SampleOk c p e s := by
  unfold sampleOne at hs
  cases hp : samplePreds c p.1 p.2 c.nPred tape with
  | error er => simp [hp] at hs
  | ok r =>
    obtain ⟨bs, rest1⟩ := r
    simp only [hp] at hs
    cases he : sampleEncs c e.1 e.2 (bs.map Block.compl) c.nEnc rest1 with
    | error er => simp [he] at hs
    | ok r2 =>
      obtain ⟨ms, rest2⟩ := r2
      simp only [he, Except.ok.injEq, Prod.mk.injEq] at hs
      obtain ⟨rfl, _⟩ := hs
      obtain ⟨p1, p2⟩ := samplePreds_spec c p.1 p.2 c.nPred tape bs rest1 hp
      obtain ⟨e1, e2, e3⟩ := sampleEncs_spec c e.1 e.2 (bs.map Block.compl) c.nEnc rest1 ms rest2 he
      exact ⟨p1, p2, e1, e2, e3⟩

theorem sampleAll_spec (c : Cfg) (p e : Nat × Nat) : ∀ (n : Nat) (tape : List Nat) (ss : List SampleMasks) (rest : List Nat),
    sampleAll c p e n tape = .ok (ss, rest) → ss.length = n ∧ ∀ s ∈ ss, SampleOk c p e s
  | 0, tape, ss, rest, hs => by
    simp only [sampleAll, Except.ok.injEq, Prod.mk.injEq] at hs
    obtain ⟨rfl, _⟩ := hs
    simp
  | n + 1, tape, ss, rest, hs => by
    unfold sampleAll at hs
    cases h1 : sampleOne c p e tape with
    | error er => simp [h1] at hs
    | ok r =>
      obtain ⟨s, rest1⟩ := r
      simp only [h1] at hs
      cases hr : sampleAll c p e n rest1 with
      | error er => simp [hr] at hs
      | ok r2 =>
        obtain ⟨ss', rest'⟩ := r2
        simp only [hr, Except.ok.injEq, Prod.mk.injEq] at hs
        obtain ⟨rfl, _⟩ := hs
        obtain ⟨il, ia⟩ := sampleAll_spec c p e n rest1 ss' rest' hr
        refine ⟨by simp [il], ?_⟩
        intro s' hs'
        simp only [List.mem_cons] at hs'
        rcases hs' with rfl | hs'
        · exact sampleOne_spec c p e tape s' rest1 h1
        · exact ia s' hs'

theorem foldl_mulFlat_length_le : ∀ (rs : List (List Bool)) (a : List Bool), (rs.foldl mulFlat a).length ≤ a.length
  | [], a => by simp
  | r :: rs, a => by
    simp only [List.foldl_cons]
    have := foldl_mulFlat_length_le rs (mulFlat a r)
    rw [mulFlat_length] at this
    omega

theorem constrainedMask_length_le (c : Cfg) (h w : Nat) (regions : List (List Bool)) (t top left : Nat) :
    (constrainedMask c h w regions t top left).length ≤ c.H * c.W := by
  unfold constrainedMask
  have := foldl_mulFlat_length_le (regions.take (regions.length - t / c.tries)) (rectFlat c.H c.W top left h w)
  rw [rectFlat_length] at this
  exact this

/-- unfolding of `collate` -/
theorem collate_ok {β : Type} {batch : β} {c : Cfg} {sizes : Int → Rounded} {counter : Int} {B : Nat} {tape : List Nat}
    {o : Out β} (h : collate batch c sizes counter B tape = .ok o) :
    let r := sizes (counter + 1)
    let p := blockSize c r.ph r.pw
    let e := blockSize c r.eh r.ew
    o.batch = batch ∧ o.counter = counter + 1 ∧ o.predSize = p ∧ o.encSize = e ∧
    o.samples.length = B ∧ (∀ s ∈ o.samples, SampleOk c p e s) ∧
    o.predRows = layout (minLen (c.H * c.W) (o.samples.map (fun s => s.preds.map Block.idx)).flatten) c.nPred
      (o.samples.map (fun s => s.preds.map Block.idx)) ∧
    o.encRows = layout (minLen (c.H * c.W) (o.samples.map (fun s => s.encs.map Prod.fst)).flatten) c.nEnc
      (o.samples.map (fun s => s.encs.map Prod.fst)) := by
  unfold collate at h
  simp only [step] at h
  cases hs : sampleAll c (blockSize c (sizes (counter + 1)).ph (sizes (counter + 1)).pw)
      (blockSize c (sizes (counter + 1)).eh (sizes (counter + 1)).ew) B tape with
  | error er => simp [hs] at h
  | ok r =>
    obtain ⟨ss, rest⟩ := r
    simp only [hs, Except.ok.injEq] at h
    subst h
    obtain ⟨il, ia⟩ := sampleAll_spec _ _ _ B tape ss rest hs
    exact ⟨rfl, rfl, rfl, rfl, il, ia, rfl, rfl⟩

end KDVerif.Masks.Ijepa
