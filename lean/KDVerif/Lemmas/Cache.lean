/-
Invariants of the shared-cache machine (`KDVerif.Model.Cache`): what the dict holds, what every reader has answered so far,
progress of a scheduled reader.
-/
import KDVerif.Model.Cache

namespace KDVerif.Cache

/-- the answer an operation in flight is going to give -/
def inflight (f : Nat → Val) (t : Val → Val) : Pc → List Res
  | .idle => []
  | .hit i => [.val i (t (f i))]
  | .miss i => [.val i (t (f i))]
  | .loaded i _ => [.val i (t (f i))]

/-- a reader has answered exactly what the uncached dataset + transform would have answered, in program order;
    a sample it has loaded but not yet stored is the dataset's sample -/
def RInv (f : Nat → Val) (t : Val → Val) (prog : List Op) (rd : Reader) : Prop :=
  rd.out ++ inflight f t rd.pc ++ rd.todo.map (spec f t) = prog.map (spec f t) ∧
  (∀ i v, rd.pc = .loaded i v → v = f i)

/-- the dict only ever holds raw (untransformed) samples of the wrapped dataset under their own index -/
def DInv (f : Nat → Val) (sh : Shared) : Prop := ∀ i v, sh.dict i = some v → v = f i

def SInv (f : Nat → Val) (t : Val → Val) (progs : List (List Op)) (s : State) : Prop :=
  DInv f s.sh ∧ s.readers.length = progs.length ∧
  ∀ (r : Nat) (rd : Reader), s.readers[r]? = some rd → ∃ p, progs[r]? = some p ∧ RInv f t p rd

theorem stepReader_inv (f : Nat → Val) (t : Val → Val) (p : List Op) (sh : Shared) (rd : Reader)
    (hd : DInv f sh) (hr : RInv f t p rd) :
    DInv f (stepReader f t sh rd).1 ∧ RInv f t p (stepReader f t sh rd).2.1 := by
  rcases rd with ⟨pc, todo, out⟩
  obtain ⟨hout, hl⟩ := hr
  cases pc with
  | idle =>
    cases todo with
    | nil => exact ⟨hd, hout, hl⟩
    | cons op rest =>
      cases op with
      | get i =>
        simp only [stepReader]
        cases hdi : sh.dict i with
        | some v =>
          refine ⟨hd, ?_, by intro i v h; cases h⟩
          simpa [inflight, spec] using hout
        | none =>
          refine ⟨hd, ?_, by intro i v h; cases h⟩
          simpa [inflight, spec] using hout
      | clear =>
        simp only [stepReader]
        refine ⟨by intro i v h; simp [emptyDict] at h, ?_, by intro i v h; cases h⟩
        simpa [inflight, spec] using hout
  | hit i =>
    simp only [stepReader]
    cases hdi : sh.dict i with
    | some v =>
      have hv := hd i v hdi
      refine ⟨hd, ?_, by intro i v h; cases h⟩
      subst hv
      simpa [inflight] using hout
    | none =>
      refine ⟨hd, ?_, by intro i v h; cases h⟩
      simpa [inflight] using hout
  | miss i =>
    simp only [stepReader]
    refine ⟨hd, ?_, ?_⟩
    · simpa [inflight] using hout
    · intro j v h
      cases h
      rfl
  | loaded i v =>
    have hv := hl i v rfl
    subst hv
    simp only [stepReader]
    refine ⟨?_, ?_, by intro i v h; cases h⟩
    · intro j w h
      simp only [store] at h
      by_cases e : j = i
      · simp only [e, if_true, Option.some.injEq] at h
        rw [← h, e]
      · simp only [e, if_false] at h
        exact hd j w h
    · simpa [inflight] using hout

theorem step_inv (f : Nat → Val) (t : Val → Val) (progs : List (List Op)) (r : Nat) (s : State)
    (h : SInv f t progs s) : SInv f t progs (step f t r s) := by
  obtain ⟨hd, hlen, hr⟩ := h
  unfold step
  cases hrd : s.readers[r]? with
  | none => exact ⟨hd, hlen, hr⟩
  | some rd =>
    obtain ⟨p, hp, hri⟩ := hr r rd hrd
    have := stepReader_inv f t p s.sh rd hd hri
    refine ⟨this.1, by simp [hlen], ?_⟩
    intro r' rd' hget
    simp only at hget
    by_cases e : r = r'
    · subst e
      have hlt : r < s.readers.length := by
        rcases Nat.lt_or_ge r s.readers.length with h | h
        · exact h
        · rw [List.getElem?_eq_none h] at hrd; cases hrd
      rw [List.getElem?_set_self hlt] at hget
      cases hget
      exact ⟨p, hp, this.2⟩
    · rw [List.getElem?_set_ne e] at hget
      exact hr r' rd' hget

theorem run_inv (f : Nat → Val) (t : Val → Val) (progs : List (List Op)) (sched : List Nat) (s : State)
    (h : SInv f t progs s) : SInv f t progs (run f t sched s) := by
  induction sched generalizing s with
  | nil => exact h
  | cons r rest ih => exact ih _ (step_inv f t progs r s h)

theorem init_inv (f : Nat → Val) (t : Val → Val) (progs : List (List Op)) : SInv f t progs (init progs) := by
  refine ⟨by intro i v h; simp [init, emptyDict] at h, by simp [init], ?_⟩
  intro r rd h
  simp only [init, List.getElem?_map] at h
  cases hp : progs[r]? with
  | none => rw [hp] at h; cases h
  | some p =>
    rw [hp] at h
    simp only [Option.map_some, Option.some.injEq] at h
    subst h
    exact ⟨p, rfl, by simp [inflight], by intro i v h; cases h⟩

/-! ### progress -/

def pcRank : Pc → Nat
  | .idle => 0
  | .hit _ => 3
  | .miss _ => 2
  | .loaded _ _ => 1

/-- upper bound on the atomic steps a reader still needs -/
def remaining (rd : Reader) : Nat := 4 * rd.todo.length + pcRank rd.pc

def remainingOf (r : Nat) (s : State) : Nat :=
  match s.readers[r]? with
  | none => 0
  | some rd => remaining rd

theorem stepReader_remaining (f : Nat → Val) (t : Val → Val) (sh : Shared) (rd : Reader) :
    remaining (stepReader f t sh rd).2.1 + 1 ≤ remaining rd ∨ remaining rd = 0 := by
  rcases rd with ⟨pc, todo, out⟩
  cases pc with
  | idle =>
    cases todo with
    | nil => right; rfl
    | cons op rest =>
      left
      cases op with
      | get i =>
        simp only [stepReader]
        cases sh.dict i <;> simp [remaining, pcRank] <;> omega
      | clear => simp [stepReader, remaining, pcRank]; omega
  | hit i =>
    left
    simp only [stepReader]
    cases sh.dict i <;> simp [remaining, pcRank]
  | miss i => left; simp [stepReader, remaining, pcRank]
  | loaded i v => left; simp [stepReader, remaining, pcRank]

theorem step_remaining_self (f : Nat → Val) (t : Val → Val) (r : Nat) (s : State) :
    remainingOf r (step f t r s) + 1 ≤ remainingOf r s ∨ remainingOf r s = 0 := by
  unfold step remainingOf
  cases hrd : s.readers[r]? with
  | none => right; rfl
  | some rd =>
    have hlt : r < s.readers.length := by
      rcases Nat.lt_or_ge r s.readers.length with h | h
      · exact h
      · rw [List.getElem?_eq_none h] at hrd; cases hrd
    simp only [List.getElem?_set_self hlt]
    exact stepReader_remaining f t s.sh rd

theorem step_remaining_other (f : Nat → Val) (t : Val → Val) (r r' : Nat) (s : State) (h : r' ≠ r) :
    remainingOf r (step f t r' s) = remainingOf r s := by
  unfold step remainingOf
  cases hrd : s.readers[r']? with
  | none => rfl
  | some rd => simp only [List.getElem?_set_ne h]

theorem run_remaining (f : Nat → Val) (t : Val → Val) (r : Nat) (sched : List Nat) (s : State) :
    remainingOf r (run f t sched s) + sched.count r ≤ remainingOf r s ∨ remainingOf r (run f t sched s) = 0 := by
  induction sched generalizing s with
  | nil => left; simp [run]
  | cons r' rest ih =>
    simp only [run]
    by_cases e : r' = r
    · subst e
      rcases ih (step f t r' s) with h | h
      · rcases step_remaining_self f t r' s with h2 | h2
        · left; simp only [List.count_cons_self]; omega
        · -- already finished before the step: stays finished
          right
          rcases step_remaining_self f t r' s with h3 | h3
          · omega
          · have : remainingOf r' (step f t r' s) = 0 := by
              unfold step remainingOf at *
              cases hrd : s.readers[r']? with
              | none => simp [hrd]
              | some rd =>
                rw [hrd] at h2
                have hlt : r' < s.readers.length := by
                  rcases Nat.lt_or_ge r' s.readers.length with h | h
                  · exact h
                  · rw [List.getElem?_eq_none h] at hrd; cases hrd
                simp only [List.getElem?_set_self hlt]
                rcases rd with ⟨pc, todo, out⟩
                simp only [remaining] at h2
                have ht : todo = [] := by
                  cases todo with
                  | nil => rfl
                  | cons a b => simp at h2 <;> omega
                have hp : pc = .idle := by
                  cases pc <;> simp [pcRank] at h2 <;> first | rfl | omega
                subst ht; subst hp
                rfl
            omega
      · right; exact h
    · rcases ih (step f t r' s) with h | h
      · left
        rw [step_remaining_other f t r r' s e] at h
        rw [List.count_cons_of_ne (by exact e)]
        exact h
      · right; exact h

theorem remaining_zero (rd : Reader) (h : remaining rd = 0) : rd.pc = .idle ∧ rd.todo = [] := by
  rcases rd with ⟨pc, todo, out⟩
  simp only [remaining] at h
  constructor
  · cases pc <;> simp [pcRank] at h <;> first | rfl | omega
  · cases todo with
    | nil => rfl
    | cons a b => simp at h <;> omega

/-! ### sequential histories (one reader) -/

/-- big-step semantics of a sequential history: final dict, loads, transform applications -/
def seqSem (f : Nat → Val) : List Op → (Nat → Option Val) → (Nat → Option Val) × List Nat × List Nat
  | [], d => (d, [], [])
  | .get i :: rest, d =>
    match d i with
    | some _ => let r := seqSem f rest d; (r.1, r.2.1, i :: r.2.2)
    | none => let r := seqSem f rest (store d i (f i)); (r.1, i :: r.2.1, i :: r.2.2)
  | .clear :: rest, _ => seqSem f rest emptyDict

theorem run_replicate_done (f : Nat → Val) (t : Val → Val) (k : Nat) (sh : Shared) (out : List Res) :
    run f t (List.replicate k 0) ⟨sh, [⟨.idle, [], out⟩]⟩ = ⟨sh, [⟨.idle, [], out⟩]⟩ := by
  induction k with
  | zero => rfl
  | succ k ih => simpa [List.replicate_succ, run, step, stepReader] using ih

theorem seq_run_eq (f : Nat → Val) (t : Val → Val) :
    ∀ (ops : List Op) (k : Nat) (d : Nat → Option Val) (L T : List Nat) (out : List Res),
      DInv f ⟨d, L, T⟩ → 4 * ops.length ≤ k →
      run f t (List.replicate k 0) ⟨⟨d, L, T⟩, [⟨.idle, ops, out⟩]⟩ =
        ⟨⟨(seqSem f ops d).1, L ++ (seqSem f ops d).2.1, T ++ (seqSem f ops d).2.2⟩,
         [⟨.idle, [], out ++ ops.map (spec f t)⟩]⟩ := by
  intro ops
  induction ops with
  | nil =>
    intro k d L T out _ _
    simpa [seqSem] using run_replicate_done f t k ⟨d, L, T⟩ out
  | cons op rest ih =>
    intro k d L T out hinv hk
    simp only [List.length_cons] at hk
    cases op with
    | clear =>
      obtain ⟨k', rfl⟩ : ∃ k', k = k' + 1 := ⟨k - 1, by omega⟩
      have := ih k' emptyDict L T (out ++ [.cleared]) (by intro i v h; simp [emptyDict] at h) (by omega)
      simp only [List.replicate_succ, run, step, stepReader, List.getElem?_cons_zero, List.set_cons_zero, seqSem,
        List.map_cons, spec]
      rw [this]
      simp
    | get i =>
      cases hdi : d i with
      | some v =>
        have hv : v = f i := hinv i v hdi
        obtain ⟨k', rfl⟩ : ∃ k', k = k' + 2 := ⟨k - 2, by omega⟩
        have := ih k' d L (T ++ [i]) (out ++ [.val i (t v)]) (by intro j w h; exact hinv j w h) (by omega)
        simp only [List.replicate_succ, run, step, stepReader, List.getElem?_cons_zero, List.set_cons_zero, seqSem,
          List.map_cons, spec, hdi]
        rw [this]
        simp [hv]
      | none =>
        obtain ⟨k', rfl⟩ : ∃ k', k = k' + 3 := ⟨k - 3, by omega⟩
        have hinv' : DInv f ⟨store d i (f i), L ++ [i], T ++ [i]⟩ := by
          intro j w h
          simp only [store] at h
          by_cases e : j = i
          · simp only [e, if_true, Option.some.injEq] at h
            rw [← h, e]
          · simp only [e, if_false] at h
            exact hinv j w h
        have := ih k' (store d i (f i)) (L ++ [i]) (T ++ [i]) (out ++ [.val i (t (f i))]) hinv' (by omega)
        simp only [List.replicate_succ, run, step, stepReader, List.getElem?_cons_zero, List.set_cons_zero, seqSem,
          List.map_cons, spec, hdi]
        rw [this]
        simp

/-- `seen` lists exactly the indices present in the dict -/
def Tracks (d : Nat → Option Val) (seen : List Nat) : Prop := ∀ i, (d i).isSome = true ↔ i ∈ seen

theorem seqSem_loads (f : Nat → Val) (ops : List Op) (d : Nat → Option Val) (seen : List Nat) (h : Tracks d seen) :
    (seqSem f ops d).2.1 = loadsSpec ops seen := by
  induction ops generalizing d seen with
  | nil => rfl
  | cons op rest ih =>
    cases op with
    | clear =>
      simp only [seqSem, loadsSpec]
      exact ih emptyDict [] (by intro i; simp [emptyDict])
    | get i =>
      simp only [seqSem, loadsSpec]
      cases hdi : d i with
      | some v =>
        have : i ∈ seen := (h i).mp (by simp [hdi])
        simp only [this, if_true]
        exact ih d seen h
      | none =>
        have : i ∉ seen := by
          intro hin
          have := (h i).mpr hin
          simp [hdi] at this
        simp only [this, if_false]
        congr 1
        apply ih
        intro j
        simp only [store, List.mem_cons]
        by_cases e : j = i
        · simp [e]
        · simp only [e, if_false, false_or]
          exact h j

theorem seqSem_tapps (f : Nat → Val) (ops : List Op) (d : Nat → Option Val) :
    (seqSem f ops d).2.2 = ops.filterMap (fun o => match o with | .get i => some i | .clear => none) := by
  induction ops generalizing d with
  | nil => rfl
  | cons op rest ih =>
    cases op with
    | clear => simpa [seqSem] using ih emptyDict
    | get i =>
      simp only [seqSem]
      cases d i with
      | some v => simpa using ih d
      | none => simpa using ih (store d i (f i))

end KDVerif.Cache
