/-
End-to-end facts about `ModeWrapper.__getitem__` (`Model/ModeWrapper.lean`): what the un-fused value list
(`unpacked`) holds at every mode position, derived from the planner facts of `Lemmas/ModeWrapperPlan.lean`.

Route: `runWrite` (= `writeBack` over `entries.zip (runEntries …).1`) is unfolded entry by entry (`runWrite_cons`,
`runWrite_append`); a position ends with what its LAST writer wrote (`runWrite_last`), entries that do not cover a
position leave it alone (`runWrite_not_covers`); a single entry writes `runEntry`'s value, a joint entry writes
`Val.tag ops[j] idx call` to `poss[j]` (`wstep_fused`, needs `poss.Nodup`). The planner facts are bundled in
`PlanOk` (`plan_planOk`). Final statements: `unpacked_*` (for `plan`), `ctor_*` / `getOne_*` (for a constructed wrapper).
-/
import KDVerif.Model.ModeWrapper
import KDVerif.Lemmas.ModeWrapperPlan

namespace KDVerif.ModeWrapper

/-! ### `writeBack`, one entry at a time -/

/-- one step of `writeBack` -/
def wstep (out : List Val) : Entry → Val → List Val
  | .single _ pos, v => out.set pos v
  | .fused _ poss, .tuple vs => (poss.zip vs).foldl (fun o p => o.set p.1 p.2) out
  | .fused _ _, _ => out

theorem writeBack_cons (out : List Val) (e : Entry) (v : Val) (rest : List (Entry × Val)) :
    writeBack out ((e, v) :: rest) = writeBack (wstep out e v) rest := by
  cases e with
  | single item pos => rfl
  | fused ops poss => cases v <;> rfl

/-- loader state after running the entries `es` from `st` -/
def stAfter (s : Stack) (idx : Int) (st : LS) (es : List Entry) : LS := (runEntries s idx st es).2

/-- `writeBack` over the values the planned loaders return -/
def runWrite (s : Stack) (idx : Int) (st : LS) (out : List Val) (es : List Entry) : List Val :=
  writeBack out (es.zip (runEntries s idx st es).1)

theorem stAfter_nil (s : Stack) (idx : Int) (st : LS) : stAfter s idx st [] = st := rfl

theorem stAfter_cons (s : Stack) (idx : Int) (st : LS) (e : Entry) (es : List Entry) :
    stAfter s idx st (e :: es) = stAfter s idx (runEntry s idx st e).2 es := rfl

theorem stAfter_append (s : Stack) (idx : Int) : ∀ (a b : List Entry) (st : LS),
    stAfter s idx st (a ++ b) = stAfter s idx (stAfter s idx st a) b := by
  intro a
  induction a with
  | nil => intro b st; rfl
  | cons e a ih => intro b st; rw [List.cons_append, stAfter_cons, stAfter_cons, ih]

theorem runWrite_nil (s : Stack) (idx : Int) (st : LS) (out : List Val) : runWrite s idx st out [] = out := rfl

theorem runWrite_cons (s : Stack) (idx : Int) (st : LS) (out : List Val) (e : Entry) (es : List Entry) :
    runWrite s idx st out (e :: es) =
      runWrite s idx (runEntry s idx st e).2 (wstep out e (runEntry s idx st e).1) es := by
  unfold runWrite
  simp only [runEntries, List.zip_cons_cons]
  rw [writeBack_cons]

theorem runWrite_append (s : Stack) (idx : Int) : ∀ (a b : List Entry) (st : LS) (out : List Val),
    runWrite s idx st out (a ++ b) = runWrite s idx (stAfter s idx st a) (runWrite s idx st out a) b := by
  intro a
  induction a with
  | nil => intro b st out; rfl
  | cons e a ih =>
    intro b st out
    rw [List.cons_append, runWrite_cons, runWrite_cons, stAfter_cons, ih]

/-! ### route (1): `runEntries` pointwise -/

theorem runEntries_length (s : Stack) (idx : Int) : ∀ (es : List Entry) (st : LS),
    (runEntries s idx st es).1.length = es.length := by
  intro es
  induction es with
  | nil => intro st; rfl
  | cons e es ih => intro st; simp [runEntries, ih]

/-- the `k`-th returned value is what the `k`-th entry's loader returns in the state reached after the first `k` -/
theorem runEntries_getElem? (s : Stack) (idx : Int) : ∀ (es : List Entry) (st : LS) (k : Nat),
    (runEntries s idx st es).1[k]? =
      es[k]?.map (fun e => (runEntry s idx (stAfter s idx st (es.take k)) e).1) := by
  intro es
  induction es with
  | nil => intro st k; simp [runEntries]
  | cons e es ih =>
    intro st k
    cases k with
    | zero => simp [runEntries, stAfter_nil]
    | succ k =>
      simp only [runEntries, List.getElem?_cons_succ, List.take_succ_cons, stAfter_cons]
      exact ih _ k

/-- an entry that invokes a loader (everything but `index` and `ctx.*` singles) -/
def isLoading : Entry → Bool
  | .single item _ => !(item == "index") && !(isCtx item)
  | .fused _ _ => true

theorem runEntry_call (s : Stack) (idx : Int) (st : LS) (e : Entry) :
    (runEntry s idx st e).2.call = st.call + (if isLoading e then 1 else 0) := by
  cases e with
  | single item pos =>
    simp only [runEntry, isLoading]
    by_cases h1 : (item == "index") = true
    · simp [h1]
    · by_cases h2 : isCtx item = true
      · simp only [h1, h2]
        cases ctxGet st.ctx (item.drop 4).toString <;> simp
      · simp [h1, h2]
  | fused ops poss => simp [runEntry, isLoading]

theorem runEntry_call_le (s : Stack) (idx : Int) (st : LS) (e : Entry) :
    st.call ≤ (runEntry s idx st e).2.call := by
  rw [runEntry_call]; omega

/-- the call counter after a prefix: start + number of loading entries -/
theorem stAfter_call (s : Stack) (idx : Int) : ∀ (es : List Entry) (st : LS),
    (stAfter s idx st es).call = st.call + (es.filter isLoading).length := by
  intro es
  induction es with
  | nil => intro st; simp [stAfter_nil]
  | cons e es ih =>
    intro st
    rw [stAfter_cons, ih, runEntry_call]
    by_cases h : isLoading e = true
    · simp [h]; omega
    · simp [h]

theorem stAfter_call_le (s : Stack) (idx : Int) (es : List Entry) (st : LS) :
    st.call ≤ (stAfter s idx st es).call := by
  rw [stAfter_call]; omega

/-- the call number used by a loading entry lies inside this request's window -/
theorem call_window (s : Stack) (idx : Int) (st : LS) (pre post : List Entry) (e : Entry)
    (hl : isLoading e = true) :
    st.call ≤ (stAfter s idx st pre).call ∧
      (stAfter s idx st pre).call < (stAfter s idx st (pre ++ e :: post)).call := by
  refine ⟨stAfter_call_le s idx pre st, ?_⟩
  rw [stAfter_append, stAfter_cons]
  have h1 := runEntry_call s idx (stAfter s idx st pre) e
  have h2 := stAfter_call_le s idx post (runEntry s idx (stAfter s idx st pre) e).2
  simp only [hl, if_true] at h1
  omega

/-! ### route (2): `runEntry` value shapes -/

theorem runEntry_fused_val (s : Stack) (idx : Int) (st : LS) (ops : List String) (poss : List Nat) :
    (runEntry s idx st (.fused ops poss)).1 = Val.tuple (ops.map (fun o => Val.tag o idx st.call)) := rfl

theorem runEntry_index_val (s : Stack) (idx : Int) (st : LS) (pos : Nat) :
    (runEntry s idx st (.single "index" pos)).1 = Val.index idx := by
  simp [runEntry]

theorem runEntry_loadable_val (s : Stack) (idx : Int) (st : LS) (item : String) (pos : Nat)
    (h1 : item ≠ "index") (h2 : isCtx item = false) :
    (runEntry s idx st (.single item pos)).1 = Val.tag item idx st.call := by
  simp [runEntry, h1, h2]

theorem isCtx_index : isCtx "index" = false := by simp [isCtx]

theorem isCtx_ne_index (item : String) (h : isCtx item = true) : item ≠ "index" := by
  intro e
  rw [e, isCtx_index] at h
  cases h

theorem runEntry_ctx_val (s : Stack) (idx : Int) (st : LS) (item : String) (pos : Nat)
    (h2 : isCtx item = true) :
    (runEntry s idx st (.single item pos)).1 =
      (match ctxGet st.ctx (item.drop 4).toString with
       | some v => v
       | none => Val.keyError (item.drop 4).toString) := by
  simp only [runEntry, h2, if_true]
  have : (item == "index") = false := by simpa using isCtx_ne_index item h2
  simp only [this, Bool.false_eq_true, if_false]
  cases ctxGet st.ctx (item.drop 4).toString <;> rfl

/-! ### route (3): `writeBack` semantics -/

theorem foldl_set_length : ∀ (ps : List (Nat × Val)) (out : List Val),
    (ps.foldl (fun o r => o.set r.1 r.2) out).length = out.length := by
  intro ps
  induction ps with
  | nil => intro out; rfl
  | cons q qs ih => intro out; simp only [List.foldl_cons]; rw [ih]; simp

theorem foldl_set_not_mem : ∀ (poss : List Nat) (vs : List Val) (out : List Val) (p : Nat), p ∉ poss →
    ((poss.zip vs).foldl (fun o r => o.set r.1 r.2) out)[p]? = out[p]? := by
  intro poss
  induction poss with
  | nil => intro vs out p _; rfl
  | cons a as ih =>
    intro vs out p hp
    cases vs with
    | nil => rfl
    | cons w ws =>
      simp only [List.mem_cons, not_or] at hp
      simp only [List.zip_cons_cons, List.foldl_cons]
      rw [ih ws _ p hp.2]
      exact List.getElem?_set_ne (fun e => hp.1 e.symm)

/-- with distinct positions, the fold sets `out[poss[j]] := vs[j]` -/
theorem foldl_set_get : ∀ (poss : List Nat) (vs : List Val) (out : List Val), poss.Nodup →
    ∀ (j q : Nat) (v : Val), poss[j]? = some q → vs[j]? = some v → q < out.length →
      ((poss.zip vs).foldl (fun o r => o.set r.1 r.2) out)[q]? = some v := by
  intro poss
  induction poss with
  | nil => intro vs out _ j q v h; simp at h
  | cons a as ih =>
    intro vs out hnd j q v hq hv hlt
    cases vs with
    | nil => simp at hv
    | cons w ws =>
      rw [List.nodup_cons] at hnd
      simp only [List.zip_cons_cons, List.foldl_cons]
      cases j with
      | zero =>
        simp only [List.getElem?_cons_zero, Option.some.injEq] at hq hv
        subst hq; subst hv
        rw [foldl_set_not_mem as ws _ a hnd.1]
        simp [hlt]
      | succ j =>
        simp only [List.getElem?_cons_succ] at hq hv
        exact ih ws (out.set a w) hnd.2 j q v hq hv (by simpa using hlt)

theorem wstep_length (out : List Val) (e : Entry) (v : Val) : (wstep out e v).length = out.length := by
  cases e with
  | single item pos => simp [wstep]
  | fused ops poss =>
    cases v with
    | tuple vs => simp only [wstep]; exact foldl_set_length _ _
    | index i => rfl
    | tag n i c => rfl
    | keyError k => rfl
    | none => rfl

theorem wstep_not_covers (out : List Val) (e : Entry) (v : Val) (p : Nat) (h : ¬ covers e p) :
    (wstep out e v)[p]? = out[p]? := by
  cases e with
  | single item pos =>
    simp only [covers] at h
    simp only [wstep]
    exact List.getElem?_set_ne h
  | fused ops poss =>
    simp only [covers] at h
    cases v with
    | tuple vs => simp only [wstep]; exact foldl_set_not_mem poss vs out p h
    | index i => rfl
    | tag n i c => rfl
    | keyError k => rfl
    | none => rfl

theorem wstep_single (out : List Val) (item : String) (pos : Nat) (v : Val) (h : pos < out.length) :
    (wstep out (.single item pos) v)[pos]? = some v := by
  simp [wstep, h]

/-- a joint loader's `j`-th component lands on `poss[j]` -/
theorem wstep_fused (s : Stack) (idx : Int) (st : LS) (out : List Val) (ops : List String) (poss : List Nat)
    (hn : poss.Nodup) (j q : Nat) (o : String) (hq : poss[j]? = some q) (ho : ops[j]? = some o)
    (hlt : q < out.length) :
    (wstep out (.fused ops poss) (runEntry s idx st (.fused ops poss)).1)[q]? = some (Val.tag o idx st.call) := by
  rw [runEntry_fused_val]
  simp only [wstep]
  apply foldl_set_get poss _ out hn j q _ hq _ hlt
  simp [ho]

theorem runWrite_length (s : Stack) (idx : Int) : ∀ (es : List Entry) (st : LS) (out : List Val),
    (runWrite s idx st out es).length = out.length := by
  intro es
  induction es with
  | nil => intro st out; rfl
  | cons e es ih => intro st out; rw [runWrite_cons, ih, wstep_length]

/-- entries that do not cover `p` leave position `p` alone -/
theorem runWrite_not_covers (s : Stack) (idx : Int) (p : Nat) : ∀ (es : List Entry) (st : LS) (out : List Val),
    (∀ e ∈ es, ¬ covers e p) → (runWrite s idx st out es)[p]? = out[p]? := by
  intro es
  induction es with
  | nil => intro st out _; rfl
  | cons e es ih =>
    intro st out h
    rw [runWrite_cons, ih _ _ (fun e' he' => h e' (by simp [he'])),
      wstep_not_covers _ _ _ _ (h e (by simp))]

/-- position `p` ends with what its LAST writer wrote -/
theorem runWrite_last (s : Stack) (idx : Int) (st : LS) (out : List Val) (pre post : List Entry) (e : Entry)
    (p : Nat) (hpost : ∀ e' ∈ post, ¬ covers e' p) :
    (runWrite s idx st out (pre ++ e :: post))[p]? =
      (wstep (runWrite s idx st out pre) e (runEntry s idx (stAfter s idx st pre) e).1)[p]? := by
  rw [runWrite_append, runWrite_cons, runWrite_not_covers s idx p post _ _ hpost]

/-- a position no entry covers keeps its initial value (`Val.none` in `__getitem__`) -/
theorem runWrite_uncovered (s : Stack) (idx : Int) (st : LS) (n : Nat) (es : List Entry) (p : Nat)
    (hp : p < n) (h : ∀ e ∈ es, ¬ covers e p) :
    (runWrite s idx st (List.replicate n Val.none) es)[p]? = some Val.none := by
  rw [runWrite_not_covers s idx p es _ _ h]
  simp [hp]

theorem exists_last_cover (p : Nat) : ∀ (es : List Entry), (∃ e ∈ es, covers e p) →
    ∃ pre e post, es = pre ++ e :: post ∧ covers e p ∧ ∀ e' ∈ post, ¬ covers e' p := by
  intro es
  induction es with
  | nil => intro h; obtain ⟨e, he, _⟩ := h; simp at he
  | cons x xs ih =>
    intro h
    by_cases hx : ∃ e ∈ xs, covers e p
    · obtain ⟨pre, e, post, heq, hc, hpost⟩ := ih hx
      exact ⟨x :: pre, e, post, by rw [heq]; rfl, hc, hpost⟩
    · obtain ⟨e, he, hc⟩ := h
      simp only [List.mem_cons] at he
      cases he with
      | inl he =>
        subst he
        refine ⟨[], e, xs, rfl, hc, ?_⟩
        intro e' he' hc'
        exact hx ⟨e', he', hc'⟩
      | inr he => exact absurd ⟨e, he, hc⟩ hx

/-! ### route (4): combine with the planner facts -/

/-- the planner facts `__getitem__` relies on, for an arbitrary entry list -/
structure PlanOk (items : List String) (es : List Entry) : Prop where
  ok : ∀ e ∈ es, EntryOk items e
  nodup : ∀ ops poss, Entry.fused ops poss ∈ es → poss.Nodup
  cov : ∀ p, p < items.length → ∃ e ∈ es, covers e p
  final : ∀ pre ops poss post, es = pre ++ Entry.fused ops poss :: post → ∀ e ∈ post, ∀ p ∈ poss, ¬ covers e p

theorem plan_planOk (fusedOps : List (List String)) (items : List String)
    (hnd : ∀ f ∈ fusedOps, hasDup f = false) : PlanOk items (plan fusedOps items) :=
  ⟨plan_entries_ok fusedOps items hnd, plan_fused_positions_distinct fusedOps items hnd,
   plan_covers' fusedOps items, plan_fused_final fusedOps items hnd⟩

theorem entryOk_fused_get (items : List String) (ops : List String) (poss : List Nat)
    (h : EntryOk items (.fused ops poss)) (j q : Nat) (hq : poss[j]? = some q) :
    ∃ o, ops[j]? = some o ∧ items[q]? = some o := by
  obtain ⟨hj', rfl⟩ := List.getElem?_eq_some_iff.mp hq
  have hj : j < ops.length := h.1 ▸ hj'
  exact ⟨ops[j], List.getElem?_eq_getElem hj, h.2 j hj hj'⟩

theorem getElem?_lt {α} (l : List α) (i : Nat) (a : α) (h : l[i]? = some a) : i < l.length :=
  (List.getElem?_eq_some_iff.mp h).1

/-- **master statement**: every mode position `p` has a last writer; if it is a single loader of item `it` then
    `items[p] = it` and position `p` holds that loader's return value (in the loader state reached at its turn);
    if it is a joint loader then `p = poss[j]`, `items[p] = ops[j]`, and position `p` holds the `j`-th
    component of that joint call -/
theorem runWrite_at (s : Stack) (idx : Int) (st : LS) (items : List String) (es : List Entry) (out : List Val)
    (hok : PlanOk items es) (hlen : out.length = items.length) (p : Nat) (hp : p < items.length) :
    ∃ pre e post, es = pre ++ e :: post ∧ covers e p ∧ (∀ e' ∈ post, ¬ covers e' p) ∧
      ((∃ it, e = Entry.single it p ∧ items[p]? = some it ∧
          (runWrite s idx st out es)[p]? = some (runEntry s idx (stAfter s idx st pre) (Entry.single it p)).1) ∨
       (∃ (ops : List String) (poss : List Nat) (j : Nat) (it : String), e = Entry.fused ops poss ∧ poss[j]? = some p ∧ ops[j]? = some it ∧ items[p]? = some it ∧
          (runWrite s idx st out es)[p]? = some (Val.tag it idx (stAfter s idx st pre).call))) := by
  obtain ⟨pre, e, post, heq, hc, hpost⟩ := exists_last_cover p es (hok.cov p hp)
  refine ⟨pre, e, post, heq, hc, hpost, ?_⟩
  have hmem : e ∈ es := by rw [heq]; simp
  have hlen' : (runWrite s idx st out pre).length = items.length := by rw [runWrite_length]; exact hlen
  have hlast := runWrite_last s idx st out pre post e p hpost
  rw [← heq] at hlast
  cases e with
  | single it pos =>
    simp only [covers] at hc
    subst hc
    left
    refine ⟨it, rfl, hok.ok _ hmem, ?_⟩
    rw [hlast]
    exact wstep_single _ _ _ _ (by omega)
  | fused ops poss =>
    simp only [covers] at hc
    obtain ⟨j, hj⟩ := List.mem_iff_getElem?.mp hc
    obtain ⟨o, ho1, ho2⟩ := entryOk_fused_get items ops poss (hok.ok _ hmem) j p hj
    right
    refine ⟨ops, poss, j, o, rfl, hj, ho1, ho2, ?_⟩
    rw [hlast]
    exact wstep_fused s idx _ _ ops poss (hok.nodup ops poss hmem) j p o hj ho1 (by omega)

/-- **loadable items**: a position whose mode item is a loader name (not `index`, not `ctx.*`) carries the value
    of THAT item's loader for THIS sample, produced by a call made during this request — whether it came from a
    single load or as a component of a joint load -/
theorem runWrite_loadable (s : Stack) (idx : Int) (st : LS) (items : List String) (es : List Entry)
    (out : List Val) (hok : PlanOk items es) (hlen : out.length = items.length) (p : Nat) (it : String)
    (hit : items[p]? = some it) (h1 : it ≠ "index") (h2 : isCtx it = false) :
    ∃ call, st.call ≤ call ∧ call < (stAfter s idx st es).call ∧
      (runWrite s idx st out es)[p]? = some (Val.tag it idx call) := by
  have hp := getElem?_lt _ _ _ hit
  obtain ⟨pre, e, post, heq, _, _, h⟩ := runWrite_at s idx st items es out hok hlen p hp
  cases h with
  | inl h =>
    obtain ⟨it', he, hit', hv⟩ := h
    rw [hit] at hit'
    simp only [Option.some.injEq] at hit'
    subst hit'
    have hl : isLoading e = true := by
      rw [he]; simp [isLoading, h1, h2]
    have hw := call_window s idx st pre post e hl
    rw [← heq] at hw
    refine ⟨_, hw.1, hw.2, ?_⟩
    rw [hv, runEntry_loadable_val s idx _ it p h1 h2]
  | inr h =>
    obtain ⟨ops, poss, j, it', he, _, _, hit', hv⟩ := h
    rw [hit] at hit'
    simp only [Option.some.injEq] at hit'
    subst hit'
    have hl : isLoading e = true := by rw [he]; rfl
    have hw := call_window s idx st pre post e hl
    rw [← heq] at hw
    exact ⟨_, hw.1, hw.2, hv⟩

/-- a position that no joint loader writes holds its single loader's return value at that loader's turn -/
theorem runWrite_single_only (s : Stack) (idx : Int) (st : LS) (items : List String) (es : List Entry)
    (out : List Val) (hok : PlanOk items es) (hlen : out.length = items.length) (p : Nat) (it : String)
    (hit : items[p]? = some it) (hnf : ∀ ops poss, Entry.fused ops poss ∈ es → p ∉ poss) :
    ∃ pre post, es = pre ++ Entry.single it p :: post ∧ (∀ e' ∈ post, ¬ covers e' p) ∧
      (runWrite s idx st out es)[p]? = some (runEntry s idx (stAfter s idx st pre) (Entry.single it p)).1 := by
  have hp := getElem?_lt _ _ _ hit
  obtain ⟨pre, e, post, heq, _, hpost, h⟩ := runWrite_at s idx st items es out hok hlen p hp
  cases h with
  | inl h =>
    obtain ⟨it', he, hit', hv⟩ := h
    rw [hit] at hit'
    simp only [Option.some.injEq] at hit'
    subst hit'
    subst he
    exact ⟨pre, post, heq, hpost, hv⟩
  | inr h =>
    obtain ⟨ops, poss, j, it', he, hj, _, _, _⟩ := h
    subst he
    exact absurd (List.mem_of_getElem? hj) (hnf ops poss (by rw [heq]; simp))

/-- **`index`**: an `index` position that no joint loader writes carries the requested index -/
theorem runWrite_index (s : Stack) (idx : Int) (st : LS) (items : List String) (es : List Entry)
    (out : List Val) (hok : PlanOk items es) (hlen : out.length = items.length) (p : Nat)
    (hit : items[p]? = some "index") (hnf : ∀ ops poss, Entry.fused ops poss ∈ es → p ∉ poss) :
    (runWrite s idx st out es)[p]? = some (Val.index idx) := by
  obtain ⟨pre, post, _, _, hv⟩ := runWrite_single_only s idx st items es out hok hlen p "index" hit hnf
  rw [hv, runEntry_index_val]

/-- **`ctx.*`**: a `ctx.<key>` position that no joint loader writes carries what the per-sample ctx held under
    `<key>` at that entry's turn (i.e. what the loaders planned BEFORE it recorded), or the `KeyError` -/
theorem runWrite_ctx (s : Stack) (idx : Int) (st : LS) (items : List String) (es : List Entry)
    (out : List Val) (hok : PlanOk items es) (hlen : out.length = items.length) (p : Nat) (it : String)
    (hit : items[p]? = some it) (h2 : isCtx it = true)
    (hnf : ∀ ops poss, Entry.fused ops poss ∈ es → p ∉ poss) :
    ∃ pre post, es = pre ++ Entry.single it p :: post ∧ (∀ e' ∈ post, ¬ covers e' p) ∧
      (runWrite s idx st out es)[p]? = some (runEntry s idx (stAfter s idx st pre) (Entry.single it p)).1 ∧
      (runWrite s idx st out es)[p]? =
        some (match ctxGet (stAfter s idx st pre).ctx (it.drop 4).toString with
              | some v => v
              | none => Val.keyError (it.drop 4).toString) := by
  obtain ⟨pre, post, heq, hpost, hv⟩ := runWrite_single_only s idx st items es out hok hlen p it hit hnf
  refine ⟨pre, post, heq, hpost, hv, ?_⟩
  rw [hv, runEntry_ctx_val s idx _ it p h2]

/-- **joint loads**: all members of a jointly loaded group carry components of ONE joint call (one call number
    `c₀`, made during this request), each in the mode position of its item -/
theorem runWrite_joint (s : Stack) (idx : Int) (st : LS) (items : List String) (es : List Entry)
    (out : List Val) (hok : PlanOk items es) (hlen : out.length = items.length)
    (ops : List String) (poss : List Nat) (hm : Entry.fused ops poss ∈ es) :
    poss.length = ops.length ∧ poss.Nodup ∧
    ∃ c₀, st.call ≤ c₀ ∧ c₀ < (stAfter s idx st es).call ∧
      ∀ (j q : Nat), poss[j]? = some q → ∃ o : String, ops[j]? = some o ∧ items[q]? = some o ∧
        (runWrite s idx st out es)[q]? = some (Val.tag o idx c₀) := by
  have hok' := hok.ok _ hm
  have hnd := hok.nodup ops poss hm
  refine ⟨hok'.1, hnd, ?_⟩
  obtain ⟨pre, post, heq⟩ := List.append_of_mem hm
  have hw := call_window s idx st pre post (Entry.fused ops poss) rfl
  rw [← heq] at hw
  refine ⟨(stAfter s idx st pre).call, hw.1, hw.2, ?_⟩
  intro j q hq
  obtain ⟨o, ho1, ho2⟩ := entryOk_fused_get items ops poss hok' j q hq
  refine ⟨o, ho1, ho2, ?_⟩
  have hpost : ∀ e' ∈ post, ¬ covers e' q :=
    fun e' he' => hok.final pre ops poss post heq e' he' q (List.mem_of_getElem? hq)
  have hlast := runWrite_last s idx st out pre post (Entry.fused ops poss) q hpost
  rw [← heq] at hlast
  rw [hlast]
  have hq' := getElem?_lt _ _ _ ho2
  exact wstep_fused s idx _ _ ops poss hnd j q o hq ho1 (by rw [runWrite_length]; omega)

/-! ### which groups can be fused: only declared ones -/

theorem planGo_fused_mem (fo : List (List String)) :
    ∀ (fuel i : Nat) (temp : List (Option String)) (ops : List String) (poss : List Nat),
      Entry.fused ops poss ∈ planGo fo fuel i temp → ops ∈ fo := by
  intro fuel
  induction fuel with
  | zero => intro i temp ops poss he; simp [planGo] at he
  | succ fuel ih =>
    intro i temp ops poss he
    cases h : temp.getD i none with
    | none =>
      rw [planGo_none fo fuel i temp h] at he
      exact ih (i + 1) temp ops poss he
    | some item =>
      cases hf : findFused fo item temp with
      | none =>
        rw [planGo_single fo fuel i temp item h hf] at he
        simp only [List.mem_cons] at he
        cases he with
        | inl he => cases he
        | inr he => exact ih (i + 1) temp ops poss he
      | some f =>
        rw [planGo_fused fo fuel i temp item f h hf] at he
        simp only [List.mem_cons] at he
        cases he with
        | inl he =>
          simp only [Entry.fused.injEq] at he
          rw [he.1]
          exact (findFused_some fo item temp f hf).1
        | inr he => exact ih (i + 1) _ ops poss he

/-- a planned joint loader is one of the declared fused operations -/
theorem plan_fused_mem (fusedOps : List (List String)) (items : List String) (ops : List String)
    (poss : List Nat) (he : Entry.fused ops poss ∈ plan fusedOps items) : ops ∈ fusedOps := by
  by_cases hfo : fusedOps.isEmpty = true
  · obtain ⟨p, it, hc, _⟩ := plan_isEmpty_mem fusedOps items hfo _ he
    cases hc
  · simp only [plan, hfo] at he
    exact planGo_fused_mem fusedOps items.length 0 _ ops poss he

/-- an item that is in no declared fused group is never written by a joint loader -/
theorem plan_not_fused (fusedOps : List (List String)) (items : List String)
    (hnd : ∀ f ∈ fusedOps, hasDup f = false) (p : Nat) (it : String) (hit : items[p]? = some it)
    (hno : ∀ f ∈ fusedOps, it ∉ f) :
    ∀ ops poss, Entry.fused ops poss ∈ plan fusedOps items → p ∉ poss := by
  intro ops poss hm hp
  obtain ⟨j, hj⟩ := List.mem_iff_getElem?.mp hp
  obtain ⟨o, ho1, ho2⟩ := entryOk_fused_get items ops poss (plan_entries_ok fusedOps items hnd _ hm) j p hj
  rw [hit] at ho2
  simp only [Option.some.injEq] at ho2
  subst ho2
  exact hno ops (plan_fused_mem fusedOps items ops poss hm) (List.mem_of_getElem? ho1)

/-! ### the final statements, for `plan` -/

/-- the un-fused value list of `__getitem__` for loader plan `plan fusedOps items`, start counter `c`, index `idx` -/
def unpackedOf (s : Stack) (fusedOps : List (List String)) (items : List String) (c : Nat) (idx : Int) : List Val :=
  writeBack (List.replicate items.length Val.none)
    ((plan fusedOps items).zip (runEntries s idx ⟨c, []⟩ (plan fusedOps items)).1)

theorem unpackedOf_eq (s : Stack) (fusedOps : List (List String)) (items : List String) (c : Nat) (idx : Int) :
    unpackedOf s fusedOps items c idx =
      runWrite s idx ⟨c, []⟩ (List.replicate items.length Val.none) (plan fusedOps items) := rfl

/-- the call counter after the request -/
def callAfter (s : Stack) (fusedOps : List (List String)) (items : List String) (c : Nat) (idx : Int) : Nat :=
  (runEntries s idx ⟨c, []⟩ (plan fusedOps items)).2.call

theorem unpacked_length (s : Stack) (fusedOps : List (List String)) (items : List String) (c : Nat) (idx : Int) :
    (unpackedOf s fusedOps items c idx).length = items.length := by
  rw [unpackedOf_eq, runWrite_length]; simp

theorem unpacked_loadable (s : Stack) (fusedOps : List (List String)) (items : List String)
    (hnd : ∀ f ∈ fusedOps, hasDup f = false) (c : Nat) (idx : Int) (p : Nat) (it : String)
    (hit : items[p]? = some it) (h1 : it ≠ "index") (h2 : isCtx it = false) :
    ∃ call, c ≤ call ∧ call < callAfter s fusedOps items c idx ∧
      (unpackedOf s fusedOps items c idx)[p]? = some (Val.tag it idx call) :=
  runWrite_loadable s idx ⟨c, []⟩ items _ _ (plan_planOk fusedOps items hnd) (by simp) p it hit h1 h2

theorem unpacked_index (s : Stack) (fusedOps : List (List String)) (items : List String)
    (hnd : ∀ f ∈ fusedOps, hasDup f = false) (c : Nat) (idx : Int) (p : Nat)
    (hit : items[p]? = some "index") (hno : ∀ f ∈ fusedOps, "index" ∉ f) :
    (unpackedOf s fusedOps items c idx)[p]? = some (Val.index idx) :=
  runWrite_index s idx ⟨c, []⟩ items _ _ (plan_planOk fusedOps items hnd) (by simp) p hit
    (plan_not_fused fusedOps items hnd p "index" hit hno)

theorem unpacked_ctx (s : Stack) (fusedOps : List (List String)) (items : List String)
    (hnd : ∀ f ∈ fusedOps, hasDup f = false) (c : Nat) (idx : Int) (p : Nat) (it : String)
    (hit : items[p]? = some it) (h2 : isCtx it = true) (hno : ∀ f ∈ fusedOps, it ∉ f) :
    ∃ pre post, plan fusedOps items = pre ++ Entry.single it p :: post ∧ (∀ e' ∈ post, ¬ covers e' p) ∧
      (unpackedOf s fusedOps items c idx)[p]? =
        some (runEntry s idx (stAfter s idx ⟨c, []⟩ pre) (Entry.single it p)).1 ∧
      (unpackedOf s fusedOps items c idx)[p]? =
        some (match ctxGet (stAfter s idx ⟨c, []⟩ pre).ctx (it.drop 4).toString with
              | some v => v
              | none => Val.keyError (it.drop 4).toString) :=
  runWrite_ctx s idx ⟨c, []⟩ items _ _ (plan_planOk fusedOps items hnd) (by simp) p it hit h2
    (plan_not_fused fusedOps items hnd p it hit hno)

theorem unpacked_joint (s : Stack) (fusedOps : List (List String)) (items : List String)
    (hnd : ∀ f ∈ fusedOps, hasDup f = false) (c : Nat) (idx : Int)
    (ops : List String) (poss : List Nat) (hm : Entry.fused ops poss ∈ plan fusedOps items) :
    poss.length = ops.length ∧ poss.Nodup ∧
    ∃ c₀, c ≤ c₀ ∧ c₀ < callAfter s fusedOps items c idx ∧
      ∀ (j q : Nat), poss[j]? = some q → ∃ o : String, ops[j]? = some o ∧ items[q]? = some o ∧
        (unpackedOf s fusedOps items c idx)[q]? = some (Val.tag o idx c₀) :=
  runWrite_joint s idx ⟨c, []⟩ items _ _ (plan_planOk fusedOps items hnd) (by simp) ops poss hm

/-! ### the constructed wrapper and `getOne` -/

theorem ctor_ok (s : Stack) (mode : String) (rc : Bool) (mw : MW) (h : ctor s mode rc = .ok mw) :
    mw.items = mode.splitOn " " ∧ mw.entries = plan s.fused mw.items ∧ mw.returnCtx = rc ∧
      (∀ f ∈ s.fused, hasDup f = false) ∧ hasDup s.fused.flatten = false := by
  unfold ctor at h
  by_cases hd : (s.fused.any hasDup || hasDup s.fused.flatten) = true
  · simp [hd] at h
  · simp only [hd, Bool.false_eq_true, if_false] at h
    cases hc : checkEntries s (!s.fused.isEmpty) (plan s.fused (mode.splitOn " ")) with
    | error e => rw [hc] at h; cases h
    | ok u =>
      rw [hc] at h
      simp only [Except.ok.injEq] at h
      subst h
      simp only [Bool.or_eq_true, not_or, Bool.not_eq_true, List.any_eq_false] at hd
      refine ⟨rfl, rfl, rfl, ?_, hd.2⟩
      intro f hf
      have := hd.1 f hf
      simpa using this

def normIndex (s : Stack) (idx : Int) : Int := if idx < 0 then (s.len : Int) + idx else idx

/-- the un-fused value list inside `getOne` -/
def unpacked (s : Stack) (mw : MW) (c : Nat) (idx : Int) : List Val :=
  writeBack (List.replicate mw.items.length Val.none)
    (mw.entries.zip (runEntries s (normIndex s idx) ⟨c, []⟩ mw.entries).1)

def pack : List Val → Out
  | [v] => Out.bare v
  | vs => Out.tuple vs

/-- `getOne` returns the packed `unpacked` list (plus the ctx iff `return_ctx`) -/
theorem getOne_fst (s : Stack) (mw : MW) (c : Nat) (idx : Int) :
    (getOne s mw c idx).1 =
      (if mw.returnCtx then
        Out.withCtx (pack (unpacked s mw c idx))
          (if mw.propagateCtx then (runEntries s (normIndex s idx) ⟨c, []⟩ mw.entries).2.ctx else [])
       else pack (unpacked s mw c idx)) := rfl

theorem getOne_snd (s : Stack) (mw : MW) (c : Nat) (idx : Int) :
    (getOne s mw c idx).2 = (runEntries s (normIndex s idx) ⟨c, []⟩ mw.entries).2.call := rfl

theorem ctor_unpacked (s : Stack) (mode : String) (rc : Bool) (mw : MW) (h : ctor s mode rc = .ok mw)
    (c : Nat) (idx : Int) :
    unpacked s mw c idx = unpackedOf s s.fused mw.items c (normIndex s idx) ∧
      (getOne s mw c idx).2 = callAfter s s.fused mw.items c (normIndex s idx) := by
  obtain ⟨_, he, _⟩ := ctor_ok s mode rc mw h
  unfold unpacked unpackedOf callAfter
  rw [getOne_snd, he]
  exact ⟨rfl, rfl⟩

/-- **C01, end to end, for a constructed wrapper** (`idx'` is the normalised index the loaders are called with,
    `c` the call counter before the request):
    the un-fused list has one value per mode item, and for every mode position `p` with item `it`
    * `it` a loader name → `unpacked[p] = tag it idx' call` for a call made during this request;
    * `it = "index"`, not declared in a fused group → `unpacked[p] = index idx'`;
    * `it = "ctx.<k>"`, not declared in a fused group → `unpacked[p]` is the ctx lookup at that entry's turn;
    and every planned joint loader `fused ops poss` delivers, for ONE call `c₀` of this request,
    `unpacked[poss[j]] = tag ops[j] idx' c₀` with `items[poss[j]] = ops[j]`, distinct positions, one per member -/
theorem ctor_getitem (s : Stack) (mode : String) (rc : Bool) (mw : MW) (h : ctor s mode rc = .ok mw)
    (c : Nat) (idx : Int) :
    mw.items = mode.splitOn " " ∧
    (unpacked s mw c idx).length = mw.items.length ∧
    (∀ (p : Nat) (it : String), mw.items[p]? = some it → it ≠ "index" → isCtx it = false →
      ∃ call, c ≤ call ∧ call < (getOne s mw c idx).2 ∧
        (unpacked s mw c idx)[p]? = some (Val.tag it (normIndex s idx) call)) ∧
    (∀ (p : Nat), mw.items[p]? = some "index" → (∀ f ∈ s.fused, "index" ∉ f) →
      (unpacked s mw c idx)[p]? = some (Val.index (normIndex s idx))) ∧
    (∀ (p : Nat) (it : String), mw.items[p]? = some it → isCtx it = true → (∀ f ∈ s.fused, it ∉ f) →
      ∃ pre post, mw.entries = pre ++ Entry.single it p :: post ∧ (∀ e' ∈ post, ¬ covers e' p) ∧
        (unpacked s mw c idx)[p]? =
          some (runEntry s (normIndex s idx) (stAfter s (normIndex s idx) ⟨c, []⟩ pre) (Entry.single it p)).1 ∧
        (unpacked s mw c idx)[p]? =
          some (match ctxGet (stAfter s (normIndex s idx) ⟨c, []⟩ pre).ctx (it.drop 4).toString with
                | some v => v
                | none => Val.keyError (it.drop 4).toString)) ∧
    (∀ (ops : List String) (poss : List Nat), Entry.fused ops poss ∈ mw.entries →
      poss.length = ops.length ∧ poss.Nodup ∧
      ∃ c₀, c ≤ c₀ ∧ c₀ < (getOne s mw c idx).2 ∧
        ∀ (j q : Nat), poss[j]? = some q → ∃ o : String, ops[j]? = some o ∧ mw.items[q]? = some o ∧
          (unpacked s mw c idx)[q]? = some (Val.tag o (normIndex s idx) c₀)) := by
  obtain ⟨hitems, he, _, hnd, _⟩ := ctor_ok s mode rc mw h
  obtain ⟨hu, hcall⟩ := ctor_unpacked s mode rc mw h c idx
  rw [hu, hcall, he]
  refine ⟨hitems, unpacked_length s s.fused mw.items c _, ?_, ?_, ?_, ?_⟩
  · intro p it hit h1 h2
    exact unpacked_loadable s s.fused mw.items hnd c _ p it hit h1 h2
  · intro p hit hno
    exact unpacked_index s s.fused mw.items hnd c _ p hit hno
  · intro p it hit h2 hno
    exact unpacked_ctx s s.fused mw.items hnd c _ p it hit h2 hno
  · intro ops poss hm
    exact unpacked_joint s s.fused mw.items hnd c _ ops poss hm

/-- what the caller sees without `return_ctx`: the bare value for a one-item mode, else the tuple `unpacked` -/
theorem getOne_out (s : Stack) (mw : MW) (c : Nat) (idx : Int) (hr : mw.returnCtx = false) :
    (∀ v, unpacked s mw c idx = [v] → (getOne s mw c idx).1 = Out.bare v) ∧
    ((unpacked s mw c idx).length ≠ 1 → (getOne s mw c idx).1 = Out.tuple (unpacked s mw c idx)) := by
  rw [getOne_fst]
  simp only [hr, Bool.false_eq_true, if_false]
  constructor
  · intro v hv; rw [hv]; rfl
  · intro hne
    generalize unpacked s mw c idx = u at hne
    match u, hne with
    | [], _ => rfl
    | [v], h => simp at h
    | v :: w :: r, _ => rfl

/-! ### concrete instances (non-vacuity; what the hypotheses exclude) -/

/-- mode `"class index x"` with the joint loader `(x, class)`: `class` is first loaded alone (call 7) and then
    overwritten by the joint call 8, so both members carry call 8, each in its mode position -/
example : unpackedOf ⟨[["x", "class"]], [], [], [], 10, false⟩ [["x", "class"]] ["class", "index", "x"] 7 8 =
    [Val.tag "class" 8 8, Val.index 8, Val.tag "x" 8 8] := by
  simp [unpackedOf, plan, planGo, findFused, claim, indexOf, runEntries, runEntry, writeBack, isCtx]

/-- why `unpacked_index` excludes `index` declared inside a fused group: the joint loader's component is delivered -/
example : unpackedOf ⟨[["x", "index"]], [], [], [], 10, false⟩ [["x", "index"]] ["x", "index"] 0 3 =
    [Val.tag "x" 3 0, Val.tag "index" 3 0] := by
  simp [unpackedOf, plan, planGo, findFused, claim, indexOf, runEntries, runEntry, writeBack]

/-- a `ctx.*` item sees what EARLIER planned loaders recorded (here `x` records `seed`), a later one does not -/
example : unpackedOf ⟨[], [], [], [("x", "seed")], 10, false⟩ [] ["ctx.seed", "x", "ctx.seed"] 0 3 =
    [Val.keyError "seed", Val.tag "x" 3 0, Val.tag "x" 3 0] := by
  have h : ("ctx.seed".drop 4).copy = "seed" := by decide
  simp [unpackedOf, plan, runEntries, runEntry, writeBack, isCtx, ctxGet, ctxSet, List.range, List.range.loop, h]

end KDVerif.ModeWrapper
