/-
Helper lemmas for C10: Except plumbing, shuffle, boxes, label rows, the two `plan` functions.
-/
import KDVerif.Model.MixCollator

namespace KDVerif.MixCollator

/-! ### Except plumbing -/

theorem bind_ok {ε α β : Type} {x : Except ε α} {f : α → Except ε β} {b : β} :
    (x >>= f) = .ok b ↔ ∃ a, x = .ok a ∧ f a = .ok b := by
  cases x with
  | error e => simp [bind, Except.bind]
  | ok a => simp [bind, Except.bind]

theorem pure_ok {ε α : Type} {a b : α} : (pure a : Except ε α) = .ok b ↔ a = b := by
  simp [pure, Except.pure]

/-! ### rationals -/

theorem rat_div_nat_nonneg (a b : Nat) : (0 : Rat) ≤ (a : Rat) / (b : Rat) := by
  rw [Rat.div_def]
  have ha : (0 : Rat) ≤ (a : Rat) := Rat.natCast_nonneg
  by_cases hb : b = 0
  · subst hb; simp
  · have hb' : (0 : Rat) < (b : Rat) := by
      have : 0 < b := Nat.pos_of_ne_zero hb
      exact Rat.natCast_pos.mpr this
    have : (0 : Rat) < (b : Rat)⁻¹ := Rat.inv_pos.mpr hb'
    exact Rat.mul_nonneg ha (Rat.le_of_lt this)

theorem rat_div_nat_le_one (a b : Nat) (h : a ≤ b) : (a : Rat) / (b : Rat) ≤ 1 := by
  by_cases hb : b = 0
  · subst hb
    have : a = 0 := by omega
    subst this
    simp [Rat.div_def]
    grind
  · have hb' : (0 : Rat) < (b : Rat) := Rat.natCast_pos.mpr (Nat.pos_of_ne_zero hb)
    have hab : (a : Rat) ≤ (b : Rat) := Rat.natCast_le_natCast.mpr h
    have hne : (b : Rat) ≠ 0 := by
      intro h0; rw [h0] at hb'; exact Rat.lt_irrefl hb'
    have hinv : (0 : Rat) ≤ (b : Rat)⁻¹ := Rat.le_of_lt (Rat.inv_pos.mpr hb')
    rw [Rat.div_def]
    have := Rat.mul_le_mul_of_nonneg_right hab hinv
    rw [Rat.mul_inv_cancel _ hne] at this
    exact this

theorem convex_nonneg (w a b : Rat) (h0 : 0 ≤ w) (h1 : w ≤ 1) (ha : 0 ≤ a) (hb : 0 ≤ b) :
    0 ≤ w * a + (1 - w) * b := by
  have h2 : (0 : Rat) ≤ 1 - w := by grind
  have := Rat.mul_nonneg h0 ha
  have := Rat.mul_nonneg h2 hb
  grind

theorem convex_le_one (w a b : Rat) (h0 : 0 ≤ w) (h1 : w ≤ 1) (ha : a ≤ 1) (hb : b ≤ 1) :
    w * a + (1 - w) * b ≤ 1 := by
  have h2 : (0 : Rat) ≤ 1 - w := by grind
  have h3 := Rat.mul_le_mul_of_nonneg_left ha h0
  have h4 := Rat.mul_le_mul_of_nonneg_left hb h2
  grind

/-! ### label rows -/

theorem mixRow_length (lam : Rat) (y y2 : List Rat) (h : y.length = y2.length) :
    (mixRow lam y y2).length = y.length := by
  simp [mixRow, List.length_zipWith, h]

theorem mixRow_sum (lam : Rat) : ∀ (y y2 : List Rat), y.length = y2.length →
    (mixRow lam y y2).sum = lam * y.sum + (1 - lam) * y2.sum := by
  intro y
  induction y with
  | nil =>
    intro y2 h
    cases y2 with
    | nil => simp [mixRow]; grind
    | cons b bs => simp at h
  | cons a as ih =>
    intro y2 h
    cases y2 with
    | nil => simp at h
    | cons b bs =>
      simp only [List.length_cons, Nat.add_right_cancel_iff] at h
      have := ih bs h
      simp only [mixRow, List.zipWith_cons_cons, List.sum_cons] at this ⊢
      rw [this]
      grind

theorem mixRow_nonneg (lam : Rat) (h0 : 0 ≤ lam) (h1 : lam ≤ 1) : ∀ (y y2 : List Rat),
    (∀ v ∈ y, 0 ≤ v) → (∀ v ∈ y2, 0 ≤ v) → ∀ v ∈ mixRow lam y y2, 0 ≤ v := by
  intro y
  induction y with
  | nil => intro y2 _ _ v hv; simp [mixRow] at hv
  | cons a as ih =>
    intro y2 hy hy2 v hv
    cases y2 with
    | nil => simp [mixRow] at hv
    | cons b bs =>
      simp only [mixRow, List.zipWith_cons_cons, List.mem_cons] at hv
      cases hv with
      | inl h =>
        subst h
        exact convex_nonneg lam a b h0 h1 (hy a (by simp)) (hy2 b (by simp))
      | inr h =>
        exact ih bs (fun v hv => hy v (by simp [hv])) (fun v hv => hy2 v (by simp [hv])) v h

theorem mixRow_getElem? (lam : Rat) (y y2 : List Rat) (k : Nat) (a b : Rat)
    (ha : y[k]? = some a) (hb : y2[k]? = some b) :
    (mixRow lam y y2)[k]? = some (lam * a + (1 - lam) * b) := by
  simp [mixRow, List.getElem?_zipWith, ha, hb]

/-! ### boxes -/

theorem mkBox_bounds (h w ch cw hh wh : Nat) (hch : ch < h) (hcw : cw < w) :
    let b := mkBox h w ch cw hh wh
    b.top ≤ b.bot ∧ b.bot ≤ h ∧ b.left ≤ b.right ∧ b.right ≤ w := by
  simp only [mkBox]
  omega

theorem area_le (h w : Nat) (b : Box) (h1 : b.bot ≤ h) (h2 : b.right ≤ w) : b.area ≤ h * w := by
  unfold Box.area
  exact Nat.mul_le_mul (by omega) (by omega)

theorem adjLam_range (h w : Nat) (b : Box) (h1 : b.bot ≤ h) (h2 : b.right ≤ w) :
    0 ≤ adjLam h w b ∧ adjLam h w b ≤ 1 := by
  unfold adjLam
  have := rat_div_nat_nonneg b.area (h * w)
  have := rat_div_nat_le_one b.area (h * w) (area_le h w b h1 h2)
  constructor <;> grind

/-! ### shuffle -/

theorem rollIdx_getD (n i : Nat) (h : i < n) : (rollIdx n).getD i 0 = (i + n - 1) % n := by
  simp [rollIdx, List.getD_eq_getElem?_getD, List.getElem?_map, List.getElem?_range h]

theorem flipIdx_getD (n i : Nat) (h : i < n) : (flipIdx n).getD i 0 = n - 1 - i := by
  simp [flipIdx, List.getD_eq_getElem?_getD, List.getElem?_map, List.getElem?_range h]

theorem popPerm_ok {n : Nat} {t t' : Tape} {l : List Nat} (h : popPerm n t = .ok (l, t')) :
    t = .perm n l :: t' ∧ l.length = n := by
  unfold popPerm at h
  split at h
  · rename_i n' l' t''
    split at h
    · rename_i hc
      simp only [Except.ok.injEq, Prod.mk.injEq] at h
      obtain ⟨h1, h2⟩ := h
      subst h1 h2
      obtain ⟨hc1, hc2⟩ := hc
      subst hc1
      exact ⟨rfl, hc2⟩
    · cases h
  · cases h

/-- what a first `shuffle` call (no permutation yet) returns, and that the second call with the returned
    permutation gathers the same indices without touching the generator -/
theorem shuffle_first {m : Shuffle} {n : Nat} {t t' : Tape} {idx : List Nat} {p : Option (List Nat)}
    (h : shuffle m n none t = .ok (idx, p, t')) :
    idx.length = n ∧ (∀ i, i < n → idx.getD i 0 = partnerSpec m n p i) ∧
    (∀ t2, shuffle m n p t2 = .ok (idx, p, t2)) ∧
    (m = .flip → n = 1 ∨ n % 2 = 0) ∧
    (n ≠ 1 → m = .random → ∃ l, p = some l ∧ idx = l ∧ t = .perm n l :: t') ∧
    ((n = 1 ∨ m ≠ .random) → t' = t ∧ p = none) := by
  unfold shuffle at h
  by_cases h1 : n = 1
  · simp only [h1, if_true, Except.ok.injEq, Prod.mk.injEq] at h
    obtain ⟨hi, hp, ht⟩ := h
    subst hi hp ht h1
    refine ⟨rfl, ?_, ?_, ?_, ?_, ?_⟩
    · intro i hi
      have : i = 0 := by omega
      subst this
      simp [partnerSpec]
    · intro t2; simp [shuffle]
    · intro _; exact Or.inl rfl
    · intro hne; exact absurd rfl hne
    · intro _; exact ⟨rfl, rfl⟩
  · simp only [h1, if_false] at h
    cases m with
    | roll =>
      simp only [Except.ok.injEq, Prod.mk.injEq] at h
      obtain ⟨hi, hp, ht⟩ := h
      subst hi hp ht
      refine ⟨by simp [rollIdx], ?_, ?_, ?_, ?_, ?_⟩
      · intro i hi; rw [rollIdx_getD n i hi]; simp [partnerSpec, h1]
      · intro t2; simp [shuffle, h1]
      · intro hc; cases hc
      · intro _ hc; cases hc
      · intro _; exact ⟨rfl, rfl⟩
    | flip =>
      by_cases h2 : n % 2 = 0
      · simp only [h2, if_true, Except.ok.injEq, Prod.mk.injEq] at h
        obtain ⟨hi, hp, ht⟩ := h
        subst hi hp ht
        refine ⟨by simp [flipIdx], ?_, ?_, ?_, ?_, ?_⟩
        · intro i hi; rw [flipIdx_getD n i hi]; simp [partnerSpec, h1]
        · intro t2; simp [shuffle, h1, h2]
        · intro _; exact Or.inr h2
        · intro _ hc; cases hc
        · intro _; exact ⟨rfl, rfl⟩
      · simp [h2] at h
    | random =>
      simp only at h
      cases hp : popPerm n t with
      | error e => simp [hp] at h
      | ok r =>
        obtain ⟨l, t''⟩ := r
        simp only [hp, Except.ok.injEq, Prod.mk.injEq] at h
        obtain ⟨hi, hpp, ht⟩ := h
        subst hi hpp ht
        obtain ⟨hta, hlen⟩ := popPerm_ok hp
        refine ⟨hlen, ?_, ?_, ?_, ?_, ?_⟩
        · intro i _; simp [partnerSpec, h1]
        · intro t2; simp [shuffle, h1]
        · intro hc; cases hc
        · intro _ _; exact ⟨l, rfl, rfl, hta⟩
        · intro hc
          cases hc with
          | inl h => exact absurd h h1
          | inr h => exact absurd rfl h


/-! ### tape pops -/

theorem popUnif_ok {t t' : Tape} {v : Rat} (h : popUnif t = .ok (v, t')) : t = .unif v :: t' := by
  unfold popUnif at h
  split at h
  · simp only [Except.ok.injEq, Prod.mk.injEq] at h
    obtain ⟨h1, h2⟩ := h
    subst h1 h2
    rfl
  · cases h

theorem popUnifs_ok {n : Nat} {t t' : Tape} {vs : List Rat} (h : popUnifs n t = .ok (vs, t')) :
    t = .unifs vs :: t' ∧ vs.length = n := by
  unfold popUnifs at h
  split at h
  · split at h
    · rename_i hc
      simp only [Except.ok.injEq, Prod.mk.injEq] at h
      obtain ⟨h1, h2⟩ := h
      subst h1 h2
      exact ⟨rfl, hc⟩
    · cases h
  · cases h

theorem popBeta_ok {alpha : Rat} {t t' : Tape} {v : Rat} (h : popBeta alpha t = .ok (v, t')) :
    t = .beta alpha v :: t' := by
  unfold popBeta at h
  split at h
  · split at h
    · rename_i hc
      simp only [Except.ok.injEq, Prod.mk.injEq] at h
      obtain ⟨h1, h2⟩ := h
      subst h1 h2 hc
      rfl
    · cases h
  · cases h

theorem popBetas_ok {alpha : Rat} {n : Nat} {t t' : Tape} {vs : List Rat}
    (h : popBetas alpha n t = .ok (vs, t')) : t = .betas alpha vs :: t' ∧ vs.length = n := by
  unfold popBetas at h
  split at h
  · split at h
    · rename_i hc
      simp only [Except.ok.injEq, Prod.mk.injEq] at h
      obtain ⟨h1, h2⟩ := h
      obtain ⟨hc1, hc2⟩ := hc
      subst h1 h2 hc1
      exact ⟨rfl, hc2⟩
    · cases h
  · cases h

theorem popInts_ok {hi n : Nat} {t t' : Tape} {vs : List Nat} (h : popInts hi n t = .ok (vs, t')) :
    t = .ints hi vs :: t' ∧ vs.length = n := by
  unfold popInts at h
  split at h
  · split at h
    · rename_i hc
      simp only [Except.ok.injEq, Prod.mk.injEq] at h
      obtain ⟨h1, h2⟩ := h
      obtain ⟨hc1, hc2⟩ := hc
      subst h1 h2 hc1
      exact ⟨rfl, hc2⟩
    · cases h
  · cases h

theorem TapeOk.tail {d : Draw} {t : Tape} (h : TapeOk (d :: t)) : TapeOk t :=
  fun x hx => h x (List.mem_cons_of_mem _ hx)

theorem TapeOk.head {d : Draw} {t : Tape} (h : TapeOk (d :: t)) : d.Ok := h d (List.mem_cons_self)

/-- `popApply` consumes exactly one draw -/
theorem popApply_ok {cfg : Cfg} {B : Nat} {t : Tape} {r : List Bool × Tape} (h : popApply cfg B t = .ok r) :
    ∃ d, t = d :: r.2 := by
  unfold popApply at h
  cases hm : cfg.applyMode with
  | batch =>
    simp only [hm, bind_ok, pure_ok] at h
    obtain ⟨a, ha, hr⟩ := h
    subst hr
    exact ⟨_, popUnif_ok (v := a.1) (t' := a.2) ha⟩
  | sample =>
    simp only [hm, bind_ok, pure_ok] at h
    obtain ⟨a, ha, hr⟩ := h
    subst hr
    exact ⟨_, (popUnifs_ok (vs := a.1) (t' := a.2) ha).1⟩

theorem getD_mem {α : Type} (l : List α) (i : Nat) (d : α) (h : i < l.length) : l.getD i d ∈ l := by
  rw [List.getD_eq_getElem?_getD, List.getElem?_eq_getElem h]
  simp

theorem getRandomBbox_getD (h w n : Nat) (chs cws : List Nat) (halves : List (Nat × Nat)) (i : Nat)
    (hi : i < n) (d : Box) :
    (getRandomBbox h w n chs cws halves).getD i d =
      mkBox h w (chs.getD i 0) (cws.getD i 0) (halves.getD i (0, 0)).1 (halves.getD i (0, 0)).2 := by
  simp [getRandomBbox, List.getD_eq_getElem?_getD, List.getElem?_map, List.getElem?_range hi]

theorem getRandomBbox_adj_getD (h w n : Nat) (chs cws : List Nat) (halves : List (Nat × Nat)) (i : Nat)
    (hi : i < n) (d : Rat) :
    ((getRandomBbox h w n chs cws halves).map (adjLam h w)).getD i d =
      adjLam h w (mkBox h w (chs.getD i 0) (cws.getD i 0) (halves.getD i (0, 0)).1 (halves.getD i (0, 0)).2) := by
  simp [getRandomBbox, List.getD_eq_getElem?_getD, List.getElem?_map, List.getElem?_range hi]

/-- what a successful `plan` guarantees (index bookkeeping of one `collate` call) -/
structure PlanFacts (cfg : Cfg) (tape : Tape) (B h w : Nat) (pl : Plan) : Prop where
  /-- the label gathers the same indices as the image -/
  idxY_eq : pl.idxY = pl.idxX
  idx_len : pl.idxX.length = B
  /-- and they are the ones the shuffle mode promises -/
  partner : ∀ i, i < B → pl.idxX.getD i 0 = partnerSpec cfg.shuffle B pl.perm i
  flip_even : cfg.shuffle = .flip → B = 1 ∨ B % 2 = 0
  perm_ok : TapeOk tape → B ≠ 1 → cfg.shuffle = .random → ∃ l, pl.perm = some l ∧ l.Perm (List.range B)
  /-- a cut-mixed sample's weight is the area-corrected one of *its* box, which lies inside the image -/
  cut : TapeOk tape → 0 ≤ cfg.totalP → ∀ i, i < B → flagAt cfg pl i = true →
    lamAt cfg pl i = adjLam h w (boxAt cfg pl i) ∧
    ∃ ch cw hh wh, boxAt cfg pl i = mkBox h w ch cw hh wh ∧ ch < h ∧ cw < w
  /-- a mixed-up sample's weight is a Beta draw -/
  mix_range : TapeOk tape → ∀ i, i < B → flagAt cfg pl i = false → 0 ≤ lamAt cfg pl i ∧ lamAt cfg pl i ≤ 1
  lam_len : pl.lambda.length = (match cfg.lambMode with | .batch => 1 | .sample => B)
  flag_len : pl.useCutmix.length = (match cfg.lambMode with | .batch => 1 | .sample => B)

theorem perm_of_tape {B : Nat} {l : List Nat} {t t' : Tape} (hok : TapeOk t) (h : t = .perm B l :: t') :
    l.Perm (List.range B) := by
  subst h
  exact hok.head

theorem planBatch_facts {cfg : Cfg} {halves : List (Nat × Nat)} {tape : Tape} {B h w : Nat} {pl : Plan}
    (hm : cfg.lambMode = .batch) (hp : planBatch cfg halves tape B h w = .ok pl) :
    PlanFacts cfg tape B h w pl := by
  simp only [planBatch, bind_ok, pure_ok] at hp
  obtain ⟨a, ha, u, hu, alpha, _, l, hl, sx, hsx, bb, hbb, sy, hsy, _, _, hpl⟩ := hp
  obtain ⟨d0, hd0⟩ := popApply_ok ha
  have hu' := popUnif_ok (v := u.1) (t' := u.2) hu
  have hl' := popBeta_ok (v := l.1) (t' := l.2) hl
  obtain ⟨hlen, hpart, hsecond, hflip, hrand, hnorand⟩ := shuffle_first (idx := sx.1) (p := sx.2.1) (t' := sx.2.2) hsx
  have hsy' := hsecond bb.2.2
  rw [hsy'] at hsy
  simp only [Except.ok.injEq] at hsy
  subst hsy
  subst hpl
  -- suffix facts for the contract
  have tape_l : TapeOk tape → TapeOk l.2 := by
    intro hok
    rw [hd0] at hok
    have h1 := hok.tail
    rw [hu'] at h1
    have h2 := h1.tail
    rw [hl'] at h2
    exact h2.tail
  have beta_ok : TapeOk tape → 0 ≤ l.1 ∧ l.1 ≤ 1 := by
    intro hok
    rw [hd0] at hok
    have h1 := hok.tail
    rw [hu'] at h1
    have h2 := h1.tail
    rw [hl'] at h2
    exact h2.head
  refine ⟨rfl, hlen, hpart, hflip, ?_, ?_, ?_, ?_, ?_⟩
  · intro hok hB hr
    obtain ⟨p, hp1, _, hp3⟩ := hrand hB hr
    exact ⟨p, hp1, perm_of_tape (tape_l hok) hp3⟩
  · intro hok _ i _ hflag
    simp only [flagAt, hm, pick, List.getD_cons_zero] at hflag
    simp only [hflag, if_true, bind_ok, pure_ok] at hbb
    obtain ⟨ch, hch, cw, hcw, _, _, hbb⟩ := hbb
    subst hbb
    obtain ⟨hch1, hch2⟩ := popInts_ok (vs := ch.1) (t' := ch.2) hch
    obtain ⟨hcw1, hcw2⟩ := popInts_ok (vs := cw.1) (t' := cw.2) hcw
    simp only [lamAt, boxAt, hm, pick]
    rw [getRandomBbox_adj_getD h w 1 _ _ _ 0 (by omega), getRandomBbox_getD h w 1 _ _ _ 0 (by omega)]
    refine ⟨rfl, _, _, _, _, rfl, ?_⟩
    have h3 := tape_l hok
    have hs : sx.2.2 = l.2 ∨ ∃ p, l.2 = .perm B p :: sx.2.2 := by
      by_cases hc : B = 1 ∨ cfg.shuffle ≠ .random
      · exact Or.inl (hnorand hc).1
      · have hB : B ≠ 1 := fun h => hc (Or.inl h)
        have hr : cfg.shuffle = .random := by
          cases hsm : cfg.shuffle with
          | random => rfl
          | roll => exact absurd (Or.inr (by simp [hsm])) hc
          | flip => exact absurd (Or.inr (by simp [hsm])) hc
        obtain ⟨p, _, _, hp3⟩ := hrand hB hr
        exact Or.inr ⟨p, hp3⟩
    have h4 : TapeOk sx.2.2 := by
      cases hs with
      | inl h => rw [h]; exact h3
      | inr h => obtain ⟨p, hp⟩ := h; rw [hp] at h3; exact h3.tail
    rw [hch1] at h4
    have ok1 : ∀ v ∈ ch.1, v < h := h4.head
    have h5 := h4.tail
    rw [hcw1] at h5
    have ok2 : ∀ v ∈ cw.1, v < w := h5.head
    exact ⟨ok1 _ (getD_mem _ _ _ (by omega)), ok2 _ (getD_mem _ _ _ (by omega))⟩
  · intro hok i _ hflag
    simp only [flagAt, hm, pick, List.getD_cons_zero] at hflag
    simp only [hflag] at hbb
    simp only [Bool.false_eq_true, if_false, pure_ok] at hbb
    subst hbb
    simp only [lamAt, hm, pick, List.getD_cons_zero]
    exact beta_ok hok
  · simp only [hm]
    by_cases huc : decide (u.1 * cfg.totalP < cfg.cutmixP) = true
    · simp only [huc, if_true, bind_ok, pure_ok] at hbb
      obtain ⟨ch, _, cw, _, _, _, hbb⟩ := hbb
      subst hbb
      simp [getRandomBbox]
    · simp only [huc] at hbb
      simp only [Bool.false_eq_true, if_false, pure_ok] at hbb
      subst hbb
      rfl
  · simp [hm]


theorem planSample_facts {cfg : Cfg} {halves : List (Nat × Nat)} {tape : Tape} {B h w : Nat} {pl : Plan}
    (hm : cfg.lambMode = .sample) (hp : planSample cfg halves tape B h w = .ok pl) :
    PlanFacts cfg tape B h w pl := by
  simp only [planSample, bind_ok, pure_ok] at hp
  obtain ⟨a, ha, u, hu, ml, hml, cl, hcl, sx, hsx, sy, hsy, _, _, hpl⟩ := hp
  obtain ⟨d0, hd0⟩ := popApply_ok ha
  obtain ⟨hu1, hu2⟩ := popUnifs_ok (vs := u.1) (t' := u.2) hu
  obtain ⟨hlen, hpart, hsecond, hflip, hrand, _⟩ := shuffle_first (idx := sx.1) (p := sx.2.1) (t' := sx.2.2) hsx
  rw [hsecond sx.2.2] at hsy
  simp only [Except.ok.injEq] at hsy
  subst hsy
  subst hpl
  have tape_u : TapeOk tape → TapeOk u.2 ∧ ∀ v ∈ u.1, 0 ≤ v ∧ v < 1 := by
    intro hok
    rw [hd0] at hok
    have h1 := hok.tail
    rw [hu1] at h1
    exact ⟨h1.tail, h1.head⟩
  -- the mixup lambdas
  have hml' : TapeOk tape → TapeOk ml.2 ∧ ∀ v ∈ ml.1, 0 ≤ v ∧ v ≤ 1 := by
    intro hok
    obtain ⟨h1, _⟩ := tape_u hok
    by_cases hc : 0 < cfg.mixupP
    · simp only [hc, if_true, bind_ok] at hml
      obtain ⟨alpha, _, hb⟩ := hml
      obtain ⟨hb1, _⟩ := popBetas_ok (vs := ml.1) (t' := ml.2) hb
      rw [hb1] at h1
      exact ⟨h1.tail, h1.head⟩
    · simp only [hc, if_false, pure_ok] at hml
      subst hml
      exact ⟨h1, by simp⟩
  -- per-sample view
  have hflagAt : ∀ i, flagAt cfg
      ⟨a.1, u.1.map (fun v => decide (v * cfg.totalP < cfg.cutmixP)),
        (List.range B).map (fun i =>
          if (u.1.map (fun v => decide (v * cfg.totalP < cfg.cutmixP))).getD i false = true
          then cl.2.1.getD i 0 else ml.1.getD i 0), cl.1, sx.1, sx.1, sx.2.1⟩ i
      = (u.1.map (fun v => decide (v * cfg.totalP < cfg.cutmixP))).getD i false := by
    intro i; simp [flagAt, hm, pick]
  have hlamAt : ∀ i, i < B → lamAt cfg
      ⟨a.1, u.1.map (fun v => decide (v * cfg.totalP < cfg.cutmixP)),
        (List.range B).map (fun i =>
          if (u.1.map (fun v => decide (v * cfg.totalP < cfg.cutmixP))).getD i false = true
          then cl.2.1.getD i 0 else ml.1.getD i 0), cl.1, sx.1, sx.1, sx.2.1⟩ i
      = if (u.1.map (fun v => decide (v * cfg.totalP < cfg.cutmixP))).getD i false = true
          then cl.2.1.getD i 0 else ml.1.getD i 0 := by
    intro i hi
    simp only [lamAt, hm, pick]
    rw [List.getD_eq_getElem?_getD, List.getElem?_map, List.getElem?_range hi]
    rfl
  refine ⟨rfl, hlen, hpart, hflip, ?_, ?_, ?_, ?_, ?_⟩
  · intro hok hB hr
    obtain ⟨p, hp1, _, hp3⟩ := hrand hB hr
    refine ⟨p, hp1, ?_⟩
    have h2 := (hml' hok).1
    have h3 : TapeOk cl.2.2 := by
      by_cases hc : 0 < cfg.cutmixP
      · simp only [hc, if_true, bind_ok, pure_ok] at hcl
        obtain ⟨alpha, _, l, hl, ch, hch, cw, hcw, _, _, hcl⟩ := hcl
        subst hcl
        obtain ⟨hl1, _⟩ := popBetas_ok (vs := l.1) (t' := l.2) hl
        obtain ⟨hch1, _⟩ := popInts_ok (vs := ch.1) (t' := ch.2) hch
        obtain ⟨hcw1, _⟩ := popInts_ok (vs := cw.1) (t' := cw.2) hcw
        rw [hl1] at h2
        have h4 := h2.tail
        rw [hch1] at h4
        have h5 := h4.tail
        rw [hcw1] at h5
        exact h5.tail
      · simp only [hc, if_false, pure_ok] at hcl
        subst hcl
        exact h2
    exact perm_of_tape h3 hp3
  · intro hok htp i hi hflag
    rw [hflagAt] at hflag
    rw [hlamAt i hi]
    simp only [hflag, if_true]
    -- the flag can only be set when cutmix_p > 0
    obtain ⟨_, hu_ok⟩ := tape_u hok
    have hiu : i < u.1.length := by omega
    have hcp : 0 < cfg.cutmixP := by
      rw [List.getD_eq_getElem?_getD, List.getElem?_map, List.getElem?_eq_getElem hiu] at hflag
      simp only [Option.map_some, Option.getD_some, decide_eq_true_eq] at hflag
      have hv := (hu_ok _ (List.getElem_mem hiu)).1
      have := Rat.mul_nonneg hv htp
      grind
    simp only [hcp, if_true, bind_ok, pure_ok] at hcl
    obtain ⟨alpha, _, l, hl, ch, hch, cw, hcw, _, _, hcl⟩ := hcl
    subst hcl
    obtain ⟨hl1, _⟩ := popBetas_ok (vs := l.1) (t' := l.2) hl
    obtain ⟨hch1, hch2⟩ := popInts_ok (vs := ch.1) (t' := ch.2) hch
    obtain ⟨hcw1, hcw2⟩ := popInts_ok (vs := cw.1) (t' := cw.2) hcw
    simp only [boxAt, hm, pick]
    rw [getRandomBbox_adj_getD h w B _ _ _ i hi, getRandomBbox_getD h w B _ _ _ i hi]
    refine ⟨rfl, _, _, _, _, rfl, ?_⟩
    have h2 := (hml' hok).1
    rw [hl1] at h2
    have h4 := h2.tail
    rw [hch1] at h4
    have ok1 : ∀ v ∈ ch.1, v < h := h4.head
    have h5 := h4.tail
    rw [hcw1] at h5
    have ok2 : ∀ v ∈ cw.1, v < w := h5.head
    exact ⟨ok1 _ (getD_mem _ _ _ (by omega)), ok2 _ (getD_mem _ _ _ (by omega))⟩
  · intro hok i hi hflag
    rw [hflagAt] at hflag
    rw [hlamAt i hi]
    simp only [hflag, Bool.false_eq_true, if_false]
    obtain ⟨_, hmlok⟩ := hml' hok
    by_cases hil : i < ml.1.length
    · exact hmlok _ (getD_mem _ _ _ hil)
    · rw [List.getD_eq_getElem?_getD, List.getElem?_eq_none (by omega)]
      simp
      grind
  · simp [hm]
  · simp [hm, hu2]

theorem plan_facts {cfg : Cfg} {halves : List (Nat × Nat)} {tape : Tape} {B h w : Nat} {pl : Plan}
    (hp : plan cfg halves tape B h w = .ok pl) : PlanFacts cfg tape B h w pl := by
  unfold plan at hp
  cases hm : cfg.lambMode with
  | batch => rw [hm] at hp; exact planBatch_facts hm hp
  | sample => rw [hm] at hp; exact planSample_facts hm hp

end KDVerif.MixCollator
