/-
Helper lemmas for the iterator-level theorems of C12 / C13 (`Props/C12.lean`, `Props/C13.lean`):
the distributed sampler's iterator in terms of its one draw, closed form of the un-padded list, world size
positivity, totality of the class-balanced / weighted / semi-supervised iterators under torch's shape
contracts.  All names are prefixed `c12x_`.  Core Lean only.
-/
import KDVerif.Model.C12Spec
import KDVerif.Lemmas.SamplersDist
import KDVerif.Lemmas.SamplersSemi

namespace KDVerif.Samplers

/-! ### generic -/

theorem c12x_wsOf_pos (w : Option Nat) : 0 < wsOf w := by
  unfold wsOf orDefault
  cases w with
  | none => exact Nat.one_pos
  | some v => cases v with
    | zero => exact Nat.one_pos
    | succ k => exact Nat.succ_pos k

theorem c12x_rankOf_some (r : Nat) : rankOf (some r) = r := by
  cases r <;> rfl

theorem c12x_popLen_cons {n : Nat} {p : List Nat} {t : Tape} (h : p.length = n) :
    popLen n (p :: t) = some (p, t) := by
  simp [popLen, h]

theorem c12x_popLen_eq {n : Nat} {t t' : Tape} {p : List Nat} (h : popLen n t = some (p, t')) :
    t = p :: t' ∧ p.length = n := by
  unfold popLen at h
  cases t with
  | nil => simp at h
  | cons q t1 =>
    simp only at h
    by_cases hq : q.length = n
    · simp only [hq, if_true] at h
      injection h with h
      simp only [Prod.mk.injEq] at h
      rw [h.1, h.2]
      exact ⟨rfl, by rw [← h.1]; exact hq⟩
    · simp [hq] at h

/-! ### DistributedSampler -/

theorem c12x_distCtor_ok {c : DistCfg} (h : distCtor c = .ok ()) : c.rank < c.W ∧ 1 ≤ c.R := by
  unfold distCtor at h
  by_cases h1 : c.W ≤ c.rank
  · simp [h1] at h
  · by_cases h2 : c.R < 1
    · simp [h1, h2] at h
    · omega

theorem c12x_distCtor_iff (c : DistCfg) : distCtor c = .ok () ↔ c.rank < c.W ∧ 1 ≤ c.R := by
  constructor
  · exact c12x_distCtor_ok
  · rintro ⟨h1, h2⟩
    have a : ¬ c.W ≤ c.rank := by omega
    have b : ¬ c.R < 1 := by omega
    simp [distCtor, a, b]

theorem c12x_distDraw_length (c : DistCfg) (tape : Tape) (ht : DistTapeOk c tape) :
    (distDraw c tape).length = c.n := by
  unfold distDraw
  cases hs : c.shuffle with
  | false => simp
  | true =>
    obtain ⟨perm, rest, htape, hlen⟩ := ht hs
    subst htape
    simpa using hlen

theorem c12x_distDraw_idem (c : DistCfg) (tape : Tape) :
    (if c.shuffle then distDraw c tape else List.range c.n) = distDraw c tape := by
  unfold distDraw
  cases c.shuffle <;> rfl

/-- without shuffle (and therefore without repeats) the permutation argument is not looked at -/
theorem c12x_distStream_noshuffle (c : DistCfg) (p1 p2 : List Nat) (hsh : c.shuffle = false) (h1 : c.R = 1) :
    distStream c p1 = distStream c p2 := by
  unfold distStream distGlobal distBase
  simp [hsh, h1]

/-- **the iterator is the rank split of the padded global list of its one draw** -/
theorem c12x_distIter_out (c : DistCfg) (epoch : Nat) (tape : Tape) (hs : c.shuffle = true ∨ c.R = 1)
    (ht : DistTapeOk c tape) : (distIter c epoch tape).out = distStream c (distDraw c tape) := by
  unfold distIter
  cases hsh : c.shuffle with
  | false =>
    have h1 : c.R = 1 := by
      cases hs with
      | inl h => rw [hsh] at h; cases h
      | inr h => exact h
    simp only [if_true]
    exact c12x_distStream_noshuffle c _ _ hsh h1
  | true =>
    obtain ⟨perm, rest, htape, hlen⟩ := ht hsh
    subst htape
    simp only [Bool.true_eq_false, if_false, c12x_popLen_cons hlen]
    unfold distDraw
    simp [hsh]

/-- closed form of the un-padded list: `n` entries, slot `j` holds entry `j / R` of the draw -/
theorem c12x_distBase_closed (c : DistCfg) (perm base : List Nat) (hR : 1 ≤ c.R) (hp : perm.length = c.n)
    (hb : distBase c perm = .ok base) :
    base.length = c.n ∧ ∀ j, j < c.n → base[j]? = (if c.shuffle then perm else List.range c.n)[j / c.R]? := by
  refine ⟨distBase_length c perm base hp hR hb, ?_⟩
  intro j hj
  unfold distBase at hb
  by_cases h1 : c.R = 1
  · simp only [h1, if_true] at hb
    injection hb with hb
    rw [← hb, h1, Nat.div_one]
  · simp only [h1, if_false] at hb
    by_cases h2 : c.shuffle = false
    · simp [h2] at hb
    · simp only [h2] at hb
      injection hb with hb
      have hsh : c.shuffle = true := by simpa using h2
      rw [← hb, List.getElem?_take_of_lt hj, hsh]
      exact repeatInterleave_getElem? c.R (by omega) perm j

/-- with `num_repeats = 1` the un-padded list is the draw itself -/
theorem c12x_distBase_R1 (c : DistCfg) (perm base : List Nat) (h1 : c.R = 1)
    (hb : distBase c perm = .ok base) : base = (if c.shuffle then perm else List.range c.n) := by
  unfold distBase at hb
  simp only [h1, if_true] at hb
  injection hb with hb
  exact hb.symm

/-- repeated augmentation without shuffle: the `assert self.shuffle` of `__iter__` fires -/
theorem c12x_distIter_assert (c : DistCfg) (epoch : Nat) (tape : Tape) (hsh : c.shuffle = false) (h1 : c.R ≠ 1) :
    (distIter c epoch tape).out = .error .assertion ∧ (distIter c epoch tape).reqs = [] := by
  unfold distIter distStream distGlobal distBase
  simp [hsh, h1]

/-- padding only appends: the un-padded list is a prefix of the padded one -/
theorem c12x_distPad_take (total : Nat) (xs : List Nat) : (distPad total false xs).take xs.length = xs := by
  unfold distPad
  simp only [if_true]
  by_cases hp : total - xs.length ≤ xs.length
  · simp only [hp, if_true]
    exact List.take_left' rfl
  · simp only [hp, if_false]
    exact List.take_left' rfl

/-- a non-empty epoch needs a non-empty dataset -/
theorem c12x_n_pos_of_len_pos (c : DistCfg) (hW : 0 < c.W) (h : 0 < distLen c * c.W) : 0 < c.n := by
  have ht : totalSize c = distLen c * c.W := rfl
  cases hd : c.dropLast with
  | true => have := (totalSize_drop c hW hd).1; omega
  | false =>
    apply Nat.pos_of_ne_zero
    intro h0
    have := totalSize_zero c hW hd h0
    omega

/-- `__len__` in closed form: `⌊n / W⌋` with `drop_last`, `⌈n / W⌉` without -/
theorem c12x_distLen_closed (c : DistCfg) (hW : 0 < c.W) :
    distLen c = if c.dropLast then c.n / c.W else ceilDiv c.n c.W := by
  unfold distLen
  cases hd : c.dropLast with
  | true => simp only [if_true]; exact numSamples_drop c.n c.W hW
  | false => simp only [Bool.false_eq_true, if_false]; exact numSamples_noDrop c.n c.W

/-! ### WeightedSampler -/

/-- `effective_length` succeeds exactly when `size` is `None` or at most the dataset size -/
theorem c12x_wEffective_ok (c : WCfg) (hsz : ∀ s, c.size = some s → s ≤ c.n) : wEffective c = .ok (wSize c) := by
  unfold wEffective wSize
  cases h : c.size with
  | none => rfl
  | some s => simp [hsz s h]

theorem c12x_wEffective_err (c : WCfg) (s : Nat) (h : c.size = some s) (hlt : c.n < s) :
    wEffective c = .error .assertion := by
  unfold wEffective
  have : ¬ s ≤ c.n := by omega
  simp [h, this]

/-! ### ClassBalancedSampler: totality -/

theorem c12x_gather_ok_of_lt {pool idx : List Nat} (h : ∀ i, i ∈ idx → i < pool.length) :
    gather pool idx = .ok (idx.map (fun i => pool.getD i 0)) := by
  unfold gather
  have : idx.all (fun i => decide (i < pool.length)) = true := by
    rw [List.all_eq_true]
    intro i hi
    simpa using h i hi
  simp [this]

theorem c12x_ceilDiv_zero (m : Nat) (hm : 0 < m) : ceilDiv 0 m = 0 := by
  unfold ceilDiv
  exact Nat.div_eq_of_lt (by omega)

/-- one pass of the per-class loop takes `min rem m` indices and needs one permutation -/
theorem c12x_ceilDiv_step (r m : Nat) (hm : 0 < m) (hr : 0 < r) :
    ceilDiv r m = ceilDiv (r - min r m) m + 1 := by
  unfold ceilDiv
  by_cases h : r ≤ m
  · rw [Nat.min_eq_left h, Nat.sub_self]
    have h0 : (0 + m - 1) / m = 0 := Nat.div_eq_of_lt (by omega)
    rw [h0]
    apply Nat.div_eq_of_lt_le <;> omega
  · have hmin : min r m = m := Nat.min_eq_right (by omega)
    rw [hmin]
    have e : r + m - 1 = (r - m + m - 1) + m := by omega
    rw [e, Nat.add_div_right _ hm]

/-- with `shuffle=True` the loop of a non-empty class consumes exactly the `⌈rem / m⌉` well-shaped permutations
    at the head of the tape and ends normally -/
theorem c12x_cbClass_ok (pool : List Nat) (hpos : 0 < pool.length) :
    ∀ (fuel rem : Nat) (block : List (List Nat)) (rest : Tape), rem ≤ fuel →
      block.length = ceilDiv rem pool.length → (∀ p, p ∈ block → RandpermShape pool.length p) →
      ∃ xs, cbClass true pool fuel rem (block ++ rest) = .ok (xs, block, rest) := by
  intro fuel
  induction fuel with
  | zero =>
    intro rem block rest hle hlen _
    have h0 : rem = 0 := by omega
    subst h0
    rw [c12x_ceilDiv_zero _ hpos] at hlen
    have : block = [] := List.eq_nil_of_length_eq_zero hlen
    subst this
    exact ⟨[], by rw [cbClass_zero]; rfl⟩
  | succ fuel ih =>
    intro rem block rest hle hlen hsh
    cases rem with
    | zero =>
      rw [c12x_ceilDiv_zero _ hpos] at hlen
      have : block = [] := List.eq_nil_of_length_eq_zero hlen
      subst this
      exact ⟨[], by rw [cbClass_zero]; rfl⟩
    | succ rem =>
      rw [c12x_ceilDiv_step (rem + 1) _ hpos (by omega)] at hlen
      cases block with
      | nil => simp at hlen
      | cons p block' =>
        obtain ⟨hpl, hpr⟩ := hsh p List.mem_cons_self
        have hperm : cbPerm true pool.length ((p :: block') ++ rest) = some (p, block' ++ rest) := by
          simp [cbPerm, popLen, hpl]
        have hg := c12x_gather_ok_of_lt (pool := pool) (idx := p.take (rem + 1))
          (fun i hi => hpr i (List.mem_of_mem_take hi))
        have htl : (p.take (rem + 1)).length = min (rem + 1) pool.length := by rw [List.length_take, hpl]
        obtain ⟨zs, hz⟩ := ih (rem + 1 - (p.take (rem + 1)).length) block' rest (by rw [htl]; omega)
          (by rw [htl]; simpa using hlen) (fun q hq => hsh q (List.mem_cons_of_mem _ hq))
        refine ⟨(p.take (rem + 1)).map (fun i => pool.getD i 0) ++ zs, ?_⟩
        rw [cbClass, hperm]
        simp only
        rw [hg]
        simp only
        rw [hz]

/-- with `shuffle=False` the loop of a non-empty class ends normally on any tape, does not touch it and uses
    `arange(m)` in every pass -/
theorem c12x_cbClass_ok_noshuffle (pool : List Nat) (hpos : 0 < pool.length) :
    ∀ (fuel rem : Nat) (t : Tape), rem ≤ fuel →
      ∃ xs used, cbClass false pool fuel rem t = .ok (xs, used, t) ∧ ∀ p, p ∈ used → p = List.range pool.length := by
  intro fuel
  induction fuel with
  | zero =>
    intro rem t hle
    have h0 : rem = 0 := by omega
    subst h0
    exact ⟨[], [], by rw [cbClass_zero], by simp⟩
  | succ fuel ih =>
    intro rem t hle
    cases rem with
    | zero => exact ⟨[], [], by rw [cbClass_zero], by simp⟩
    | succ rem =>
      have hperm : cbPerm false pool.length t = some (List.range pool.length, t) := by simp [cbPerm]
      have hg := c12x_gather_ok_of_lt (pool := pool) (idx := (List.range pool.length).take (rem + 1))
        (fun i hi => List.mem_range.1 (List.mem_of_mem_take hi))
      have htl : ((List.range pool.length).take (rem + 1)).length = min (rem + 1) pool.length := by
        rw [List.length_take, List.length_range]
      obtain ⟨zs, used, hz, hu⟩ := ih (rem + 1 - ((List.range pool.length).take (rem + 1)).length) t
        (by rw [htl]; omega)
      refine ⟨((List.range pool.length).take (rem + 1)).map (fun i => pool.getD i 0) ++ zs,
        List.range pool.length :: used, ?_, ?_⟩
      · rw [cbClass, hperm]
        simp only
        rw [hg]
        simp only
        rw [hz]
      · intro p hp
        rw [List.mem_cons] at hp
        cases hp with
        | inl h => exact h
        | inr h => exact hu p h

/-- the loop over the classes with `shuffle=True`: consumes the per-class blocks of permutations in order -/
theorem c12x_cbDraw_ok (spc : Nat) :
    ∀ (pools : List (List Nat)) (blocks : List (List (List Nat))) (rest : Tape),
      (∀ pool, pool ∈ pools → 0 < pool.length) → CBBlocksOk spc pools blocks →
      ∃ xss, cbDraw true spc pools (blocks.flatten ++ rest) = .ok (xss, blocks, rest) := by
  intro pools
  induction pools with
  | nil =>
    intro blocks rest _ hb
    cases blocks with
    | nil => exact ⟨[], rfl⟩
    | cons b bs => simp [CBBlocksOk] at hb
  | cons pool ps ih =>
    intro blocks rest hpos hb
    cases blocks with
    | nil => simp [CBBlocksOk] at hb
    | cons block bs =>
      simp only [CBBlocksOk] at hb
      obtain ⟨⟨hl, hsh⟩, hrest⟩ := hb
      obtain ⟨xs, hxs⟩ := c12x_cbClass_ok pool (hpos pool List.mem_cons_self) spc spc block
        (bs.flatten ++ rest) (Nat.le_refl _) hl hsh
      obtain ⟨xss, hxss⟩ := ih bs rest (fun q hq => hpos q (List.mem_cons_of_mem _ hq)) hrest
      refine ⟨xs :: xss, ?_⟩
      rw [List.flatten_cons, List.append_assoc, cbDraw, hxs]
      simp only
      rw [hxss]

/-- the loop over the classes with `shuffle=False`: ends normally on any tape without touching it; every
    class only used `arange` -/
theorem c12x_cbDraw_ok_noshuffle (spc : Nat) (classes : List Int) :
    ∀ (is : List Nat) (t : Tape), (∀ i, i ∈ is → 0 < (poolOf classes i).length) →
      ∃ xss useds, cbDraw false spc (is.map (poolOf classes)) t = .ok (xss, useds, t) ∧ UsedOk classes is useds := by
  intro is
  induction is with
  | nil => intro t _; exact ⟨[], [], rfl, trivial⟩
  | cons i is ih =>
    intro t hpos
    obtain ⟨xs, used, hxs, hu⟩ := c12x_cbClass_ok_noshuffle (poolOf classes i) (hpos i List.mem_cons_self) spc spc t
      (Nat.le_refl _)
    obtain ⟨xss, useds, hxss, hus⟩ := ih t (fun j hj => hpos j (List.mem_cons_of_mem _ hj))
    refine ⟨xs :: xss, used :: useds, ?_, ?_, hus⟩
    · rw [List.map_cons, cbDraw, hxs]
      simp only
      rw [hxss]
    · intro p hp
      rw [hu p hp]

/-- well-shaped blocks of permutations satisfy the permutation contract `UsedOk` of the even-reuse theorem as
    soon as every entry is a permutation of `0 … len-1` -/
theorem c12x_usedOk_of_blocks (spc : Nat) (classes : List Int) :
    ∀ (is : List Nat) (blocks : List (List (List Nat))), CBBlocksOk spc (is.map (poolOf classes)) blocks →
      (∀ p, p ∈ blocks.flatten → p.Perm (List.range p.length)) → UsedOk classes is blocks := by
  intro is
  induction is with
  | nil => intro blocks _ _; trivial
  | cons i is ih =>
    intro blocks hb hp
    cases blocks with
    | nil => trivial
    | cons block bs =>
      simp only [List.map_cons, CBBlocksOk] at hb
      obtain ⟨⟨_, hsh⟩, hrest⟩ := hb
      refine ⟨?_, ih bs hrest (fun p hpm => hp p (by rw [List.flatten_cons]; exact List.mem_append_right _ hpm))⟩
      intro p hpm
      have := hp p (by rw [List.flatten_cons]; exact List.mem_append_left _ hpm)
      rw [(hsh p hpm).1] at this
      exact this

/-- `eraseDups` has no duplicates -/
theorem c12x_nodup_eraseDups : ∀ (n : Nat) (l : List Int), l.length ≤ n → l.eraseDups.Nodup := by
  intro n
  induction n with
  | zero =>
    intro l hl
    have : l = [] := List.eq_nil_of_length_eq_zero (by omega)
    subst this
    simp
  | succ n ih =>
    intro l hl
    cases l with
    | nil => simp
    | cons a as =>
      rw [List.eraseDups_cons, List.nodup_cons]
      constructor
      · intro hmem
        rw [List.mem_eraseDups, List.mem_filter] at hmem
        simp at hmem
      · apply ih
        have := List.length_filter_le (fun b => !b == a) as
        simp only [List.length_cons] at hl
        omega

/-- **every class is present**: `assert len(unique) == num_classes` together with labels in `0 … C-1` leaves
    no class without samples (pigeonhole) -/
theorem c12x_cb_pools_pos (c : CBCfg) (hctor : cbCtor c = .ok ()) (hlab : CBLabelsOk c) :
    ∀ i, i < cbNumClasses c → 0 < (poolOf c.classes i).length := by
  intro i hi
  have hlen : c.classes.eraseDups.length = cbNumClasses c := by
    unfold cbCtor at hctor
    by_cases h : c.classes.eraseDups.length = cbNumClasses c
    · exact h
    · simp [h] at hctor
  have hmem : Int.ofNat i ∈ c.classes := by
    apply Decidable.byContradiction
    intro hnot
    have hnd := c12x_nodup_eraseDups _ c.classes (Nat.le_refl _)
    have hsub : c.classes.eraseDups ⊆ ((List.range (cbNumClasses c)).erase i).map Int.ofNat := by
      intro v hv
      rw [List.mem_eraseDups] at hv
      obtain ⟨j, hj, hvj⟩ := hlab v hv
      subst hvj
      have hne : j ≠ i := by
        intro e
        subst e
        exact hnot hv
      exact List.mem_map.2 ⟨j, (List.mem_erase_of_ne hne).2 (List.mem_range.2 hj), rfl⟩
    have hle := hnd.length_le_of_subset hsub
    rw [List.length_map, List.length_erase, hlen] at hle
    simp [hi] at hle
    omega
  obtain ⟨x, hx⟩ := List.mem_iff_getElem?.1 hmem
  exact List.length_pos_of_mem (mem_poolOf.2 hx)

/-- **the class-balanced `__iter__` never fails before the rank split**: with every class present and a tape
    that answers the `randperm` requests in torch's shapes (`CBTapeOk`; no condition without shuffle) the global
    draw exists.  If moreover every tape entry is a permutation, the permutation contracts of
    `balanced_exact_counts` / `balanced_even_reuse` hold for it. -/
theorem c12x_cbGlobal_total (c : CBCfg) (tape : Tape)
    (hpools : ∀ i, i < cbNumClasses c → 0 < (poolOf c.classes i).length) (ht : CBTapeOk c tape) :
    ∃ G, cbGlobal c tape = .ok G ∧
      ((c.shuffle = true → TapePermsOk tape) →
        (∀ fp, G.final = some fp → fp.Perm (List.range fp.length)) ∧
        UsedOk c.classes (List.range (cbNumClasses c)) G.used) := by
  cases hs : c.shuffle with
  | false =>
    obtain ⟨xss, useds, hd, hu⟩ := c12x_cbDraw_ok_noshuffle (cbSpc c) c.classes (List.range (cbNumClasses c)) tape
      (fun i hi => hpools i (List.mem_range.1 hi))
    refine ⟨⟨xss, useds, none, xss.flatten⟩, ?_, fun _ => ⟨?_, hu⟩⟩
    · unfold cbGlobal
      rw [cbPools_eq, hs, hd]
      simp
    · intro fp hfp
      cases hfp
  | true =>
    obtain ⟨blocks, fp, rest, htape, hb, hfl, hfr⟩ := ht hs
    subst htape
    have hpos : ∀ pool, pool ∈ cbPools c → 0 < pool.length := by
      intro pool hp
      rw [cbPools_eq, List.mem_map] at hp
      obtain ⟨i, hi, rfl⟩ := hp
      exact hpools i (List.mem_range.1 hi)
    obtain ⟨xss, hd⟩ := c12x_cbDraw_ok (cbSpc c) (cbPools c) blocks (fp :: rest) hpos hb
    have hflat : xss.flatten.length = cbEffective c := by
      have hd' := hd
      rw [cbPools_eq] at hd'
      obtain ⟨hlen, _, _⟩ := cbDraw_spec true (cbSpc c) c.classes _ _ _ _ _ hd'
      rw [hlen, List.length_range]
      rfl
    have hpop : popLen xss.flatten.length (fp :: rest) = some (fp, rest) :=
      c12x_popLen_cons (by rw [hflat]; exact hfl)
    have hg := c12x_gather_ok_of_lt (pool := xss.flatten) (idx := fp) (fun i hi => by rw [hflat]; exact hfr i hi)
    refine ⟨⟨xss, blocks, some fp, fp.map (fun i => xss.flatten.getD i 0)⟩, ?_, ?_⟩
    · unfold cbGlobal
      rw [hs, hd]
      simp only [if_true]
      rw [hpop]
      simp only
      rw [hg]
    · intro hperm'
      have hperm := hperm' rfl
      constructor
      · intro fp' hfp'
        simp only [Option.some.injEq] at hfp'
        subst hfp'
        exact hperm _ (List.mem_append_right _ List.mem_cons_self)
      · apply c12x_usedOk_of_blocks (cbSpc c) c.classes _ blocks
        · rw [← cbPools_eq]; exact hb
        · intro p hp
          exact hperm p (List.mem_append_left _ hp)

/-! ### SemiSampler: totality -/

/-- the alternating loop ends normally when both pools are non-empty and the tape holds `randperm` answers of
    the scheduled sizes with entries in range -/
theorem c12x_semiLoop_ok (L U : Nat) (lab unl : List Nat) (hl : 0 < lab.length) (hu : 0 < unl.length) :
    ∀ (k i : Nat) (bufL bufU : List Nat) (perms : List (List Nat)) (rest : Tape),
      (∀ j, j ∈ bufL → j < lab.length) → (∀ j, j ∈ bufU → j < unl.length) →
      perms.map List.length = semiSchedule L U lab.length unl.length k i bufL.length bufU.length →
      (∀ p, p ∈ perms → ∀ x, x ∈ p → x < p.length) →
      ∃ steps, semiLoop L U lab unl k i bufL bufU (perms ++ rest) = .ok steps := by
  intro k
  induction k with
  | zero => intro i bufL bufU perms rest _ _ _ _; exact ⟨[], rfl⟩
  | succ k ih =>
    intro i bufL bufU perms rest hbl hbu hsched hperm
    by_cases hi : i % (L + U) < L
    · cases bufL with
      | cons j b =>
        simp only [semiSchedule, hi, if_true, List.length_cons, Nat.add_one_ne_zero, if_false,
          Nat.add_sub_cancel] at hsched
        obtain ⟨steps, hs⟩ := ih (i + 1) b bufU perms rest (fun x hx => hbl x (List.mem_cons_of_mem _ hx)) hbu
          hsched hperm
        have hj : j < lab.length := hbl j List.mem_cons_self
        refine ⟨⟨true, j, lab[j], none⟩ :: steps, ?_⟩
        rw [semiLoop]
        simp only [hi, if_true, semiNext, List.getElem?_eq_getElem hj]
        rw [hs]
      | nil =>
        simp only [semiSchedule, hi, if_true, List.length_nil] at hsched
        cases perms with
        | nil => simp at hsched
        | cons p perms' =>
          simp only [List.map_cons, List.cons.injEq] at hsched
          obtain ⟨hpl, hsched'⟩ := hsched
          cases p with
          | nil => simp at hpl; omega
          | cons j b =>
            have hrange := hperm (j :: b) List.mem_cons_self
            have hj : j < lab.length := by rw [← hpl]; exact hrange j List.mem_cons_self
            have hb : ∀ x, x ∈ b → x < lab.length := fun x hx => by
              rw [← hpl]; exact hrange x (List.mem_cons_of_mem _ hx)
            have hbl' : b.length = lab.length - 1 := by simp at hpl; omega
            rw [← hbl'] at hsched'
            obtain ⟨steps, hs⟩ := ih (i + 1) b bufU perms' rest hb hbu hsched'
              (fun q hq => hperm q (List.mem_cons_of_mem _ hq))
            refine ⟨⟨true, j, lab[j], some (j :: b)⟩ :: steps, ?_⟩
            rw [semiLoop]
            simp only [hi, if_true, semiNext, List.cons_append, c12x_popLen_cons hpl,
              List.getElem?_eq_getElem hj]
            rw [hs]
    · cases bufU with
      | cons j b =>
        simp only [semiSchedule, hi, if_false, List.length_cons, Nat.add_one_ne_zero,
          Nat.add_sub_cancel] at hsched
        obtain ⟨steps, hs⟩ := ih (i + 1) bufL b perms rest hbl (fun x hx => hbu x (List.mem_cons_of_mem _ hx))
          hsched hperm
        have hj : j < unl.length := hbu j List.mem_cons_self
        refine ⟨⟨false, j, unl[j], none⟩ :: steps, ?_⟩
        rw [semiLoop]
        simp only [hi, if_false, semiNext, List.getElem?_eq_getElem hj]
        rw [hs]
      | nil =>
        simp only [semiSchedule, hi, if_false, if_true, List.length_nil] at hsched
        cases perms with
        | nil => simp at hsched
        | cons p perms' =>
          simp only [List.map_cons, List.cons.injEq] at hsched
          obtain ⟨hpl, hsched'⟩ := hsched
          cases p with
          | nil => simp at hpl; omega
          | cons j b =>
            have hrange := hperm (j :: b) List.mem_cons_self
            have hj : j < unl.length := by rw [← hpl]; exact hrange j List.mem_cons_self
            have hb : ∀ x, x ∈ b → x < unl.length := fun x hx => by
              rw [← hpl]; exact hrange x (List.mem_cons_of_mem _ hx)
            have hbl' : b.length = unl.length - 1 := by simp at hpl; omega
            rw [← hbl'] at hsched'
            obtain ⟨steps, hs⟩ := ih (i + 1) bufL b perms' rest hbl hb hsched'
              (fun q hq => hperm q (List.mem_cons_of_mem _ hq))
            refine ⟨⟨false, j, unl[j], some (j :: b)⟩ :: steps, ?_⟩
            rw [semiLoop]
            simp only [hi, if_false, semiNext, List.cons_append, c12x_popLen_cons hpl,
              List.getElem?_eq_getElem hj]
            rw [hs]

theorem c12x_semiCtor_ok {c : SemiCfg} (h : semiCtor c = .ok ()) :
    1 ≤ c.L ∧ 1 ≤ c.U ∧ c.mode ≠ .invalid ∧ 0 < (semiLabeled c).length ∧ 0 < (semiUnlabeled c).length := by
  unfold semiCtor at h
  by_cases h1 : c.L < 1
  · simp [h1] at h
  · by_cases h2 : c.U < 1
    · simp [h1, h2] at h
    · by_cases h3 : c.mode = .invalid
      · simp [h1, h2, h3] at h
      · by_cases h4 : (semiLabeled c).length = 0 ∨ (semiUnlabeled c).length = 0
        · rw [if_neg h1, if_neg h2, if_neg h3, if_pos h4] at h
          cases h
        · refine ⟨by omega, by omega, h3, ?_, ?_⟩ <;> omega

/-- **the semi-supervised `__iter__` never fails**: non-empty pools (constructor) and a tape holding the two seed
    scalars and then `randperm` answers of the scheduled sizes -/
theorem c12x_semiIter_total (c : SemiCfg) (epoch : Nat) (tape : Tape) (hl : 0 < (semiLabeled c).length)
    (hu : 0 < (semiUnlabeled c).length) (ht : SemiTapeOk c tape) :
    ∃ out, (semiIter c epoch tape).out = .ok out := by
  obtain ⟨a, b, perms, rest, htape, hsched, hrange⟩ := ht
  subst htape
  obtain ⟨steps, hs⟩ := c12x_semiLoop_ok c.L c.U (semiLabeled c) (semiUnlabeled c) hl hu (semiLen c) 0 [] []
    perms rest (by simp) (by simp) hsched hrange
  refine ⟨steps.map (·.val), ?_⟩
  unfold semiIter semiRun
  simp only [popLen, List.length_cons, List.length_nil, Nat.zero_add, if_true]
  rw [hs]

end KDVerif.Samplers
