/-
Refinement: the per-sample machine of `Model/Interleaved.lean` (L0, mirrors the code) produces exactly
the stream of the per-update machine of `Model/InterleavedSpec.lean` (L1).
-/
import KDVerif.Model.InterleavedSpec

namespace KDVerif.Interleaved

/-- result of one completed update, as the per-sample machine sees it -/
def afterChunk (a : Args) (side : Nat → Nat → List Nat) (st : St) (c rest : List Nat) :
    List Ev × St × Bool :=
  let sample := st.sample + c.length
  let sie := st.sampleInEpoch + c.length
  let epoch := if sie = spe a then st.epoch + 1 else st.epoch
  let update := st.update + 1
  let evs := chunkEvs c ++ sidePasses a side (decide (sie = spe a)) epoch update sample st.sampleAtLastUpdate
  let st' : St := ⟨epoch, update, sample, sie, 0, sample⟩
  if budgetReached a.budget epoch update sample then (evs, st', true)
  else if sie = spe a then (evs, st', false)
  else
    let r := runEpoch a side st' rest
    (evs ++ r.1, r.2.1, r.2.2)

theorem runEpoch_chunk (a : Args) (side : Nat → Nat → List Nat) :
    ∀ (c rest : List Nat) (st : St), c ≠ [] →
      st.sampleInUpdate + c.length ≤ a.B → st.sampleInEpoch + c.length ≤ spe a →
      (st.sampleInUpdate + c.length = a.B ∨ st.sampleInEpoch + c.length = spe a) →
      runEpoch a side st (c ++ rest) = afterChunk a side st c rest := by
  intro c
  induction c with
  | nil => intro rest st h; exact absurd rfl h
  | cons x c ih =>
    intro rest st _ hB hS hfull
    cases c with
    | nil =>
      simp only [List.length_cons, List.length_nil, Nat.zero_add] at hB hS hfull
      simp only [List.cons_append, List.nil_append, runEpoch, stepSample, afterChunk,
        List.length_cons, List.length_nil, Nat.zero_add, chunkEvs]
      rw [if_pos hfull]
      by_cases he : st.sampleInEpoch + 1 = spe a
      · simp only [he, if_true]
        by_cases hb : budgetReached a.budget (st.epoch + 1) (st.update + 1) (st.sample + 1) = true
        · simp [hb]
        · simp [hb]
      · simp only [he, if_false]
        by_cases hb : budgetReached a.budget st.epoch (st.update + 1) (st.sample + 1) = true
        · simp [hb]
        · simp [hb]
    | cons y c =>
      simp only [List.length_cons] at hB hS hfull
      have hnB : ¬ (st.sampleInUpdate + 1 = a.B) := by omega
      have hnS : ¬ (st.sampleInEpoch + 1 = spe a) := by omega
      have hnot : ¬ (st.sampleInUpdate + 1 = a.B ∨ st.sampleInEpoch + 1 = spe a) := by
        intro h; cases h with
        | inl h => exact hnB h
        | inr h => exact hnS h
      have step : stepSample a side st x =
          ([Ev.idx false x], ⟨st.epoch, st.update, st.sample + 1, st.sampleInEpoch + 1,
            st.sampleInUpdate + 1, st.sampleAtLastUpdate⟩, .cont) := by
        simp only [stepSample]
        rw [if_neg hnot]
      have ih' := ih rest ⟨st.epoch, st.update, st.sample + 1, st.sampleInEpoch + 1,
            st.sampleInUpdate + 1, st.sampleAtLastUpdate⟩ (by simp)
            (by simp only [List.length_cons]; omega) (by simp only [List.length_cons]; omega)
            (by simp only [List.length_cons]; omega)
      have hrun : runEpoch a side st (x :: y :: c ++ rest) =
          (let r := runEpoch a side ⟨st.epoch, st.update, st.sample + 1, st.sampleInEpoch + 1,
            st.sampleInUpdate + 1, st.sampleAtLastUpdate⟩ (y :: c ++ rest)
           ([Ev.idx false x] ++ r.1, r.2.1, r.2.2)) := by
        show runEpoch a side st (x :: (y :: c ++ rest)) = _
        rw [runEpoch, step]
      rw [hrun, ih']
      have e1 : st.sample + 1 + (c.length + 1) = st.sample + (c.length + 1 + 1) := by omega
      have e2 : st.sampleInEpoch + 1 + (c.length + 1) = st.sampleInEpoch + (c.length + 1 + 1) := by omega
      simp only [afterChunk, List.length_cons, e1, e2, chunkEvs]
      by_cases he : st.sampleInEpoch + (c.length + 1 + 1) = spe a
      · simp only [he, if_true]
        by_cases hb : budgetReached a.budget (st.epoch + 1) (st.update + 1) (st.sample + (c.length + 1 + 1)) = true
        · simp [hb]
        · simp [hb]
      · simp only [he, if_false]
        by_cases hb : budgetReached a.budget st.epoch (st.update + 1) (st.sample + (c.length + 1 + 1)) = true
        · simp [hb]
        · simp [hb]

/-- L0 state at an update boundary -/
def stOf (u : U) : St := ⟨u.epoch, u.update, u.sample, u.p, 0, u.sample⟩

/-- what the `while True` loop does from the middle of an epoch: finish the `for`, then go on -/
def contLoop (a : Args) (main : Nat → List Nat) (side : Nat → Nat → List Nat) (fuel : Nat)
    (st : St) (xs : List Nat) : Option (List Ev) :=
  let r := runEpoch a side st xs
  if r.2.2 then some r.1 else (trainLoop a main side fuel r.2.1).map (fun rest => r.1 ++ rest)

theorem trainLoop_succ (a : Args) (main : Nat → List Nat) (side : Nat → Nat → List Nat) (fuel : Nat) (st : St) :
    trainLoop a main side (fuel + 1) st =
      (contLoop a main side fuel { st with sampleInEpoch := 0 } (main st.epoch)).map
        (fun evs => Ev.setEpoch st.epoch :: evs) := by
  simp only [trainLoop, contLoop]
  split
  · simp
  · cases trainLoop a main side fuel _ <;> simp

/-- the well-formedness of an update-boundary state: inside the epoch, enough indices left -/
structure U.Ok (a : Args) (u : U) : Prop where
  p_lt : u.p < spe a
  enough : spe a - u.p ≤ u.xs.length

theorem min_pos_of (a : Args) (u : U) (hB : 0 < a.B) (h : u.p < spe a) : 0 < min a.B (spe a - u.p) := by
  omega

theorem take_ne_nil {α} (xs : List α) (r : Nat) (hr : 0 < r) (hl : r ≤ xs.length) : xs.take r ≠ [] := by
  intro h
  have : (xs.take r).length = 0 := by rw [h]; rfl
  rw [List.length_take] at this
  omega

/-- one update of L0 from a boundary state = one step of L1 -/
theorem runEpoch_boundary (a : Args) (side : Nat → Nat → List Nat) (u : U) (hB : 0 < a.B) (hu : u.Ok a) :
    runEpoch a side (stOf u) u.xs =
      match l1Ctl a u with
      | .ret => (l1Evs a side u, stOf (l1Next a u), true)
      | .brk => (l1Evs a side u, stOf (l1Next a u), false)
      | .cont =>
        let r := runEpoch a side (stOf (l1Next a u)) (l1Next a u).xs
        (l1Evs a side u ++ r.1, r.2.1, r.2.2) := by
  have hr : 0 < min a.B (spe a - u.p) := min_pos_of a u hB hu.p_lt
  have hle : min a.B (spe a - u.p) ≤ u.xs.length := by have := hu.enough; omega
  have hlen : (u.xs.take (min a.B (spe a - u.p))).length = min a.B (spe a - u.p) := by
    rw [List.length_take]; omega
  have hsplit : u.xs = u.xs.take (min a.B (spe a - u.p)) ++ u.xs.drop (min a.B (spe a - u.p)) :=
    (List.take_append_drop _ _).symm
  have hp := hu.p_lt
  conv => lhs; rw [hsplit]
  rw [runEpoch_chunk a side _ _ (stOf u) (take_ne_nil _ _ hr hle)
    (by simp only [stOf, hlen]; omega) (by simp only [stOf, hlen]; omega)
    (by simp only [stOf, hlen]; omega)]
  simp only [afterChunk, l1Ctl, l1Evs, l1Next, l1R, stOf, hlen]
  by_cases he : u.p + min a.B (spe a - u.p) = spe a
  · simp only [he, if_true]
    by_cases hb : budgetReached a.budget (u.epoch + 1) (u.update + 1) (u.sample + min a.B (spe a - u.p)) = true
    · simp [hb]
    · simp [hb]
  · simp only [he, if_false]
    by_cases hb : budgetReached a.budget u.epoch (u.update + 1) (u.sample + min a.B (spe a - u.p)) = true
    · simp [hb]
    · simp [hb]

theorem l1Ctl_cont (a : Args) (u : U) (h : l1Ctl a u = .cont) : u.p + l1R a u ≠ spe a := by
  unfold l1Ctl at h
  by_cases hb : budgetReached a.budget (l1Next a u).epoch (l1Next a u).update (l1Next a u).sample = true
  · simp [hb] at h
  · by_cases he : u.p + l1R a u = spe a
    · simp [hb, he] at h
    · exact he

theorem l1Next_ok (a : Args) (u : U) (hu : u.Ok a) (h : l1Ctl a u = .cont) : (l1Next a u).Ok a := by
  have hne := l1Ctl_cont a u h
  have hp := hu.p_lt
  have hen := hu.enough
  simp only [l1R] at hne
  constructor
  · simp only [l1Next, l1R]; omega
  · simp only [l1Next, l1R, List.length_drop]; omega

/-- Refinement theorem (L1 ⟹ L0): whenever the per-update machine ends with stream `evs`, the
    per-sample machine that mirrors the code ends with the same stream for every sufficiently large fuel. -/
theorem contLoop_of_l1Loop (a : Args) (main : Nat → List Nat) (side : Nat → Nat → List Nat)
    (hB : 0 < a.B) (hS : 0 < spe a) (hmain : ∀ e, spe a ≤ (main e).length) :
    ∀ (n : Nat) (u : U) (evs : List Ev), u.Ok a → l1Loop a main side n u = some evs →
      ∀ fuel, n ≤ fuel → contLoop a main side fuel (stOf u) u.xs = some evs := by
  intro n
  induction n with
  | zero => intro u evs _ h; simp [l1Loop] at h
  | succ n ih =>
    intro u evs hu h fuel hfuel
    have hb := runEpoch_boundary a side u hB hu
    simp only [l1Loop] at h
    simp only [contLoop]
    rcases hctl : l1Ctl a u with _ | _ | _
    · -- cont
      rw [hctl] at h hb
      simp only at h hb
      rcases hrec : l1Loop a main side n (l1Next a u) with _ | rest
      · rw [hrec] at h; simp at h
      · rw [hrec] at h
        have hok := l1Next_ok a u hu hctl
        have := ih (l1Next a u) rest hok hrec fuel (by omega)
        simp only [contLoop] at this
        rw [hb]
        simp only
        split at this
        · rename_i hret
          rw [hret]
          simp only [if_true]
          simp only [Option.some.injEq] at this
          simpa [this] using h
        · rename_i hret
          simp only [hret, Bool.false_eq_true, if_false]
          rcases htl : trainLoop a main side fuel (runEpoch a side (stOf (l1Next a u)) (l1Next a u).xs).2.1 with _ | tl
          · rw [htl] at this; simp at this
          · rw [htl] at this
            simp only [Option.map_some, Option.some.injEq] at this h ⊢
            rw [← h, ← this, List.append_assoc]
    · -- brk
      rw [hctl] at h hb
      simp only at h hb
      rw [hb]
      simp only [Bool.false_eq_true, if_false]
      cases fuel with
      | zero => omega
      | succ fuel =>
        rw [trainLoop_succ]
        rcases hrec : l1Loop a main side n ⟨(l1Next a u).epoch, (l1Next a u).update, (l1Next a u).sample, 0,
            main (l1Next a u).epoch⟩ with _ | rest
        · rw [hrec] at h; simp at h
        · rw [hrec] at h
          have hok : (⟨(l1Next a u).epoch, (l1Next a u).update, (l1Next a u).sample, 0,
              main (l1Next a u).epoch⟩ : U).Ok a := by
            constructor
            · exact hS
            · simp only [Nat.sub_zero]; exact hmain _
          have := ih _ rest hok hrec fuel (by omega)
          simp only [stOf] at this ⊢
          rw [this]
          simpa using h
    · -- ret
      rw [hctl] at h hb
      simp only at h hb
      rw [hb]
      simpa using h

theorem trainLoop_of_l1 (a : Args) (main : Nat → List Nat) (side : Nat → Nat → List Nat)
    (hB : 0 < a.B) (hS : 0 < spe a) (hmain : ∀ e, spe a ≤ (main e).length)
    (n : Nat) (s : Start) (evs : List Ev) (h : l1 a main side n s = some evs) :
    ∀ fuel, n < fuel → trainLoop a main side fuel (initSt s) = some evs := by
  intro fuel hfuel
  cases fuel with
  | zero => omega
  | succ fuel =>
    rw [trainLoop_succ]
    simp only [l1] at h
    rcases hrec : l1Loop a main side n (l1Start main s) with _ | body
    · rw [hrec] at h; simp at h
    · rw [hrec] at h
      have hok : (l1Start main s).Ok a := by
        constructor
        · exact hS
        · simp only [l1Start, Nat.sub_zero]; exact hmain _
      have := contLoop_of_l1Loop a main side hB hS hmain n (l1Start main s) body hok hrec fuel (by omega)
      simp only [stOf, l1Start, initSt] at this ⊢
      rw [this]
      simpa using h

end KDVerif.Interleaved

namespace KDVerif.Interleaved

/-! ### fuel monotonicity and termination of the per-update machine -/

theorem l1Loop_mono (a : Args) (main : Nat → List Nat) (side : Nat → Nat → List Nat) :
    ∀ (n : Nat) (u : U) (evs : List Ev), l1Loop a main side n u = some evs →
      ∀ k, l1Loop a main side (n + k) u = some evs := by
  intro n
  induction n with
  | zero => intro u evs h; simp [l1Loop] at h
  | succ n ih =>
    intro u evs h k
    have e : n + 1 + k = (n + k) + 1 := by omega
    rw [e]
    simp only [l1Loop] at h ⊢
    rcases hctl : l1Ctl a u with _ | _ | _
    · rw [hctl] at h
      simp only at h ⊢
      rcases hrec : l1Loop a main side n (l1Next a u) with _ | rest
      · rw [hrec] at h; simp at h
      · rw [hrec] at h; rw [ih _ _ hrec k]; exact h
    · rw [hctl] at h
      simp only at h ⊢
      rcases hrec : l1Loop a main side n ⟨(l1Next a u).epoch, (l1Next a u).update, (l1Next a u).sample, 0,
            main (l1Next a u).epoch⟩ with _ | rest
      · rw [hrec] at h; simp at h
      · rw [hrec] at h; rw [ih _ _ hrec k]; exact h
    · rw [hctl] at h
      simpa using h

theorem budgetReached_epochs (n e u s : Nat) : budgetReached (.epochs n) e u s = true ↔ e = n := by
  simp [budgetReached]
theorem budgetReached_updates (n e u s : Nat) : budgetReached (.updates n) e u s = true ↔ u = n := by
  simp [budgetReached]
theorem budgetReached_samples (n e u s : Nat) : budgetReached (.samples n) e u s = true ↔ n ≤ s := by
  simp [budgetReached]

/-- the budget has not been reached yet at the counters of `u` (checkpoint strictly before the budget) -/
def before (b : Budget) (u : U) : Prop :=
  match b with
  | .epochs e => u.epoch < e
  | .updates n => u.update < n
  | .samples s => u.sample < s

/-- an explicit bound on the number of updates still to come -/
def meas (a : Args) (u : U) : Nat :=
  match a.budget with
  | .epochs e => (e - u.epoch) * spe a - u.p
  | .updates n => n - u.update
  | .samples s => s - u.sample

theorem l1Loop_terminates (a : Args) (main : Nat → List Nat) (side : Nat → Nat → List Nat)
    (hB : 0 < a.B) :
    ∀ (m : Nat) (u : U), u.p < spe a → before a.budget u → meas a u ≤ m →
      (l1Loop a main side m u).isSome = true := by
  intro m
  induction m with
  | zero =>
    intro u hp hb hm
    exfalso
    unfold meas before at *
    cases hbud : a.budget with
    | epochs e =>
      rw [hbud] at hb hm; simp only at hb hm
      obtain ⟨k, hk⟩ : ∃ k, e - u.epoch = k + 1 := ⟨e - u.epoch - 1, by omega⟩
      rw [hk, Nat.succ_mul] at hm
      omega
    | updates n => rw [hbud] at hb hm; simp only at hb hm; omega
    | samples s => rw [hbud] at hb hm; simp only at hb hm; omega
  | succ m ih =>
    intro u hp hb hm
    simp only [l1Loop]
    have hr : 0 < l1R a u := by unfold l1R; omega
    have hrle : u.p + l1R a u ≤ spe a := by unfold l1R; omega
    rcases hctl : l1Ctl a u with _ | _ | _
    · -- cont
      simp only [Option.isSome_map]
      have hne := l1Ctl_cont a u hctl
      have hnb : ¬ budgetReached a.budget (l1Next a u).epoch (l1Next a u).update (l1Next a u).sample = true := by
        intro hbr; unfold l1Ctl at hctl; simp [hbr] at hctl
      apply ih
      · simp only [l1Next]; omega
      · unfold before at *
        cases hbud : a.budget with
        | epochs e =>
          rw [hbud] at hb; simp only [l1Next, if_neg hne] at hb ⊢; exact hb
        | updates n =>
          rw [hbud, budgetReached_updates] at hnb; rw [hbud] at hb; simp only [l1Next] at hb hnb ⊢; omega
        | samples s =>
          rw [hbud, budgetReached_samples] at hnb; rw [hbud] at hb; simp only [l1Next] at hb hnb ⊢; omega
      · unfold meas before at *
        cases hbud : a.budget with
        | epochs e =>
          rw [hbud] at hb hm; simp only [l1Next, if_neg hne] at hb hm ⊢; omega
        | updates n => rw [hbud] at hb hm; simp only [l1Next] at hb hm ⊢; omega
        | samples s => rw [hbud] at hb hm; simp only [l1Next] at hb hm ⊢; omega
    · -- brk
      simp only [Option.isSome_map]
      have hnb : ¬ budgetReached a.budget (l1Next a u).epoch (l1Next a u).update (l1Next a u).sample = true := by
        intro hbr; unfold l1Ctl at hctl; simp [hbr] at hctl
      have he : u.p + l1R a u = spe a := by
        unfold l1Ctl at hctl
        by_cases h : u.p + l1R a u = spe a
        · exact h
        · simp [hnb, h] at hctl
      apply ih
      · simp only; omega
      · unfold before at *
        cases hbud : a.budget with
        | epochs e =>
          rw [hbud, budgetReached_epochs] at hnb; rw [hbud] at hb; simp only [l1Next, if_pos he] at hb hnb ⊢; omega
        | updates n =>
          rw [hbud, budgetReached_updates] at hnb; rw [hbud] at hb; simp only [l1Next] at hb hnb ⊢; omega
        | samples s =>
          rw [hbud, budgetReached_samples] at hnb; rw [hbud] at hb; simp only [l1Next] at hb hnb ⊢; omega
      · unfold meas before at *
        cases hbud : a.budget with
        | epochs e =>
          rw [hbud, budgetReached_epochs] at hnb; rw [hbud] at hb hm; simp only [l1Next, if_pos he] at hb hm hnb ⊢
          obtain ⟨k, hk⟩ : ∃ k, e - u.epoch = k + 1 := ⟨e - u.epoch - 1, by omega⟩
          have hk' : e - (u.epoch + 1) = k := by omega
          rw [hk, Nat.succ_mul] at hm
          rw [hk']
          omega
        | updates n => rw [hbud] at hb hm; simp only [l1Next] at hb hm ⊢; omega
        | samples s => rw [hbud] at hb hm; simp only [l1Next] at hb hm ⊢; omega
    · rfl

end KDVerif.Interleaved
