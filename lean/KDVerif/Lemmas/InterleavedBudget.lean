/-
Budget exactness and stream-wide batch sizes for the per-update machine L1 of the interleaved sampler:

A. samples budget: the run ends with the first update that reaches the budget (`countMain`);
B. every main batch of the stream has `1..B` indices and a short one only closes an epoch (`mainSizes`);
C. epochs budget: closed form of the number of main samples.
-/
import KDVerif.Lemmas.Interleaved
import KDVerif.Lemmas.InterleavedStream

namespace KDVerif.Interleaved

/-! ## generic facts -/

theorem l1Ctl_not_reached (a : Args) (u : U) (h : l1Ctl a u ≠ .ret) :
    ¬ budgetReached a.budget (l1Next a u).epoch (l1Next a u).update (l1Next a u).sample = true := by
  intro hbr; unfold l1Ctl at h; simp [hbr] at h

theorem l1Ctl_ret (a : Args) (u : U) (h : l1Ctl a u = .ret) :
    budgetReached a.budget (l1Next a u).epoch (l1Next a u).update (l1Next a u).sample = true := by
  unfold l1Ctl at h
  by_cases hbr : budgetReached a.budget (l1Next a u).epoch (l1Next a u).update (l1Next a u).sample = true
  · exact hbr
  · by_cases he : u.p + l1R a u = spe a <;> simp [hbr, he] at h

theorem l1Ctl_brk (a : Args) (u : U) (h : l1Ctl a u = .brk) : u.p + l1R a u = spe a := by
  have hnb := l1Ctl_not_reached a u (by rw [h]; decide)
  unfold l1Ctl at h
  by_cases he : u.p + l1R a u = spe a
  · exact he
  · simp [hnb, he] at h

theorem enter_ok (a : Args) (main : Nat → List Nat) (hS : 0 < spe a) (hmain : ∀ e, spe a ≤ (main e).length)
    (e up s : Nat) : (⟨e, up, s, 0, main e⟩ : U).Ok a :=
  ⟨hS, by simp only [Nat.sub_zero]; exact hmain _⟩

/-- the size of the next batch, for a well-formed state -/
theorem l1R_bounds (a : Args) (u : U) (hB : 0 < a.B) (hu : u.Ok a) :
    0 < l1R a u ∧ l1R a u ≤ a.B ∧ u.p + l1R a u ≤ spe a ∧ (l1R a u < a.B → u.p + l1R a u = spe a) := by
  have := hu.p_lt
  unfold l1R
  omega

/-! ## A. samples budget -/

/-- number of main samples yielded: index events whose index is a main index -/
def countMain (mds : Nat) : List Ev → Nat
  | [] => 0
  | .setEpoch _ :: r => countMain mds r
  | .idx _ i :: r => (if i < mds then 1 else 0) + countMain mds r

theorem countMain_append (mds : Nat) : ∀ (xs ys : List Ev),
    countMain mds (xs ++ ys) = countMain mds xs + countMain mds ys := by
  intro xs ys
  induction xs with
  | nil => simp [countMain]
  | cons x xs ih =>
    cases x with
    | setEpoch e => simp [countMain, ih]
    | idx f i => simp only [List.cons_append, countMain, ih]; omega

/-- only main events count -/
theorem countMain_mainProj (mds : Nat) : ∀ (evs : List Ev),
    countMain mds (mainProj mds evs) = countMain mds evs := by
  intro evs
  induction evs with
  | nil => rfl
  | cons x xs ih =>
    cases x with
    | setEpoch e => simp [mainProj, countMain, ih]
    | idx f i =>
      by_cases h : i < mds
      · simp [mainProj, countMain, h, ih]
      · simp [mainProj, countMain, h, ih]

theorem countMain_chunkEvs (mds : Nat) : ∀ (c : List Nat), (∀ x ∈ c, x < mds) →
    countMain mds (chunkEvs c) = c.length := by
  intro c
  induction c with
  | nil => intro _; rfl
  | cons x c ih =>
    intro h
    have hx : x < mds := h x (by simp)
    cases c with
    | nil => simp [chunkEvs, countMain, hx]
    | cons y r =>
      have := ih (fun z hz => h z (List.mem_cons_of_mem _ hz))
      simp only [chunkEvs, countMain, hx, if_true, this, List.length_cons]
      omega

/-- every update contributes exactly its batch (`l1R` main samples); the side passes contribute nothing -/
theorem countMain_l1Evs (a : Args) (side : Nat → Nat → List Nat) (u : U) (hu : u.Ok a)
    (hxs : ∀ x ∈ u.xs, x < a.mainDsLen) : countMain a.mainDsLen (l1Evs a side u) = l1R a u := by
  have hen := hu.enough
  rw [← countMain_mainProj, mainProj_l1Evs a side u hxs, l1Evs_noCfg,
    countMain_chunkEvs _ _ (fun x hx => hxs x (List.mem_of_mem_take hx)), List.length_take]
  unfold l1R
  omega

/-! ### the list of main-batch sizes of a stream -/

/-- after this point of the stream, the next thing the main sampler sees is a `set_epoch` or the end -/
def atBoundary (mds : Nat) : List Ev → Bool
  | [] => true
  | .setEpoch _ :: _ => true
  | .idx _ i :: r => if i < mds then false else atBoundary mds r

/-- per main batch (= update) of the stream: its size, and whether it closes an epoch
    (is followed, main-sampler-wise, by a `set_epoch` or by the end of the stream);
    `acc` = main indices of the current batch seen so far -/
def mainSizesGo (mds : Nat) : Nat → List Ev → List (Nat × Bool)
  | _, [] => []
  | acc, .setEpoch _ :: r => mainSizesGo mds acc r
  | acc, .idx f i :: r =>
    if i < mds then
      if f then (acc + 1, atBoundary mds r) :: mainSizesGo mds 0 r
      else mainSizesGo mds (acc + 1) r
    else mainSizesGo mds acc r

def mainSizes (mds : Nat) (evs : List Ev) : List (Nat × Bool) := mainSizesGo mds 0 evs

theorem atBoundary_mainProj (mds : Nat) : ∀ (evs : List Ev),
    atBoundary mds (mainProj mds evs) = atBoundary mds evs := by
  intro evs
  induction evs with
  | nil => rfl
  | cons x xs ih =>
    cases x with
    | setEpoch e => simp [mainProj, atBoundary]
    | idx f i =>
      by_cases h : i < mds
      · simp [mainProj, atBoundary, h]
      · simp [mainProj, atBoundary, h, ih]

theorem mainSizesGo_mainProj (mds : Nat) : ∀ (evs : List Ev) (acc : Nat),
    mainSizesGo mds acc (mainProj mds evs) = mainSizesGo mds acc evs := by
  intro evs
  induction evs with
  | nil => intro acc; rfl
  | cons x xs ih =>
    intro acc
    cases x with
    | setEpoch e => simp [mainProj, mainSizesGo, ih]
    | idx f i =>
      by_cases h : i < mds
      · cases f <;> simp [mainProj, mainSizesGo, h, ih, atBoundary_mainProj]
      · simp [mainProj, mainSizesGo, h, ih]

/-- the sizes are the lengths of the batches the batch sampler cuts out of the main projection -/
theorem batchSamplerGo_mainProj_sizes (mds : Nat) : ∀ (evs : List Ev) (acc : List Nat),
    (batchSamplerGo acc (mainProj mds evs)).1.map List.length
      = (mainSizesGo mds acc.length evs).map Prod.fst := by
  intro evs
  induction evs with
  | nil => intro acc; rfl
  | cons x xs ih =>
    intro acc
    cases x with
    | setEpoch e => simp only [mainProj, batchSamplerGo, mainSizesGo]; exact ih acc
    | idx f i =>
      by_cases h : i < mds
      · cases f with
        | false =>
          simp only [mainProj, h, if_true, batchSamplerGo, mainSizesGo, Bool.false_eq_true, if_false]
          have := ih (acc ++ [i])
          simpa using this
        | true =>
          simp only [mainProj, h, if_true, batchSamplerGo, mainSizesGo, List.map_cons]
          have := ih []
          simp only [List.length_nil] at this
          rw [this]
          simp
      · simp only [mainProj, h, if_false, mainSizesGo]; exact ih acc

theorem batchSampler_mainProj_sizes (mds : Nat) (evs : List Ev) :
    (batchSampler (mainProj mds evs)).1.map List.length = (mainSizes mds evs).map Prod.fst :=
  batchSamplerGo_mainProj_sizes mds evs []

/-- a flagged batch of main indices in front of a stream is one entry of the size list -/
theorem mainSizesGo_chunkEvs (mds : Nat) (rest : List Ev) : ∀ (c : List Nat) (acc : Nat), c ≠ [] →
    (∀ x ∈ c, x < mds) →
    mainSizesGo mds acc (chunkEvs c ++ rest) = (acc + c.length, atBoundary mds rest) :: mainSizesGo mds 0 rest := by
  intro c
  induction c with
  | nil => intro acc h; exact absurd rfl h
  | cons x c ih =>
    intro acc _ h
    have hx : x < mds := h x (by simp)
    cases c with
    | nil => simp [chunkEvs, mainSizesGo, hx]
    | cons y r =>
      have := ih (acc + 1) (by simp) (fun z hz => h z (List.mem_cons_of_mem _ hz))
      simp only [chunkEvs, List.cons_append, mainSizesGo, hx, if_true, Bool.false_eq_true, if_false]
      rw [this]
      simp only [List.length_cons]
      congr 2
      omega

/-- one update in front of a stream: one entry `(l1R, …)` of the size list -/
theorem mainSizes_l1Evs_append (a : Args) (side : Nat → Nat → List Nat) (hB : 0 < a.B) (u : U) (hu : u.Ok a)
    (hxs : ∀ x ∈ u.xs, x < a.mainDsLen) (rest : List Ev) :
    mainSizes a.mainDsLen (l1Evs a side u ++ rest)
      = (l1R a u, atBoundary a.mainDsLen rest) :: mainSizes a.mainDsLen rest := by
  have hp := hu.p_lt
  have hen := hu.enough
  have hne : u.xs.take (l1R a u) ≠ [] := take_ne_nil _ _ (by unfold l1R; omega) (by unfold l1R; omega)
  have hlen : (u.xs.take (l1R a u)).length = l1R a u := by rw [List.length_take]; unfold l1R; omega
  unfold mainSizes
  rw [← mainSizesGo_mainProj, mainProj_append, mainProj_l1Evs a side u hxs, l1Evs_noCfg,
    mainSizesGo_chunkEvs _ _ _ _ hne (fun x hx => hxs x (List.mem_of_mem_take hx)),
    mainSizesGo_mainProj, atBoundary_mainProj, hlen, Nat.zero_add]

theorem mainSizes_l1Evs (a : Args) (side : Nat → Nat → List Nat) (hB : 0 < a.B) (u : U) (hu : u.Ok a)
    (hxs : ∀ x ∈ u.xs, x < a.mainDsLen) :
    mainSizes a.mainDsLen (l1Evs a side u) = [(l1R a u, true)] := by
  have := mainSizes_l1Evs_append a side hB u hu hxs []
  simpa [mainSizes, mainSizesGo, atBoundary] using this

theorem mainSizes_setEpoch (mds e : Nat) (rest : List Ev) :
    mainSizes mds (Ev.setEpoch e :: rest) = mainSizes mds rest := rfl

theorem countMain_setEpoch (mds e : Nat) (rest : List Ev) :
    countMain mds (Ev.setEpoch e :: rest) = countMain mds rest := rfl

/-- **samples budget is exact**: the run reaches the budget, and it ends with the FIRST update that reaches it —
    before the last main batch of the stream (size `r`) the sample counter was still below the budget -/
theorem l1Loop_countMain_samples (a : Args) (main : Nat → List Nat) (side : Nat → Nat → List Nat)
    (hB : 0 < a.B) (hS : 0 < spe a) (hmain : ∀ e, spe a ≤ (main e).length)
    (hmainlt : ∀ e x, x ∈ main e → x < a.mainDsLen) (Sb : Nat) (hbud : a.budget = .samples Sb) :
    ∀ (n : Nat) (u : U) (evs : List Ev), u.Ok a → (∀ x ∈ u.xs, x < a.mainDsLen) → u.sample < Sb →
      l1Loop a main side n u = some evs →
      Sb ≤ u.sample + countMain a.mainDsLen evs ∧
      ∃ r, (mainSizes a.mainDsLen evs).getLast? = some (r, true) ∧ 0 < r ∧ r ≤ a.B ∧
        r ≤ countMain a.mainDsLen evs ∧ u.sample + (countMain a.mainDsLen evs - r) < Sb := by
  intro n
  induction n with
  | zero => intro u evs _ _ _ h; simp [l1Loop] at h
  | succ n ih =>
    intro u evs hu hxs hlt h
    have hE := countMain_l1Evs a side u hu hxs
    obtain ⟨hr0, hrB, _, _⟩ := l1R_bounds a u hB hu
    have hsm : (l1Next a u).sample = u.sample + l1R a u := rfl
    simp only [l1Loop] at h
    rcases hctl : l1Ctl a u with _ | _ | _
    · -- cont
      have hnb := l1Ctl_not_reached a u (by rw [hctl]; decide)
      rw [hbud, budgetReached_samples, hsm] at hnb
      rw [hctl] at h
      simp only at h
      rcases hrec : l1Loop a main side n (l1Next a u) with _ | rest
      · rw [hrec] at h; simp at h
      · rw [hrec] at h
        simp only [Option.map_some, Option.some.injEq] at h
        obtain ⟨h1, r, hlast, h2, h3, h4, h5⟩ :=
          ih _ rest (l1Next_ok a u hu hctl) (fun x hx => hxs x (List.mem_of_mem_drop hx)) (by rw [hsm]; omega) hrec
        rw [hsm] at h1 h5
        rw [← h, countMain_append, hE, mainSizes_l1Evs_append a side hB u hu hxs, List.getLast?_cons, hlast]
        exact ⟨by omega, r, rfl, h2, h3, by omega, by omega⟩
    · -- brk
      have hnb := l1Ctl_not_reached a u (by rw [hctl]; decide)
      rw [hbud, budgetReached_samples, hsm] at hnb
      rw [hctl] at h
      simp only at h
      rcases hrec : l1Loop a main side n ⟨(l1Next a u).epoch, (l1Next a u).update, (l1Next a u).sample, 0,
            main (l1Next a u).epoch⟩ with _ | rest
      · rw [hrec] at h; simp at h
      · rw [hrec] at h
        simp only [Option.map_some, Option.some.injEq] at h
        obtain ⟨h1, r, hlast, h2, h3, h4, h5⟩ :=
          ih _ rest (enter_ok a main hS hmain _ _ _) (fun x hx => hmainlt _ x hx) (by simp only [hsm]; omega) hrec
        simp only [hsm] at h1 h5
        rw [← h, countMain_append, hE, mainSizes_l1Evs_append a side hB u hu hxs, List.getLast?_cons,
          mainSizes_setEpoch, countMain_setEpoch, hlast]
        exact ⟨by omega, r, rfl, h2, h3, by omega, by omega⟩
    · -- ret
      have hb := l1Ctl_ret a u hctl
      rw [hbud, budgetReached_samples, hsm] at hb
      rw [hctl] at h
      simp only [Option.some.injEq] at h
      rw [← h, hE, mainSizes_l1Evs a side hB u hu hxs]
      exact ⟨hb, l1R a u, rfl, hr0, hrB, Nat.le_refl _, by omega⟩

/-- whole stream, samples budget -/
theorem l1_countMain_samples (a : Args) (main : Nat → List Nat) (side : Nat → Nat → List Nat)
    (hB : 0 < a.B) (hS : 0 < spe a) (hmain : ∀ e, spe a ≤ (main e).length)
    (hmainlt : ∀ e x, x ∈ main e → x < a.mainDsLen) (Sb : Nat) (hbud : a.budget = .samples Sb)
    (n : Nat) (s : Start) (evs : List Ev) (hlt : s.sample < Sb) (h : l1 a main side n s = some evs) :
    Sb ≤ s.sample + countMain a.mainDsLen evs ∧
    ∃ r, (mainSizes a.mainDsLen evs).getLast? = some (r, true) ∧ 0 < r ∧ r ≤ a.B ∧
      r ≤ countMain a.mainDsLen evs ∧ s.sample + (countMain a.mainDsLen evs - r) < Sb := by
  simp only [l1] at h
  rcases hrec : l1Loop a main side n (l1Start main s) with _ | body
  · rw [hrec] at h; simp at h
  · rw [hrec] at h
    simp only [Option.map_some, Option.some.injEq] at h
    rw [← h, mainSizes_setEpoch, countMain_setEpoch]
    exact l1Loop_countMain_samples a main side hB hS hmain hmainlt Sb hbud n (l1Start main s) body
      (enter_ok a main hS hmain _ _ _) (fun x hx => hmainlt _ x hx) hlt hrec

/-- the plain arithmetic reading: the total overshoots the budget by less than one batch -/
theorem l1_samples_overshoot_lt_B (a : Args) (main : Nat → List Nat) (side : Nat → Nat → List Nat)
    (hB : 0 < a.B) (hS : 0 < spe a) (hmain : ∀ e, spe a ≤ (main e).length)
    (hmainlt : ∀ e x, x ∈ main e → x < a.mainDsLen) (Sb : Nat) (hbud : a.budget = .samples Sb)
    (n : Nat) (s : Start) (evs : List Ev) (hlt : s.sample < Sb) (h : l1 a main side n s = some evs) :
    Sb ≤ s.sample + countMain a.mainDsLen evs ∧ s.sample + countMain a.mainDsLen evs < Sb + a.B := by
  obtain ⟨h1, r, _, _, _, _, _⟩ := l1_countMain_samples a main side hB hS hmain hmainlt Sb hbud n s evs hlt h
  exact ⟨h1, by omega⟩

/-! ## B. every main batch has the promised size, stream-wide -/

/-- what is promised of one main batch: `1..B` indices, and fewer than `B` only when it closes an epoch -/
def SizeOk (B : Nat) (p : Nat × Bool) : Prop := 0 < p.1 ∧ p.1 ≤ B ∧ (p.1 < B → p.2 = true)

/-- **every update's main batch has `1..B` indices and a batch shorter than `B` is immediately followed
    (main-sampler-wise) by a `set_epoch` or by the end of the stream** — for every budget kind and config set -/
theorem l1Loop_mainSizes (a : Args) (main : Nat → List Nat) (side : Nat → Nat → List Nat)
    (hB : 0 < a.B) (hS : 0 < spe a) (hmain : ∀ e, spe a ≤ (main e).length)
    (hmainlt : ∀ e x, x ∈ main e → x < a.mainDsLen) :
    ∀ (n : Nat) (u : U) (evs : List Ev), u.Ok a → (∀ x ∈ u.xs, x < a.mainDsLen) →
      l1Loop a main side n u = some evs → ∀ p ∈ mainSizes a.mainDsLen evs, SizeOk a.B p := by
  intro n
  induction n with
  | zero => intro u evs _ _ h; simp [l1Loop] at h
  | succ n ih =>
    intro u evs hu hxs h
    obtain ⟨hr0, hrB, _, hshort⟩ := l1R_bounds a u hB hu
    simp only [l1Loop] at h
    rcases hctl : l1Ctl a u with _ | _ | _
    · -- cont: a full batch
      have hne := l1Ctl_cont a u hctl
      rw [hctl] at h
      simp only at h
      rcases hrec : l1Loop a main side n (l1Next a u) with _ | rest
      · rw [hrec] at h; simp at h
      · rw [hrec] at h
        simp only [Option.map_some, Option.some.injEq] at h
        have := ih _ rest (l1Next_ok a u hu hctl) (fun x hx => hxs x (List.mem_of_mem_drop hx)) hrec
        rw [← h, mainSizes_l1Evs_append a side hB u hu hxs]
        intro p hp
        rcases List.mem_cons.mp hp with hp | hp
        · subst hp
          exact ⟨hr0, hrB, fun hlt => absurd (hshort hlt) hne⟩
        · exact this p hp
    · -- brk: the epoch's last batch, followed by `set_epoch`
      rw [hctl] at h
      simp only at h
      rcases hrec : l1Loop a main side n ⟨(l1Next a u).epoch, (l1Next a u).update, (l1Next a u).sample, 0,
            main (l1Next a u).epoch⟩ with _ | rest
      · rw [hrec] at h; simp at h
      · rw [hrec] at h
        simp only [Option.map_some, Option.some.injEq] at h
        have := ih _ rest (enter_ok a main hS hmain _ _ _) (fun x hx => hmainlt _ x hx) hrec
        rw [← h, mainSizes_l1Evs_append a side hB u hu hxs, mainSizes_setEpoch]
        intro p hp
        rcases List.mem_cons.mp hp with hp | hp
        · subst hp
          exact ⟨hr0, hrB, fun _ => rfl⟩
        · exact this p hp
    · -- ret: the stream's last batch
      rw [hctl] at h
      simp only [Option.some.injEq] at h
      rw [← h, mainSizes_l1Evs a side hB u hu hxs]
      intro p hp
      have : p = (l1R a u, true) := by simpa using hp
      subst this
      exact ⟨hr0, hrB, fun _ => rfl⟩

/-- whole stream -/
theorem l1_mainSizes (a : Args) (main : Nat → List Nat) (side : Nat → Nat → List Nat)
    (hB : 0 < a.B) (hS : 0 < spe a) (hmain : ∀ e, spe a ≤ (main e).length)
    (hmainlt : ∀ e x, x ∈ main e → x < a.mainDsLen)
    (n : Nat) (s : Start) (evs : List Ev) (h : l1 a main side n s = some evs) :
    ∀ p ∈ mainSizes a.mainDsLen evs, SizeOk a.B p := by
  simp only [l1] at h
  rcases hrec : l1Loop a main side n (l1Start main s) with _ | body
  · rw [hrec] at h; simp at h
  · rw [hrec] at h
    simp only [Option.map_some, Option.some.injEq] at h
    rw [← h, mainSizes_setEpoch]
    exact l1Loop_mainSizes a main side hB hS hmain hmainlt n (l1Start main s) body
      (enter_ok a main hS hmain _ _ _) (fun x hx => hmainlt _ x hx) hrec

/-- the same, read off the batch sampler: every batch it cuts out of the main stream has `1..B` indices -/
theorem l1_main_batches_size (a : Args) (main : Nat → List Nat) (side : Nat → Nat → List Nat)
    (hB : 0 < a.B) (hS : 0 < spe a) (hmain : ∀ e, spe a ≤ (main e).length)
    (hmainlt : ∀ e x, x ∈ main e → x < a.mainDsLen)
    (n : Nat) (s : Start) (evs : List Ev) (h : l1 a main side n s = some evs) :
    ∀ b ∈ (batchSampler (mainProj a.mainDsLen evs)).1, 0 < b.length ∧ b.length ≤ a.B := by
  intro b hb
  have hmem : b.length ∈ (batchSampler (mainProj a.mainDsLen evs)).1.map List.length :=
    List.mem_map.mpr ⟨b, hb, rfl⟩
  rw [batchSampler_mainProj_sizes] at hmem
  obtain ⟨p, hp, hpe⟩ := List.mem_map.mp hmem
  have := l1_mainSizes a main side hB hS hmain hmainlt n s evs h p hp
  rw [← hpe]
  exact ⟨this.1, this.2.1⟩

/-- the sizes add up to the number of main samples, and there is one entry per update -/
theorem l1Loop_mainSizes_sum (a : Args) (main : Nat → List Nat) (side : Nat → Nat → List Nat)
    (hB : 0 < a.B) (hS : 0 < spe a) (hmain : ∀ e, spe a ≤ (main e).length)
    (hmainlt : ∀ e x, x ∈ main e → x < a.mainDsLen) :
    ∀ (n : Nat) (u : U) (evs : List Ev), u.Ok a → (∀ x ∈ u.xs, x < a.mainDsLen) →
      l1Loop a main side n u = some evs →
      ((mainSizes a.mainDsLen evs).map Prod.fst).sum = countMain a.mainDsLen evs ∧
      (mainSizes a.mainDsLen evs).length = countFull a.mainDsLen evs := by
  intro n
  induction n with
  | zero => intro u evs _ _ h; simp [l1Loop] at h
  | succ n ih =>
    intro u evs hu hxs h
    have hE := countMain_l1Evs a side u hu hxs
    have hF := countFull_l1Evs a side hB u hu hxs
    simp only [l1Loop] at h
    rcases hctl : l1Ctl a u with _ | _ | _
    · rw [hctl] at h
      simp only at h
      rcases hrec : l1Loop a main side n (l1Next a u) with _ | rest
      · rw [hrec] at h; simp at h
      · rw [hrec] at h
        simp only [Option.map_some, Option.some.injEq] at h
        have := ih _ rest (l1Next_ok a u hu hctl) (fun x hx => hxs x (List.mem_of_mem_drop hx)) hrec
        rw [← h, mainSizes_l1Evs_append a side hB u hu hxs, countMain_append, countFull_append, hE, hF]
        simp only [List.map_cons, List.sum_cons, List.length_cons, this.1, this.2]
        exact ⟨trivial, by omega⟩
    · rw [hctl] at h
      simp only at h
      rcases hrec : l1Loop a main side n ⟨(l1Next a u).epoch, (l1Next a u).update, (l1Next a u).sample, 0,
            main (l1Next a u).epoch⟩ with _ | rest
      · rw [hrec] at h; simp at h
      · rw [hrec] at h
        simp only [Option.map_some, Option.some.injEq] at h
        have := ih _ rest (enter_ok a main hS hmain _ _ _) (fun x hx => hmainlt _ x hx) hrec
        rw [← h, mainSizes_l1Evs_append a side hB u hu hxs, mainSizes_setEpoch, countMain_append,
          countFull_append, hE, hF, countMain_setEpoch]
        simp only [List.map_cons, List.sum_cons, List.length_cons, this.1, this.2, countFull]
        exact ⟨trivial, by omega⟩
    · rw [hctl] at h
      simp only [Option.some.injEq] at h
      rw [← h, mainSizes_l1Evs a side hB u hu hxs, hE, hF]
      simp

/-! ## C. epochs budget: closed form of the number of main samples -/

/-- from any position inside an epoch: the rest of this epoch plus `E - epoch - 1` whole epochs -/
theorem l1Loop_countMain_epochs_from (a : Args) (main : Nat → List Nat) (side : Nat → Nat → List Nat)
    (hB : 0 < a.B) (hS : 0 < spe a) (hmain : ∀ e, spe a ≤ (main e).length)
    (hmainlt : ∀ e x, x ∈ main e → x < a.mainDsLen) (E : Nat) (hbud : a.budget = .epochs E) :
    ∀ (n : Nat) (u : U) (evs : List Ev), u.Ok a → (∀ x ∈ u.xs, x < a.mainDsLen) → u.epoch < E →
      l1Loop a main side n u = some evs →
      countMain a.mainDsLen evs + u.p = (E - u.epoch) * spe a := by
  intro n
  induction n with
  | zero => intro u evs _ _ _ h; simp [l1Loop] at h
  | succ n ih =>
    intro u evs hu hxs hlt h
    have hE := countMain_l1Evs a side u hu hxs
    obtain ⟨hr0, hrB, hle, _⟩ := l1R_bounds a u hB hu
    simp only [l1Loop] at h
    rcases hctl : l1Ctl a u with _ | _ | _
    · -- cont
      have hne := l1Ctl_cont a u hctl
      have hep : (l1Next a u).epoch = u.epoch := by simp only [l1Next, if_neg hne]
      have hpp : (l1Next a u).p = u.p + l1R a u := rfl
      rw [hctl] at h
      simp only at h
      rcases hrec : l1Loop a main side n (l1Next a u) with _ | rest
      · rw [hrec] at h; simp at h
      · rw [hrec] at h
        simp only [Option.map_some, Option.some.injEq] at h
        have := ih _ rest (l1Next_ok a u hu hctl) (fun x hx => hxs x (List.mem_of_mem_drop hx))
          (by rw [hep]; exact hlt) hrec
        rw [hep, hpp] at this
        rw [← h, countMain_append, hE]
        omega
    · -- brk
      have hnb := l1Ctl_not_reached a u (by rw [hctl]; decide)
      have he := l1Ctl_brk a u hctl
      have hep : (l1Next a u).epoch = u.epoch + 1 := by simp only [l1Next, if_pos he]
      rw [hbud, budgetReached_epochs, hep] at hnb
      rw [hctl] at h
      simp only at h
      rcases hrec : l1Loop a main side n ⟨(l1Next a u).epoch, (l1Next a u).update, (l1Next a u).sample, 0,
            main (l1Next a u).epoch⟩ with _ | rest
      · rw [hrec] at h; simp at h
      · rw [hrec] at h
        simp only [Option.map_some, Option.some.injEq] at h
        have := ih _ rest (enter_ok a main hS hmain _ _ _) (fun x hx => hmainlt _ x hx)
          (by simp only [hep]; omega) hrec
        simp only [hep, Nat.add_zero] at this
        obtain ⟨k, hk⟩ : ∃ k, E - u.epoch = k + 1 := ⟨E - u.epoch - 1, by omega⟩
        have hk' : E - (u.epoch + 1) = k := by omega
        rw [hk'] at this
        rw [← h, countMain_append, hE, countMain_setEpoch, this, hk, Nat.succ_mul]
        omega
    · -- ret
      have hb := l1Ctl_ret a u hctl
      rw [hbud, budgetReached_epochs] at hb
      rw [hctl] at h
      simp only [Option.some.injEq] at h
      rw [← h, hE]
      by_cases he : u.p + l1R a u = spe a
      · simp only [l1Next, if_pos he] at hb
        have : E - u.epoch = 1 := by omega
        rw [this, Nat.one_mul]; omega
      · simp only [l1Next, if_neg he] at hb; omega

/-- **epochs budget, closed form**: a run from an epoch boundary yields exactly `(E - epoch) * spe` main samples -/
theorem l1Loop_countMain_epochs (a : Args) (main : Nat → List Nat) (side : Nat → Nat → List Nat)
    (hB : 0 < a.B) (hS : 0 < spe a) (hmain : ∀ e, spe a ≤ (main e).length)
    (hmainlt : ∀ e x, x ∈ main e → x < a.mainDsLen) (E : Nat) (hbud : a.budget = .epochs E)
    (n : Nat) (u : U) (evs : List Ev) (hu : u.Ok a) (hxs : ∀ x ∈ u.xs, x < a.mainDsLen) (hp : u.p = 0)
    (hlt : u.epoch < E) (h : l1Loop a main side n u = some evs) :
    countMain a.mainDsLen evs = (E - u.epoch) * spe a := by
  have := l1Loop_countMain_epochs_from a main side hB hS hmain hmainlt E hbud n u evs hu hxs hlt h
  rw [hp] at this
  exact this

theorem l1_countMain_epochs (a : Args) (main : Nat → List Nat) (side : Nat → Nat → List Nat)
    (hB : 0 < a.B) (hS : 0 < spe a) (hmain : ∀ e, spe a ≤ (main e).length)
    (hmainlt : ∀ e x, x ∈ main e → x < a.mainDsLen) (E : Nat) (hbud : a.budget = .epochs E)
    (n : Nat) (s : Start) (evs : List Ev) (hlt : s.epoch < E) (h : l1 a main side n s = some evs) :
    countMain a.mainDsLen evs = (E - s.epoch) * spe a := by
  simp only [l1] at h
  rcases hrec : l1Loop a main side n (l1Start main s) with _ | body
  · rw [hrec] at h; simp at h
  · rw [hrec] at h
    simp only [Option.map_some, Option.some.injEq] at h
    rw [← h, countMain_setEpoch]
    exact l1Loop_countMain_epochs a main side hB hS hmain hmainlt E hbud n (l1Start main s) body
      (enter_ok a main hS hmain _ _ _) (fun x hx => hmainlt _ x hx) rfl hlt hrec

/-! ## concrete checks -/

/-- samples budget 7, B = 2, spe = 5: batches 2,2,1 | 2 — the budget is reached with the 4th update (7 ≥ 7),
    before it the counter was 5 < 7 -/
example :
    let a : Args := ⟨5, 5, 2, false, none, .samples 7, [⟨none, some 2, none, none, 2, 2⟩]⟩
    (l1 a (fun _ => [0, 1, 2, 3, 4]) (fun _ _ => [0, 1]) 10 ⟨0, 0, 0⟩).map
        (fun evs => (countMain 5 evs, mainSizes 5 evs)) =
      some (7, [(2, false), (2, false), (1, true), (2, true)]) := by decide

/-- epochs budget 2, spe = 5: 10 main samples, short batches only at the epoch ends -/
example :
    let a : Args := ⟨5, 5, 2, false, none, .epochs 2, [⟨some 1, none, none, none, 2, 2⟩]⟩
    (l1 a (fun _ => [0, 1, 2, 3, 4]) (fun _ _ => [0, 1]) 10 ⟨0, 0, 0⟩).map
        (fun evs => (countMain 5 evs, mainSizes 5 evs)) =
      some (10, [(2, false), (2, false), (1, true), (2, false), (2, false), (1, true)]) := by decide

end KDVerif.Interleaved
