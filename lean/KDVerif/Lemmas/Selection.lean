/-
Helper lemmas for the selection wrappers (C03): positions of a class, gathers along permutations,
class-blocked lists, contiguous ranges.
-/
import KDVerif.Model.Selection

namespace KDVerif.Selection

deriving instance DecidableEq for Except

/-! ### positions satisfying a predicate -/

theorem mem_idxFrom (p : Int → Bool) (cls : List Int) : ∀ (off i : Nat),
    i ∈ idxFrom p off cls ↔ off ≤ i ∧ ∃ c, cls[i - off]? = some c ∧ p c = true := by
  induction cls with
  | nil => intro off i; simp [idxFrom]
  | cons c cs ih =>
    intro off i
    by_cases hp : p c = true
    · simp only [idxFrom, hp, if_true, List.mem_cons, ih]
      constructor
      · rintro (h | ⟨h1, c', h2, h3⟩)
        · subst h; exact ⟨Nat.le_refl _, c, by simp, hp⟩
        · refine ⟨by omega, c', ?_, h3⟩
          have : i - off = (i - (off + 1)) + 1 := by omega
          rw [this, List.getElem?_cons_succ]; exact h2
      · rintro ⟨h1, c', h2, h3⟩
        by_cases hi : i = off
        · exact Or.inl hi
        · right
          refine ⟨by omega, c', ?_, h3⟩
          have : i - off = (i - (off + 1)) + 1 := by omega
          rw [this, List.getElem?_cons_succ] at h2; exact h2
    · have hp' : p c = false := by simpa using hp
      simp only [idxFrom, hp', Bool.false_eq_true, if_false, ih]
      constructor
      · rintro ⟨h1, c', h2, h3⟩
        refine ⟨by omega, c', ?_, h3⟩
        have : i - off = (i - (off + 1)) + 1 := by omega
        rw [this, List.getElem?_cons_succ]; exact h2
      · rintro ⟨h1, c', h2, h3⟩
        by_cases hi : i = off
        · subst hi; simp at h2; subst h2; exact absurd h3 hp
        · refine ⟨by omega, c', ?_, h3⟩
          have : i - off = (i - (off + 1)) + 1 := by omega
          rw [this, List.getElem?_cons_succ] at h2; exact h2

theorem idxFrom_pairwise (p : Int → Bool) (cls : List Int) : ∀ off, (idxFrom p off cls).Pairwise (· < ·) := by
  induction cls with
  | nil => intro off; simp [idxFrom]
  | cons c cs ih =>
    intro off
    by_cases hp : p c = true
    · simp only [idxFrom, hp, if_true, List.pairwise_cons]
      refine ⟨?_, ih (off + 1)⟩
      intro j hj
      have := (mem_idxFrom p cs (off + 1) j).1 hj
      omega
    · have hp' : p c = false := by simpa using hp
      simp only [idxFrom, hp', Bool.false_eq_true, if_false]
      exact ih (off + 1)

theorem length_idxFrom (p : Int → Bool) (cls : List Int) : ∀ off, (idxFrom p off cls).length = cls.countP p := by
  induction cls with
  | nil => intro off; simp [idxFrom]
  | cons c cs ih =>
    intro off
    by_cases hp : p c = true
    · simp [idxFrom, hp, ih]
    · simp [idxFrom, hp, ih]

theorem idxFrom_lt (p : Int → Bool) (cls : List Int) (i : Nat) (h : i ∈ idxFrom p 0 cls) : i < cls.length := by
  obtain ⟨_, c, hc, _⟩ := (mem_idxFrom p cls 0 i).1 h
  simp at hc
  obtain ⟨h, _⟩ := List.getElem?_eq_some_iff.1 hc
  exact h

theorem pairwise_lt_nodup {l : List Nat} (h : l.Pairwise (· < ·)) : l.Nodup :=
  h.imp (fun h => Nat.ne_of_lt h)

theorem mem_whereEq (cls : List Int) (c : Int) (i : Nat) : i ∈ whereEq cls c ↔ cls[i]? = some c := by
  unfold whereEq
  rw [mem_idxFrom]
  constructor
  · rintro ⟨_, c', h1, h2⟩
    simp at h1 h2
    rw [h1, h2]
  · intro h
    exact ⟨Nat.zero_le _, c, by simpa using h, by simp⟩

theorem whereEq_pairwise (cls : List Int) (c : Int) : (whereEq cls c).Pairwise (· < ·) :=
  idxFrom_pairwise _ cls 0

theorem whereEq_nodup (cls : List Int) (c : Int) : (whereEq cls c).Nodup :=
  pairwise_lt_nodup (whereEq_pairwise cls c)

theorem length_whereEq (cls : List Int) (c : Int) : (whereEq cls c).length = cls.count c := by
  unfold whereEq
  rw [length_idxFrom]
  rfl

theorem whereEq_lt (cls : List Int) (c : Int) (i : Nat) (h : i ∈ whereEq cls c) : i < cls.length :=
  idxFrom_lt _ cls i h

/-! ### gather (fancy indexing) -/

theorem gather_range (x : List Nat) : ∀ m, gather x (List.range m) = x.take m := by
  unfold gather
  induction x with
  | nil =>
    intro m
    simp
  | cons a xs ih =>
    intro m
    cases m with
    | zero => simp
    | succ m =>
      rw [List.range_succ_eq_map, List.filterMap_cons]
      simp only [List.getElem?_cons_zero, List.take_succ_cons, List.filterMap_map]
      congr 1
      have := ih m
      simpa [Function.comp_def] using this

theorem gather_range_self (x : List Nat) : gather x (List.range x.length) = x := by
  rw [gather_range]; simp

theorem gather_perm (x pos : List Nat) (h : pos.Perm (List.range x.length)) : (gather x pos).Perm x := by
  have := h.filterMap (fun j => x[j]?)
  rw [show List.filterMap (fun j => x[j]?) (List.range x.length) = x from gather_range_self x] at this
  exact this

theorem gather_sublist (x : List Nat) {p q : List Nat} (h : p.Sublist q) : (gather x p).Sublist (gather x q) :=
  h.filterMap _

theorem length_gather (x : List Nat) : ∀ pos : List Nat, (∀ j ∈ pos, j < x.length) → (gather x pos).length = pos.length := by
  intro pos
  unfold gather
  induction pos with
  | nil => simp
  | cons j js ih =>
    intro h
    have hj : j < x.length := h j (List.mem_cons_self ..)
    rw [List.filterMap_cons]
    simp only [List.getElem?_eq_getElem hj, List.length_cons]
    rw [ih (fun k hk => h k (List.mem_cons_of_mem _ hk))]

theorem mem_gather (x pos : List Nat) (a : Nat) (h : a ∈ gather x pos) : a ∈ x := by
  unfold gather at h
  rw [List.mem_filterMap] at h
  obtain ⟨j, _, hj⟩ := h
  exact List.mem_of_getElem? hj

theorem gather_take_range (x : List Nat) (r : Nat) : gather x ((List.range x.length).take r) = x.take r := by
  rw [List.take_range, gather_range]
  by_cases h : r ≤ x.length
  · rw [Nat.min_eq_left h]
  · rw [Nat.min_eq_right (by omega), List.take_of_length_le (Nat.le_refl _), List.take_of_length_le (by omega)]

/-! ### permutation helpers -/

theorem perm_range_of_nodup_mem {l : List Nat} {n : Nat} (hd : l.Nodup) (hm : ∀ i, i ∈ l ↔ i < n) :
    l.Perm (List.range n) :=
  (List.perm_ext_iff_of_nodup hd List.nodup_range).2 (fun i => by rw [hm, List.mem_range])

theorem perm_of_nodup_subset_length : ∀ {l₁ l₂ : List Nat}, l₁.Nodup → l₁ ⊆ l₂ → l₂.length ≤ l₁.length → l₁.Perm l₂ := by
  intro l₁
  induction l₁ with
  | nil =>
    intro l₂ _ _ hlen
    have : l₂ = [] := List.eq_nil_of_length_eq_zero (by simpa using hlen)
    rw [this]
  | cons a t ih =>
    intro l₂ hd hsub hlen
    rw [List.nodup_cons] at hd
    have ha : a ∈ l₂ := hsub (List.mem_cons_self ..)
    have htsub : t ⊆ l₂.erase a := by
      intro x hx
      have hxa : x ≠ a := fun h => hd.1 (h ▸ hx)
      exact (List.mem_erase_of_ne hxa).2 (hsub (List.mem_cons_of_mem _ hx))
    have hlen' : (l₂.erase a).length ≤ t.length := by
      rw [List.length_erase]; simp only [ha, if_true]; simp only [List.length_cons] at hlen; omega
    have := ih hd.2 htsub hlen'
    exact ((List.perm_cons a).2 this).trans (List.perm_cons_erase ha).symm

/-! ### contiguous ranges -/

theorem arange_append (a b c : Nat) (hab : a ≤ b) (hbc : b ≤ c) : arange a b ++ arange b c = arange a c := by
  unfold arange
  have h := List.range'_append_1 (s := a) (m := b - a) (n := c - b)
  rw [show a + (b - a) = b by omega, show (b - a) + (c - b) = c - a by omega] at h
  exact h

theorem arange_zero (n : Nat) : arange 0 n = List.range n := by
  unfold arange
  simp [List.range_eq_range']

theorem mem_arange (a b i : Nat) : i ∈ arange a b ↔ a ≤ i ∧ i < b := by
  unfold arange
  rw [List.mem_range'_1]
  omega

theorem length_arange (a b : Nat) : (arange a b).length = b - a := by
  unfold arange; simp

/-! ### tile -/

theorem tile_succ (x : List Nat) (r : Nat) : tile x (r + 1) = x ++ tile x r := by
  unfold tile; simp [List.replicate_succ]

theorem length_tile (x : List Nat) (r : Nat) : (tile x r).length = r * x.length := by
  induction r with
  | zero => simp [tile]
  | succ r ih => rw [tile_succ, List.length_append, ih, Nat.succ_mul]; omega

theorem mem_tile (x : List Nat) (r a : Nat) : a ∈ tile x r ↔ 0 < r ∧ a ∈ x := by
  induction r with
  | zero => simp [tile]
  | succ r ih =>
    rw [tile_succ, List.mem_append, ih]
    constructor
    · rintro (h | ⟨_, h⟩) <;> exact ⟨Nat.succ_pos _, h⟩
    · rintro ⟨_, h⟩; exact Or.inl h

theorem countP_tile (q : Nat → Bool) (x : List Nat) (r : Nat) : (tile x r).countP q = r * x.countP q := by
  induction r with
  | zero => simp [tile]
  | succ r ih => rw [tile_succ, List.countP_append, ih, Nat.succ_mul]; omega

theorem getElem?_tile (x : List Nat) : ∀ (r k : Nat), k < r * x.length → (tile x r)[k]? = x[k % x.length]? := by
  intro r
  induction r with
  | zero => intro k h; simp at h
  | succ r ih =>
    intro k h
    rw [tile_succ, List.getElem?_append]
    by_cases hk : k < x.length
    · simp only [hk, if_true]
      rw [Nat.mod_eq_of_lt hk]
    · simp only [hk, if_false]
      have hpos : 0 < x.length := by
        rcases Nat.eq_zero_or_pos x.length with h0 | h0
        · rw [h0] at h; simp at h
        · exact h0
      rw [ih (k - x.length) (by rw [Nat.succ_mul] at h; omega)]
      have : k % x.length = (k - x.length) % x.length := Nat.mod_eq_sub_mod (by omega)
      rw [this]

end KDVerif.Selection
