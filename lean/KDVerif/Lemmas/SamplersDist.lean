/-
Lemmas about the DistributedSampler model: `num_samples`/`total_size` arithmetic, the padded global list
(length and pointwise wrap-around), acceptance of the two `assert`s, rank streams.  Core Lean only.
-/
import KDVerif.Lemmas.SamplersSlice

namespace KDVerif.Samplers

theorem numSamples_noDrop (n W : Nat) : numSamples n W false = ceilDiv n W := by
  simp [numSamples]

/-- with `drop_last` every rank gets `⌊n / W⌋` samples (all three arithmetic branches of torch's `__init__`) -/
theorem numSamples_drop (n W : Nat) (hW : 0 < W) : numSamples n W true = n / W := by
  have hdm := Nat.div_add_mod n W
  have hlt := Nat.mod_lt n hW
  have hc : W * (n / W) = n / W * W := Nat.mul_comm _ _
  unfold numSamples
  by_cases hm : n % W = 0
  · have hb : (true && n % W != 0) = false := by simp [hm]
    rw [hb]
    simp only [Bool.false_eq_true, if_false]
    unfold ceilDiv
    apply Nat.div_eq_of_lt_le
    · omega
    · rw [Nat.succ_mul]; omega
  · have hb : (true && n % W != 0) = true := by simp [hm]
    rw [hb]
    simp only [if_true]
    by_cases hWn : W ≤ n
    · simp only [hWn, if_true]
      unfold ceilDiv
      apply Nat.div_eq_of_lt_le
      · omega
      · rw [Nat.succ_mul]; omega
    · simp only [hWn, if_false]
      exact (Nat.div_eq_of_lt (Nat.lt_of_not_le hWn)).symm

/-- without `drop_last` the padded size is the next multiple of `W`: nothing is lost, fewer than `W` added -/
theorem totalSize_noDrop (c : DistCfg) (hW : 0 < c.W) (hd : c.dropLast = false) :
    c.n ≤ totalSize c ∧ totalSize c < c.n + c.W := by
  unfold totalSize
  rw [hd, numSamples_noDrop]
  exact ⟨ceilDiv_mul_ge c.n c.W hW, ceilDiv_mul_lt c.n c.W hW⟩

/-- with `drop_last` the cut size is the previous multiple of `W`: fewer than `W` entries are dropped -/
theorem totalSize_drop (c : DistCfg) (hW : 0 < c.W) (hd : c.dropLast = true) :
    totalSize c ≤ c.n ∧ c.n < totalSize c + c.W := by
  unfold totalSize
  rw [hd, numSamples_drop c.n c.W hW]
  have hdm := Nat.div_add_mod c.n c.W
  have hlt := Nat.mod_lt c.n hW
  have hc : c.W * (c.n / c.W) = c.n / c.W * c.W := Nat.mul_comm _ _
  omega

theorem totalSize_zero (c : DistCfg) (hW : 0 < c.W) (hd : c.dropLast = false) (h0 : c.n = 0) : totalSize c = 0 := by
  unfold totalSize
  rw [hd, numSamples_noDrop, h0]
  unfold ceilDiv
  have : (0 + c.W - 1) / c.W = 0 := Nat.div_eq_of_lt (by omega)
  rw [this, Nat.zero_mul]

theorem distPad_drop (total : Nat) (xs : List Nat) : distPad total true xs = xs.take total := by
  simp [distPad]

/-- length of the padded / cut list -/
theorem distPad_length (total : Nat) (dl : Bool) (xs : List Nat)
    (h : if dl then total ≤ xs.length else xs.length ≤ total) (h0 : xs.length = 0 → total = 0) :
    (distPad total dl xs).length = total := by
  cases dl with
  | true =>
    simp only [if_true] at h
    rw [distPad_drop, List.length_take]
    omega
  | false =>
    simp only [Bool.false_eq_true, if_false] at h
    unfold distPad
    simp only [if_true]
    by_cases hp : total - xs.length ≤ xs.length
    · simp only [hp, if_true, List.length_append, List.length_take]
      omega
    · simp only [hp, if_false, List.length_append, List.length_take, tile_length]
      have hpos : 0 < xs.length := by
        apply Nat.pos_of_ne_zero
        intro hz
        have := h0 hz
        omega
      have := ceilDiv_mul_ge (total - xs.length) xs.length hpos
      omega

/-- **padding is wrap-around**: in all three branches entry `j` of the padded list is entry `j mod n` of
    the un-padded one -/
theorem distPad_getElem? (total : Nat) (xs : List Nat) (hle : xs.length ≤ total) (hpos : 0 < xs.length)
    (j : Nat) (hj : j < total) : (distPad total false xs)[j]? = xs[j % xs.length]? := by
  unfold distPad
  simp only [if_true]
  by_cases hjn : j < xs.length
  · have hmod : j % xs.length = j := Nat.mod_eq_of_lt hjn
    by_cases hp : total - xs.length ≤ xs.length
    · simp only [hp, if_true]
      rw [List.getElem?_append_left hjn, hmod]
    · simp only [hp, if_false]
      rw [List.getElem?_append_left hjn, hmod]
  · have hge : xs.length ≤ j := Nat.le_of_not_lt hjn
    by_cases hp : total - xs.length ≤ xs.length
    · simp only [hp, if_true]
      rw [List.getElem?_append_right hge, List.getElem?_take_of_lt (by omega)]
      rw [Nat.mod_eq_sub_mod hge, Nat.mod_eq_of_lt (by omega)]
    · simp only [hp, if_false]
      rw [List.getElem?_append_right hge, List.getElem?_take_of_lt (by omega)]
      have hc := ceilDiv_mul_ge (total - xs.length) xs.length hpos
      rw [tile_getElem? _ _ _ (by omega), Nat.mod_eq_sub_mod hge]

theorem distBase_length (c : DistCfg) (perm base : List Nat) (hp : perm.length = c.n) (hR : 1 ≤ c.R)
    (h : distBase c perm = .ok base) : base.length = c.n := by
  unfold distBase at h
  by_cases h1 : c.R = 1
  · simp only [h1, if_true] at h
    cases hs : c.shuffle with
    | true => rw [hs] at h; simp at h; rw [← h, hp]
    | false => rw [hs] at h; simp at h; rw [← h]; simp
  · simp only [h1, if_false] at h
    by_cases h2 : c.shuffle = false
    · simp [h2] at h
    · simp only [h2] at h
      injection h with h
      rw [← h, List.length_take, repeatInterleave_length, hp]
      have : c.n ≤ c.R * c.n := Nat.le_mul_of_pos_left c.n hR
      omega

/-- under the constructor's guards and for a draw of the right length the base list exists -/
theorem distBase_ok (c : DistCfg) (perm : List Nat) (hs : c.shuffle = true ∨ c.R = 1) :
    ∃ base, distBase c perm = .ok base := by
  unfold distBase
  by_cases h1 : c.R = 1
  · simp [h1]
  · have : c.shuffle = true := by
      cases hs with
      | inl h => exact h
      | inr h => exact absurd h h1
    simp [h1, this]

/-- the `assert len(indices) == self.total_size` never fires -/
theorem distGlobal_ok (c : DistCfg) (perm base : List Nat) (hW : 0 < c.W) (hR : 1 ≤ c.R)
    (hp : perm.length = c.n) (hb : distBase c perm = .ok base) :
    distGlobal c perm = .ok (distPad (totalSize c) c.dropLast base) ∧
    (distPad (totalSize c) c.dropLast base).length = totalSize c := by
  have hlen := distBase_length c perm base hp hR hb
  have hl : (distPad (totalSize c) c.dropLast base).length = totalSize c := by
    apply distPad_length
    · cases hd : c.dropLast with
      | true => simp only [if_true]; rw [hlen]; exact (totalSize_drop c hW hd).1
      | false => simp only [Bool.false_eq_true, if_false]; rw [hlen]; exact (totalSize_noDrop c hW hd).1
    · intro h0
      rw [hlen] at h0
      cases hd : c.dropLast with
      | true => have := (totalSize_drop c hW hd).1; omega
      | false =>
        unfold totalSize
        rw [hd, numSamples_noDrop, h0]
        unfold ceilDiv
        have : (0 + c.W - 1) / c.W = 0 := Nat.div_eq_of_lt (by omega)
        rw [this, Nat.zero_mul]
  refine ⟨?_, hl⟩
  unfold distGlobal
  rw [hb]
  simp only [hl, if_true]

/-- the `assert len(indices) == self.num_samples` never fires, and rank `r` reads entries `r + k*W` -/
theorem distRankOf_spec (c : DistCfg) (g : List Nat) (hr : c.rank < c.W) (hg : g.length = totalSize c) :
    ∃ s, distRankOf c g = .ok s ∧ s.length = distLen c ∧ ∀ k, k < distLen c → s[k]? = g[c.rank + k * c.W]? := by
  have hW : 0 < c.W := by omega
  have hsl : sliceLen c.rank (min (totalSize c) g.length) c.W = distLen c := by
    rw [hg, Nat.min_self]
    exact sliceLen_full hr
  have hlen : (pySlice g c.rank (totalSize c) c.W).length = distLen c := by
    rw [pySlice_length _ _ _ _ hW, hsl]
  refine ⟨pySlice g c.rank (totalSize c) c.W, ?_, hlen, ?_⟩
  · unfold distRankOf
    simp only [hlen, if_true]
  · intro k hk
    exact pySlice_getElem? g c.rank (totalSize c) c.W hW k (by rw [hsl]; exact hk)

end KDVerif.Samplers
