/-
Additional helper lemmas for C11 (all names prefixed `c11x_`): shape-list equality, element-wise reading of
`unifyWith` for every mode, rows of mixed labels, the constructor, the tape of a generator.
-/
import KDVerif.Lemmas.MixWrapper
import KDVerif.Model.C11Spec

namespace KDVerif.MixWrapper

/-! ### shapes -/

theorem c11x_sameShape_iff (x x2 : Ten) :
    sameShape x x2 = true ↔ x.rank = x2.rank ∧ ∀ d, d < x.rank → x.shape d = x2.shape d := by
  simp only [sameShape, shapeList, beq_iff_eq]
  constructor
  · intro h
    have hl := congrArg List.length h
    simp only [List.length_map, List.length_range] at hl
    refine ⟨hl, ?_⟩
    intro d hd
    have := congrArg (fun l => l[d]?) h
    simp only [List.getElem?_map] at this
    rw [List.getElem?_range hd, List.getElem?_range (hl ▸ hd)] at this
    simpa using this
  · rintro ⟨hr, hs⟩
    rw [← hr]
    apply List.map_congr_left
    intro d hd
    exact hs d (by simpa using hd)

/-- what `unifyWith` returns, per mode -/
theorem c11x_unifyWith_cases (cfg : Cfg) (x x2 : Ten) :
    (cfg.unify = none ∧ sameShape x x2 = true ∧ unifyWith cfg x x2 = .ok x2) ∨
    (cfg.unify = none ∧ sameShape x x2 = false ∧ unifyWith cfg x x2 = .error .assertion) ∨
    (cfg.unify = some .padOrCutEnd ∧ unifyWith cfg x x2 = .ok (unifyLoop x x2)) ∨
    (cfg.unify = some .other ∧ unifyWith cfg x x2 = .error .notImplemented) := by
  unfold unifyWith
  cases hu : cfg.unify with
  | none =>
    cases hs : sameShape x x2 <;> simp
  | some m => cases m <;> simp

/-- the element part of the loop invariant at the end of the loop (equal ranks) -/
theorem c11x_unifyLoop_el (x x2 : Ten) (h : x.rank = x2.rank) (ι : Nat → Nat)
    (hι : InRange x.rank x.shape ι) : (unifyLoop x x2).el ι = paddedEl x2 ι := by
  have inv := loop_inv x x2 h x2.rank (Nat.le_refl _)
  have hl := deltas_length x x2 h
  unfold unifyLoop
  simp only [hl]
  apply inv.el
  intro d hd
  rw [inv.shape d hd]
  simp only [hd, if_true]
  exact hι d (h ▸ hd)

/-- **every mode**: a successful unification yields, at every index inside `x`'s extents, the partner's own
    element inside the partner's extents and `0` outside -/
theorem c11x_unifyWith_el {cfg : Cfg} {x x2 x2' : Ten} (h : unifyWith cfg x x2 = .ok x2')
    (hrank : cfg.unify = some .padOrCutEnd → x.rank = x2.rank) (ι : Nat → Nat)
    (hι : InRange x.rank x.shape ι) : x2'.el ι = paddedEl x2 ι := by
  rcases c11x_unifyWith_cases cfg x x2 with ⟨_, hs, he⟩ | ⟨_, _, he⟩ | ⟨hm, he⟩ | ⟨_, he⟩
  · rw [he] at h
    simp only [Except.ok.injEq] at h
    subst h
    obtain ⟨hr, hsh⟩ := (c11x_sameShape_iff x x2).1 hs
    have : InRange x2.rank x2.shape ι := by
      intro d hd
      have hd' : d < x.rank := hr ▸ hd
      rw [← hsh d hd']
      exact hι d hd'
    simp [paddedEl, this]
  · rw [he] at h; cases h
  · rw [he] at h
    simp only [Except.ok.injEq] at h
    subst h
    exact c11x_unifyLoop_el x x2 (hrank hm) ι hι
  · rw [he] at h; cases h

/-! ### label rows -/

theorem c11x_mixRow_getD (lam : Rat) (y y2 : List Rat) (k : Nat) (h1 : k < y.length) (h2 : k < y2.length) :
    (mixRow lam y y2).getD k 0 = lam * y.getD k 0 + (1 - lam) * y2.getD k 0 := by
  simp [mixRow, List.getD_eq_getElem?_getD, List.getElem?_zipWith, List.getElem?_eq_getElem h1,
    List.getElem?_eq_getElem h2]

theorem c11x_oneHot_isOneHot {n c : Nat} {l : List Rat} (h : oneHot n c = .ok l) : IsOneHot n c l := by
  obtain ⟨h1, h2, _, _, h5⟩ := oneHot_ok h
  exact ⟨h1, h2, h5⟩

theorem c11x_oneHot_of_lt {n c : Nat} (h : c < n) : ∃ l, oneHot n c = .ok l := by
  simp [oneHot, h]

theorem c11x_oneHot_error {n c : Nat} (h : ¬ c < n) : oneHot n c = .error .runtime := by
  simp [oneHot, h]

/-! ### the constructor -/

theorem c11x_alphaPos_iff (o : Option Rat) : alphaPos o = true ↔ ∃ α, o = some α ∧ 0 < α := by
  cases o <;> simp [alphaPos]

/-- the conjunction of the constructor's checks -/
def c11x_ctorCond (a : CtorArgs) : Bool :=
  (!(a.mixupP.isNone && a.cutmixP.isNone)) &&
  (decide (0 ≤ orZero a.mixupP) && decide (orZero a.mixupP ≤ 1)) &&
  (decide (0 ≤ orZero a.cutmixP) && decide (orZero a.cutmixP ≤ 1)) &&
  (decide (0 < a.floatSum) && decide (a.floatSum ≤ 1)) &&
  (if orZero a.mixupP == 0 then a.mixupAlpha.isNone && a.unify.isNone else alphaPos a.mixupAlpha) &&
  (if orZero a.cutmixP == 0 then a.cutmixAlpha.isNone else alphaPos a.cutmixAlpha)

theorem c11x_ctor_eq (a : CtorArgs) :
    ctor a = if c11x_ctorCond a then .ok (cfgOf a) else .error .assertion := by
  have key : ∀ (c : Cfg) (b1 b2 b3 b4 b5 b6 : Bool),
      (if b1 then (Except.error Err.assertion : Except Err Cfg) else
       if !b2 then .error .assertion else
       if !b3 then .error .assertion else
       if !b4 then .error .assertion else
       if !b5 then .error .assertion else
       if !b6 then .error .assertion else .ok c) =
      if ((!b1) && b2 && b3 && b4 && b5 && b6) then .ok c else .error .assertion := by
    intro c b1 b2 b3 b4 b5 b6
    cases b1 <;> cases b2 <;> cases b3 <;> cases b4 <;> cases b5 <;> cases b6 <;> rfl
  exact key _ _ _ _ _ _ _

theorem c11x_ctorCond_iff (a : CtorArgs) : c11x_ctorCond a = true ↔ CtorAccepts a := by
  have e1 : (!(a.mixupP.isNone && a.cutmixP.isNone)) = true ↔ (a.mixupP ≠ none ∨ a.cutmixP ≠ none) := by
    cases a.mixupP <;> cases a.cutmixP <;> simp
  have e5 : (if orZero a.mixupP == 0 then a.mixupAlpha.isNone && a.unify.isNone
      else alphaPos a.mixupAlpha) = true ↔
      (if orZero a.mixupP = 0 then a.mixupAlpha = none ∧ a.unify = none
       else ∃ α, a.mixupAlpha = some α ∧ 0 < α) := by
    by_cases h : orZero a.mixupP = 0
    · simp [h]
    · simp [h, c11x_alphaPos_iff]
  have e6 : (if orZero a.cutmixP == 0 then a.cutmixAlpha.isNone else alphaPos a.cutmixAlpha) = true ↔
      (if orZero a.cutmixP = 0 then a.cutmixAlpha = none else ∃ α, a.cutmixAlpha = some α ∧ 0 < α) := by
    by_cases h : orZero a.cutmixP = 0
    · simp [h]
    · simp [h, c11x_alphaPos_iff]
  unfold c11x_ctorCond CtorAccepts
  simp only [Bool.and_eq_true, e1, e5, e6, decide_eq_true_eq, and_assoc]

theorem c11x_ctor_iff (a : CtorArgs) (cfg : Cfg) : ctor a = .ok cfg ↔ CtorAccepts a ∧ cfg = cfgOf a := by
  rw [c11x_ctor_eq, ← c11x_ctorCond_iff]
  cases c11x_ctorCond a
  · simp
  · simp only [if_true, Except.ok.injEq, true_and]
    exact eq_comm

theorem c11x_ctor_of_cond {a : CtorArgs} (h : c11x_ctorCond a = true) : ctor a = .ok (cfgOf a) := by
  rw [c11x_ctor_eq, h]; rfl

theorem c11x_ctor_of_not_cond {a : CtorArgs} (h : c11x_ctorCond a = false) : ctor a = .error .assertion := by
  rw [c11x_ctor_eq, h]; rfl

theorem c11x_ctor_error (a : CtorArgs) (e : Err) (h : ctor a = .error e) : e = .assertion := by
  rw [c11x_ctor_eq] at h
  split at h
  · cases h
  · cases h; rfl

/-! ### the tape of a generator -/

theorem c11x_tapeFor_ok {g : Gen} (hg : g.Ok) (cfg : Cfg) (ds : DS) (hlen : 0 < ds.len) :
    TapeOk (tapeFor g cfg ds) := by
  obtain ⟨hu, hi, hb⟩ := hg
  intro d hd
  unfold tapeFor at hd
  split at hd
  · simp only [List.mem_cons, List.not_mem_nil, or_false] at hd
    subst hd; exact hu
  · split at hd
    · simp only [List.mem_cons, List.not_mem_nil, or_false] at hd
      rcases hd with h | h | h <;> subst h
      · exact hu
      · exact hi _ hlen
      · exact hb _ _
    · simp only [List.mem_cons, List.not_mem_nil, or_false] at hd
      rcases hd with h | h <;> subst h
      · exact hu
      · exact hi _ hlen

/-- a three-draw tape of `tapeFor` names the generator's answers -/
theorem c11x_tapeFor_three {g : Gen} {cfg : Cfg} {ds : DS} {a : Rat} {j : Nat} {alpha lam : Rat}
    (h : tapeFor g cfg ds = [.unif a, .int ds.len j, .beta alpha lam]) :
    a = g.unif ∧ j = g.int ds.len ∧ lam = g.beta ds.len alpha := by
  unfold tapeFor at h
  split at h
  · simp at h
  · split at h
    · simp only [List.cons.injEq, Draw.unif.injEq, Draw.int.injEq, Draw.beta.injEq, true_and, and_true] at h
      obtain ⟨h1, h2, h3, h4⟩ := h
      subst h3
      exact ⟨h1.symm, h2.symm, h4.symm⟩
    · simp at h

/-! ### evaluating a call -/

/-- the call on a one-draw tape whose draw exceeds `total_p` -/
theorem c11x_getitem_one (cfg : Cfg) (ds : DS) (i : Nat) (a : Rat) (c1 : List Rat) (hgt : a > cfg.totalP)
    (hc1 : oneHot ds.nClasses (ds.cls i) = .ok c1) :
    getitemXClass cfg [.unif a] ds i = .ok (ds.x i, c1) := by
  simp [getitemXClass, hgt, hc1]

/-- the call on a three-draw tape (labels in range, alpha of the selected operation present) -/
theorem c11x_getitem_three (cfg : Cfg) (ds : DS) (i : Nat) (a : Rat) (j : Nat) (alpha lam : Rat)
    (c1 c2 : List Rat) (hle : ¬ a > cfg.totalP)
    (hc1 : oneHot ds.nClasses (ds.cls i) = .ok c1) (hc2 : oneHot ds.nClasses (ds.cls j) = .ok c2)
    (halpha : (if a < cfg.cutmixP then cfg.cutmixAlpha else cfg.mixupAlpha) = some alpha) :
    getitemXClass cfg [.unif a, .int ds.len j, .beta alpha lam] ds i =
      if a < cfg.cutmixP then .error .notImplemented else
      match unifyWith cfg (ds.x i) (ds.x j) with
      | .error e => .error e
      | .ok x2' => .ok (mixTen lam (ds.x i) x2', mixRow lam c1 c2) := by
  by_cases hcut : a < cfg.cutmixP
  · simp only [hcut, if_true] at halpha
    simp [getitemXClass, hle, hc1, hc2, hcut, halpha, needAlpha]
  · simp only [hcut, if_false] at halpha
    cases hu : unifyWith cfg (ds.x i) (ds.x j) <;>
      simp [getitemXClass, hle, hc1, hc2, hcut, halpha, needAlpha, hu]

theorem c11x_oneHot_error_is_runtime {n c : Nat} {e : Err} (h : oneHot n c = .error e) : e = .runtime := by
  unfold oneHot at h
  split at h
  · cases h
  · cases h; rfl

theorem c11x_unifyWith_error {cfg : Cfg} {x x2 : Ten} {e : Err} (h : unifyWith cfg x x2 = .error e) :
    e = .assertion ∨ e = .notImplemented := by
  rcases c11x_unifyWith_cases cfg x x2 with ⟨_, _, he⟩ | ⟨_, _, he⟩ | ⟨_, he⟩ | ⟨_, he⟩ <;> rw [he] at h <;>
    cases h <;> simp

theorem c11x_oneHot_cases (n c : Nat) : (∃ l, oneHot n c = .ok l) ∨ oneHot n c = .error .runtime := by
  by_cases h : c < n
  · exact Or.inl (c11x_oneHot_of_lt h)
  · exact Or.inr (c11x_oneHot_error h)

/-- `tapeFor` is the tape the call consumes: the model never complains about the tape -/
theorem c11x_tapeFor_consumed (g : Gen) (cfg : Cfg) (ds : DS) (i : Nat) :
    getitemXClass cfg (tapeFor g cfg ds) ds i ≠ .error .tape := by
  by_cases hgt : g.unif > cfg.totalP
  · have ht : tapeFor g cfg ds = [.unif g.unif] := by simp [tapeFor, hgt]
    rw [ht]
    rcases c11x_oneHot_cases ds.nClasses (ds.cls i) with ⟨c1, hc1⟩ | hc1
    · rw [c11x_getitem_one cfg ds i g.unif c1 hgt hc1]; simp
    · simp [getitemXClass, hgt, hc1]
  · cases halpha : (if g.unif < cfg.cutmixP then cfg.cutmixAlpha else cfg.mixupAlpha) with
    | none =>
      have ht : tapeFor g cfg ds = [.unif g.unif, .int ds.len (g.int ds.len)] := by
        simp [tapeFor, hgt, halpha]
      rw [ht]
      rcases c11x_oneHot_cases ds.nClasses (ds.cls i) with ⟨c1, hc1⟩ | hc1 <;>
      rcases c11x_oneHot_cases ds.nClasses (ds.cls (g.int ds.len)) with ⟨c2, hc2⟩ | hc2 <;>
      by_cases hcut : g.unif < cfg.cutmixP <;>
      simp only [hcut, if_true, if_false] at halpha <;>
      simp [getitemXClass, hgt, hc1, hc2, hcut, halpha, needAlpha]
    | some alpha =>
      have ht : tapeFor g cfg ds =
          [.unif g.unif, .int ds.len (g.int ds.len), .beta alpha (g.beta ds.len alpha)] := by
        simp [tapeFor, hgt, halpha]
      rw [ht]
      rcases c11x_oneHot_cases ds.nClasses (ds.cls i) with ⟨c1, hc1⟩ | hc1
      · rcases c11x_oneHot_cases ds.nClasses (ds.cls (g.int ds.len)) with ⟨c2, hc2⟩ | hc2
        · rw [c11x_getitem_three cfg ds i g.unif (g.int ds.len) alpha _ c1 c2 hgt hc1 hc2 halpha]
          split
          · simp
          · cases hu : unifyWith cfg (ds.x i) (ds.x (g.int ds.len)) with
            | ok x2' => simp
            | error e =>
              rcases c11x_unifyWith_error hu with rfl | rfl <;> simp
        · simp [getitemXClass, hgt, hc1, hc2]
      · simp [getitemXClass, hgt, hc1]

end KDVerif.MixWrapper
