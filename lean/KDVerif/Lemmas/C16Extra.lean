/-
Additional helper lemmas for C16 (closed forms, totality, the all-gather order). All names carry the prefix `c16x_`.
-/
import KDVerif.Lemmas.Labels
import KDVerif.Model.C16Spec

namespace KDVerif.Labels

/-! ### the all-gather order -/

theorem c16x_filter_eq_range (r : Nat) : ∀ W, r < W → (List.range W).filter (fun i => decide (i = r)) = [r] := by
  intro W
  induction W with
  | zero => intro h; omega
  | succ W ih =>
    intro h
    rw [List.range_succ, List.filter_append]
    by_cases hr : r < W
    · rw [ih hr]
      have : ¬ W = r := by omega
      simp [this]
    · have hrW : r = W := by omega
      subst hrW
      have : (List.range r).filter (fun i => decide (i = r)) = [] := by
        rw [List.filter_eq_nil_iff]
        intro a ha
        have := List.mem_range.mp ha
        simp; omega
      rw [this]; simp

theorem c16x_filter_mod (W r : Nat) (hr : r < W) : ∀ S,
    (List.range (S * W)).filter (fun j => decide (j % W = r)) = (List.range S).map (fun s => s * W + r) := by
  intro S
  induction S with
  | zero => simp
  | succ S ih =>
    rw [Nat.succ_mul, List.range_add, List.filter_append, ih, List.range_succ, List.map_append]
    congr 1
    rw [List.filter_map]
    have : (List.range W).filter ((fun j => decide (j % W = r)) ∘ (fun x => S * W + x)) = [r] := by
      rw [← c16x_filter_eq_range r W hr]
      apply List.filter_congr
      intro x hx
      have hx' := List.mem_range.mp hx
      simp only [Function.comp]
      rw [Nat.mul_add_mod_self_right, Nat.mod_eq_of_lt hx']
    rw [this]; simp

theorem c16x_strideFrom_eq (xs : List α) (W r : Nat) (hr : r < W) (hlen : xs.length % W = 0) :
    strideFrom xs W r = (List.range (xs.length / W)).filterMap (fun si => xs[si * W + r]?) := by
  unfold strideFrom
  have hl : xs.length = xs.length / W * W := by
    have := Nat.div_add_mod xs.length W
    rw [Nat.mul_comm]; omega
  conv => lhs; rw [hl]
  rw [c16x_filter_mod W r hr, List.filterMap_map]
  rfl

theorem c16x_flatMap_congr {f g : α → List β} : ∀ (l : List α), (∀ x ∈ l, f x = g x) → l.flatMap f = l.flatMap g := by
  intro l
  induction l with
  | nil => intro _; rfl
  | cons a as ih =>
    intro h
    rw [List.flatMap_cons, List.flatMap_cons, h a (by simp), ih (fun x hx => h x (by simp [hx]))]

theorem c16x_rearrange_eq (xs : List α) (W : Nat) (hlen : xs.length % W = 0) :
    rearrange xs W = .ok ((List.range W).flatMap (fun r => strideFrom xs W r)) := by
  unfold rearrange
  simp only [hlen, ne_eq, not_true_eq_false, if_false]
  congr 1
  apply c16x_flatMap_congr
  intro r hr
  exact (c16x_strideFrom_eq xs W r (List.mem_range.mp hr) hlen).symm

theorem c16x_strideFrom_map (f : α → β) (xs : List α) (W r : Nat) :
    strideFrom (xs.map f) W r = (strideFrom xs W r).map f := by
  unfold strideFrom
  rw [List.map_filterMap, List.length_map]
  congr 1
  funext j
  simp

theorem c16x_dsPadded_map (f : α → β) (xs : List α) (W : Nat) : dsPadded (xs.map f) W = (dsPadded xs W).map f := by
  unfold dsPadded
  simp [List.map_take]

theorem c16x_allGatherOrder_map (f : α → β) (xs : List α) (W : Nat) :
    allGatherOrder (xs.map f) W = (allGatherOrder xs W).map f := by
  unfold allGatherOrder
  rw [List.length_map, List.map_take, List.map_flatMap]
  congr 2
  funext r
  rw [c16x_dsPadded_map, c16x_strideFrom_map]

theorem c16x_dsPadded_length (xs : List α) (W : Nat) (h : padCount xs.length W ≤ xs.length) :
    (dsPadded xs W).length = xs.length + padCount xs.length W := by
  unfold dsPadded
  simp only [List.length_append, List.length_take]
  omega

/-- the model's pad → rearrange → cut pipeline is the all-gather order -/

theorem c16x_gather_pipeline (xs : List α) (W : Nat) (hW : 0 < W) (hWn : W ≤ xs.length) :
    rearrange (dsPadded xs W) W = .ok ((List.range W).flatMap (fun r => strideFrom (dsPadded xs W) W r)) ∧
    ((List.range W).flatMap (fun r => strideFrom (dsPadded xs W) W r)).length = xs.length + padCount xs.length W := by
  have hp := padCount_lt xs.length W hW
  have hl := c16x_dsPadded_length xs W (by omega)
  have hd := pad_divides xs.length W hW
  have h1 := c16x_rearrange_eq (dsPadded xs W) W (by rw [hl]; exact hd)
  exact ⟨h1, by rw [rearrange_length h1, hl]⟩

theorem c16x_agIndices_eq (n W : Nat) (hW : 0 < W) (hWn : W ≤ n) :
    agIndices n W = .ok (allGatherOrder (List.range n) W) := by
  have hWn' : W ≤ (List.range n).length := by simpa using hWn
  obtain ⟨h1, h2⟩ := c16x_gather_pipeline (List.range n) W hW hWn'
  unfold agIndices allGatherOrder
  have hW0 : ¬ W = 0 := by omega
  simp only [hW0, if_false]
  simp only [List.length_range] at h2 ⊢
  by_cases hpad : padCount n W > 0
  · simp only [hpad, if_true]
    have : List.range n ++ (List.range n).take (padCount n W) = dsPadded (List.range n) W := by
      simp [dsPadded]
    rw [this, h1]
    simp only [h2, Nat.add_sub_cancel]
  · simp only [hpad, if_false]
    have hp0 : padCount n W = 0 := by omega
    have : List.range n = dsPadded (List.range n) W := by
      simp [dsPadded, hp0]
    conv => lhs; rw [this]
    rw [h1]
    simp only
    rw [List.take_of_length_le (by rw [h2]; omega)]

theorem c16x_listGet_of_ge (l : List α) (i : Nat) (h : l.length ≤ i) : listGet l i = .error .index := by
  simp [listGet, h]

theorem c16x_range_map_getD (l : List Int) : (List.range l.length).map (fun j => l.getD j 0) = l := by
  apply List.ext_getElem
  · simp
  · intro i h1 h2
    simp [List.getElem?_eq_getElem h2]

theorem c16x_allGatherOrder_length (xs : List α) (W : Nat) (hW : 0 < W) (hWn : W ≤ xs.length) :
    (allGatherOrder xs W).length = xs.length := by
  unfold allGatherOrder
  rw [List.length_take, (c16x_gather_pipeline xs W hW hWn).2]
  omega

theorem c16x_allGatherOrder_mem (xs : List α) (W : Nat) (hW : 0 < W) (hWn : W ≤ xs.length) :
    ∀ x ∈ allGatherOrder xs W, x ∈ xs := by
  intro x hx
  unfold allGatherOrder at hx
  have h1 := rearrange_mem (c16x_gather_pipeline xs W hW hWn).1 x (List.mem_of_mem_take hx)
  unfold dsPadded at h1
  rcases List.mem_append.mp h1 with h | h
  · exact h
  · exact List.mem_of_mem_take h

theorem c16x_agSpec_eq (labels : List Int) (W : Nat) :
    agSpec labels W = (allGatherOrder (List.range labels.length) W).map (fun j => labels.getD j 0) := by
  unfold agSpec
  rw [← c16x_allGatherOrder_map, c16x_range_map_getD]

theorem c16x_ag_main (labels : List Int) (W : Nat) (hW : 0 < W) (hWn : W ≤ labels.length) :
    agCtor labels W = .ok ⟨labels, allGatherOrder (List.range labels.length) W⟩ ∧
    (agSpec labels W).length = labels.length ∧
    (∀ i, agGetitem ⟨labels, allGatherOrder (List.range labels.length) W⟩ i = listGet (agSpec labels W) i) ∧
    agGetall ⟨labels, allGatherOrder (List.range labels.length) W⟩ = .ok (agSpec labels W) := by
  have hlen : (agSpec labels W).length = labels.length := by
    unfold agSpec; exact c16x_allGatherOrder_length labels W hW hWn
  have hixlen : (allGatherOrder (List.range labels.length) W).length = labels.length := by
    simpa using c16x_allGatherOrder_length (List.range labels.length) W hW (by simpa using hWn)
  have hitem : ∀ i, agGetitem ⟨labels, allGatherOrder (List.range labels.length) W⟩ i = listGet (agSpec labels W) i := by
    intro i
    unfold agGetitem
    simp only
    by_cases hi : i < labels.length
    · have hi' : i < (allGatherOrder (List.range labels.length) W).length := by omega
      rw [listGet_of_lt _ _ hi', listGet_of_lt _ _ (by omega)]
      simp only
      have hj : (allGatherOrder (List.range labels.length) W)[i] < labels.length :=
        List.mem_range.mp (c16x_allGatherOrder_mem _ W hW (by simpa using hWn) _ (List.getElem_mem hi'))
      unfold dsGet
      rw [listGet_of_lt _ _ hj]
      simp [c16x_agSpec_eq, hj]
    · rw [c16x_listGet_of_ge _ _ (by omega), c16x_listGet_of_ge _ _ (by omega)]
  refine ⟨?_, hlen, hitem, ?_⟩
  · unfold agCtor
    rw [c16x_agIndices_eq _ W hW hWn]
  · unfold agGetall
    simp only
    rw [forRange_congr _ (fun i _ => hitem i), ← hlen]
    exact forRange_listGet _

theorem c16x_flatMap_getElem? {f : α → List β} (S : Nat) (hS : 0 < S) : ∀ (l : List α) (k : Nat),
    (∀ x ∈ l, (f x).length = S) → (l.flatMap f)[k]? = (l[k / S]?).bind (fun a => (f a)[k % S]?) := by
  intro l
  induction l with
  | nil => intro k _; simp
  | cons a as ih =>
    intro k h
    have ha : (f a).length = S := h a (by simp)
    rw [List.flatMap_cons]
    by_cases hk : k < S
    · rw [List.getElem?_append_left (by omega), Nat.div_eq_of_lt hk, Nat.mod_eq_of_lt hk]
      simp
    · have hk' : S ≤ k := by omega
      rw [List.getElem?_append_right (by omega), ha, ih (k - S) (fun x hx => h x (by simp [hx]))]
      have e : k = (k - S) + S := by omega
      have h1 : k / S = (k - S) / S + 1 := by
        conv => lhs; rw [e]
        exact Nat.add_div_right _ hS
      have h2 : k % S = (k - S) % S := by
        conv => lhs; rw [e]
        exact Nat.add_mod_right _ _
      rw [h1, h2]
      simp

theorem c16x_filterMap_getElem? {g : α → Option β} : ∀ (l : List α) (t : Nat), (∀ x ∈ l, (g x).isSome) →
    (l.filterMap g)[t]? = (l[t]?).bind g := by
  intro l
  induction l with
  | nil => intro t _; simp
  | cons a as ih =>
    intro t h
    have ha := h a (by simp)
    cases hg : g a with
    | none => rw [hg] at ha; cases ha
    | some b =>
      rw [List.filterMap_cons_some hg]
      cases t with
      | zero => simp [hg]
      | succ t => simp [ih t (fun x hx => h x (by simp [hx]))]

/-- samples per rank: positive, and `S * W = n + pad` -/
theorem c16x_perRank (n W : Nat) (hW : 0 < W) (hWn : W ≤ n) :
    0 < (n + padCount n W) / W ∧ (n + padCount n W) / W * W = n + padCount n W := by
  have hd := pad_divides n W hW
  have h1 := Nat.div_add_mod (n + padCount n W) W
  rw [hd, Nat.add_zero, Nat.mul_comm] at h1
  refine ⟨?_, h1⟩
  apply Nat.div_pos (by omega) hW

theorem c16x_stride_block (xs : List α) (W r : Nat) (hr : r < W) (hlen : xs.length % W = 0) :
    (strideFrom xs W r).length = xs.length / W ∧
    ∀ t, t < xs.length / W → (strideFrom xs W r)[t]? = xs[t * W + r]? := by
  rw [c16x_strideFrom_eq xs W r hr hlen]
  have hl : xs.length / W * W = xs.length := by
    have := Nat.div_add_mod xs.length W
    rw [Nat.mul_comm]; omega
  have hsome : ∀ s ∈ List.range (xs.length / W), (xs[s * W + r]?).isSome := by
    intro s hs
    have hs' := List.mem_range.mp hs
    have h1 : (s + 1) * W ≤ xs.length / W * W := Nat.mul_le_mul_right W hs'
    rw [Nat.succ_mul] at h1
    have : s * W + r < xs.length := by omega
    simp [this]
  constructor
  · rw [filterMap_length_of_some _ hsome]; simp
  · intro t ht
    rw [c16x_filterMap_getElem? _ t hsome]
    simp [ht]

/-- **closed form of the all-gather order**, position by position -/
theorem c16x_allGatherOrder_getElem? (xs : List α) (W k : Nat) (hW : 0 < W) (hWn : W ≤ xs.length)
    (hk : k < xs.length) : (allGatherOrder xs W)[k]? = xs[agIdx xs.length W k]? := by
  obtain ⟨hS, hSW⟩ := c16x_perRank xs.length W hW hWn
  have hp := padCount_lt xs.length W hW
  have hpl := c16x_dsPadded_length xs W (by omega)
  have hmod : (dsPadded xs W).length % W = 0 := by rw [hpl]; exact pad_divides _ _ hW
  unfold allGatherOrder
  rw [List.getElem?_take_of_lt hk]
  rw [c16x_flatMap_getElem? ((xs.length + padCount xs.length W) / W) hS _ k (by
    intro r hr
    rw [(c16x_stride_block _ W r (List.mem_range.mp hr) hmod).1, hpl])]
  have hkS : k / ((xs.length + padCount xs.length W) / W) < W := by
    apply Nat.div_lt_of_lt_mul
    rw [hSW]; omega
  have hmodlt : k % ((xs.length + padCount xs.length W) / W) < (xs.length + padCount xs.length W) / W :=
    Nat.mod_lt _ hS
  rw [List.getElem?_range hkS]
  simp only [Option.bind_some]
  rw [(c16x_stride_block _ W _ hkS hmod).2 _ (by rw [hpl]; exact hmodlt)]
  unfold agIdx
  simp only
  have hj : k % ((xs.length + padCount xs.length W) / W) * W + k / ((xs.length + padCount xs.length W) / W)
      < xs.length + padCount xs.length W := by
    have h1 : (k % ((xs.length + padCount xs.length W) / W) + 1) * W ≤ (xs.length + padCount xs.length W) / W * W :=
      Nat.mul_le_mul_right W hmodlt
    rw [Nat.succ_mul] at h1
    omega
  unfold dsPadded
  by_cases hjn : k % ((xs.length + padCount xs.length W) / W) * W + k / ((xs.length + padCount xs.length W) / W) < xs.length
  · rw [if_pos hjn, List.getElem?_append_left hjn]
  · rw [if_neg hjn, List.getElem?_append_right (by omega), List.getElem?_take_of_lt (by omega)]

theorem c16x_flatMap_filter_perm (f : Nat → Nat) : ∀ (W : Nat) (l : List Nat), (∀ x ∈ l, f x < W) →
    ((List.range W).flatMap (fun r => l.filter (fun x => decide (f x = r)))).Perm l := by
  intro W
  induction W with
  | zero =>
    intro l h
    cases l with
    | nil => simp
    | cons a as => have := h a (by simp); omega
  | succ W ih =>
    intro l h
    rw [List.range_succ, List.flatMap_append]
    simp only [List.flatMap_cons, List.flatMap_nil, List.append_nil]
    have h1 : (List.range W).flatMap (fun r => l.filter (fun x => decide (f x = r))) =
        (List.range W).flatMap (fun r => (l.filter (fun x => decide (f x < W))).filter (fun x => decide (f x = r))) := by
      apply c16x_flatMap_congr
      intro r hr
      have hr' := List.mem_range.mp hr
      rw [List.filter_filter]
      apply List.filter_congr
      intro x _
      by_cases hx : f x = r
      · simp [hx, hr']
      · simp [hx]
    have h2 : l.filter (fun x => decide (f x = W)) = l.filter (fun x => !(decide (f x < W))) := by
      apply List.filter_congr
      intro x hx
      have := h x hx
      by_cases hx' : f x = W
      · simp [hx']
      · have : f x < W := by omega
        simp [hx', this]
    rw [h1, h2]
    have h3 := ih (l.filter (fun x => decide (f x < W))) (by
      intro x hx
      have := (List.mem_filter.mp hx).2
      simpa using this)
    exact (List.Perm.append_right _ h3).trans (List.filter_append_perm _ l)

theorem c16x_filterMap_range_getElem? (xs : List α) : (List.range xs.length).filterMap (fun j => xs[j]?) = xs := by
  apply List.ext_getElem?
  intro i
  rw [c16x_filterMap_getElem? _ i (by
    intro j hj
    have := List.mem_range.mp hj
    simp [this])]
  by_cases hi : i < xs.length
  · simp [hi]
  · simp [hi]

theorem c16x_padCount_of_dvd (n W : Nat) (h : W ∣ n) : padCount n W = 0 := by
  unfold padCount
  obtain ⟨k, rfl⟩ := h
  simp

/-- when the world size divides the dataset length nothing is padded and the all-gather order is a rearrangement -/
theorem c16x_allGatherOrder_perm (xs : List α) (W : Nat) (hW : 0 < W) (hWn : W ≤ xs.length) (hdiv : W ∣ xs.length) :
    (allGatherOrder xs W).Perm xs := by
  have hlen := (c16x_gather_pipeline xs W hW hWn).2
  have hp0 := c16x_padCount_of_dvd xs.length W hdiv
  unfold allGatherOrder
  rw [List.take_of_length_le (by rw [hlen]; omega)]
  have hpad : dsPadded xs W = xs := by simp [dsPadded, hp0]
  rw [hpad]
  unfold strideFrom
  have : (List.range W).flatMap (fun r => ((List.range xs.length).filter (fun j => decide (j % W = r))).filterMap (fun j => xs[j]?))
      = ((List.range W).flatMap (fun r => (List.range xs.length).filter (fun j => decide (j % W = r)))).filterMap (fun j => xs[j]?) := by
    rw [List.filterMap_flatMap]
  rw [this]
  have hperm := c16x_flatMap_filter_perm (fun j => j % W) W (List.range xs.length) (fun x _ => Nat.mod_lt x hW)
  have := hperm.filterMap (fun j => xs[j]?)
  rw [c16x_filterMap_range_getElem?] at this
  exact this

/-! ### ClassGroupsWrapper: closed form -/

theorem c16x_idxWithinGo : ∀ (cs seen : List Int),
    idxWithinGo cs seen = (List.range cs.length).map (fun i => (cs.take i).count (cs.getD i 0) + seen.count (cs.getD i 0)) := by
  intro cs
  induction cs with
  | nil => intro seen; simp [idxWithinGo]
  | cons c cs ih =>
    intro seen
    unfold idxWithinGo
    rw [ih (c :: seen), List.length_cons, List.range_succ_eq_map, List.map_cons, List.map_map]
    congr 1
    · simp
    · apply List.map_congr_left
      intro i _
      simp only [Function.comp, List.take_succ_cons, List.count_cons, List.getD_cons_succ]
      omega

theorem c16x_idxWithin (cs : List Int) :
    idxWithin cs = (List.range cs.length).map (fun i => (cs.take i).count (cs.getD i 0)) := by
  unfold idxWithin
  rw [c16x_idxWithinGo]
  simp

theorem c16x_cgTable0_getElem? (nc cpg j : Nat) (hc : 0 < cpg) (hj : j < ceilDiv nc cpg * cpg) :
    (cgTable0 nc cpg)[j]? = some (j / cpg) := by
  unfold cgTable0
  rw [c16x_flatMap_getElem? cpg hc _ j (fun g _ => by simp)]
  have h1 : j / cpg < ceilDiv nc cpg := Nat.div_lt_of_lt_mul (by rw [Nat.mul_comm]; exact hj)
  rw [List.getElem?_range h1]
  simp [Nat.mod_lt j hc]

/-- the unshuffled table sends class `c` to group `c / cpg` -/
theorem c16x_cgTable0_eq (nc cpg : Nat) (hc : 0 < cpg) :
    cgTable0 nc cpg = (List.range (ceilDiv nc cpg * cpg)).map (fun c => c / cpg) := by
  apply List.ext_getElem?
  intro j
  by_cases hj : j < ceilDiv nc cpg * cpg
  · rw [c16x_cgTable0_getElem? nc cpg j hc hj]
    simp [hj]
  · have h1 : (cgTable0 nc cpg).length ≤ j := by rw [cgTable0_length]; omega
    rw [List.getElem?_eq_none h1, List.getElem?_eq_none (by simp; omega)]

theorem c16x_cgGetall_eq (st : CG) : cgGetall st = forRange st.labels.length (cgGetitem st) :=
  forEnum_eq_forRange (cgMap st) (cgGetitem st) st.labels
    (fun j hj => by simp [cgGetitem, dsGet, listGet_of_lt _ _ hj])

theorem c16x_cg_main (labels : List Int) (nc cpg : Nat) (table : List Nat)
    (hl : ∀ c ∈ labels, 0 ≤ c ∧ c < (nc : Int)) (ht : nc ≤ table.length) :
    (∀ i, cgGetitem ⟨labels, cpg, table, idxWithin labels⟩ i = listGet (cgSpec labels cpg table) i) ∧
    cgGetall ⟨labels, cpg, table, idxWithin labels⟩ = .ok (cgSpec labels cpg table) := by
  have hlen : (cgSpec labels cpg table).length = labels.length := by simp [cgSpec]
  have hitem : ∀ i, cgGetitem ⟨labels, cpg, table, idxWithin labels⟩ i = listGet (cgSpec labels cpg table) i := by
    intro i
    by_cases hi : i < labels.length
    · have hci := hl labels[i] (List.getElem_mem hi)
      have hc2 : labels[i].toNat < table.length := by omega
      have hw : i < (idxWithin labels).length := by rw [c16x_idxWithin]; simpa using hi
      rw [listGet_of_lt _ _ (by omega)]
      unfold cgGetitem cgMap
      simp only [dsGet, listGet_of_lt _ _ hi, pyGet_of_lt _ _ hci.1 hc2, listGet_of_lt _ _ hw]
      simp [cgSpec, c16x_idxWithin, hi, hc2]
    · rw [c16x_listGet_of_ge _ _ (by omega)]
      unfold cgGetitem
      simp only [dsGet]
      rw [c16x_listGet_of_ge _ _ (by omega)]
  refine ⟨hitem, ?_⟩
  rw [c16x_cgGetall_eq]
  simp only
  rw [forRange_congr _ (fun i _ => hitem i), ← hlen]
  exact forRange_listGet _

/-! ### RandomSuperclassWrapper: closed form -/

theorem c16x_gather_eq_map (x : List Int) (pos : List Nat) (h : ∀ j ∈ pos, j < x.length) :
    gather x pos = pos.map (fun j => x.getD j 0) := by
  unfold gather
  induction pos with
  | nil => rfl
  | cons a as ih =>
    have ha : a < x.length := h a (by simp)
    rw [List.filterMap_cons_some (b := x[a]) (by simp [ha]), ih (fun j hj => h j (by simp [hj]))]
    simp [ha]

theorem c16x_gather_nat_eq_map (x : List Nat) (pos : List Nat) (h : ∀ j ∈ pos, j < x.length) :
    gather x pos = pos.map (fun j => x.getD j 0) := by
  unfold gather
  induction pos with
  | nil => rfl
  | cons a as ih =>
    have ha : a < x.length := h a (by simp)
    rw [List.filterMap_cons_some (b := x[a]) (by simp [ha]), ih (fun j hj => h j (by simp [hj]))]
    simp [ha]

/-- the per-class counter of `RandomSuperclassWrapper`, un-shuffled again: entry `v` is the rank of sample `v` among the
    samples of its class in the visiting order `p2` -/
theorem c16x_rs_within (labels : List Int) (p2 : List Nat) (hp : p2.Perm (List.range labels.length)) :
    gather (idxWithin (gather labels p2)) (argsortPerm p2) =
      (List.range labels.length).map (fun v => rankInClass labels p2 v) := by
  have hlen : p2.length = labels.length := by simpa using hp.length_eq
  have hlt : ∀ j ∈ p2, j < labels.length := fun j hj => List.mem_range.mp (hp.mem_iff.mp hj)
  have hmem : ∀ v, v < labels.length → v ∈ p2 := fun v hv => hp.mem_iff.mpr (List.mem_range.mpr hv)
  rw [c16x_gather_eq_map labels p2 hlt, c16x_idxWithin]
  simp only [List.length_map]
  unfold argsortPerm
  rw [c16x_gather_nat_eq_map _ _ (by
    intro j hj
    obtain ⟨v, hv, rfl⟩ := List.mem_map.mp hj
    simp only [List.length_map, List.length_range]
    rw [hlen] at hv
    exact List.idxOf_lt_length_of_mem (hmem v (List.mem_range.mp hv)))]
  rw [hlen, List.map_map]
  apply List.map_congr_left
  intro v hv
  have hv' := List.mem_range.mp hv
  have hq : p2.idxOf v < p2.length := List.idxOf_lt_length_of_mem (hmem v hv')
  have hpv : p2[p2.idxOf v] = v := List.getElem_idxOf hq
  simp only [Function.comp]
  unfold rankInClass
  have hq' : p2.idxOf v < labels.length := by omega
  rw [List.getD_eq_getElem?_getD, List.getElem?_map, List.getElem?_range hq']
  simp only [Option.map_some, Option.getD_some]
  rw [← List.map_take]
  congr 1
  rw [List.getD_eq_getElem?_getD, List.getElem?_map, List.getElem?_eq_getElem hq]
  simp [hpv]

theorem c16x_rsGetall_eq (st : RS) : rsGetall st = forRange st.labels.length (rsGetitem st) :=
  forEnum_eq_forRange (rsMap st) (rsGetitem st) st.labels
    (fun j hj => by simp [rsGetitem, dsGet, listGet_of_lt _ _ hj])

theorem c16x_rs_main (labels : List Int) (nc cps splits : Nat) (shuffle : Bool) (perm1 perm2 : List Nat)
    (hc : 0 < cps) (hl : ∀ c ∈ labels, 0 ≤ c ∧ c < (nc : Int))
    (hp1 : shuffle = true → perm1.Perm (List.range nc))
    (hp2 : shuffle = true → splits > 1 → perm2.Perm (List.range labels.length)) :
    ∃ st, rsCtor labels nc cps splits shuffle perm1 perm2 = .ok st ∧
      (∀ i, rsGetitem st i = listGet (rsSpec labels nc cps splits shuffle perm1 perm2) i) ∧
      rsGetall st = .ok (rsSpec labels nc cps splits shuffle perm1 perm2) := by
  have hc0 : ¬ cps = 0 := by omega
  have hlen : (rsSpec labels nc cps splits shuffle perm1 perm2).length = labels.length := by simp [rsSpec]
  have hperm : (if shuffle then perm1 else List.range nc).length = nc := by
    cases hs : shuffle with
    | true => simpa using (hp1 hs).length_eq
    | false => simp
  have horder : splits > 1 → (if shuffle then perm2 else List.range labels.length).Perm (List.range labels.length) := by
    intro h1
    cases hs : shuffle with
    | true => simpa using hp2 hs h1
    | false => simp
  refine ⟨_, by unfold rsCtor; rw [if_neg hc0], ?_⟩
  have hitem : ∀ i, rsGetitem ⟨labels, cps, splits, ceilDiv nc cps, if shuffle then perm1 else List.range nc,
      if splits > 1 then some (gather (idxWithin (gather labels (if shuffle then perm2 else List.range labels.length)))
        (argsortPerm (if shuffle then perm2 else List.range labels.length))) else none⟩ i =
      listGet (rsSpec labels nc cps splits shuffle perm1 perm2) i := by
    intro i
    by_cases hi : i < labels.length
    · have hci := hl labels[i] (List.getElem_mem hi)
      have hc2 : labels[i].toNat < (if shuffle then perm1 else List.range nc).length := by rw [hperm]; omega
      rw [listGet_of_lt _ _ (by omega)]
      unfold rsGetitem rsMap
      simp only [dsGet, listGet_of_lt _ _ hi, pyGet_of_lt _ _ hci.1 hc2]
      by_cases hs : splits > 1
      · simp only [hs, if_true]
        rw [c16x_rs_within labels _ (horder hs)]
        rw [listGet_of_lt _ _ (by simpa using hi)]
        simp [rsSpec, hs, hi, hc2]
      · simp only [hs, if_false]
        simp [rsSpec, hs, hi, hc2]
    · rw [c16x_listGet_of_ge _ _ (by omega)]
      unfold rsGetitem
      simp only [dsGet]
      rw [c16x_listGet_of_ge _ _ (by omega)]
  refine ⟨hitem, ?_⟩
  rw [c16x_rsGetall_eq]
  simp only
  rw [forRange_congr _ (fun i _ => hitem i), ← hlen]
  exact forRange_listGet _

/-! ### SwapLabelWrapper, SemiWrapper: closed forms -/

theorem c16x_sw_classes (labels : List Int) (p : Rat) (us : List Rat) (news : List Int)
    (hus : us.length = labels.length) (hnews : news.length = labels.length) :
    List.zipWith (fun (an : Bool × Int) og => if an.1 then an.2 else og)
      ((us.map (fun u => decide (u < p))).zip news) labels = swSpec labels p us news := by
  apply List.ext_getElem
  · simp [swSpec, hus, hnews]
  · intro i h1 h2
    have hi : i < labels.length := by simpa [swSpec] using h2
    have hiu : i < us.length := by omega
    have hin : i < news.length := by omega
    simp [swSpec, hi, hiu, hin]

theorem c16x_sw_main (labels : List Int) (p : Rat) (us : List Rat) (news : List Int) (hp : 0 ≤ p ∧ p ≤ 1)
    (hus : us.length = labels.length) (hnews : news.length = labels.length) :
    swCtor labels p us news = .ok ⟨swSpec labels p us news, us.map (fun u => decide (u < p))⟩ := by
  unfold swCtor
  rw [if_pos hp]
  simp only
  rw [c16x_sw_classes labels p us news hus hnews]

theorem c16x_sm_main (labels : List Int) (k : Nat) (perm : List Nat) (hperm : ∀ i ∈ perm, i < labels.length) :
    (∀ i, smGetitem ⟨labels, perm.take k⟩ i = listGet (smSpec labels k perm) i) ∧
    smGetall ⟨labels, perm.take k⟩ = .ok (smSpec labels k perm) := by
  have hlen : (smSpec labels k perm).length = labels.length := by simp [smSpec]
  constructor
  · intro i
    by_cases hi : i < labels.length
    · rw [listGet_of_lt _ _ (by omega)]
      unfold smGetitem
      simp only
      by_cases hm : i ∈ perm.take k
      · simp [smSpec, hm]
      · simp [smSpec, hm, dsGet, listGet_of_lt _ _ hi, hi]
    · rw [c16x_listGet_of_ge _ _ (by omega)]
      unfold smGetitem
      simp only
      have hm : ¬ i ∈ perm.take k := fun h => hi (hperm i (List.mem_of_mem_take h))
      rw [if_neg hm]
      exact c16x_listGet_of_ge _ _ (by omega)
  · unfold smGetall
    simp only
    rw [setAll_spec _ _ (fun i hi => hperm i (List.mem_of_mem_take hi))]
    congr 1
    apply List.ext_getElem
    · simp [smSpec]
    · intro i h1 h2
      have hi : i < labels.length := by simpa [smSpec] using h2
      simp [smSpec, hi]

/-! ### KDPseudoLabelWrapper: closed forms -/

theorem c16x_forRange_pure (n : Nat) (g : Nat → β) :
    forRange n (fun i => (.ok (g i) : Except Err β)) = .ok ((List.range n).map g) := mapE_pure g _

theorem c16x_plCtor_ok (n C : Nat) (table : PTable) (thr : Option (List Bool)) (topk : Option Nat) (tau : Tau)
    (topkIdx : List (List Nat)) (hwf : plWellFormed n C table thr) :
    plCtor n C table thr topk tau topkIdx = .ok ⟨n, table, thr, topk, tau, topkIdx⟩ := by
  unfold plCtor
  cases table with
  | hard ls =>
    simp only [plWellFormed] at hwf
    simp [hwf]
  | soft rows =>
    simp only [plWellFormed] at hwf
    have : rows.all (fun r => r.length == C) = true := by
      rw [List.all_eq_true]
      intro r hr
      simpa using hwf.2.1 r hr
    simp [hwf.1, this]

theorem c16x_pl_static (n C : Nat) (table : PTable) (thr : Option (List Bool)) (topkIdx : List (List Nat))
    (hwf : plWellFormed n C table thr) (hv : plValid table thr none .none) :
    (plSpec table thr).length = n ∧
    (∀ i d, plGetitem ⟨n, table, thr, none, .none, topkIdx⟩ i d = listGet (plSpec table thr) i) ∧
    plGetall ⟨n, table, thr, none, .none, topkIdx⟩ = .ok (plSpec table thr) := by
  cases table with
  | hard ls =>
    simp only [plWellFormed] at hwf
    simp only [plValid] at hv
    obtain ⟨hthr, _, _⟩ := hv
    subst hthr
    refine ⟨by simpa [plSpec] using hwf, ?_, ?_⟩
    · intro i d
      simp [plGetitem, plSpec]
    · simp [plGetall, plSpec]
  | soft rows =>
    simp only [plWellFormed] at hwf
    obtain ⟨hn, _, hbits⟩ := hwf
    cases thr with
    | none =>
      refine ⟨by simpa [plSpec] using hn, ?_, ?_⟩
      · intro i d
        by_cases hi : i < rows.length
        · simp [plGetitem, plSpec, listGet, hi]
        · simp [plGetitem, plSpec, listGet, hi]
      · simp [plGetall, plSpec]
    | some bits =>
      have hb := hbits bits rfl
      have hlen : (plSpec (.soft rows) (some bits)).length = n := by simp [plSpec, hn, hb]
      have hitem : ∀ i d, plGetitem ⟨n, .soft rows, some bits, none, .none, topkIdx⟩ i d =
          listGet (plSpec (.soft rows) (some bits)) i := by
        intro i d
        by_cases hi : i < rows.length
        · have hib : i < bits.length := by omega
          have hz : i < (List.zipWith (fun r (b : Bool) => if b then (argmax r : Int) else -1) rows bits).length := by
            simp; omega
          simp only [plSpec]
          rw [listGet_of_lt _ _ hz]
          simp [plGetitem, listGet, hi, hib]
        · have hz : (plSpec (.soft rows) (some bits)).length ≤ i := by omega
          rw [c16x_listGet_of_ge _ _ hz]
          simp [plGetitem, listGet, hi]
      refine ⟨hlen, hitem, ?_⟩
      simp only [plGetall]
      simp only [ne_eq, not_true_eq_false, Option.isSome_none, Bool.false_eq_true, or_self, if_false,
        Option.isSome_some, if_true]
      rw [forRange_congr _ (fun i _ => hitem i 0)]
      conv => lhs; rw [← hlen]
      exact forRange_listGet _

theorem c16x_pl_topk (n C : Nat) (rows : List (List Rat)) (k : Nat) (tau : Tau) (topkIdx : List (List Nat))
    (hwf : plWellFormed n C (.soft rows) none) (hk : k ≤ C) (hrows : topkIdx.length = n)
    (hrow : ∀ ids ∈ topkIdx, ids.length = k) :
    (∀ i d, i < n → d < k →
      plGetitem ⟨n, .soft rows, none, some k, tau, topkIdx⟩ i d = .ok (((topkIdx.getD i []).getD d 0 : Nat) : Int)) ∧
    (∀ d : Nat → Nat, (∀ i, i < n → d i < k) →
      forRange n (fun i => plGetitem ⟨n, .soft rows, none, some k, tau, topkIdx⟩ i (d i)) = .ok (plTopkSpec n topkIdx d)) ∧
    plGetall ⟨n, .soft rows, none, some k, tau, topkIdx⟩ = .error .notImplemented := by
  simp only [plWellFormed] at hwf
  obtain ⟨hn, hC, _⟩ := hwf
  have hitem : ∀ i d, i < n → d < k →
      plGetitem ⟨n, .soft rows, none, some k, tau, topkIdx⟩ i d = .ok (((topkIdx.getD i []).getD d 0 : Nat) : Int) := by
    intro i d hi hd
    have hir : i < rows.length := by omega
    have hit : i < topkIdx.length := by omega
    have hrl : rows[i].length = C := hC _ (List.getElem_mem hir)
    have hids : topkIdx[i].length = k := hrow _ (List.getElem_mem hit)
    have hkr : ¬ k > rows[i].length := by omega
    have hd' : d < topkIdx[i].length := by omega
    simp [plGetitem, listGet, hir, hit, hkr, hd']
  refine ⟨hitem, ?_, by simp [plGetall]⟩
  intro d hd
  rw [forRange_congr (g := fun i => .ok (((topkIdx.getD i []).getD (d i) 0 : Nat) : Int)) n
    (fun i hi => hitem i (d i) hi (hd i hi))]
  exact c16x_forRange_pure n _

/-! ### KDRandomClassWrapper: closed forms -/

theorem c16x_blocks_eq (m s : Nat) (hs : 0 < s) :
    (List.range m).flatMap (fun g => List.replicate s g) = (List.range (m * s)).map (fun c => c / s) := by
  apply List.ext_getElem?
  intro j
  rw [c16x_flatMap_getElem? s hs _ j (fun g _ => by simp)]
  by_cases hj : j < m * s
  · have h1 : j / s < m := Nat.div_lt_of_lt_mul (by rw [Nat.mul_comm]; exact hj)
    rw [List.getElem?_range h1]
    simp [Nat.mod_lt j hs, hj]
  · have h1 : ¬ j / s < m := by
      intro h
      apply hj
      have h2 : (j / s + 1) * s ≤ m * s := Nat.mul_le_mul_right s h
      have h3 := Nat.div_add_mod j s
      have h4 := Nat.mod_lt j hs
      rw [Nat.succ_mul, Nat.mul_comm] at h2
      omega
    rw [List.getElem?_eq_none (by simpa using Nat.le_of_not_lt h1)]
    simp [hj]

theorem c16x_repeatTake_eq (perm : List Nat) (n nc : Nat) (hnc : 0 < nc) (hp : perm.length = nc) :
    repeatTake perm n nc = (List.range n).map (fun i => perm.getD (i % nc) 0) := by
  unfold repeatTake
  apply List.ext_getElem?
  intro i
  have hle := le_ceilDiv_mul n nc hnc
  by_cases hi : i < n
  · rw [List.getElem?_take_of_lt hi, ← List.flatMap_id,
      c16x_flatMap_getElem? nc hnc _ i (fun x hx => by rw [(List.mem_replicate.mp hx).2]; exact hp)]
    have h1 : i / nc < ceilDiv n nc := Nat.div_lt_of_lt_mul (by rw [Nat.mul_comm]; omega)
    have h2 : i % nc < perm.length := by rw [hp]; exact Nat.mod_lt _ hnc
    simp [h1, hi, h2]
  · rw [List.getElem?_eq_none (by rw [List.length_take]; omega), List.getElem?_eq_none (by simp; omega)]

theorem c16x_rc_classes0 (n nc : Nat) (hnc : 0 < nc) (hn : 0 < n) :
    ((List.range nc).flatMap (fun c => List.replicate ((n + nc - 1) / nc) c)).take n =
      (List.range n).map (fun j => j / ((n + nc - 1) / nc)) := by
  have hle := le_ceilDiv_mul n nc hnc
  unfold ceilDiv at hle
  have hs : 0 < (n + nc - 1) / nc := by
    apply Nat.div_pos (by omega) hnc
  rw [c16x_blocks_eq nc _ hs, ← List.map_take, List.take_range]
  rw [Nat.mul_comm] at hle
  rw [Nat.min_eq_left hle]

theorem c16x_rc_main (n nc : Nat) (mode : RCMode) (ints perm : List Nat) (hdom : rcDomain n nc mode ints perm) :
    rcCtor n nc mode ints perm = .ok (rcSpec n nc mode ints perm) ∧ (rcSpec n nc mode ints perm).length = n := by
  cases mode with
  | random =>
    simp only [rcDomain] at hdom
    exact ⟨rfl, hdom.1⟩
  | randperm =>
    simp only [rcDomain] at hdom
    have h0 : ¬ nc = 0 := by omega
    refine ⟨?_, by simp [rcSpec]⟩
    simp only [rcCtor, h0, if_false, rcSpec]
    rw [c16x_repeatTake_eq perm n nc hdom.1 (by simpa using hdom.2.length_eq)]
  | gatherbug W =>
    simp only [rcDomain] at hdom
    obtain ⟨hnc, hW, hWn⟩ := hdom
    have h0 : ¬ nc = 0 := by omega
    have hW0 : ¬ W = 0 := by omega
    have hcl : ((List.range n).map (fun j => j / ((n + nc - 1) / nc))).length = n := by simp
    have hlen : (rcSpec n nc (.gatherbug W) ints perm).length = n := by
      simp only [rcSpec]
      rw [c16x_allGatherOrder_length _ W hW (by rw [hcl]; exact hWn), hcl]
    refine ⟨?_, hlen⟩
    simp only [rcCtor, h0, hW0, if_false, rcSpec]
    rw [c16x_rc_classes0 n nc hnc (by omega)]
    obtain ⟨h1, h2⟩ := c16x_gather_pipeline ((List.range n).map (fun j => j / ((n + nc - 1) / nc))) W hW
      (by rw [hcl]; exact hWn)
    rw [hcl] at h2
    unfold allGatherOrder
    rw [hcl]
    by_cases hpad : padCount n W > 0
    · simp only [hpad, if_true]
      have : (List.range n).map (fun j => j / ((n + nc - 1) / nc)) ++
          ((List.range n).map (fun j => j / ((n + nc - 1) / nc))).take (padCount n W) =
          dsPadded ((List.range n).map (fun j => j / ((n + nc - 1) / nc))) W := by
        simp [dsPadded]
      rw [this, h1]
    · simp only [hpad, if_false]
      have hp0 : padCount n W = 0 := by omega
      have : (List.range n).map (fun j => j / ((n + nc - 1) / nc)) =
          dsPadded ((List.range n).map (fun j => j / ((n + nc - 1) / nc))) W := by
        simp [dsPadded, hp0]
      conv => lhs; rw [this]
      rw [h1]
      simp only
      rw [List.take_of_length_le (by rw [h2]; omega)]
  | other => simp [rcDomain] at hdom

theorem c16x_rc_range (n nc : Nat) (mode : RCMode) (ints perm : List Nat) (hdom : rcDomain n nc mode ints perm) :
    ∀ c ∈ rcSpec n nc mode ints perm, c < nc := by
  cases mode with
  | random =>
    simp only [rcDomain] at hdom
    exact hdom.2
  | randperm =>
    simp only [rcDomain] at hdom
    obtain ⟨hnc, hp⟩ := hdom
    intro c hc
    simp only [rcSpec, List.mem_map, List.mem_range] at hc
    obtain ⟨i, _, rfl⟩ := hc
    have hlen : perm.length = nc := by simpa using hp.length_eq
    have h2 : i % nc < perm.length := by rw [hlen]; exact Nat.mod_lt _ hnc
    have : perm.getD (i % nc) 0 = perm[i % nc] := by simp [h2]
    rw [this]
    exact List.mem_range.mp (hp.mem_iff.mp (List.getElem_mem h2))
  | gatherbug W =>
    simp only [rcDomain] at hdom
    obtain ⟨hnc, hW, hWn⟩ := hdom
    intro c hc
    simp only [rcSpec] at hc
    have hm := c16x_allGatherOrder_mem _ W hW (by simpa using hWn) c hc
    simp only [List.mem_map, List.mem_range] at hm
    obtain ⟨j, hj, rfl⟩ := hm
    have hle := le_ceilDiv_mul n nc hnc
    unfold ceilDiv at hle
    apply Nat.div_lt_of_lt_mul
    omega
  | other => simp [rcDomain] at hdom

end KDVerif.Labels
