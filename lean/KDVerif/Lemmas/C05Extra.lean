/-
Extra lemmas for C05 (interleaved scheduler: side passes run exactly when due, whole, and unmixed):

1. closed form of `sidePassesGo` / `evalLoopGo` as a `flatMap` over the configs with their index,
   with the config's offset written independently of the recursion (`cfgOffset`);
2. `batchSampler` over one side pass = `chunks bs` of the shifted indices;
3. the stream as a sequence of update blocks (`c05x_traj`, `c05x_block`);
4. resolution of every index event through `concatGet`, negative indices through `concatGetInt`;
5. "a side index only directly after a complete main batch or another side index" (`c05x_sideGuard`).
-/
import KDVerif.Lemmas.InterleavedSide
import KDVerif.Lemmas.InterleavedStream
import KDVerif.Lemmas.InterleavedBudget
import KDVerif.Lemmas.InterleavedConcat

namespace KDVerif.Interleaved

/-! ## 0. small list facts -/

theorem c05x_flatMap_congr {α β} (l : List α) (f g : α → List β) (h : ∀ x ∈ l, f x = g x) :
    l.flatMap f = l.flatMap g := by
  induction l with
  | nil => rfl
  | cons x xs ih =>
    simp only [List.flatMap_cons]
    rw [h x (by simp), ih (fun y hy => h y (List.mem_cons_of_mem _ hy))]

theorem c05x_sumList_append : ∀ (xs ys : List Nat), sumList (xs ++ ys) = sumList xs + sumList ys := by
  intro xs ys
  induction xs with
  | nil => simp [sumList]
  | cons x xs ih => simp only [List.cons_append, sumList, ih]; omega

/-! ## 1. offsets and the closed form of the side passes -/

/-- `index_offsets[i]` of the constructor, written without recursion: the size of the main data source plus the
    sizes of the data sources of all configs before `i` -/
def cfgOffset (a : Args) (i : Nat) : Nat := a.mainDsLen + sumList ((a.configs.take i).map (·.dsLen))

/-- the offset of config `i` is where dataset `i+1` starts in the concat dataset -/
theorem c05x_cfgOffset_eq (a : Args) (i : Nat) : cfgOffset a i = sumList ((dsSizes a).take (i + 1)) := by
  simp [cfgOffset, dsSizes, sumList, List.map_take]

theorem c05x_cfgOffset_zero (a : Args) : cfgOffset a 0 = a.mainDsLen := by
  simp [cfgOffset, sumList]

theorem c05x_cfgOffset_succ (a : Args) (i : Nat) (c : Config) (h : a.configs[i]? = some c) :
    cfgOffset a (i + 1) = cfgOffset a i + c.dsLen := by
  rw [c05x_cfgOffset_eq, c05x_cfgOffset_eq, offset_succ a i c h]

theorem c05x_mainDsLen_le_cfgOffset (a : Args) (i : Nat) : a.mainDsLen ≤ cfgOffset a i := by
  unfold cfgOffset; omega

/-- a walk over the config list that hands config number `i` the running offset is a `flatMap` over the configs
    with their index and the closed-form offset -/
theorem c05x_go_flatMap (a : Args) (F : Nat → Nat → Config → List Ev) (go : Nat → Nat → List Config → List Ev)
    (hnil : ∀ i off, go i off [] = [])
    (hcons : ∀ i off c cs, go i off (c :: cs) = F i off c ++ go (i + 1) (off + c.dsLen) cs) :
    ∀ (cs pre : List Config), pre ++ cs = a.configs →
      go pre.length (a.mainDsLen + sumList (pre.map (·.dsLen))) cs =
        (cs.zipIdx pre.length).flatMap (fun ci => F ci.2 (cfgOffset a ci.2) ci.1) := by
  intro cs
  induction cs with
  | nil => intro pre _; simp [hnil]
  | cons c cs ih =>
    intro pre hpre
    rw [hcons, List.zipIdx_cons, List.flatMap_cons]
    have h1 : cfgOffset a pre.length = a.mainDsLen + sumList (pre.map (·.dsLen)) := by
      unfold cfgOffset
      rw [← hpre, List.take_left' rfl]
    have h2 := ih (pre ++ [c]) (by rw [List.append_assoc]; exact hpre)
    simp only [List.length_append, List.length_cons, List.length_nil, Nat.zero_add, List.map_append,
      List.map_cons, List.map_nil, c05x_sumList_append, sumList, Nat.add_zero] at h2
    rw [h1, ← h2]
    congr 2
    omega

/-- **closed form of everything emitted after one update** -/
theorem c05x_sidePasses_closed (a : Args) (side : Nat → Nat → List Nat)
    (ee : Bool) (e up s sal : Nat) :
    sidePasses a side ee e up s sal =
      a.configs.zipIdx.flatMap (fun ci =>
        if due ci.1 ee e up s sal then sidePass (sideBS a ci.1) ci.1.len (cfgOffset a ci.2) (side ci.2 up)
        else []) := by
  have := c05x_go_flatMap a
    (fun i off c => if due c ee e up s sal then sidePass (sideBS a c) c.len off (side i up) else [])
    (sidePassesGo a side ee e up s sal) (fun _ _ => rfl) (fun _ _ _ _ => rfl) a.configs [] rfl
  simpa [sumList, sidePasses] using this

/-- **closed form of the evaluation stream** -/
theorem c05x_evalLoop_closed (a : Args) (side : Nat → Nat → List Nat) :
    evalLoop a side =
      a.configs.zipIdx.flatMap (fun ci =>
        sidePass (sideBS a ci.1) ci.1.len (cfgOffset a ci.2) (side ci.2 0)) := by
  have := c05x_go_flatMap a (fun i off c => sidePass (sideBS a c) c.len off (side i 0))
    (evalLoopGo a side) (fun _ _ => rfl) (fun _ _ _ _ => rfl) a.configs [] rfl
  simpa [sumList, evalLoop] using this

theorem c05x_sideBS_pos (a : Args) (c : Config) (hB : 0 < a.B) : 0 < sideBS a c := by
  unfold sideBS
  rcases c.batchSize with _ | b
  · exact hB
  · cases b with
    | zero => exact hB
    | succ b => simp

/-- `config.batch_size or self.batch_size` -/
theorem c05x_sideBS_eq (a : Args) (c : Config) (hc : cfgOk c = true) :
    sideBS a c = c.batchSize.getD a.B := by
  unfold sideBS
  rcases hb : c.batchSize with _ | b
  · rfl
  · cases b with
    | zero => simp [cfgOk, hb] at hc
    | succ b => rfl

/-! ## 2. the batch sampler over one side pass -/

theorem c05x_flag_iff (bs q j : Nat) (hj : j < bs) : (q * bs + j + 1) % bs = 0 ↔ j + 1 = bs := by
  rw [Nat.add_assoc, Nat.mul_add_mod']
  constructor
  · intro h
    by_cases hlt : j + 1 < bs
    · rw [Nat.mod_eq_of_lt hlt] at h; omega
    · omega
  · intro h; rw [h, Nat.mod_self]

theorem c05x_chunks_single (bs : Nat) (hbs : 0 < bs) (l : List Nat) (hne : l ≠ []) (hl : l.length ≤ bs) :
    chunks bs l = [l] := by
  rw [chunks_step bs hbs l hne, List.take_of_length_le hl, List.drop_of_length_le hl, chunks_nil]

theorem c05x_chunks_full_head (bs : Nat) (hbs : 0 < bs) (l r : List Nat) (hl : l.length = bs) :
    chunks bs (l ++ r) = l :: chunks bs r := by
  have hne : l ++ r ≠ [] := by
    intro h
    have : (l ++ r).length = 0 := by rw [h]; rfl
    rw [List.length_append] at this; omega
  rw [chunks_step bs hbs _ hne, List.take_left' hl, List.drop_left' hl]

/-- the batch sampler over (the rest of) one side pass followed by anything: with `acc` the indices collected so
    far in the current batch (`k = q * bs + acc.length` indices of the pass were consumed), it cuts
    `acc ++ shifted rest of the pass` into pieces of `bs`, the last one short, and then goes on with an EMPTY
    accumulator -/
theorem c05x_batchSamplerGo_sidePassAux (bs len off : Nat) (hbs : 0 < bs) (rest : List Ev) :
    ∀ (xs : List Nat) (k q : Nat) (acc : List Nat), xs ≠ [] → k + xs.length = len →
      k = q * bs + acc.length → acc.length < bs →
      batchSamplerGo acc (sidePassAux bs len off k xs ++ rest) =
        (chunks bs (acc ++ xs.map (off + ·)) ++ (batchSamplerGo [] rest).1, (batchSamplerGo [] rest).2) := by
  intro xs
  induction xs with
  | nil => intro k q acc h; exact absurd rfl h
  | cons x xs ih =>
    intro k q acc _ hlen hk hacc
    simp only [List.length_cons] at hlen
    have hflag : (k + 1) % bs = 0 ↔ acc.length + 1 = bs := by
      rw [hk]; exact c05x_flag_iff bs q acc.length hacc
    by_cases hxs : xs = []
    · subst hxs
      simp only [List.length_nil, Nat.zero_add] at hlen
      have hdec : decide ((k + 1) % bs = 0 ∨ k + 1 = len) = true := by simp [hlen]
      simp only [sidePassAux, List.cons_append, List.nil_append, batchSamplerGo, hdec, if_true, List.map_cons,
        List.map_nil]
      rw [c05x_chunks_single bs hbs (acc ++ [off + x]) (by simp) (by simp; omega)]
      rfl
    · have hpos : 0 < xs.length := List.length_pos_iff.mpr hxs
      have hnl : k + 1 ≠ len := by omega
      by_cases hf : acc.length + 1 = bs
      · have hdec : decide ((k + 1) % bs = 0 ∨ k + 1 = len) = true := by
          simp only [decide_eq_true_eq]; exact Or.inl (hflag.mpr hf)
        simp only [sidePassAux, List.cons_append, batchSamplerGo, hdec, if_true, List.map_cons]
        rw [ih (k + 1) (q + 1) [] hxs (by omega)
          (by simp only [List.length_nil, Nat.add_zero]; rw [hk, Nat.succ_mul]; omega)
          (by simpa using hbs)]
        have e : acc ++ (off + x) :: xs.map (off + ·) = (acc ++ [off + x]) ++ xs.map (off + ·) := by simp
        rw [e, c05x_chunks_full_head bs hbs (acc ++ [off + x]) _ (by simp; exact hf)]
        simp
      · have hdec : decide ((k + 1) % bs = 0 ∨ k + 1 = len) = false := by
          simp only [decide_eq_false_iff_not, not_or]
          exact ⟨fun h => hf (hflag.mp h), hnl⟩
        simp only [sidePassAux, List.cons_append, batchSamplerGo, hdec, Bool.false_eq_true, if_false,
          List.map_cons]
        rw [ih (k + 1) q (acc ++ [off + x]) hxs (by omega) (by simp; omega) (by simp; omega)]
        simp

/-- **one whole side pass, followed by anything, is cut into `chunks bs` of the shifted indices** (only the last
    piece is short, see `chunks_sizes`/`chunks_full`), and the rest of the stream starts a fresh batch -/
theorem c05x_batchSamplerGo_sidePass (bs len off : Nat) (hbs : 0 < bs) (xs : List Nat) (hlen : xs.length = len)
    (rest : List Ev) :
    batchSamplerGo [] (sidePass bs len off xs ++ rest) =
      (chunks bs (xs.map (off + ·)) ++ (batchSamplerGo [] rest).1, (batchSamplerGo [] rest).2) := by
  by_cases hxs : xs = []
  · subst hxs; simp [sidePass, sidePassAux, chunks_nil]
  · unfold sidePass
    have := c05x_batchSamplerGo_sidePassAux bs len off hbs rest xs 0 0 [] hxs (by omega) (by simp) (by simpa using hbs)
    simpa using this

/-- a main batch followed by anything: the batch sampler yields it as ONE batch and starts a fresh one -/
theorem c05x_batchSamplerGo_chunkEvs (rest : List Ev) : ∀ (c acc : List Nat), c ≠ [] →
    batchSamplerGo acc (chunkEvs c ++ rest) = ((acc ++ c) :: (batchSamplerGo [] rest).1, (batchSamplerGo [] rest).2) := by
  intro c
  induction c with
  | nil => intro acc h; exact absurd rfl h
  | cons x c ih =>
    intro acc _
    cases c with
    | nil => simp [chunkEvs, batchSamplerGo]
    | cons y r =>
      simp only [chunkEvs, List.cons_append, batchSamplerGo, Bool.false_eq_true, if_false]
      rw [ih (acc ++ [x]) (by simp)]
      simp

/-- a sequence of pieces each of which the batch sampler cuts on its own (ending with an empty accumulator) is
    cut piece by piece -/
theorem c05x_batchSamplerGo_flatMap {α} (P : α → List Ev) (C : α → List (List Nat)) :
    ∀ (L : List α), (∀ x ∈ L, ∀ rest, batchSamplerGo [] (P x ++ rest) =
        (C x ++ (batchSamplerGo [] rest).1, (batchSamplerGo [] rest).2)) →
      ∀ rest, batchSamplerGo [] (L.flatMap P ++ rest) =
        (L.flatMap C ++ (batchSamplerGo [] rest).1, (batchSamplerGo [] rest).2) := by
  intro L
  induction L with
  | nil => intro _ rest; simp
  | cons x L ih =>
    intro h rest
    simp only [List.flatMap_cons, List.append_assoc]
    rw [h x (by simp), ih (fun y hy => h y (List.mem_cons_of_mem _ hy))]

/-! ## 3. the batches of the side passes, of one update block, and the stream as a sequence of update blocks -/

/-- the batches of the side passes that follow one update, in closed form: for every due config, in config order,
    the indices its sampler yields for this pass, shifted by the config's offset and cut into pieces of the
    config's (else the main) batch size -/
def c05x_sideBatches (a : Args) (side : Nat → Nat → List Nat) (ee : Bool) (e up s sal : Nat) : List (List Nat) :=
  a.configs.zipIdx.flatMap (fun ci =>
    if due ci.1 ee e up s sal then chunks (sideBS a ci.1) ((side ci.2 up).map (cfgOffset a ci.2 + ·)) else [])

theorem c05x_batchSamplerGo_sidePasses (a : Args) (side : Nat → Nat → List Nat) (hB : 0 < a.B)
    (hside : SideOk a side) (ee : Bool) (e up s sal : Nat) (rest : List Ev) :
    batchSamplerGo [] (sidePasses a side ee e up s sal ++ rest) =
      (c05x_sideBatches a side ee e up s sal ++ (batchSamplerGo [] rest).1, (batchSamplerGo [] rest).2) := by
  rw [c05x_sidePasses_closed]
  unfold c05x_sideBatches
  apply c05x_batchSamplerGo_flatMap
  intro ci hci rest'
  have hc : a.configs[ci.2]? = some ci.1 := List.mem_zipIdx_iff_getElem?.mp hci
  by_cases hd : due ci.1 ee e up s sal = true
  · rw [if_pos hd, if_pos hd]
    exact c05x_batchSamplerGo_sidePass _ _ _ (c05x_sideBS_pos a ci.1 hB) _ (hside ci.2 ci.1 hc up).1 rest'
  · rw [if_neg hd, if_neg hd]; simp

/-- the batches of one update block: the main batch, then the batches of the due side passes -/
theorem c05x_batchSamplerGo_l1Evs (a : Args) (side : Nat → Nat → List Nat) (hB : 0 < a.B)
    (hside : SideOk a side) (u : U) (hu : u.Ok a) (rest : List Ev) :
    batchSamplerGo [] (l1Evs a side u ++ rest) =
      (u.xs.take (l1R a u) ::
        (c05x_sideBatches a side (decide (u.p + l1R a u = spe a)) (l1Next a u).epoch (l1Next a u).update
          (l1Next a u).sample u.sample ++ (batchSamplerGo [] rest).1), (batchSamplerGo [] rest).2) := by
  have hp := hu.p_lt
  have hen := hu.enough
  have hne : u.xs.take (l1R a u) ≠ [] := take_ne_nil _ _ (by unfold l1R; omega) (by unfold l1R; omega)
  unfold l1Evs
  rw [List.append_assoc, c05x_batchSamplerGo_chunkEvs _ _ [] hne, c05x_batchSamplerGo_sidePasses a side hB hside]
  simp

/-- the update-boundary states a run of the per-update machine goes through (at most `n` of them):
    `l1Next` inside an epoch, the start of the next epoch's index list after an epoch end, nothing after the
    update that reaches the budget -/
def c05x_traj (a : Args) (main : Nat → List Nat) : Nat → U → List U
  | 0, _ => []
  | n + 1, u =>
    u :: (match l1Ctl a u with
      | .ret => []
      | .brk => c05x_traj a main n ⟨(l1Next a u).epoch, (l1Next a u).update, (l1Next a u).sample, 0,
          main (l1Next a u).epoch⟩
      | .cont => c05x_traj a main n (l1Next a u))

/-- what the stream contains for the update made from boundary state `u`: the update's own events and, if the
    update ended an epoch without reaching the budget, the `set_epoch` call that opens the next epoch -/
def c05x_block (a : Args) (side : Nat → Nat → List Nat) (u : U) : List Ev :=
  l1Evs a side u ++ (if l1Ctl a u = .brk then [Ev.setEpoch (l1Next a u).epoch] else [])

/-- **the stream is the sequence of its update blocks** -/
theorem c05x_l1Loop_blocks (a : Args) (main : Nat → List Nat) (side : Nat → Nat → List Nat) :
    ∀ (n : Nat) (u : U) (evs : List Ev), l1Loop a main side n u = some evs →
      evs = (c05x_traj a main n u).flatMap (c05x_block a side) := by
  intro n
  induction n with
  | zero => intro u evs h; simp [l1Loop] at h
  | succ n ih =>
    intro u evs h
    simp only [l1Loop] at h
    simp only [c05x_traj, List.flatMap_cons, c05x_block]
    rcases hctl : l1Ctl a u with _ | _ | _
    · rw [hctl] at h
      simp only at h
      rcases hrec : l1Loop a main side n (l1Next a u) with _ | rest
      · rw [hrec] at h; simp at h
      · rw [hrec] at h
        simp only [Option.map_some, Option.some.injEq] at h
        rw [← h, ih _ rest hrec]
        simp
    · rw [hctl] at h
      simp only at h
      rcases hrec : l1Loop a main side n ⟨(l1Next a u).epoch, (l1Next a u).update, (l1Next a u).sample, 0,
            main (l1Next a u).epoch⟩ with _ | rest
      · rw [hrec] at h; simp at h
      · rw [hrec] at h
        simp only [Option.map_some, Option.some.injEq] at h
        rw [← h, ih _ rest hrec]
        simp
    · rw [hctl] at h
      simp only [Option.some.injEq] at h
      rw [← h]
      simp

/-- every boundary state of the trajectory is well formed and its index list lies in the main data source -/
theorem c05x_traj_ok (a : Args) (main : Nat → List Nat) (hS : 0 < spe a) (hmain : ∀ e, spe a ≤ (main e).length)
    (hmainlt : ∀ e x, x ∈ main e → x < a.mainDsLen) :
    ∀ (n : Nat) (u : U), u.Ok a → (∀ x ∈ u.xs, x < a.mainDsLen) →
      ∀ v ∈ c05x_traj a main n u, v.Ok a ∧ ∀ x ∈ v.xs, x < a.mainDsLen := by
  intro n
  induction n with
  | zero => intro u _ _ v hv; simp [c05x_traj] at hv
  | succ n ih =>
    intro u hu hxs v hv
    simp only [c05x_traj, List.mem_cons] at hv
    rcases hv with hv | hv
    · subst hv; exact ⟨hu, hxs⟩
    · rcases hctl : l1Ctl a u with _ | _ | _
      · rw [hctl] at hv
        exact ih _ (l1Next_ok a u hu hctl) (fun x hx => hxs x (List.mem_of_mem_drop hx)) v hv
      · rw [hctl] at hv
        exact ih _ (enter_ok a main hS hmain _ _ _) (fun x hx => hmainlt _ x hx) v hv
      · rw [hctl] at hv; simp at hv

/-- the `j`-th block of the stream is the update number `start + j + 1` -/
theorem c05x_traj_update (a : Args) (main : Nat → List Nat) :
    ∀ (n : Nat) (u : U) (j : Nat) (v : U), (c05x_traj a main n u)[j]? = some v → v.update = u.update + j := by
  intro n
  induction n with
  | zero => intro u j v h; simp [c05x_traj] at h
  | succ n ih =>
    intro u j v h
    cases j with
    | zero =>
      simp only [c05x_traj, List.getElem?_cons_zero, Option.some.injEq] at h
      subst h; rfl
    | succ j =>
      simp only [c05x_traj, List.getElem?_cons_succ] at h
      rcases hctl : l1Ctl a u with _ | _ | _
      · rw [hctl] at h
        have := ih _ j v h
        rw [this]; simp only [l1Next]; omega
      · rw [hctl] at h
        have := ih _ j v h
        rw [this]; simp only [l1Next]; omega
      · rw [hctl] at h; simp at h

/-- the batches of the update made from `u`, in closed form -/
def c05x_blockBatches (a : Args) (side : Nat → Nat → List Nat) (u : U) : List (List Nat) :=
  u.xs.take (l1R a u) ::
    c05x_sideBatches a side (decide (u.p + l1R a u = spe a)) (l1Next a u).epoch (l1Next a u).update
      (l1Next a u).sample u.sample

theorem c05x_batchSamplerGo_block (a : Args) (side : Nat → Nat → List Nat) (hB : 0 < a.B)
    (hside : SideOk a side) (u : U) (hu : u.Ok a) (rest : List Ev) :
    batchSamplerGo [] (c05x_block a side u ++ rest) =
      (c05x_blockBatches a side u ++ (batchSamplerGo [] rest).1, (batchSamplerGo [] rest).2) := by
  unfold c05x_block c05x_blockBatches
  rw [List.append_assoc, c05x_batchSamplerGo_l1Evs a side hB hside u hu]
  by_cases hb : l1Ctl a u = .brk
  · simp [hb, batchSamplerGo]
  · simp [hb]

/-! ## 4. resolution of the stream's index events through the concat dataset -/

/-- what the data loader fetches for a stream: `_InterleavedConcatDataset.__getitem__` of every index event, in
    order (`set_epoch` calls are not part of the index stream) -/
def c05x_resolved (szs : List Nat) : List Ev → List (Nat × Nat)
  | [] => []
  | .setEpoch _ :: r => c05x_resolved szs r
  | .idx _ i :: r => concatGet szs i :: c05x_resolved szs r

theorem c05x_resolved_append (szs : List Nat) : ∀ (xs ys : List Ev),
    c05x_resolved szs (xs ++ ys) = c05x_resolved szs xs ++ c05x_resolved szs ys := by
  intro xs ys
  induction xs with
  | nil => rfl
  | cons x xs ih => cases x <;> simp [c05x_resolved, ih]

theorem c05x_resolved_flatMap {α} (szs : List Nat) (f : α → List Ev) : ∀ (l : List α),
    c05x_resolved szs (l.flatMap f) = l.flatMap (fun x => c05x_resolved szs (f x)) := by
  intro l
  induction l with
  | nil => rfl
  | cons x l ih => simp only [List.flatMap_cons, c05x_resolved_append, ih]

theorem c05x_resolved_chunkEvs (szs : List Nat) : ∀ (c : List Nat),
    c05x_resolved szs (chunkEvs c) = c.map (concatGet szs) := by
  intro c
  induction c with
  | nil => rfl
  | cons x c ih =>
    cases c with
    | nil => rfl
    | cons y r => simp only [chunkEvs, c05x_resolved, ih, List.map_cons]

theorem c05x_resolved_sidePassAux (szs : List Nat) (bs len off : Nat) : ∀ (xs : List Nat) (k : Nat),
    c05x_resolved szs (sidePassAux bs len off k xs) = xs.map (fun x => concatGet szs (off + x)) := by
  intro xs
  induction xs with
  | nil => intro k; rfl
  | cons x xs ih => intro k; simp only [sidePassAux, c05x_resolved, ih, List.map_cons]

/-- an index of config `i`'s sampler, shifted by that config's offset, resolves to (dataset `i+1`, that index) -/
theorem c05x_concatGet_side (a : Args) (i : Nat) (c : Config) (h : a.configs[i]? = some c) (y : Nat)
    (hy : y < c.dsLen) : concatGet (dsSizes a) (cfgOffset a i + y) = (i + 1, y) := by
  rcases List.getElem?_eq_some_iff.mp h with ⟨hi, hc⟩
  rw [c05x_cfgOffset_eq]
  apply concatGet_offset
  · simp [dsSizes]; omega
  · simp [dsSizes, hi, hc]; exact hy

theorem c05x_concatGet_main (a : Args) (x : Nat) (hx : x < a.mainDsLen) : concatGet (dsSizes a) x = (0, x) := by
  have := concatGet_offset (dsSizes a) 0 x (by simp [dsSizes]) (by simpa [dsSizes] using hx)
  simpa [sumList] using this

/-- a main batch resolves to (dataset 0, the main sampler's own index), index by index -/
theorem c05x_resolved_main (a : Args) (c : List Nat) (hc : ∀ x ∈ c, x < a.mainDsLen) :
    c05x_resolved (dsSizes a) (chunkEvs c) = c.map (fun x => (0, x)) := by
  rw [c05x_resolved_chunkEvs]
  apply List.map_congr_left
  intro x hx
  exact c05x_concatGet_main a x (hc x hx)

/-- a side pass of config `i` resolves to (dataset `i+1`, the side sampler's own index), index by index -/
theorem c05x_resolved_sidePass (a : Args) (i : Nat) (c : Config) (h : a.configs[i]? = some c) (bs len : Nat)
    (xs : List Nat) (hxs : ∀ y ∈ xs, y < c.dsLen) :
    c05x_resolved (dsSizes a) (sidePass bs len (cfgOffset a i) xs) = xs.map (fun y => (i + 1, y)) := by
  unfold sidePass
  rw [c05x_resolved_sidePassAux]
  apply List.map_congr_left
  intro y hy
  exact c05x_concatGet_side a i c h y (hxs y hy)

/-- what the side passes after one update are drawn for: for every due config, in config order,
    (dataset `i+1`, index) for every index its sampler yields -/
def c05x_sideDrawn (a : Args) (side : Nat → Nat → List Nat) (ee : Bool) (e up s sal : Nat) : List (Nat × Nat) :=
  a.configs.zipIdx.flatMap (fun ci =>
    if due ci.1 ee e up s sal then (side ci.2 up).map (fun y => (ci.2 + 1, y)) else [])

theorem c05x_resolved_sidePasses (a : Args) (side : Nat → Nat → List Nat) (hside : SideOk a side)
    (ee : Bool) (e up s sal : Nat) :
    c05x_resolved (dsSizes a) (sidePasses a side ee e up s sal) = c05x_sideDrawn a side ee e up s sal := by
  rw [c05x_sidePasses_closed, c05x_resolved_flatMap]
  unfold c05x_sideDrawn
  apply c05x_flatMap_congr
  intro ci hci
  have hc : a.configs[ci.2]? = some ci.1 := List.mem_zipIdx_iff_getElem?.mp hci
  by_cases hd : due ci.1 ee e up s sal = true
  · rw [if_pos hd, if_pos hd]
    exact c05x_resolved_sidePass a ci.2 ci.1 hc _ _ _ (hside ci.2 ci.1 hc up).2
  · rw [if_neg hd, if_neg hd]; rfl

/-- what the update made from `u` is drawn for -/
def c05x_blockDrawn (a : Args) (side : Nat → Nat → List Nat) (u : U) : List (Nat × Nat) :=
  (u.xs.take (l1R a u)).map (fun x => (0, x)) ++
    c05x_sideDrawn a side (decide (u.p + l1R a u = spe a)) (l1Next a u).epoch (l1Next a u).update
      (l1Next a u).sample u.sample

theorem c05x_resolved_block (a : Args) (side : Nat → Nat → List Nat) (hside : SideOk a side) (u : U)
    (hxs : ∀ x ∈ u.xs, x < a.mainDsLen) :
    c05x_resolved (dsSizes a) (c05x_block a side u) = c05x_blockDrawn a side u := by
  unfold c05x_block c05x_blockDrawn l1Evs
  rw [c05x_resolved_append, c05x_resolved_append, c05x_resolved_sidePasses a side hside,
    c05x_resolved_main a _ (fun x hx => hxs x (List.mem_of_mem_take hx))]
  by_cases hb : l1Ctl a u = .brk
  · simp [hb, c05x_resolved]
  · simp [hb, c05x_resolved]

/-! ### `concatGet` on any valid index, and negative indices -/

theorem c05x_decomp : ∀ (szs : List Nat) (idx : Nat), idx < sumList szs →
    ∃ d x, d < szs.length ∧ x < szs.getD d 0 ∧ idx = sumList (szs.take d) + x := by
  intro szs
  induction szs with
  | nil => intro idx h; simp [sumList] at h
  | cons s ss ih =>
    intro idx h
    by_cases hlt : idx < s
    · exact ⟨0, idx, by simp, by simpa using hlt, by simp [sumList]⟩
    · simp only [sumList] at h
      obtain ⟨d, x, hd, hx, he⟩ := ih (idx - s) (by omega)
      refine ⟨d + 1, x, by simp; omega, by simpa using hx, ?_⟩
      simp only [List.take_succ_cons, sumList]
      omega

/-- **`_InterleavedConcatDataset.__getitem__` on any index below the total length**: the result `(d, x)` is the
    unique pair with `d` a dataset, `x` inside dataset `d`, and `idx = (sum of the sizes before d) + x` -/
theorem c05x_concatGet_spec (szs : List Nat) (idx : Nat) (h : idx < sumList szs) :
    (concatGet szs idx).1 < szs.length ∧ (concatGet szs idx).2 < szs.getD (concatGet szs idx).1 0 ∧
    idx = sumList (szs.take (concatGet szs idx).1) + (concatGet szs idx).2 := by
  obtain ⟨d, x, hd, hx, he⟩ := c05x_decomp szs idx h
  have := concatGet_offset szs d x hd hx
  rw [← he] at this
  rw [this]
  exact ⟨hd, hx, he⟩

theorem c05x_cumsum_getLastD : ∀ (szs : List Nat) (acc : Nat),
    (cumsum acc szs).getLastD acc = acc + sumList szs := by
  intro szs
  induction szs with
  | nil => intro acc; simp [cumsum, sumList]
  | cons s ss ih =>
    intro acc
    simp only [cumsum, List.getLastD_cons, ih, sumList]
    omega

/-- `len(self)` of the concat dataset is the sum of the sizes -/
theorem c05x_total (szs : List Nat) : (cumsum 0 szs).getLastD 0 = sumList szs := by
  rw [c05x_cumsum_getLastD]; omega

/-- **negative index**: `ds[-m]` (`m ≥ 1`) raises ValueError iff `m > len(ds)`, else it is `ds[len(ds) - m]` -/
theorem c05x_concatGetInt_neg (szs : List Nat) (m : Nat) (hm : 0 < m) :
    concatGetInt szs (-(m : Int)) =
      if sumList szs < m then none else some (concatGet szs (sumList szs - m)) := by
  unfold concatGetInt
  simp only [c05x_total]
  have hneg : (-(m : Int)) < 0 := by omega
  rw [if_pos hneg]
  by_cases hgt : sumList szs < m
  · rw [if_pos hgt, if_pos (by omega)]
  · rw [if_neg hgt, if_neg (by omega)]
    congr 2
    omega

theorem c05x_concatGetInt_nonneg (szs : List Nat) (n : Nat) :
    concatGetInt szs (n : Int) = some (concatGet szs n) := by
  unfold concatGetInt
  have : ¬ ((n : Int) < 0) := by omega
  simp [this]

/-! ## 5. a side index only directly after a complete main batch or another side index -/

/-- scan of a stream: `ok` says whether a side index (an index `≥ mds`) may come next. It may after a main index
    flagged "batch complete" and after another side index; it may not at the start, after a `set_epoch`, or after
    a main index inside an unfinished batch. -/
def c05x_sideGuard (mds : Nat) : Bool → List Ev → Bool
  | _, [] => true
  | _, .setEpoch _ :: r => c05x_sideGuard mds false r
  | ok, .idx f i :: r => if i < mds then c05x_sideGuard mds f r else ok && c05x_sideGuard mds true r

/-- the scan's state after a stream -/
def c05x_sideSt (mds : Nat) : Bool → List Ev → Bool
  | ok, [] => ok
  | _, .setEpoch _ :: r => c05x_sideSt mds false r
  | _, .idx f i :: r => if i < mds then c05x_sideSt mds f r else c05x_sideSt mds true r

theorem c05x_sideGuard_append (mds : Nat) : ∀ (xs ys : List Ev) (ok : Bool),
    c05x_sideGuard mds ok (xs ++ ys) = (c05x_sideGuard mds ok xs && c05x_sideGuard mds (c05x_sideSt mds ok xs) ys) := by
  intro xs ys
  induction xs with
  | nil => intro ok; simp [c05x_sideGuard, c05x_sideSt]
  | cons x xs ih =>
    intro ok
    cases x with
    | setEpoch e => simp [c05x_sideGuard, c05x_sideSt, ih]
    | idx f i =>
      by_cases h : i < mds
      · simp [c05x_sideGuard, c05x_sideSt, h, ih]
      · simp [c05x_sideGuard, c05x_sideSt, h, ih, Bool.and_assoc]

theorem c05x_sideSt_append (mds : Nat) : ∀ (xs ys : List Ev) (ok : Bool),
    c05x_sideSt mds ok (xs ++ ys) = c05x_sideSt mds (c05x_sideSt mds ok xs) ys := by
  intro xs ys
  induction xs with
  | nil => intro ok; rfl
  | cons x xs ih =>
    intro ok
    cases x with
    | setEpoch e => simp [c05x_sideSt, ih]
    | idx f i =>
      by_cases h : i < mds
      · simp [c05x_sideSt, h, ih]
      · simp [c05x_sideSt, h, ih]

theorem c05x_sideGuard_chunkEvs (mds : Nat) : ∀ (c : List Nat) (ok : Bool), c ≠ [] → (∀ x ∈ c, x < mds) →
    c05x_sideGuard mds ok (chunkEvs c) = true ∧ c05x_sideSt mds ok (chunkEvs c) = true := by
  intro c
  induction c with
  | nil => intro ok h; exact absurd rfl h
  | cons x c ih =>
    intro ok _ hc
    have hx : x < mds := hc x (by simp)
    cases c with
    | nil => simp [chunkEvs, c05x_sideGuard, c05x_sideSt, hx]
    | cons y r =>
      have := ih false (by simp) (fun z hz => hc z (List.mem_cons_of_mem _ hz))
      simp only [chunkEvs, c05x_sideGuard, c05x_sideSt, hx, if_true]
      exact this

theorem c05x_sideGuard_sidePassAux (mds bs len off : Nat) (hoff : mds ≤ off) : ∀ (xs : List Nat) (k : Nat),
    c05x_sideGuard mds true (sidePassAux bs len off k xs) = true ∧
    c05x_sideSt mds true (sidePassAux bs len off k xs) = true := by
  intro xs
  induction xs with
  | nil => intro k; simp [sidePassAux, c05x_sideGuard, c05x_sideSt]
  | cons x xs ih =>
    intro k
    have : ¬ (off + x < mds) := by omega
    simp only [sidePassAux, c05x_sideGuard, c05x_sideSt, this, if_false, Bool.true_and]
    exact ih (k + 1)

theorem c05x_sideGuard_sidePassesGo (a : Args) (side : Nat → Nat → List Nat) (mds : Nat) (ee : Bool)
    (e up s sal : Nat) : ∀ (cs : List Config) (i off : Nat), mds ≤ off →
      c05x_sideGuard mds true (sidePassesGo a side ee e up s sal i off cs) = true ∧
      c05x_sideSt mds true (sidePassesGo a side ee e up s sal i off cs) = true := by
  intro cs
  induction cs with
  | nil => intro i off _; simp [sidePassesGo, c05x_sideGuard, c05x_sideSt]
  | cons c cs ih =>
    intro i off hoff
    have hrec := ih (i + 1) (off + c.dsLen) (by omega)
    simp only [sidePassesGo, c05x_sideGuard_append, c05x_sideSt_append]
    by_cases hd : due c ee e up s sal = true
    · rw [if_pos hd]
      have := c05x_sideGuard_sidePassAux mds (sideBS a c) c.len off hoff (side i up) 0
      unfold sidePass
      rw [this.1, this.2, hrec.1, hrec.2]; simp
    · rw [if_neg hd]
      simp only [c05x_sideGuard, c05x_sideSt, Bool.true_and]
      exact hrec

theorem c05x_sideGuard_block (a : Args) (side : Nat → Nat → List Nat) (hB : 0 < a.B) (u : U) (hu : u.Ok a)
    (hxs : ∀ x ∈ u.xs, x < a.mainDsLen) (ok : Bool) :
    c05x_sideGuard a.mainDsLen ok (c05x_block a side u) = true := by
  have hp := hu.p_lt
  have hen := hu.enough
  have hne : u.xs.take (l1R a u) ≠ [] := take_ne_nil _ _ (by unfold l1R; omega) (by unfold l1R; omega)
  have h1 := c05x_sideGuard_chunkEvs a.mainDsLen _ ok hne (fun x hx => hxs x (List.mem_of_mem_take hx))
  have h2 := c05x_sideGuard_sidePassesGo a side a.mainDsLen (decide (u.p + l1R a u = spe a)) (l1Next a u).epoch
    (l1Next a u).update (l1Next a u).sample u.sample a.configs 0 a.mainDsLen (Nat.le_refl _)
  unfold c05x_block l1Evs sidePasses
  rw [c05x_sideGuard_append, c05x_sideGuard_append, h1.1, h1.2, h2.1]
  by_cases hb : l1Ctl a u = .brk
  · simp [hb, c05x_sideGuard]
  · simp [hb, c05x_sideGuard]

theorem c05x_sideGuard_flatMap {α} (mds : Nat) (f : α → List Ev) : ∀ (l : List α) (ok : Bool),
    (∀ x ∈ l, ∀ ok', c05x_sideGuard mds ok' (f x) = true) → c05x_sideGuard mds ok (l.flatMap f) = true := by
  intro l
  induction l with
  | nil => intro ok _; rfl
  | cons x l ih =>
    intro ok h
    simp only [List.flatMap_cons, c05x_sideGuard_append]
    rw [h x (by simp) ok, ih _ (fun y hy => h y (List.mem_cons_of_mem _ hy))]
    rfl

/-- what the scan means for two neighbouring events: a side index is never preceded by a `set_epoch` or by a main
    index that does not complete its batch -/
theorem c05x_sideGuard_adjacent (mds : Nat) : ∀ (pre : List Ev) (ok : Bool) (e : Ev) (f : Bool) (x : Nat)
    (post : List Ev), c05x_sideGuard mds ok (pre ++ e :: Ev.idx f x :: post) = true → mds ≤ x →
      ∃ g y, e = Ev.idx g y ∧ (mds ≤ y ∨ g = true) := by
  intro pre
  induction pre with
  | nil =>
    intro ok e f x post h hx
    have hnx : ¬ (x < mds) := by omega
    cases e with
    | setEpoch e' => simp [c05x_sideGuard, hnx] at h
    | idx g y =>
      refine ⟨g, y, rfl, ?_⟩
      by_cases hy : y < mds
      · right
        simp [c05x_sideGuard, hy, hnx] at h
        exact h.1
      · left; omega
  | cons p pre ih =>
    intro ok e f x post h hx
    cases p with
    | setEpoch e' =>
      simp only [List.cons_append, c05x_sideGuard] at h
      exact ih _ e f x post h hx
    | idx g y =>
      simp only [List.cons_append, c05x_sideGuard] at h
      by_cases hy : y < mds
      · rw [if_pos hy] at h; exact ih _ e f x post h hx
      · rw [if_neg hy] at h
        simp only [Bool.and_eq_true] at h
        exact ih _ e f x post h.2 hx

/-- the first event of a guarded stream (scanned from "not allowed") is not a side index -/
theorem c05x_sideGuard_head (mds : Nat) (f : Bool) (x : Nat) (post : List Ev)
    (h : c05x_sideGuard mds false (Ev.idx f x :: post) = true) : x < mds := by
  by_cases hx : x < mds
  · exact hx
  · simp [c05x_sideGuard, hx] at h

/-! ## 6. the collator dispatch -/

/-- `_InterleavedCollator.__call__`: the fetched samples come with their dataset index; the collator asserts that
    all dataset indices of the batch are equal and dispatches to the collator of that dataset
    (`none` = the assertion fails, or the batch is empty and `zip(*data)` cannot be unpacked) -/
def collateDispatch : List Nat → Option Nat
  | [] => none
  | d :: ds => if ds.all (· == d) then some d else none

theorem c05x_collateDispatch_const (d : Nat) (b : List Nat) (hne : b ≠ []) (h : ∀ x ∈ b, x = d) :
    collateDispatch b = some d := by
  cases b with
  | nil => exact absurd rfl hne
  | cons x xs =>
    have hx : x = d := h x (by simp)
    subst hx
    simp only [collateDispatch]
    rw [if_pos]
    simp only [List.all_eq_true, beq_iff_eq]
    intro y hy
    exact h y (List.mem_cons_of_mem _ hy)

/-! ## 7. whole-stream forms, the evaluation stream, and batches vs. collator -/

theorem c05x_cfgOk_samples_pos (c : Config) (hc : cfgOk c = true) : ∀ n, c.everyNSamples = some n → 0 < n := by
  intro n hn
  cases n with
  | zero => simp [cfgOk, hn] at hc
  | succ n => omega

theorem c05x_l1_blocks (a : Args) (main : Nat → List Nat) (side : Nat → Nat → List Nat) (n : Nat) (s : Start)
    (evs : List Ev) (h : l1 a main side n s = some evs) :
    evs = Ev.setEpoch s.epoch :: (c05x_traj a main n (l1Start main s)).flatMap (c05x_block a side) := by
  simp only [l1] at h
  rcases hrec : l1Loop a main side n (l1Start main s) with _ | body
  · rw [hrec] at h; simp at h
  · rw [hrec] at h
    simp only [Option.map_some, Option.some.injEq] at h
    rw [← h, c05x_l1Loop_blocks a main side n _ body hrec]

theorem c05x_start_ok (a : Args) (main : Nat → List Nat) (hS : 0 < spe a) (hmain : ∀ e, spe a ≤ (main e).length)
    (s : Start) : (l1Start main s).Ok a :=
  ⟨hS, by simp only [l1Start, Nat.sub_zero]; exact hmain _⟩

theorem c05x_batchSampler_blocks (a : Args) (side : Nat → Nat → List Nat)
    (hB : 0 < a.B) (hside : SideOk a side) (us : List U) (hus : ∀ v ∈ us, v.Ok a) (e : Nat) :
    batchSampler (Ev.setEpoch e :: us.flatMap (c05x_block a side)) =
      (us.flatMap (c05x_blockBatches a side), []) := by
  unfold batchSampler
  simp only [batchSamplerGo]
  have := c05x_batchSamplerGo_flatMap (c05x_block a side) (c05x_blockBatches a side) us
    (fun v hv rest => c05x_batchSamplerGo_block a side hB hside v (hus v hv) rest) []
  simpa [batchSamplerGo] using this

theorem c05x_resolved_blocks (a : Args) (side : Nat → Nat → List Nat) (hside : SideOk a side) (us : List U)
    (hus : ∀ v ∈ us, ∀ x ∈ v.xs, x < a.mainDsLen) (e : Nat) :
    c05x_resolved (dsSizes a) (Ev.setEpoch e :: us.flatMap (c05x_block a side)) =
      us.flatMap (c05x_blockDrawn a side) := by
  simp only [c05x_resolved]
  rw [c05x_resolved_flatMap]
  apply c05x_flatMap_congr
  intro v hv
  exact c05x_resolved_block a side hside v (hus v hv)

/-! ### evaluation stream -/

theorem Blocks.c05x_flatMap {α} {szs : List Nat} (f : α → List Ev) : ∀ (l : List α),
    (∀ x ∈ l, Blocks szs (f x)) → Blocks szs (l.flatMap f) := by
  intro l
  induction l with
  | nil => intro _; exact Blocks.nil
  | cons x l ih =>
    intro h
    simp only [List.flatMap_cons]
    exact (h x (by simp)).append (ih (fun y hy => h y (List.mem_cons_of_mem _ hy)))

theorem c05x_evalLoop_blocks (a : Args) (side : Nat → Nat → List Nat) (hside : SideOk a side) :
    Blocks (dsSizes a) (evalLoop a side) := by
  rw [c05x_evalLoop_closed]
  apply Blocks.c05x_flatMap
  intro ci hci
  have hc : a.configs[ci.2]? = some ci.1 := List.mem_zipIdx_iff_getElem?.mp hci
  rw [c05x_cfgOffset_eq]
  exact sidePass_blocks a ci.2 ci.1 hc _ _ (hside ci.2 ci.1 hc 0).1 (hside ci.2 ci.1 hc 0).2

theorem c05x_batchSampler_evalLoop (a : Args) (side : Nat → Nat → List Nat) (hB : 0 < a.B)
    (hside : SideOk a side) :
    batchSampler (evalLoop a side) =
      (a.configs.zipIdx.flatMap (fun ci =>
        chunks (sideBS a ci.1) ((side ci.2 0).map (cfgOffset a ci.2 + ·))), []) := by
  rw [c05x_evalLoop_closed]
  unfold batchSampler
  have := c05x_batchSamplerGo_flatMap
    (fun (ci : Config × Nat) => sidePass (sideBS a ci.1) ci.1.len (cfgOffset a ci.2) (side ci.2 0))
    (fun ci => chunks (sideBS a ci.1) ((side ci.2 0).map (cfgOffset a ci.2 + ·))) a.configs.zipIdx
    (fun ci hci rest => by
      have hc : a.configs[ci.2]? = some ci.1 := List.mem_zipIdx_iff_getElem?.mp hci
      exact c05x_batchSamplerGo_sidePass _ _ _ (c05x_sideBS_pos a ci.1 hB) _ (hside ci.2 ci.1 hc 0).1 rest) []
  simpa [batchSamplerGo] using this

theorem c05x_resolved_evalLoop (a : Args) (side : Nat → Nat → List Nat) (hside : SideOk a side) :
    c05x_resolved (dsSizes a) (evalLoop a side) =
      a.configs.zipIdx.flatMap (fun ci => (side ci.2 0).map (fun y => (ci.2 + 1, y))) := by
  rw [c05x_evalLoop_closed, c05x_resolved_flatMap]
  apply c05x_flatMap_congr
  intro ci hci
  have hc : a.configs[ci.2]? = some ci.1 := List.mem_zipIdx_iff_getElem?.mp hci
  exact c05x_resolved_sidePass a ci.2 ci.1 hc _ _ _ (hside ci.2 ci.1 hc 0).2

/-! ### batches and the collator -/

theorem c05x_batchSamplerGo_nonempty : ∀ (evs : List Ev) (acc : List Nat),
    ∀ b ∈ (batchSamplerGo acc evs).1, b ≠ [] := by
  intro evs
  induction evs with
  | nil => intro acc b hb; simp [batchSamplerGo] at hb
  | cons e evs ih =>
    intro acc b hb
    cases e with
    | setEpoch e' => exact ih acc b (by simpa [batchSamplerGo] using hb)
    | idx f i =>
      cases f with
      | false => exact ih _ b (by simpa [batchSamplerGo] using hb)
      | true =>
        simp only [batchSamplerGo, if_true, List.mem_cons] at hb
        rcases hb with hb | hb
        · rw [hb]; simp
        · exact ih _ b hb

/-- an index inside dataset `d`'s range resolves to dataset `d` and to its position in that dataset -/
theorem c05x_concatGet_inDs (szs : List Nat) (d i : Nat) (h : inDs szs d i) :
    concatGet szs i = (d, i - sumList (szs.take d)) := by
  obtain ⟨h1, h2⟩ := h
  have hd : d < szs.length := by
    apply Classical.byContradiction
    intro hn
    rw [List.take_of_length_le (by omega)] at h1
    rw [List.take_of_length_le (by omega)] at h2
    omega
  rw [sumList_take_succ szs d hd] at h2
  have := concatGet_offset szs d (i - sumList (szs.take d)) hd (by
    rw [List.getD_eq_getElem?_getD, List.getElem?_eq_getElem hd]; simp; omega)
  have e : sumList (szs.take d) + (i - sumList (szs.take d)) = i := by omega
  rw [e] at this
  exact this

/-- a non-empty batch whose indices all lie in dataset `d` passes the collator's assertion and is handed to
    collator number `d` -/
theorem c05x_collate_of_inDs (szs : List Nat) (d : Nat) (b : List Nat) (hne : b ≠ [])
    (h : ∀ i ∈ b, inDs szs d i) : collateDispatch (b.map (fun i => (concatGet szs i).1)) = some d := by
  apply c05x_collateDispatch_const
  · simpa using hne
  · intro x hx
    obtain ⟨i, hi, rfl⟩ := List.mem_map.mp hx
    rw [c05x_concatGet_inDs szs d i (h i hi)]

end KDVerif.Interleaved
