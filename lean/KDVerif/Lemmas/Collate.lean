/-
Helper lemmas for C18: per-step characterisation of `_call_impl`'s flag machine (all members probes),
then the two phases (before / after default_collate has been called).
-/
import KDVerif.Model.Collate

namespace KDVerif.Collate

/-- control skeleton of a trace: batch collations and member calls (with how often the batch they see was collated) -/
inductive K where
  | dc
  | mem (t : Nat)
deriving DecidableEq, Repr

def skelEv : Ev → Option K
  | .dc => some .dc
  | .dcCtx => none
  | .member t _ => some (.mem t)

def skel (tr : List Ev) : List K := tr.filterMap skelEv

theorem skel_append (a b : List Ev) : skel (a ++ b) = skel a ++ skel b := by
  simp [skel, List.filterMap_append]

theorem dcBatch_times {p : Bool} {b b' : BatchV} {c : Option Ctx} (h : dcBatch p b = .ok (b', c)) :
    timesOf b' = timesOf b + 1 := by
  unfold dcBatch at h
  cases b with
  | raw ss =>
    simp only at h
    split at h
    · simp at h
    · split at h
      · split at h
        · simp at h
        · simp only [Except.ok.injEq, Prod.mk.injEq] at h
          rw [← h.1]; simp [timesOf]
      · simp only [Except.ok.injEq, Prod.mk.injEq] at h
        rw [← h.1]; simp [timesOf]
  | items xs =>
    simp only at h
    split at h
    · simp at h
    · simp only [Except.ok.injEq, Prod.mk.injEq] at h
      rw [← h.1]; simp [timesOf]
  | collated n cols =>
    simp only [Except.ok.injEq, Prod.mk.injEq] at h
    rw [← h.1]; simp [timesOf]


theorem step_ok {rc : Bool} {st st' : St} {m : Member} (h : step rc st m = .ok st') :
    ∃ s1 s2 s3 s4, assertNone m.mode st = .ok s1 ∧ beforeStep rc m.mode s1 = .ok s2 ∧ splitStep rc s2 = .ok s3 ∧
      callStep m s3 = .ok s4 ∧ afterStep m.mode s4 = .ok st' := by
  unfold step at h
  cases h1 : assertNone m.mode st with
  | error e => simp [h1] at h
  | ok s1 =>
    simp only [h1] at h
    cases h2 : beforeStep rc m.mode s1 with
    | error e => simp [h2] at h
    | ok s2 =>
      simp only [h2] at h
      cases h3 : splitStep rc s2 with
      | error e => simp [h3] at h
      | ok s3 =>
        simp only [h3] at h
        cases h4 : callStep m s3 with
        | error e => simp [h4] at h
        | ok s4 =>
          simp only [h4] at h
          refine ⟨s1, s2, s3, s4, ?_, ?_, ?_, ?_, h⟩ <;> first | rfl | assumption

theorem assertNone_ok {m : Mode} {st s1 : St} (h : assertNone m st = .ok s1) :
    s1 = st ∧ ¬(m = .none ∧ st.called = true) := by
  unfold assertNone at h
  by_cases hc : m = .none ∧ st.called = true
  · simp [hc] at h
  · simp only [hc, if_false, Except.ok.injEq] at h
    exact ⟨h.symm, hc⟩

theorem beforeStep_skip {rc : Bool} {m : Mode} {st : St} (h : ¬(m = .before ∧ st.called = false)) :
    beforeStep rc m st = .ok st := by
  unfold beforeStep; simp only [h, if_false]

theorem beforeStep_do {rc : Bool} {m : Mode} {st s2 : St} (hm : m = .before) (hc : st.called = false)
    (h : beforeStep rc m st = .ok s2) :
    s2.called = true ∧ timesOf s2.batch = timesOf st.batch + 1 ∧ s2.trace = st.trace ++ [.dc] ∧ s2.removed = st.removed := by
  unfold beforeStep at h
  have hcond : m = .before ∧ st.called = false := ⟨hm, hc⟩
  simp only [hcond, and_self, if_true] at h
  cases hd : dcBatch (rc && !st.removed) st.batch with
  | error e => simp [hd] at h
  | ok bc =>
    obtain ⟨b, c?⟩ := bc
    simp only [hd] at h
    have ht := dcBatch_times hd
    by_cases hp : (rc && !st.removed) = true
    · simp only [hp, if_true] at h
      cases c? with
      | none => simp at h
      | some c =>
        simp only [Except.ok.injEq] at h
        subst h
        exact ⟨rfl, ht, rfl, rfl⟩
    · simp only [hp] at h
      simp only [Bool.false_eq_true, if_false, Except.ok.injEq] at h
      subst h
      exact ⟨rfl, ht, rfl, rfl⟩

theorem splitStep_ok {rc : Bool} {st s3 : St} (h : splitStep rc st = .ok s3) :
    s3.called = st.called ∧ timesOf s3.batch = timesOf st.batch ∧ skel s3.trace = skel st.trace := by
  unfold splitStep at h
  by_cases hc : st.called = false ∧ rc = true ∧ st.removed = false
  · simp only [hc, and_self, if_true] at h
    cases hb : st.batch with
    | raw ss =>
      simp only [hb] at h
      cases hm : mergeCtx (ss.map Sample.ctx) with
      | error e => simp [hm] at h
      | ok c =>
        simp only [hm, Except.ok.injEq] at h
        subst h
        refine ⟨hc.1.symm, ?_, ?_⟩
        · simp [timesOf]
        · simp [skel, skelEv]
    | items xs => simp [hb] at h
    | collated n cols => simp [hb] at h
  · simp only [hc, if_false, Except.ok.injEq] at h
    subst h
    exact ⟨rfl, rfl, rfl⟩

theorem callStep_probe {mode : Mode} {key : Option Nat} {st s4 : St} (h : callStep (.probe mode key) st = .ok s4) :
    s4.called = st.called ∧ s4.batch = st.batch ∧ skel s4.trace = skel st.trace ++ [.mem (timesOf st.batch)] := by
  unfold callStep at h
  cases key with
  | none =>
    simp only [Except.ok.injEq] at h
    subst h
    exact ⟨rfl, rfl, by simp [skel, skelEv]⟩
  | some k =>
    simp only [Except.ok.injEq] at h
    subst h
    exact ⟨rfl, rfl, by simp [skel, skelEv]⟩

theorem afterStep_skip {m : Mode} {st : St} (h : m ≠ .after) : afterStep m st = .ok st := by
  unfold afterStep; simp only [h, if_false]

theorem afterStep_do {m : Mode} {st s5 : St} (hm : m = .after) (h : afterStep m st = .ok s5) :
    st.called = false ∧ s5.called = true ∧ timesOf s5.batch = timesOf st.batch + 1 ∧ s5.trace = st.trace ++ [.dc] := by
  unfold afterStep at h
  simp only [hm, if_true] at h
  by_cases hc : st.called = true
  · simp [hc] at h
  · simp only [hc] at h
    simp only [Bool.false_eq_true, if_false] at h
    cases hd : dcBatch false st.batch with
    | error e => simp [hd] at h
    | ok bc =>
      obtain ⟨b, c?⟩ := bc
      simp only [hd, Except.ok.injEq] at h
      subst h
      exact ⟨by simpa using hc, rfl, dcBatch_times hd, rfl⟩

/-! per-step characterisation (probe members) -/

theorem step_called {rc : Bool} {st st' : St} {mode : Mode} {key : Option Nat} (hc : st.called = true)
    (h : step rc st (.probe mode key) = .ok st') :
    mode = .before ∧ st'.called = true ∧ st'.batch = st.batch ∧ skel st'.trace = skel st.trace ++ [.mem (timesOf st.batch)] := by
  obtain ⟨s1, s2, s3, s4, h1, h2, h3, h4, h5⟩ := step_ok h
  simp only [Member.mode] at h1 h2 h5
  obtain ⟨e1, hn⟩ := assertNone_ok h1
  subst e1
  have hmode : mode = .before := by
    cases mode with
    | none => exact absurd ⟨rfl, hc⟩ hn
    | before => rfl
    | after =>
      have hs : beforeStep rc .after s1 = .ok s1 := beforeStep_skip (by simp)
      rw [hs] at h2
      simp only [Except.ok.injEq] at h2
      subst h2
      obtain ⟨c3, _, _⟩ := splitStep_ok h3
      obtain ⟨c4, _, _⟩ := callStep_probe h4
      obtain ⟨c5, _⟩ := afterStep_do rfl h5
      rw [c4, c3, hc] at c5
      simp at c5
  subst hmode
  have hs : beforeStep rc .before s1 = .ok s1 := beforeStep_skip (by simp [hc])
  rw [hs] at h2
  simp only [Except.ok.injEq] at h2
  subst h2
  have h3' : splitStep rc s1 = .ok s1 := by unfold splitStep; simp [hc]
  rw [h3'] at h3
  simp only [Except.ok.injEq] at h3
  subst h3
  obtain ⟨c4, b4, t4⟩ := callStep_probe h4
  rw [afterStep_skip (by simp)] at h5
  simp only [Except.ok.injEq] at h5
  subst h5
  exact ⟨rfl, by rw [c4, hc], b4, t4⟩

theorem step_uncalled_none {rc : Bool} {st st' : St} {key : Option Nat} (hc : st.called = false)
    (h : step rc st (.probe .none key) = .ok st') :
    st'.called = false ∧ timesOf st'.batch = timesOf st.batch ∧ skel st'.trace = skel st.trace ++ [.mem (timesOf st.batch)] := by
  obtain ⟨s1, s2, s3, s4, h1, h2, h3, h4, h5⟩ := step_ok h
  simp only [Member.mode] at h1 h2 h5
  obtain ⟨e1, _⟩ := assertNone_ok h1
  subst e1
  rw [beforeStep_skip (by simp)] at h2
  simp only [Except.ok.injEq] at h2
  subst h2
  obtain ⟨c3, b3, t3⟩ := splitStep_ok h3
  obtain ⟨c4, b4, t4⟩ := callStep_probe h4
  rw [afterStep_skip (by simp)] at h5
  simp only [Except.ok.injEq] at h5
  subst h5
  exact ⟨by rw [c4, c3, hc], by rw [b4, b3], by rw [t4, t3, b3]⟩

theorem step_uncalled_before {rc : Bool} {st st' : St} {key : Option Nat} (hc : st.called = false)
    (h : step rc st (.probe .before key) = .ok st') :
    st'.called = true ∧ timesOf st'.batch = timesOf st.batch + 1 ∧
      skel st'.trace = skel st.trace ++ [.dc, .mem (timesOf st.batch + 1)] := by
  obtain ⟨s1, s2, s3, s4, h1, h2, h3, h4, h5⟩ := step_ok h
  simp only [Member.mode] at h1 h2 h5
  obtain ⟨e1, _⟩ := assertNone_ok h1
  subst e1
  obtain ⟨c2, b2, t2, _⟩ := beforeStep_do rfl hc h2
  obtain ⟨c3, b3, t3⟩ := splitStep_ok h3
  obtain ⟨c4, b4, t4⟩ := callStep_probe h4
  rw [afterStep_skip (by simp)] at h5
  simp only [Except.ok.injEq] at h5
  subst h5
  refine ⟨by rw [c4, c3, c2], by rw [b4, b3, b2], ?_⟩
  rw [t4, t3, t2, b3, b2, skel_append]
  simp [skel, skelEv]

theorem step_uncalled_after {rc : Bool} {st st' : St} {key : Option Nat} (hc : st.called = false)
    (h : step rc st (.probe .after key) = .ok st') :
    st'.called = true ∧ timesOf st'.batch = timesOf st.batch + 1 ∧
      skel st'.trace = skel st.trace ++ [.mem (timesOf st.batch), .dc] := by
  obtain ⟨s1, s2, s3, s4, h1, h2, h3, h4, h5⟩ := step_ok h
  simp only [Member.mode] at h1 h2 h5
  obtain ⟨e1, _⟩ := assertNone_ok h1
  subst e1
  rw [beforeStep_skip (by simp)] at h2
  simp only [Except.ok.injEq] at h2
  subst h2
  obtain ⟨c3, b3, t3⟩ := splitStep_ok h3
  obtain ⟨c4, b4, t4⟩ := callStep_probe h4
  obtain ⟨_, c5, b5, t5⟩ := afterStep_do rfl h5
  refine ⟨c5, by rw [b5, b4, b3], ?_⟩
  rw [t5, skel_append, t4, t3, b3]
  simp [skel, skelEv]

/-! the two phases -/

def modesOf (ms : List Member) : List Mode := ms.map Member.mode

/-- once default_collate has been called only `before` members are accepted; they all see the same batch -/
theorem run_called {rc : Bool} : ∀ (ms : List Member) (st st' : St), st.called = true →
    (∀ m ∈ ms, m.isProbe = true) → run rc st ms = .ok st' →
    modesOf ms = List.replicate ms.length .before ∧ st'.batch = st.batch ∧
      skel st'.trace = skel st.trace ++ List.replicate ms.length (.mem (timesOf st.batch))
  | [], st, st', _, _, h => by
    simp only [run, Except.ok.injEq] at h
    subst h
    simp [modesOf]
  | m :: ms, st, st', hc, hp, h => by
    unfold run at h
    cases hs : step rc st m with
    | error e => simp [hs] at h
    | ok s1 =>
      simp only [hs] at h
      cases m with
      | pad => have := hp .pad (by simp); simp [Member.isProbe] at this
      | probe mode key =>
        obtain ⟨hm, c1, b1, t1⟩ := step_called hc hs
        have ih := run_called ms s1 st' c1 (fun m hm => hp m (by simp [hm])) h
        obtain ⟨im, ib, it⟩ := ih
        refine ⟨?_, by rw [ib, b1], ?_⟩
        · simp only [modesOf, List.map_cons, List.length_cons, List.replicate_succ, Member.mode, hm] at im ⊢
          rw [im]
        · rw [it, t1, b1, List.append_assoc]
          simp [List.replicate_succ]


/-- the three shapes of a mode list on which no assertion of `_call_impl` fires:
    `None^a`, `None^a · before · before^c`, `None^a · after · before^c` -/
inductive Shape where
  | allNone (a : Nat)
  | viaBefore (a c : Nat)
  | viaAfter (a c : Nat)
deriving DecidableEq, Repr

def Shape.modes : Shape → List Mode
  | .allNone a => List.replicate a .none
  | .viaBefore a c => List.replicate a .none ++ .before :: List.replicate c .before
  | .viaAfter a c => List.replicate a .none ++ .after :: List.replicate c .before

/-- what the property promises for the shape: members in order, `None`/`after` members see the uncollated batch,
    the single default_collate sits right before the first `before` member / right after the `after` member -/
def Shape.skel : Shape → List K
  | .allNone a => List.replicate a (.mem 0)
  | .viaBefore a c => List.replicate a (.mem 0) ++ [.dc, .mem 1] ++ List.replicate c (.mem 1)
  | .viaAfter a c => List.replicate a (.mem 0) ++ [.mem 0, .dc] ++ List.replicate c (.mem 1)

def Shape.times : Shape → Nat
  | .allNone _ => 0
  | _ => 1

def Shape.consNone : Shape → Shape
  | .allNone a => .allNone (a + 1)
  | .viaBefore a c => .viaBefore (a + 1) c
  | .viaAfter a c => .viaAfter (a + 1) c

theorem Shape.consNone_modes (sh : Shape) : sh.consNone.modes = .none :: sh.modes := by
  cases sh <;> simp [Shape.consNone, Shape.modes, List.replicate_succ]

theorem Shape.consNone_skel (sh : Shape) : sh.consNone.skel = .mem 0 :: sh.skel := by
  cases sh <;> simp [Shape.consNone, Shape.skel, List.replicate_succ]

theorem Shape.consNone_times (sh : Shape) : sh.consNone.times = sh.times := by
  cases sh <;> simp [Shape.consNone, Shape.times]

theorem run_uncalled {rc : Bool} : ∀ (ms : List Member) (st st' : St), st.called = false → timesOf st.batch = 0 →
    (∀ m ∈ ms, m.isProbe = true) → run rc st ms = .ok st' →
    ∃ sh : Shape, modesOf ms = sh.modes ∧ skel st'.trace = skel st.trace ++ sh.skel ∧ timesOf st'.batch = sh.times
  | [], st, st', _, ht, _, h => by
    simp only [run, Except.ok.injEq] at h
    subst h
    exact ⟨.allNone 0, by simp [modesOf, Shape.modes], by simp [Shape.skel], by simp [Shape.times, ht]⟩
  | m :: ms, st, st', hc, ht, hp, h => by
    unfold run at h
    cases hs : step rc st m with
    | error e => simp [hs] at h
    | ok s1 =>
      simp only [hs] at h
      have hp' : ∀ m ∈ ms, m.isProbe = true := fun m hm => hp m (by simp [hm])
      cases m with
      | pad => have := hp .pad (by simp); simp [Member.isProbe] at this
      | probe mode key =>
        cases mode with
        | none =>
          obtain ⟨c1, b1, t1⟩ := step_uncalled_none hc hs
          obtain ⟨sh, im, it, ib⟩ := run_uncalled ms s1 st' c1 (by rw [b1, ht]) hp' h
          refine ⟨sh.consNone, ?_, ?_, ?_⟩
          · rw [Shape.consNone_modes, ← im]; simp [modesOf, Member.mode]
          · rw [it, t1, ht, Shape.consNone_skel]; simp
          · rw [ib, Shape.consNone_times]
        | before =>
          obtain ⟨c1, b1, t1⟩ := step_uncalled_before hc hs
          obtain ⟨im, ib, it⟩ := run_called ms s1 st' c1 hp' h
          refine ⟨.viaBefore 0 ms.length, ?_, ?_, ?_⟩
          · simp only [modesOf, List.map_cons, Member.mode] at im ⊢
            rw [im]; simp [Shape.modes]
          · rw [it, t1, b1, ht]; simp [Shape.skel]
          · rw [ib, b1, ht]; simp [Shape.times]
        | after =>
          obtain ⟨c1, b1, t1⟩ := step_uncalled_after hc hs
          obtain ⟨im, ib, it⟩ := run_called ms s1 st' c1 hp' h
          refine ⟨.viaAfter 0 ms.length, ?_, ?_, ?_⟩
          · simp only [modesOf, List.map_cons, Member.mode] at im ⊢
            rw [im]; simp [Shape.modes]
          · rw [it, t1, b1, ht]; simp [Shape.skel]
          · rw [ib, b1, ht]; simp [Shape.times]

end KDVerif.Collate
