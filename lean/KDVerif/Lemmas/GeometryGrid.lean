/- helper lemmas for C14: mask counting, grid shapes, relabelling commutes with geometry -/
import KDVerif.Model.Geometry
import Mathlib.Tactic.SplitIfs

namespace KDVerif.Geometry

/-! ### spec-augment mask -/

theorem mem_maskIdx {size : Nat} {a b : Int} {k : Nat} :
    k ∈ maskIdx size a b ↔ k < size ∧ a ≤ (k : Int) ∧ (k : Int) < b := by
  simp [maskIdx, List.mem_filter, List.mem_range]

theorem maskIdx_length (size : Nat) (a b : Int) :
    ((maskIdx size a b).length : Int) = imax 0 (imin (size : Int) b - imax 0 a) := by
  induction size with
  | zero =>
    simp only [maskIdx, List.range_zero, List.filter_nil, List.length_nil]
    unfold imax imin; split_ifs <;> omega
  | succ n ih =>
    have step : (maskIdx (n + 1) a b).length =
        (maskIdx n a b).length + (if a ≤ (n : Int) ∧ (n : Int) < b then 1 else 0) := by
      simp only [maskIdx, List.range_succ, List.filter_append, List.length_append, List.filter_cons, List.filter_nil]
      by_cases h : a ≤ (n : Int) ∧ (n : Int) < b
      · simp [h]
      · simp [h]
    rw [step]
    push_cast
    rw [ih]
    unfold imax imin
    split_ifs <;> omega

/-! ### grids -/

namespace Grid
variable {α β : Type}

theorem crop_shaped (g : Grid α) (H W i j h w : Nat) (hg : g.Shaped H W) (hi : i + h ≤ H) (hj : j + w ≤ W) :
    (g.crop i j h w).Shaped h w := by
  obtain ⟨hl, hr⟩ := hg
  constructor
  · simp only [crop, List.length_map, List.length_take, List.length_drop]; omega
  · intro row hrow
    simp only [crop, List.mem_map] at hrow
    obtain ⟨r0, hr0, rfl⟩ := hrow
    have : r0 ∈ g := List.mem_of_mem_drop (List.mem_of_mem_take hr0)
    have := hr r0 this
    simp only [List.length_take, List.length_drop]; omega

theorem hflip_shaped (g : Grid α) (H W : Nat) (hg : g.Shaped H W) : g.hflip.Shaped H W := by
  obtain ⟨hl, hr⟩ := hg
  constructor
  · simp [hflip, hl]
  · intro row hrow
    simp only [hflip, List.mem_map] at hrow
    obtain ⟨r0, hr0, rfl⟩ := hrow
    simp [hr r0 hr0]

theorem pad_shaped (g : Grid α) (H W l t r b : Nat) (fill : α) (hg : g.Shaped H W) (hH : 0 < H) :
    (g.pad l t r b fill).Shaped (H + t + b) (W + l + r) := by
  obtain ⟨hl, hr⟩ := hg
  have hw : (g.head?.map List.length).getD 0 = W := by
    cases g with
    | nil => simp at hl; omega
    | cons r0 rest => simp [hr r0 (by simp)]
  constructor
  · simp only [pad, List.length_append, List.length_replicate, List.length_map]; omega
  · intro row hrow
    simp only [pad, hw, List.mem_append, List.mem_replicate, List.mem_map] at hrow
    rcases hrow with (⟨_, rfl⟩ | ⟨r0, hr0, rfl⟩) | ⟨_, rfl⟩
    · simp
    · simp [hr r0 hr0]; omega
    · simp

/-- relabel every cell -/
def relabel (f : α → β) (g : Grid α) : Grid β := g.map (List.map f)

theorem crop_relabel (f : α → β) (g : Grid α) (i j h w : Nat) :
    (relabel f g).crop i j h w = relabel f (g.crop i j h w) := by
  simp only [crop, relabel, ← List.map_drop, ← List.map_take, List.map_map]
  apply List.map_congr_left
  intro row _
  simp [List.map_drop, List.map_take]

theorem hflip_relabel (f : α → β) (g : Grid α) : (relabel f g).hflip = relabel f g.hflip := by
  simp only [hflip, relabel, List.map_map]
  apply List.map_congr_left
  intro row _
  simp [List.map_reverse]

theorem pad_relabel (f : α → β) (g : Grid α) (l t r b : Nat) (fill : α) :
    (relabel f g).pad l t r b (f fill) = relabel f (g.pad l t r b fill) := by
  have hw : ((relabel f g).head?.map List.length).getD 0 = (g.head?.map List.length).getD 0 := by
    cases g with
    | nil => rfl
    | cons r0 rest => simp [relabel]
  simp only [pad, hw]
  simp only [relabel, List.map_append, List.map_replicate, List.map_map]
  congr 2
  apply List.map_congr_left
  intro row _
  simp

end Grid

theorem applyOp_relabel {α β : Type} (f : α → β) (fill : α) (op : PairOp) (g : Grid α) :
    applyOp (f fill) op (Grid.relabel f g) = Grid.relabel f (applyOp fill op g) := by
  cases op with
  | crop i j h w => exact Grid.crop_relabel f g i j h w
  | pad l t r b => exact Grid.pad_relabel f g l t r b fill
  | hflip => exact Grid.hflip_relabel f g
  | skip => rfl

end KDVerif.Geometry
